package driver

// Runner "observers" (property C20): a real goat.ClientConn and goat.Server over a
// scheduler-owned link, with recording interceptors (every stage rewrites the chain
// metadata, the request, the reply and the error in a recognisable way and logs what
// it sees / passes on at the point where it does so) and recording stats handlers
// (TagRPC stores a fresh tag in the context; HandleRPC logs the tag it finds, 0 if
// none). One or more RPCs run one after the other, each driven to one of the
// outcomes ok / handler error / caller cancel / deadline (virtual time) / client
// read failure / failed open (client write error) / call on a dead connection.
//
// Trace lines (spec/Observers.tla, Step):  c = RPC token, n = stage or handler index,
// k = side ("c" client, "s" server), msg/pay = the two values in flight
// (metadata, request) going in and (error, reply) coming back, h = stats tag.

import (
	"bytes"
	"context"
	"encoding/json"
	"fmt"
	"google.golang.org/protobuf/proto"
	"io"
	"os"
	"strconv"
	"strings"
	"sync"
	"testing"
	"testing/synctest"
	"time"

	"github.com/avos-io/goat"
	"github.com/avos-io/goat/verifhook"
	grpcmw "github.com/grpc-ecosystem/go-grpc-middleware"
	"google.golang.org/grpc"
	"google.golang.org/grpc/codes"
	"google.golang.org/grpc/metadata"
	"google.golang.org/grpc/stats"
	"google.golang.org/grpc/status"
	"google.golang.org/protobuf/types/known/wrapperspb"
)

func init() { runners["observers"] = runObservers }

const obsSvc = "verif.Obs"
const chainKey = "x-chain"

type obsRpc struct {
	C    int           `json:"c"`
	Kind string        `json:"kind"` // unary | bidi | cs | ss
	Out  string        `json:"out"`  // ok herr cancel precancel deadline cread cwrite cwmid swrite dead badreq badreply
	Herr string        `json:"herr"` // out=herr: "status" (default) | "eof" (the handler returns io.EOF)
	Code int           `json:"code"` // out=herr: status code
	N    int           `json:"n"`    // streams: messages exchanged before the outcome
	gate chan struct{} // cwmid: the caller's next send waits for the fault
}

type obsScen struct {
	CN    int      `json:"cn"`    // client chain length 0..3
	CMode string   `json:"cmode"` // hand (chained by hand) | mw (go-grpc-middleware) | single
	SN    int      `json:"sn"`    // server chain length 0..6
	SMode string   `json:"smode"` // chain (goat.ChainXInterceptor) | single (goat.XInterceptor)
	CH    int      `json:"ch"`    // client stats handlers
	SH    int      `json:"sh"`    // server stats handlers
	Mods  string   `json:"mods"`  // which values the stages rewrite: m(etadata) q(request) r(eply) e(rror)
	Rpcs  []obsRpc `json:"rpcs"`
	EOF   bool     `json:"eof"`   // the client's failing reads report io.EOF (a peer that closed a pipe / socket cleanly)
	Par   int      `json:"par"`   // the first Par RPCs (all unary, outcome cancel) are in flight at once when the server is stopped
	Retry int      `json:"retry"` // k+1: server stage k calls its handler a second time after it came back (0: none)
	Deny  int      `json:"deny"`  // k+1: server stage k returns PermissionDenied without calling its handler (0: none)
}

type obsW struct {
	sc   *obsScen
	mu   sync.Mutex
	ntag int
	rpcs map[int]*obsRpc
	runs map[int]int // stream handler invocations per RPC
}

func (w *obsW) mod(b byte) bool { return strings.IndexByte(w.sc.Mods, b) >= 0 }

// ---- tokens -------------------------------------------------------------------

// errTok is the class of an error as it survives the wire: "ok" or code:message.
func errTok(err error) string {
	if err == nil {
		return "ok"
	}
	st, ok := status.FromError(err)
	if !ok {
		st = status.FromContextError(err)
	}
	return fmt.Sprintf("%d:%s", int(st.Code()), tok([]byte(st.Message())))
}

func msgTok(m any) string {
	if v, ok := m.(*wrapperspb.BytesValue); ok && v != nil {
		return tok(v.GetValue())
	}
	return "-"
}

func mdInfo(md metadata.MD) (c int, chain string) {
	if v := md.Get(tokenKey); len(v) > 0 {
		c, _ = strconv.Atoi(v[0])
	}
	chain = "-"
	if v := md.Get(chainKey); len(v) > 0 {
		chain = strings.Join(v, ",")
	}
	return
}

func outInfo(ctx context.Context) (int, string) {
	md, _ := metadata.FromOutgoingContext(ctx)
	return mdInfo(md)
}

func inInfo(ctx context.Context) (int, string) {
	md, _ := metadata.FromIncomingContext(ctx)
	return mdInfo(md)
}

func withChain(md metadata.MD, v string) metadata.MD {
	md = md.Copy()
	md.Set(chainKey, v)
	return md
}

func obsEv(name string, c, n int, side, res, a, b string) Ev {
	e := ev(name)
	e.C, e.N, e.K, e.Res, e.Msg, e.Pay = c, n, side, res, a, b
	return e
}

func mark(side string, i int) string { return fmt.Sprintf("%s%d", side, i) }

func (w *obsW) markErr(err error, side string, i int) error {
	if err == nil || !w.mod('e') {
		return err
	}
	st, ok := status.FromError(err)
	if !ok {
		st = status.FromContextError(err)
	}
	return status.Error(st.Code(), st.Message()+mark(side, i))
}

func (w *obsW) markMsg(m any, side string, i int, on bool) any {
	v, ok := m.(*wrapperspb.BytesValue)
	if !ok || !on {
		return m
	}
	return &wrapperspb.BytesValue{Value: append(append([]byte{}, v.GetValue()...), mark(side, i)...)}
}

// ---- recording interceptors ---------------------------------------------------------

func (w *obsW) cUnary(i int) grpc.UnaryClientInterceptor {
	return func(ctx context.Context, method string, req, reply any, cc *grpc.ClientConn, inv grpc.UnaryInvoker, opts ...grpc.CallOption) error {
		c, ch := outInfo(ctx)
		tr.emit(obsEv("IcptEnter", c, i, "c", "unary", ch, msgTok(req)))
		ctx2, ch2 := ctx, ch
		if w.mod('m') {
			md, _ := metadata.FromOutgoingContext(ctx)
			ch2 = ch + mark("c", i)
			ctx2 = metadata.NewOutgoingContext(ctx, withChain(md, ch2))
		}
		req2 := w.markMsg(req, "c", i, w.mod('q'))
		tr.emit(obsEv("IcptCall", c, i, "c", "unary", ch2, msgTok(req2)))
		err := inv(ctx2, method, req2, reply, cc, opts...)
		rt := "-"
		if err == nil {
			rt = msgTok(reply)
		}
		tr.emit(obsEv("IcptBack", c, i, "c", "unary", errTok(err), rt))
		if v, ok := reply.(*wrapperspb.BytesValue); ok && err == nil && w.mod('r') {
			v.Value = append(v.Value, mark("c", i)...)
			rt = msgTok(reply)
		}
		err2 := w.markErr(err, "c", i)
		tr.emit(obsEv("IcptExit", c, i, "c", "unary", errTok(err2), rt))
		return err2
	}
}

func (w *obsW) cStream(i int) grpc.StreamClientInterceptor {
	return func(ctx context.Context, desc *grpc.StreamDesc, cc *grpc.ClientConn, method string, st grpc.Streamer, opts ...grpc.CallOption) (grpc.ClientStream, error) {
		c, ch := outInfo(ctx)
		tr.emit(obsEv("IcptEnter", c, i, "c", "stream", ch, "-"))
		ctx2, ch2 := ctx, ch
		if w.mod('m') {
			md, _ := metadata.FromOutgoingContext(ctx)
			ch2 = ch + mark("c", i)
			ctx2 = metadata.NewOutgoingContext(ctx, withChain(md, ch2))
		}
		tr.emit(obsEv("IcptCall", c, i, "c", "stream", ch2, "-"))
		cs, err := st(ctx2, desc, cc, method, opts...)
		tr.emit(obsEv("IcptBack", c, i, "c", "stream", errTok(err), "-"))
		err2 := w.markErr(err, "c", i)
		tr.emit(obsEv("IcptExit", c, i, "c", "stream", errTok(err2), "-"))
		return cs, err2
	}
}

func (w *obsW) sUnary(i int) grpc.UnaryServerInterceptor {
	return func(ctx context.Context, req any, info *grpc.UnaryServerInfo, h grpc.UnaryHandler) (any, error) {
		c, ch := inInfo(ctx)
		tr.emit(obsEv("IcptEnter", c, i, "s", "unary", ch, msgTok(req)))
		ctx2, ch2 := ctx, ch
		if w.mod('m') {
			md, _ := metadata.FromIncomingContext(ctx)
			ch2 = ch + mark("s", i)
			ctx2 = metadata.NewIncomingContext(ctx, withChain(md, ch2))
		}
		if w.sc.Deny == i+1 {
			err := status.Error(codes.PermissionDenied, "deny")
			tr.emit(obsEv("IcptExit", c, i, "s", "unary", errTok(err), "-"))
			return nil, err
		}
		req2 := w.markMsg(req, "s", i, w.mod('q'))
		tr.emit(obsEv("IcptCall", c, i, "s", "unary", ch2, msgTok(req2)))
		resp, err := h(ctx2, req2)
		rt := "-"
		if err == nil {
			rt = msgTok(resp)
		}
		tr.emit(obsEv("IcptBack", c, i, "s", "unary", errTok(err), rt))
		if w.sc.Retry == i+1 { // once more, through the same handler value
			tr.emit(obsEv("IcptCall", c, i, "s", "unary", ch2, msgTok(req2)))
			resp, err = h(ctx2, req2)
			rt = "-"
			if err == nil {
				rt = msgTok(resp)
			}
			tr.emit(obsEv("IcptBack", c, i, "s", "unary", errTok(err), rt))
		}
		if err == nil {
			resp = w.markMsg(resp, "s", i, w.mod('r'))
			rt = msgTok(resp)
		}
		err2 := w.markErr(err, "s", i)
		tr.emit(obsEv("IcptExit", c, i, "s", "unary", errTok(err2), rt))
		return resp, err2
	}
}

// obsSS is stage i's view of the stream: its own context, and messages marked in passing.
type obsSS struct {
	grpc.ServerStream
	ctx context.Context
	w   *obsW
	i   int
	c   int
}

func (s *obsSS) Context() context.Context { return s.ctx }

func (s *obsSS) RecvMsg(m any) error {
	if err := s.ServerStream.RecvMsg(m); err != nil {
		return err
	}
	seen := msgTok(m)
	if v, ok := m.(*wrapperspb.BytesValue); ok && s.w.mod('q') {
		v.Value = append(v.Value, mark("s", s.i)...)
	}
	tr.emit(obsEv("Wrap", s.c, s.i, "s", "in", seen, msgTok(m)))
	return nil
}

func (s *obsSS) SendMsg(m any) error {
	m2 := s.w.markMsg(m, "s", s.i, s.w.mod('r'))
	tr.emit(obsEv("Wrap", s.c, s.i, "s", "out", msgTok(m), msgTok(m2)))
	return s.ServerStream.SendMsg(m2)
}

func (w *obsW) sStream(i int) grpc.StreamServerInterceptor {
	return func(srv any, ss grpc.ServerStream, info *grpc.StreamServerInfo, h grpc.StreamHandler) error {
		ctx := ss.Context()
		c, ch := inInfo(ctx)
		tr.emit(obsEv("IcptEnter", c, i, "s", "stream", ch, "-"))
		ctx2, ch2 := ctx, ch
		if w.mod('m') {
			md, _ := metadata.FromIncomingContext(ctx)
			ch2 = ch + mark("s", i)
			ctx2 = metadata.NewIncomingContext(ctx, withChain(md, ch2))
		}
		if w.sc.Deny == i+1 {
			err := status.Error(codes.PermissionDenied, "deny")
			tr.emit(obsEv("IcptExit", c, i, "s", "stream", errTok(err), "-"))
			return err
		}
		tr.emit(obsEv("IcptCall", c, i, "s", "stream", ch2, "-"))
		err := h(srv, &obsSS{ServerStream: ss, ctx: ctx2, w: w, i: i, c: c})
		tr.emit(obsEv("IcptBack", c, i, "s", "stream", errTok(err), "-"))
		if w.sc.Retry == i+1 {
			tr.emit(obsEv("IcptCall", c, i, "s", "stream", ch2, "-"))
			err = h(srv, &obsSS{ServerStream: ss, ctx: ctx2, w: w, i: i, c: c})
			tr.emit(obsEv("IcptBack", c, i, "s", "stream", errTok(err), "-"))
		}
		err2 := w.markErr(err, "s", i)
		tr.emit(obsEv("IcptExit", c, i, "s", "stream", errTok(err2), "-"))
		return err2
	}
}

// a client "chain" is the caller's business: built by hand here, or by go-grpc-middleware
func handChainUnary(ics []grpc.UnaryClientInterceptor) grpc.UnaryClientInterceptor {
	return func(ctx context.Context, method string, req, reply any, cc *grpc.ClientConn, inv grpc.UnaryInvoker, opts ...grpc.CallOption) error {
		var at func(i int) grpc.UnaryInvoker
		at = func(i int) grpc.UnaryInvoker {
			if i == len(ics) {
				return inv
			}
			return func(ctx context.Context, method string, req, reply any, cc *grpc.ClientConn, opts ...grpc.CallOption) error {
				return ics[i](ctx, method, req, reply, cc, at(i+1), opts...)
			}
		}
		return at(0)(ctx, method, req, reply, cc, opts...)
	}
}

func handChainStream(ics []grpc.StreamClientInterceptor) grpc.StreamClientInterceptor {
	return func(ctx context.Context, desc *grpc.StreamDesc, cc *grpc.ClientConn, method string, st grpc.Streamer, opts ...grpc.CallOption) (grpc.ClientStream, error) {
		var at func(i int) grpc.Streamer
		at = func(i int) grpc.Streamer {
			if i == len(ics) {
				return st
			}
			return func(ctx context.Context, desc *grpc.StreamDesc, cc *grpc.ClientConn, method string, opts ...grpc.CallOption) (grpc.ClientStream, error) {
				return ics[i](ctx, desc, cc, method, at(i+1), opts...)
			}
		}
		return at(0)(ctx, desc, cc, method, opts...)
	}
}

// ---- recording stats handlers ----------------------------------------------------------

type obsTagKey struct {
	side string
	j    int
}
type obsConnKey obsTagKey

type obsStats struct {
	w    *obsW
	side string
	j    int
}

func (h *obsStats) TagRPC(ctx context.Context, info *stats.RPCTagInfo) context.Context {
	var c int
	if h.side == "c" {
		c, _ = outInfo(ctx)
	} else {
		c, _ = inInfo(ctx)
	}
	h.w.mu.Lock()
	h.w.ntag++
	id := h.w.ntag
	h.w.mu.Unlock()
	e := obsEv("Tag", c, h.j, h.side, "", "", "")
	e.H, e.X = id, info.FullMethodName
	tr.emit(e)
	return context.WithValue(ctx, obsTagKey{h.side, h.j}, id)
}

func (h *obsStats) HandleRPC(ctx context.Context, s stats.RPCStats) {
	id, _ := ctx.Value(obsTagKey{h.side, h.j}).(int) // 0: the context is not the one TagRPC returned
	e := obsEv("Stat", 0, h.j, h.side, "", "", "")
	e.H = id
	switch v := s.(type) {
	case *stats.Begin:
		e.Res = "Begin"
	case *stats.End:
		e.Res = "End"
		e.Code = b2i(v.Error == nil)
		e.X = errTok(v.Error)
	case *stats.InHeader:
		e.Res = "InHeader"
	case *stats.InPayload:
		e.Res = "InPayload"
	case *stats.InTrailer:
		e.Res = "InTrailer"
	case *stats.OutHeader:
		e.Res = "OutHeader"
	case *stats.OutPayload:
		e.Res = "OutPayload"
	case *stats.OutTrailer:
		e.Res = "OutTrailer"
	default:
		e.Res = fmt.Sprintf("%T", s)
	}
	tr.emit(e)
}

func (h *obsStats) TagConn(ctx context.Context, _ *stats.ConnTagInfo) context.Context {
	return context.WithValue(ctx, obsConnKey{h.side, h.j}, h.j+1)
}

func (h *obsStats) HandleConn(ctx context.Context, s stats.ConnStats) {
	id, _ := ctx.Value(obsConnKey{h.side, h.j}).(int)
	e := obsEv("ConnStat", 0, h.j, h.side, "", "", "")
	e.H = id // informational: the property does not speak about connection tags
	switch s.(type) {
	case *stats.ConnBegin:
		e.Res = "Begin"
	case *stats.ConnEnd:
		e.Res = "End"
	}
	tr.emit(e)
}

// ---- the service ---------------------------------------------------------------------------

func (w *obsW) rpcOf(ctx context.Context) (int, string, *obsRpc) {
	c, ch := inInfo(ctx)
	w.mu.Lock()
	defer w.mu.Unlock()
	return c, ch, w.rpcs[c]
}

// outcome is how the handler ends once the exchange is over.
func (w *obsW) outcome(ctx context.Context, r *obsRpc) error {
	switch r.Out {
	case "ok", "swrite", "badreply", "badreq", "bigreply":
		return nil
	case "herr":
		if r.Herr == "eof" {
			return io.EOF
		}
		return status.Error(codes.Code(r.Code), "e")
	default: // cancel, deadline, cread: wait for the context, report it
		<-ctx.Done()
		return status.FromContextError(ctx.Err()).Err()
	}
}

func (w *obsW) unaryHandler(srv any, ctx context.Context, dec func(any) error, icpt grpc.UnaryServerInterceptor) (any, error) {
	in := new(wrapperspb.BytesValue)
	if err := dec(in); err != nil {
		return nil, err
	}
	impl := func(ctx context.Context, req any) (any, error) {
		c, ch, r := w.rpcOf(ctx)
		tr.emit(obsEv("HandlerRun", c, 0, "", "unary", ch, msgTok(req)))
		if r == nil {
			panic("verif-harness: handler for an unknown rpc token")
		}
		err := w.outcome(ctx, r)
		var resp any
		rt := "-"
		if err == nil {
			resp = &wrapperspb.BytesValue{Value: []byte("r")}
			if r.Out == "badreply" { // bytes the caller's reply type (a proto3 string) cannot take
				resp = &wrapperspb.BytesValue{Value: []byte("\xffr")}
			}
			if r.Out == "bigreply" { // a reply larger than the round figures people cap messages at (5 MiB + 1)
				resp = &wrapperspb.BytesValue{Value: bytes.Repeat([]byte{'r'}, 5<<20+1)}
			}
			rt = msgTok(resp)
		}
		tr.emit(obsEv("HandlerRet", c, 0, "", "unary", errTok(err), rt))
		return resp, err
	}
	if icpt == nil {
		return impl(ctx, in)
	}
	return icpt(ctx, in, &grpc.UnaryServerInfo{Server: srv, FullMethod: "/" + obsSvc + "/Unary"}, impl)
}

func (w *obsW) streamHandler(kind string) grpc.StreamHandler {
	return func(srv any, ss grpc.ServerStream) error {
		ctx := ss.Context()
		c, ch, r := w.rpcOf(ctx)
		tr.emit(obsEv("HandlerRun", c, 0, "", "stream", ch, "-"))
		if r == nil {
			panic("verif-harness: handler for an unknown rpc token")
		}
		recv := func() error {
			m := new(wrapperspb.BytesValue)
			err := ss.RecvMsg(m)
			if err == nil {
				tr.emit(obsEv("HRecv", c, 0, "", "", "", msgTok(m)))
			}
			return err
		}
		send := func(p string) error {
			tr.emit(obsEv("HSend", c, 0, "", "", "", p))
			return ss.SendMsg(&wrapperspb.BytesValue{Value: []byte(p)})
		}
		w.mu.Lock()
		w.runs[c]++
		again := w.runs[c] > 1 // called once more by a retrying stage: the exchange is over, only the outcome is left
		w.mu.Unlock()
		err := func() error {
			if again {
				return w.outcome(ctx, r)
			}
			switch kind {
			case "bidi":
				for k := 1; k <= r.N; k++ {
					if err := recv(); err != nil {
						return status.Error(codes.Aborted, "recv")
					}
					if err := send(fmt.Sprintf("r%d", k)); err != nil {
						return status.Error(codes.Aborted, "send")
					}
				}
			case "cs":
				for k := 1; k <= r.N; k++ {
					if err := recv(); err != nil {
						return status.Error(codes.Aborted, "recv")
					}
				}
			case "ss":
				if err := recv(); err != nil {
					return status.Error(codes.Aborted, "recv")
				}
				for k := 1; k <= r.N; k++ {
					if err := send(fmt.Sprintf("r%d", k)); err != nil {
						return status.Error(codes.Aborted, "send")
					}
				}
			}
			if (r.Out == "ok" || r.Out == "swrite") && kind != "ss" {
				if err := recv(); err != io.EOF { // the caller's half-close
					return status.Error(codes.Aborted, "expected EOF")
				}
				if kind == "cs" {
					if err := send("r"); err != nil {
						return status.Error(codes.Aborted, "send")
					}
				}
			}
			return w.outcome(ctx, r)
		}()
		tr.emit(obsEv("HandlerRet", c, 0, "", "stream", errTok(err), "-"))
		return err
	}
}

func (w *obsW) serviceDesc() *grpc.ServiceDesc {
	return &grpc.ServiceDesc{
		ServiceName: obsSvc,
		HandlerType: (*any)(nil),
		Methods:     []grpc.MethodDesc{{MethodName: "Unary", Handler: w.unaryHandler}},
		Streams: []grpc.StreamDesc{
			{StreamName: "Bidi", Handler: w.streamHandler("bidi"), ServerStreams: true, ClientStreams: true},
			{StreamName: "CS", Handler: w.streamHandler("cs"), ClientStreams: true},
			{StreamName: "SS", Handler: w.streamHandler("ss"), ServerStreams: true},
		},
	}
}

// ---- the caller ------------------------------------------------------------------------------

func (w *obsW) call(ctx context.Context, cc *goat.ClientConn, r *obsRpc) {
	dl := "" // a reason the caller itself gives the RPC to fail: a deadline, a context cancelled beforehand
	if _, ok := ctx.Deadline(); ok {
		dl = "dl"
	} else if ctx.Err() != nil {
		dl = "pc"
	}
	_, ch := outInfo(ctx)
	if r.Kind == "unary" {
		var req, reply proto.Message = &wrapperspb.BytesValue{Value: []byte("q")}, new(wrapperspb.BytesValue)
		switch r.Out {
		case "badreq": // a message the codec refuses (invalid UTF-8 in a proto3 string)
			req, dl = &wrapperspb.StringValue{Value: "\xff"}, "bq"
		case "badreply": // the handler's reply does not decode into what the caller expects
			reply, dl = new(wrapperspb.StringValue), "br"
		}
		e := obsEv("Call", r.C, 0, "", "unary", ch, msgTok(req))
		e.X = dl
		tr.emit(e)
		err := cc.Invoke(ctx, "/"+obsSvc+"/Unary", req, reply)
		rt := "-"
		if err == nil {
			rt = msgTok(reply)
		}
		tr.emit(obsEv("RpcDone", r.C, 0, "", "", errTok(err), rt))
		return
	}
	e := obsEv("Call", r.C, 0, "", "stream", ch, "-")
	e.X = dl
	tr.emit(e)
	name, desc := map[string]string{"bidi": "Bidi", "cs": "CS", "ss": "SS"}[r.Kind], &grpc.StreamDesc{}
	desc.ClientStreams, desc.ServerStreams = r.Kind != "ss", r.Kind != "cs"
	cs, err := cc.NewStream(ctx, desc, "/"+obsSvc+"/"+name)
	tr.emit(obsEv("Opened", r.C, 0, "", "", errTok(err), "-"))
	if err != nil {
		tr.emit(obsEv("RpcDone", r.C, 0, "", "", errTok(err), "-"))
		return
	}
	send := func(p string) error {
		tr.emit(obsEv("CSend", r.C, 0, "", "", "", p))
		return cs.SendMsg(&wrapperspb.BytesValue{Value: []byte(p)})
	}
	recv := func() error {
		m := new(wrapperspb.BytesValue)
		err := cs.RecvMsg(m)
		if err == nil {
			tr.emit(obsEv("CRecv", r.C, 0, "", "", "", msgTok(m)))
		}
		return err
	}
	var end error
	switch r.Kind {
	case "bidi":
		for k := 1; k <= r.N && end == nil; k++ {
			if send(fmt.Sprintf("m%d", k)) == nil {
				end = recv()
			}
		}
	case "cs":
		for k := 1; k <= r.N; k++ {
			send(fmt.Sprintf("m%d", k))
		}
	case "ss":
		send("m1")
	}
	if r.Out == "cwmid" && end == nil { // a send in mid-stream hits the broken transport
		<-r.gate
		send("mx")
	}
	if r.Out == "ok" || r.Out == "herr" || r.Out == "swrite" || r.Kind == "ss" {
		cs.CloseSend()
	}
	for end == nil {
		end = recv()
	}
	if end == io.EOF {
		end = nil
	}
	tr.emit(obsEv("RpcDone", r.C, 0, "", "", errTok(end), "-"))
}

// ---- the scenario -------------------------------------------------------------------------------

func runObservers(t *testing.T, sc *Scenario, raw []byte) {
	var os_ obsScen
	if err := json.Unmarshal(raw, &os_); err != nil {
		t.Fatalf("verif-harness: observers scenario: %v", err)
	}
	synctest.Test(t, func(t *testing.T) {
		w := &obsW{sc: &os_, rpcs: map[int]*obsRpc{}, runs: map[int]int{}}
		for i := range os_.Rpcs {
			w.rpcs[os_.Rpcs[i].C] = &os_.Rpcs[i]
		}
		verifhook.Install(nil)
		b := ev("Begin")
		b.K = sc.Fam
		tr.emit(b)
		cfg := ev("Cfg")
		cfg.C, cfg.H, cfg.N, cfg.Code = os_.CN, os_.SN, os_.CH, os_.SH
		cfg.X = os_.CMode + "/" + os_.SMode + "/" + os_.Mods
		tr.emit(cfg)

		// server
		var sopts []goat.ServerOption
		var su []grpc.UnaryServerInterceptor
		var ss []grpc.StreamServerInterceptor
		for i := 0; i < os_.SN; i++ {
			su, ss = append(su, w.sUnary(i)), append(ss, w.sStream(i))
		}
		switch {
		case os_.SN == 0:
		case os_.SMode == "single":
			if os_.SN != 1 {
				panic("verif-harness: smode single needs sn = 1")
			}
			sopts = append(sopts, goat.UnaryInterceptor(su[0]), goat.StreamInterceptor(ss[0]))
		default:
			sopts = append(sopts, goat.ChainUnaryInterceptor(su...), goat.ChainStreamInterceptor(ss...))
		}
		for j := 0; j < os_.SH; j++ {
			sopts = append(sopts, goat.StatsHandler(&obsStats{w: w, side: "s", j: j}))
		}
		srv := goat.NewServer("srv", sopts...)
		srv.RegisterService(w.serviceDesc(), nil)

		// client
		var copts []goat.DialOption
		var cu []grpc.UnaryClientInterceptor
		var cst []grpc.StreamClientInterceptor
		for i := 0; i < os_.CN; i++ {
			cu, cst = append(cu, w.cUnary(i)), append(cst, w.cStream(i))
		}
		switch {
		case os_.CN == 0:
		case os_.CMode == "single":
			if os_.CN != 1 {
				panic("verif-harness: cmode single needs cn = 1")
			}
			copts = append(copts, goat.WithUnaryInterceptor(cu[0]), goat.WithStreamInterceptor(cst[0]))
		case os_.CMode == "mw":
			copts = append(copts, goat.WithUnaryInterceptor(grpcmw.ChainUnaryClient(cu...)), goat.WithStreamInterceptor(grpcmw.ChainStreamClient(cst...)))
		default:
			copts = append(copts, goat.WithUnaryInterceptor(handChainUnary(cu)), goat.WithStreamInterceptor(handChainStream(cst)))
		}
		for j := 0; j < os_.CH; j++ {
			copts = append(copts, goat.WithStatsHandler(&obsStats{w: w, side: "c", j: j}))
		}

		l := newLink(1, true, false, "", "", "", "")
		root, rootCancel := context.WithCancel(context.Background())
		go func() { srv.Serve(root, l.srv) }()
		synctest.Wait()
		cc := goat.NewClientConn(l.cli, "cli1", "srv", copts...)
		synctest.Wait()

		fault := func(what string, p *pipe, read bool) {
			p.with(func() {
				if read {
					p.rerr = errInjected
					if os_.EOF {
						p.rerr = io.EOF
					}
				} else {
					p.werr = errInjected
				}
				e := ev("Fault")
				e.K = what
				tr.emit(e)
			})
		}
		if os_.Par > 0 {
			// Par unary calls at once (more than the server has workers), their handlers waiting for their contexts;
			// then Stop: every handler that ran ends, the requests that never got a worker are never started - and every
			// Begin any stats handler has seen has its End
			var dones []chan struct{}
			var cancels []context.CancelFunc
			for i := 0; i < os_.Par; i++ {
				r := &os_.Rpcs[i]
				ctx := metadata.NewOutgoingContext(root, metadata.Pairs(tokenKey, strconv.Itoa(r.C), chainKey, "o"))
				ctx, cancel := context.WithCancel(ctx)
				done := make(chan struct{})
				go func() { w.call(ctx, cc, r); close(done) }()
				synctest.Wait()
				dones, cancels = append(dones, done), append(cancels, cancel)
			}
			e := ev("Fault")
			e.K = "stop"
			tr.emit(e)
			srv.Stop()
			synctest.Wait()
			for i, cancel := range cancels {
				tr.emit(obsEv("Cancel", os_.Rpcs[i].C, 0, "", "", "", ""))
				cancel()
			}
			synctest.Wait()
			for _, d := range dones {
				<-d
			}
		}
		for i := range os_.Rpcs {
			if i < os_.Par {
				continue
			}
			r := &os_.Rpcs[i]
			switch r.Out {
			case "cwrite":
				fault("cwrite", l.c2s, false)
			case "swrite": // the server cannot answer: the caller gives up after a while
				fault("swrite", l.s2c, false)
			case "dead":
				if l.s2c.rerr == nil {
					fault("cread", l.s2c, true)
					synctest.Wait()
				}
			}
			ctx := metadata.NewOutgoingContext(root, metadata.Pairs(tokenKey, strconv.Itoa(r.C), chainKey, "o"))
			ctx, cancel := context.WithCancel(ctx)
			if r.Out == "deadline" {
				var cancelDl context.CancelFunc
				ctx, cancelDl = context.WithTimeout(ctx, 50*time.Millisecond)
				defer cancelDl()
			}
			if r.Out == "precancel" {
				cancel()
			}
			done := make(chan struct{})
			r.gate = make(chan struct{})
			go func() { w.call(ctx, cc, r); close(done) }()
			synctest.Wait()
			switch r.Out {
			case "cwmid":
				fault("cwrite", l.c2s, false)
				close(r.gate)
			case "cancel", "swrite":
				tr.emit(obsEv("Cancel", r.C, 0, "", "", "", ""))
				cancel()
			case "deadline":
				time.Sleep(60 * time.Millisecond)
			case "cread":
				fault("cread", l.s2c, true)
			}
			synctest.Wait()
			select {
			case <-done:
			default:
				// the caller is still blocked although its outcome has been forced: not explainable
				tr.emit(obsEv("Hung", r.C, 0, "", "", "", ""))
			}
			cancel()
			synctest.Wait()
			<-done
			if r.Out == "cwrite" || r.Out == "cwmid" { // the transport recovers; later RPCs must be observed as usual
				l.c2s.with(func() {
					l.c2s.werr = nil
					tr.emit(ev("Unfault"))
				})
			}
		}

		// tear everything down: the connection ends, parked handlers see their context end
		cc.Close()
		for _, p := range []*pipe{l.c2s, l.s2c} {
			p.with(func() { p.rerr, p.werr = errInjected, errInjected })
		}
		srv.Stop()
		rootCancel()
		synctest.Wait()
		time.Sleep(40 * time.Second) // pending virtual timers (reset writes)
		synctest.Wait()
		for i := range os_.Rpcs { // every RPC is over now: each must have been observed completely
			tr.emit(obsEv("Settled", os_.Rpcs[i].C, 0, "", "", "", ""))
		}
		tr.emit(ev("Quiesce"))
		if n, tops := census(true); n > 0 {
			lk := ev("Leak")
			lk.N, lk.X = n, strings.Join(tops, " ")
			tr.emit(lk)
			tr.emit(ev("End"))
			os.Exit(4)
		}
		tr.emit(ev("End"))
	})
}
