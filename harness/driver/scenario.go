package driver

import (
	"context"
	"fmt"
	"io"
	"os"
	"regexp"
	"runtime"
	"sort"
	"strings"
	"sync"
	"testing"
	"testing/synctest"
	"time"

	"github.com/avos-io/goat"
	"github.com/avos-io/goat/gen/goatorepo"
	"github.com/avos-io/goat/verifhook"
	"google.golang.org/protobuf/proto"
	"google.golang.org/protobuf/types/known/anypb"
	"google.golang.org/protobuf/types/known/wrapperspb"
)

// EnvJ is the JSON form of an envelope injected by a raw peer.
type EnvJ struct {
	Id   uint64      `json:"id"`
	NoH  bool        `json:"noh,omitempty"` // header absent
	M    string      `json:"m,omitempty"`
	Src  string      `json:"src,omitempty"`
	Dst  string      `json:"dst,omitempty"`
	Md   [][2]string `json:"md,omitempty"` // raw wire key/values (no base64 applied)
	C    int         `json:"c,omitempty"`  // call token to attach
	B    *string     `json:"b,omitempty"`  // payload (encoded as BytesValue)
	Braw *string     `json:"braw,omitempty"`
	St   *struct {
		Code int    `json:"code"`
		Msg  string `json:"msg"`
		Det  int    `json:"det,omitempty"`
	} `json:"st,omitempty"`
	T   *[][2]string `json:"t,omitempty"` // trailer metadata; non-nil => trailer present
	R   string       `json:"r,omitempty"` // reset type
	Rec []string     `json:"rec,omitempty"`
	Nxt []string     `json:"nxt,omitempty"`
}

func (e *EnvJ) rpc() *goat.Rpc {
	r := &goat.Rpc{Id: e.Id}
	if !e.NoH {
		h := &goatorepo.RequestHeader{Method: e.M, Source: e.Src, Destination: e.Dst, ProxyRecord: e.Rec, ProxyNext: e.Nxt}
		for _, kv := range e.Md {
			h.Headers = append(h.Headers, &goatorepo.KeyValue{Key: kv[0], Value: kv[1]})
		}
		if e.C != 0 {
			h.Headers = append(h.Headers, &goatorepo.KeyValue{Key: tokenKey, Value: fmt.Sprintf("%d", e.C)})
		}
		r.Header = h
	}
	if e.B != nil {
		b, _ := proto.Marshal(&wrapperspb.BytesValue{Value: payBytes(*e.B)})
		if b == nil {
			b = []byte{}
		}
		r.Body = &goatorepo.Body{Data: b}
	}
	if e.Braw != nil {
		r.Body = &goatorepo.Body{Data: payBytes(*e.Braw)}
	}
	if e.St != nil {
		r.Status = &goatorepo.ResponseStatus{Code: int32(e.St.Code), Message: e.St.Msg}
		for i := 0; i < e.St.Det; i++ {
			a, _ := anypb.New(wrapperspb.String(fmt.Sprintf("d%d", i)))
			r.Status.Details = append(r.Status.Details, a)
		}
	}
	if e.T != nil {
		t := &goatorepo.Trailer{}
		for _, kv := range *e.T {
			t.Metadata = append(t.Metadata, &goatorepo.KeyValue{Key: kv[0], Value: kv[1]})
		}
		r.Trailer = t
	}
	if e.R != "" {
		r.Reset_ = &goatorepo.Reset{Type: e.R}
	}
	return r
}

type Step struct {
	Op   string      `json:"op"`
	C    int         `json:"c,omitempty"`
	Conn int         `json:"conn,omitempty"`
	Kind string      `json:"kind,omitempty"`
	Pay  string      `json:"pay,omitempty"`
	To   int         `json:"to,omitempty"`
	Md   [][2]string `json:"md,omitempty"`
	Hp   []HOp       `json:"hp,omitempty"`
	H    *HOp        `json:"h,omitempty"`
	Dir  string      `json:"dir,omitempty"`
	N    int         `json:"n,omitempty"`
	What string      `json:"what,omitempty"`
	Gate string      `json:"gate,omitempty"`
	Id   uint64      `json:"id,omitempty"`
	Ms   int         `json:"ms,omitempty"`
	On   bool        `json:"on,omitempty"`
	Env  *EnvJ       `json:"env,omitempty"`
	Nw   bool        `json:"nw,omitempty"`  // do not wait for quiescence after this step
	Cow  bool        `json:"cow,omitempty"` // sopen: cancel the caller's context inside the transport write of the opening envelope
}

// runners are self-contained scenario executors for families that do not use
// the client/server runtime below (transports, demux, proxy, parsers ...).
// A runner emits its own Begin ... End lines through tr.emit; raw is the
// scenario's JSON line, for family-specific fields.
type runnerFn func(t *testing.T, sc *Scenario, raw []byte)

var runners = map[string]runnerFn{}

type Scenario struct {
	Sc        int    `json:"sc"`
	Fam       string `json:"fam"`
	Runner    string `json:"runner"`
	Topo      string `json:"topo"` // direct (default) | proxy | demux | pd
	Ser       bool   `json:"ser"`
	Manual    bool   `json:"manual"` // deliveries released by dlv steps
	Cap       int    `json:"cap"`    // > 0: bounded transport, a Write blocks while Cap envelopes are unread in that direction
	NCli      int    `json:"ncli"`
	RawSrv    bool   `json:"rawsrv"` // no real server: raw peer injects s2c
	RawCli    bool   `json:"rawcli"` // no real client: raw peer injects c2s
	NoSrvName bool   `json:"nosrvname"`
	Srv       string `json:"srv"` // server name (default "srv")
	Dst       string `json:"dst"` // client's destination (default = Srv)
	CStats    int    `json:"cstats"`
	SIcpt     int    `json:"sicpt"` // server built with that many pass-through unary and stream interceptors (1: single, >1: chained)
	CIcpt     int    `json:"cicpt"` // the same for the client connection
	SStats    int    `json:"sstats"`
	NoTok     bool   `json:"notoken"` // calls carry no call token (strictly sequential scenarios only): see anonTab
	Anon      bool   `json:"anon"`    // README: "If names are not desirable ... an empty string for the destination and server names"
	Steps     []Step `json:"steps"`
}

// ---- gates -----------------------------------------------------------------

type parked struct {
	name string
	id   uint64
	ch   chan struct{}
}
type armed struct {
	id uint64
	n  int // how many arrivals to park (0 = unlimited)
}
type gateTab struct {
	mu     sync.Mutex
	armed  map[string][]*armed
	parked []*parked
	open   bool // released for good (unwind)
}

func (g *gateTab) gate(name string, obj any, id uint64) {
	g.mu.Lock()
	if g.open {
		g.mu.Unlock()
		return
	}
	var hit *armed
	as := g.armed[name]
	for i, a := range as {
		if a.id == 0 || a.id == id {
			hit = a
			if a.n > 0 {
				a.n--
				if a.n == 0 {
					g.armed[name] = append(as[:i:i], as[i+1:]...)
				}
			}
			break
		}
	}
	if hit == nil {
		g.mu.Unlock()
		return
	}
	p := &parked{name: name, id: id, ch: make(chan struct{})}
	g.parked = append(g.parked, p)
	e := ev("GatePark")
	e.K, e.X = name, fmt.Sprintf("%d", id)
	tr.emit(e)
	g.mu.Unlock()
	<-p.ch
}

func (g *gateTab) arm(name string, id uint64, n int) {
	g.mu.Lock()
	g.armed[name] = append(g.armed[name], &armed{id: id, n: n})
	g.mu.Unlock()
}

// release lets parked goroutines at the named gate continue (id 0 = all ids) and disarms it.
func (g *gateTab) release(name string, id uint64) {
	g.mu.Lock()
	var keep []*parked
	for _, p := range g.parked {
		if p.name == name && (id == 0 || p.id == id) {
			e := ev("GatePass")
			e.K, e.X = name, fmt.Sprintf("%d", p.id)
			tr.emit(e)
			close(p.ch)
		} else {
			keep = append(keep, p)
		}
	}
	g.parked = keep
	var ka []*armed
	for _, a := range g.armed[name] {
		if !(id == 0 || a.id == id) {
			ka = append(ka, a)
		}
	}
	g.armed[name] = ka
	g.mu.Unlock()
}

func (g *gateTab) releaseAll() {
	g.mu.Lock()
	g.open = true
	for _, p := range g.parked {
		close(p.ch)
	}
	g.parked = nil
	g.mu.Unlock()
}

// ---- scenario runtime --------------------------------------------------------

type cliConn struct {
	idx  int
	cc   *goat.ClientConn
	link *link // the client's own link (client side of the topology)
	mux  any
}

type srvConn struct {
	idx     int
	link    *link
	served  bool
	retd    bool
	handler any
}

type runtimeS struct {
	sc     *Scenario
	w      *world
	g      *gateTab
	root   context.Context
	cancel context.CancelFunc
	srv    *goat.Server
	clis   map[int]*cliConn
	srvs   map[int]*srvConn
	calls  map[int]*call
	objMu  sync.Mutex
	objs   map[any]int
	curObj int                // connection index to bind the next unknown hook object to
	tapByG map[int64]*lazyTap // goroutine that serves a logical connection of the demultiplexer -> its tap
	objTap map[any]*lazyTap   // hook object -> tap of its connection (the index is learnt from the first envelope)
	base   int                // goroutine baseline
	extra  []func()
}

func (rt *runtimeS) connOfObj(obj any) int {
	rt.objMu.Lock()
	defer rt.objMu.Unlock()
	if t, ok := rt.objTap[obj]; ok {
		return t.connIdx()
	}
	if c, ok := rt.objs[obj]; ok {
		return c
	}
	// a server connection behind the demultiplexer: its handler object is first seen in the goroutine that
	// called Serve (srv.new), long before the tap learns which client the connection belongs to
	if t, ok := rt.tapByG[curGID()]; ok {
		if rt.objTap == nil {
			rt.objTap = map[any]*lazyTap{}
		}
		rt.objTap[obj] = t
		return t.connIdx()
	}
	rt.objs[obj] = rt.curObj
	return rt.curObj
}

// curGID is the id of the calling goroutine (harness bookkeeping only).
func curGID() int64 {
	var buf [64]byte
	n := runtime.Stack(buf[:], false)
	var id int64
	fmt.Sscanf(string(buf[:n]), "goroutine %d ", &id)
	return id
}

func (rt *runtimeS) hookEmit(name string, obj any, id uint64, n int, s string) {
	e := ev("Hk")
	e.K, e.Msg, e.N, e.X = name, fmt.Sprintf("%d", id), n, s
	if id < 1<<31 {
		e.Code = int(id)
	}
	e.Conn = rt.connOfObj(obj)
	tr.emit(e)
}

var goroutineHdr = regexp.MustCompile(`(?m)^goroutine (\d+) \[([^\]]*)\]:$`)

// census counts goroutines of the current bubble that have goat frames.
func census(bubbleOnly bool) (n int, tops []string) {
	buf := make([]byte, 1<<20)
	for {
		m := runtime.Stack(buf, true)
		if m < len(buf) {
			buf = buf[:m]
			break
		}
		buf = make([]byte, 2*len(buf))
	}
	if os.Getenv("VERIF_DUMP") == "1" {
		fmt.Fprintf(os.Stderr, "==== census dump ====\n%s\n", buf)
	}
	cnt := map[string]int{}
	for _, g := range strings.Split(string(buf), "\n\n") {
		hdr := goroutineHdr.FindStringSubmatch(g)
		if hdr == nil {
			continue
		}
		if bubbleOnly && !strings.Contains(hdr[2], "synctest bubble") {
			continue
		}
		if !strings.Contains(g, "github.com/avos-io/goat") {
			continue
		}
		// innermost goat frame
		top := ""
		for _, ln := range strings.Split(g, "\n") {
			if strings.HasPrefix(ln, "github.com/avos-io/goat") {
				top = ln
				if i := strings.LastIndex(top, "("); i > 0 {
					top = top[:i]
				}
				top = strings.TrimPrefix(top, "github.com/avos-io/goat")
				break
			}
		}
		n++
		cnt[top]++
	}
	for k, v := range cnt {
		tops = append(tops, fmt.Sprintf("%s*%d", k, v))
	}
	sort.Strings(tops)
	return
}

func (rt *runtimeS) quiesce() {
	synctest.Wait() // (the step before may have been one that does not wait)
	// pending client operations
	cs := make([]int, 0, len(rt.calls))
	for c := range rt.calls {
		cs = append(cs, c)
	}
	sort.Ints(cs)
	npend := 0
	for _, c := range cs {
		cl := rt.calls[c]
		cl.mu.Lock()
		for _, op := range []string{"unary", "open", "send", "close", "recv", "hdr", "trl"} {
			if cl.pend[op] > 0 {
				e := cl.base("Pend")
				e.K = op
				tr.emit(e)
				npend++
			}
		}
		cl.mu.Unlock()
	}
	// live handlers
	rt.w.mu.Lock()
	for _, hs := range rt.w.handlers {
		if hs.started && !hs.ret {
			e := ev("HLive")
			e.C, e.H, e.Conn, e.K = hs.c, hs.h, hs.conn, hs.kind
			if hs.ctx.Err() != nil {
				e.Res = "ctxdone"
			} else {
				e.Res = "live"
			}
			e.X = hs.in
			tr.emit(e)
		}
	}
	rt.w.mu.Unlock()
	for _, i := range sortedKeys(rt.clis) {
		cc := rt.clis[i]
		if cc.cc == nil {
			continue
		}
		e := ev("CReg")
		e.Conn, e.N = i, cc.cc.VerifRegistrySize()
		tr.emit(e)
	}
	n, tops := census(true)
	e := ev("Quiesce")
	e.N = n
	// goroutines running on behalf of server connections (innermost goat frame in *handler / *Server)
	for _, tp := range tops {
		if strings.Contains(tp, "(*handler)") || strings.Contains(tp, "(*Server)") {
			var k int
			if i := strings.LastIndex(tp, "*"); i > 0 {
				fmt.Sscanf(tp[i+1:], "%d", &k)
			}
			e.C += k
		}
	}
	e.K = fmt.Sprintf("%d", rt.base)
	e.X = strings.Join(tops, " ")
	e.Code = npend
	// envelopes written and deliverable (automatic delivery, or released) that the other side has not read:
	// at a quiescent point that means its read loop is not reading (h = 1000 * towards-server + towards-client)
	c2s, s2c := 0, 0
	for _, i := range sortedKeys(rt.clis) {
		if l := rt.clis[i].link; l != nil {
			c2s += l.c2s.deliverable()
			s2c += l.s2c.deliverable()
		}
	}
	if c2s > 999 {
		c2s = 999
	}
	if s2c > 999 {
		s2c = 999
	}
	e.H = 1000*c2s + s2c
	tr.emit(e)
}

func sortedKeys[V any](m map[int]V) []int {
	ks := make([]int, 0, len(m))
	for k := range m {
		ks = append(ks, k)
	}
	sort.Ints(ks)
	return ks
}

func (rt *runtimeS) pipeOf(conn int, dir string) *pipe {
	if conn == 0 {
		conn = 1
	}
	switch dir {
	case "c2s":
		if s, ok := rt.srvs[conn]; ok && s.link != nil {
			return s.link.c2s
		}
		return rt.clis[conn].link.c2s
	case "s2c":
		if c, ok := rt.clis[conn]; ok && c.link != nil {
			return c.link.s2c
		}
		return rt.srvs[conn].link.s2c
	}
	panic("verif-harness: bad dir " + dir)
}

func (rt *runtimeS) defaults() {
	sc := rt.sc
	if sc.Srv == "" {
		sc.Srv = "srv"
	}
	if sc.Dst == "" {
		sc.Dst = sc.Srv
	}
	if sc.NCli == 0 {
		sc.NCli = 1
	}
	if sc.Anon {
		sc.Srv, sc.Dst = "", ""
	}
	if sc.NoSrvName { // a server without a name next to clients that name a destination
		sc.Srv = ""
	}
}

func (rt *runtimeS) setup() {
	sc := rt.sc
	if !sc.RawSrv {
		var opts []goat.ServerOption
		opts = append(opts, rt.serverObservers()...)
		opts = append(opts, passThroughServerInterceptors(sc.SIcpt)...)
		rt.srv = goat.NewServer(sc.Srv, opts...)
		rt.w.stopSrv = func() {
			e := ev("Fault")
			e.K = "stop"
			tr.emit(e)
			rt.srv.Stop()
		}
		rt.srv.RegisterService(rt.w.serviceDesc(), nil)
	}
	switch sc.Topo {
	case "", "direct":
		for i := 1; i <= sc.NCli; i++ {
			l := newLink(i, !sc.Manual, sc.Ser, "CW", "SR", "SW", "CR")
			l.c2s.cap, l.s2c.cap = sc.Cap, sc.Cap
			rt.startClient(i, l, l.cli)
			rt.startServer(i, l, l.srv)
		}
	default:
		rt.setupTopo()
	}
}

func (rt *runtimeS) startClient(i int, l *link, rw goat.RpcReadWriter) {
	c := &cliConn{idx: i, link: l}
	rt.clis[i] = c
	if rt.sc.RawCli {
		return
	}
	rt.curObj = i
	c.cc = goat.NewClientConn(rw, fmt.Sprintf("cli%d", i), rt.sc.Dst, rt.clientObservers(i)...)
}

func (rt *runtimeS) startServer(i int, l *link, rw goat.RpcReadWriter) {
	s := &srvConn{idx: i, link: l}
	rt.srvs[i] = s
	if rt.sc.RawSrv {
		return
	}
	rt.curObj = i
	s.served = true
	ctx := context.WithValue(rt.root, connKey{}, i)
	go func() {
		err := rt.srv.Serve(ctx, rw)
		e := ev("ServeRet")
		e.Conn = i
		e.Res = errRes(err)
		if err != nil {
			e.X = tok([]byte(err.Error()))
		}
		s.retd = true
		tr.emit(e)
	}()
	synctest.Wait()
}

func (rt *runtimeS) step(st Step) {
	conn := st.Conn
	if conn == 0 {
		conn = 1
	}
	switch st.Op {
	case "ucall":
		cl := newCall(rt.root, st)
		rt.calls[st.C] = cl
		rt.w.queue(st.C)
		rt.w.push(st.C, st.Hp...)
		go cl.runUnary(rt.clis[cl.conn].cc, st)
	case "sopen":
		cl := newCall(rt.root, st)
		rt.calls[st.C] = cl
		rt.w.queue(st.C)
		rt.w.push(st.C, st.Hp...)
		if st.Cow {
			// the caller's context ends at the moment the transport has accepted the opening envelope,
			// before NewStream returns ("right after opening")
			p := rt.pipeOf(cl.conn, "c2s")
			p.with(func() {
				p.onWrite = func() {
					tr.emit(cl.base("Cancel"))
					cl.cancel()
				}
			})
		}
		go cl.runStream(rt.clis[cl.conn].cc, st)
	case "send":
		rt.calls[st.C].sendQ <- cop{"send", st.Pay}
	case "close":
		rt.calls[st.C].sendQ <- cop{"close", ""}
	case "sendbad":
		rt.calls[st.C].sendQ <- cop{"sendbad", ""}
	case "recv", "hdr", "trl":
		n := st.N
		if n == 0 {
			n = 1
		}
		for i := 0; i < n; i++ {
			rt.calls[st.C].recvQ <- cop{st.Op, ""}
		}
	case "ccclose": // ClientConn.Close(): reports to the stats handlers; calls and streams in flight are not its business
		rt.clis[conn].cc.Close()
	case "cancel":
		cl := rt.calls[st.C]
		tr.emit(cl.base("Cancel"))
		cl.cancel()
	case "hop":
		rt.w.push(st.C, *st.H)
	case "hops":
		rt.w.push(st.C, st.Hp...)
	case "dlv":
		n := st.N
		if n == 0 {
			n = 1
		}
		p := rt.pipeOf(conn, st.Dir)
		p.with(func() {
			if st.N < 0 { // -1: everything queued now; -2: all but the last
				n = len(p.q) + st.N + 1 - p.credits
				if n < 0 {
					n = 0
				}
			}
			p.credits += n
		})
	case "auto":
		p := rt.pipeOf(conn, st.Dir)
		p.with(func() { p.auto = st.On })
	case "stuck":
		p := rt.pipeOf(conn, st.Dir)
		p.with(func() {
			p.stuck = st.On
			e := ev("Fault")
			if !st.On {
				e = ev("Unfault")
			}
			e.Conn, e.K = conn, map[string]string{"c2s": "cstuck", "s2c": "sstuck"}[st.Dir]
			tr.emit(e)
		})
	case "fault":
		e := ev("Fault")
		e.Conn, e.K = conn, st.What
		switch st.What {
		case "cread": // the client's reads fail
			p := rt.pipeOf(conn, "s2c")
			p.with(func() { p.rerr = errInjected; tr.emit(e) })
		case "creadeof": // ... with io.EOF, as net.Pipe / TCP based transports report a closed connection
			e.K = "cread"
			p := rt.pipeOf(conn, "s2c")
			p.with(func() { p.rerr = io.EOF; tr.emit(e) })
		case "creadtmp": // ... with a net.Error that calls itself temporary (ETIMEDOUT on a dead peer does)
			e.K = "cread"
			p := rt.pipeOf(conn, "s2c")
			p.with(func() { p.rerr = errTemporary{}; tr.emit(e) })
		case "creadctx": // ... with an error that wraps context.Canceled although nobody's context is done
			e.K = "cread"
			p := rt.pipeOf(conn, "s2c")
			p.with(func() { p.rerr = fmt.Errorf("transport: read: %w", context.Canceled); tr.emit(e) })
		case "sreadtmp":
			e.K = "sread"
			p := rt.pipeOf(conn, "c2s")
			p.with(func() { p.rerr = errTemporary{}; tr.emit(e) })
		case "sreadctx":
			e.K = "sread"
			p := rt.pipeOf(conn, "c2s")
			p.with(func() { p.rerr = fmt.Errorf("transport: read: %w", context.Canceled); tr.emit(e) })
		case "sreadeof":
			e.K = "sread"
			p := rt.pipeOf(conn, "c2s")
			p.with(func() { p.rerr = io.EOF; tr.emit(e) })
		case "cwrite":
			p := rt.pipeOf(conn, "c2s")
			p.with(func() { p.werr = errInjected; tr.emit(e) })
		case "cwrite1": // exactly the next client write fails
			p := rt.pipeOf(conn, "c2s")
			p.with(func() { p.werr1 = true; tr.emit(e) })
		case "sread":
			p := rt.pipeOf(conn, "c2s")
			p.with(func() { p.rerr = errInjected; tr.emit(e) })
		case "swrite":
			p := rt.pipeOf(conn, "s2c")
			p.with(func() { p.werr = errInjected; tr.emit(e) })
		case "stop":
			e.Conn = 0
			tr.emit(e)
			rt.stopServer()
		default:
			panic("verif-harness: unknown fault " + st.What)
		}
	case "unfault":
		e := ev("Unfault")
		e.Conn, e.K = conn, st.What
		switch st.What {
		case "cwrite":
			p := rt.pipeOf(conn, "c2s")
			p.with(func() { p.werr = nil; tr.emit(e) })
		case "swrite":
			p := rt.pipeOf(conn, "s2c")
			p.with(func() { p.werr = nil; tr.emit(e) })
		default:
			panic("verif-harness: unknown unfault " + st.What)
		}
	case "arm":
		rt.g.arm(st.Gate, st.Id, st.N)
	case "rel":
		rt.g.release(st.Gate, st.Id)
	case "adv":
		time.Sleep(time.Duration(st.Ms) * time.Millisecond)
		e := ev("Tick")
		tr.emit(e)
	case "q":
		rt.quiesce()
	case "inj":
		p := rt.pipeOf(conn, st.Dir)
		p.inject(st.Env.rpc())
	case "wait":
	default:
		if !rt.stepExtra(st) {
			panic("verif-harness: unknown op " + st.Op)
		}
	}
}

// stopServer calls Stop from the scheduler. Stop only cancels the server's context: if it has not returned once
// everything else has come to rest it never will, and that is reported instead of deadlocking the bubble.
func (rt *runtimeS) stopServer() {
	done := make(chan struct{})
	go func() { rt.srv.Stop(); close(done) }()
	synctest.Wait()
	select {
	case <-done:
	default:
		rt.g.mu.Lock()
		held := len(rt.g.parked)
		rt.g.mu.Unlock()
		if held > 0 {
			return // the harness itself holds a goroutine at a gate: a Stop that waits for it is not stuck by the library's doing
		}
		w := ev("Wedged")
		w.X = "Server.Stop has not returned"
		tr.emit(w)
		tr.emit(ev("End"))
		os.Exit(3)
	}
}

func (rt *runtimeS) unwind() {
	tr.emit(ev("Unwind"))
	for _, c := range sortedKeys(rt.calls) {
		rt.calls[c].cancel()
	}
	rt.w.closeAll()
	rt.g.releaseAll()
	synctest.Wait()
	for _, c := range sortedKeys(rt.calls) {
		close(rt.calls[c].sendQ)
		close(rt.calls[c].recvQ)
	}
	for _, i := range sortedKeys(rt.clis) {
		if l := rt.clis[i].link; l != nil {
			for _, p := range []*pipe{l.c2s, l.s2c} {
				p.with(func() { p.rerr, p.werr, p.stuck = errInjected, errInjected, false })
			}
		}
	}
	for _, i := range sortedKeys(rt.srvs) {
		if l := rt.srvs[i].link; l != nil {
			for _, p := range []*pipe{l.c2s, l.s2c} {
				p.with(func() { p.rerr, p.werr, p.stuck = errInjected, errInjected, false })
			}
		}
	}
	if rt.srv != nil {
		rt.stopServer()
	}
	for _, f := range rt.extra {
		f()
	}
	rt.cancel()
	synctest.Wait()
	// let pending virtual timers (e.g. reset-write deadlines) run out
	time.Sleep(40 * time.Second)
	synctest.Wait()
}

func runScenario(t *testing.T, sc *Scenario) {
	tr.mu.Lock()
	tr.sc = sc.Sc
	tr.start = time.Time{}
	tr.mu.Unlock()
	synctest.Test(t, func(t *testing.T) {
		rt := &runtimeS{sc: sc, w: newWorld(), g: &gateTab{armed: map[string][]*armed{}},
			clis: map[int]*cliConn{}, srvs: map[int]*srvConn{}, calls: map[int]*call{}, objs: map[any]int{}}
		rt.root, rt.cancel = context.WithCancel(context.Background())
		tr.mu.Lock()
		tr.start = time.Now()
		tr.mu.Unlock()
		verifhook.Install(&verifhook.Hooks{Emit: rt.hookEmit, Gate: rt.g.gate})
		anon = nil
		if sc.NoTok {
			anon = &anonTab{idTok: map[string]int{}}
		}
		defer func() { anon = nil }()
		rt.defaults()
		b := ev("Begin")
		b.K, b.X = sc.Fam, sc.Topo
		b.N = sc.NCli
		b.Msg, b.Pay = sc.Srv, "cli1"
		if sc.Dst != sc.Srv {
			b.Md = []KV{{K: "dst", V: []string{sc.Dst}}} // the clients name another destination than the server's name
		}
		if sc.RawCli {
			b.Res = "rawcli"
		} else if sc.RawSrv {
			b.Res = "rawsrv"
		}
		tr.emit(b)
		rt.setup()
		synctest.Wait()
		rt.base, _ = census(true)
		e := ev("Base")
		e.N = rt.base
		if sc.Topo == "pd" {
			// the logical connection behind the demux (and its server) is created by the first
			// envelope: the idle level is the one observed at the first idle point
			e.N = -1
		}
		tr.emit(e)
		for _, st := range sc.Steps {
			rt.step(st)
			if !st.Nw {
				synctest.Wait()
			}
		}
		synctest.Wait()
		rt.unwind()
		verifhook.Install(nil)
		n, tops := census(true)
		if n > 0 {
			l := ev("Leak")
			l.N, l.X = n, strings.Join(tops, " ")
			tr.emit(l)
			tr.emit(ev("End"))
			os.Exit(4)
		}
		tr.emit(ev("End"))
	})
}
