package driver

// Runner "demux" (property C18): a real goat.Demux keyed by the header source
// over a scheduler-owned shared transport.
//
//	mode "raw": the scheduler injects envelopes into the shared transport and
//	  drives the logical connections itself: every {lread}/{lwrite} step is a
//	  goroutine doing ONE Read/Write on a logical connection.
//	mode "rpc": ncli real goat.ClientConn share the transport (the client side
//	  is a tiny mux: writes go into the shared queue - goat tags them with the
//	  client's source -, what the demux writes is routed back by destination);
//	  one goat.Server serves every logical connection (onNewConnection ->
//	  srv.Serve) with echo handlers. The logical connections are tapped, so the
//	  per-envelope events are the same as in raw mode.
//
// Events (all on conn 0/1, one trace segment per scenario):
//
//	In{k,pay,x,n}         envelope n entered the shared transport's input queue
//	SharedIn{k,pay,x,n}   Demux.Run's Read took envelope n (k = key function's value)
//	NewConn{k,n}          onNewConnection invoked; n-th connection announced for key k
//	LRead{c,k,n} LReadRet{c,k,n,res,pay,x}      a Read on logical connection <<k,n>>
//	LWrite{c,k,n,pay,x} LWriteRet{c,k,n,res}    a Write on logical connection <<k,n>>
//	SharedOut{k,pay,x,n}  a Write of the demux reached the shared transport
//	Cancel{k} CancelRet{k} Stop RunRet Stuck{res} Hold{res} GatePark GatePass Quiesce
//	CallOf{c,k,kind} + the client-call events of client.go (rpc mode)
//
// x is a digest of the whole envelope (deterministic encoding), pay its body token.
// Panics in library goroutines are NOT recovered: the worker dies and the
// framework records a Crash line.

import (
	"context"
	"crypto/sha256"
	"encoding/hex"
	"encoding/json"
	"fmt"
	"io"
	"os"
	"sort"
	"strings"
	"sync"
	"sync/atomic"
	"testing"
	"testing/synctest"
	"time"

	"github.com/avos-io/goat"
	"github.com/avos-io/goat/gen/goatorepo"
	"github.com/avos-io/goat/verifhook"
	"google.golang.org/grpc"
	"google.golang.org/protobuf/proto"
	"google.golang.org/protobuf/types/known/wrapperspb"
)

func init() { runners["demux"] = runDemux }

const dxGate = "demux.run.window"

type dxStep struct {
	Op   string `json:"op"` // in lread lwrite cancel stop arm rel stuck hold refuse adv dlv q | ucall sopen ssend srecv sclose
	K    string `json:"k"`
	Inc  int    `json:"inc"` // incarnation of k (0 = latest announced, the first one if none yet)
	Pay  string `json:"pay"`
	Gate string `json:"gate"`
	N    int    `json:"n"`
	C    int    `json:"c"`
	Kind string `json:"kind"`
	On   bool   `json:"on"`
	Nw   bool   `json:"nw"`
}

type dxScen struct {
	Fam   string   `json:"fam"`
	Mode  string   `json:"mode"`
	NCli  int      `json:"ncli"`
	Steps []dxStep `json:"steps"`
	// DataFirst: the shared transport's Read returns an envelope it already has before it looks at the
	// context (as transports with buffered data do; goat's own channel transport picks either at random)
	DataFirst bool `json:"datafirst"`
}

func dxDigest(r *goat.Rpc) string {
	b, err := proto.MarshalOptions{Deterministic: true}.Marshal(r)
	if err != nil {
		panic("verif-harness: marshal: " + err.Error())
	}
	h := sha256.Sum256(b)
	return fmt.Sprintf("%d:%s", len(b), hex.EncodeToString(h[:6]))
}

func dxKey(r *goat.Rpc) string { return r.GetHeader().GetSource() }

func dxEnvEv(name, key string, r *goat.Rpc, n int) Ev {
	e := ev(name)
	e.K, e.Pay, e.X, e.N = key, bodyTok(r.GetBody()), dxDigest(r), n
	return e
}

// ---- shared transport ---------------------------------------------------------

// dxShared is the one transport under the demux: an ordered input queue the
// run loop reads and an output the per-key writers write to. All waiting is on
// channels (durable for synctest).
type dxShared struct {
	mu        sync.Mutex
	wake      chan struct{}
	inq       []*goat.Rpc
	hold      bool // input is delivered only against credits
	credits   int
	stuck     bool // Write blocks
	refuse    int  // the next Writes (blocked ones included) are refused with an error, one each
	failed    bool // unwind: everything fails
	nInj      int
	nIn       int
	nOut      int
	dataFirst bool
	route     func(*goat.Rpc) // rpc mode: hand a written envelope to its client
}

func (s *dxShared) with(f func()) {
	s.mu.Lock()
	f()
	close(s.wake)
	s.wake = make(chan struct{})
	s.mu.Unlock()
}

func (s *dxShared) inject(r *goat.Rpc) {
	s.with(func() {
		s.nInj++
		s.inq = append(s.inq, r)
		tr.emit(dxEnvEv("In", dxKey(r), r, s.nInj))
	})
}

func (s *dxShared) Read(ctx context.Context) (*goat.Rpc, error) {
	for {
		s.mu.Lock()
		if err := ctx.Err(); err != nil && !(s.dataFirst && !s.failed && len(s.inq) > 0 && (!s.hold || s.credits > 0)) {
			s.mu.Unlock()
			return nil, err
		}
		if s.failed {
			s.mu.Unlock()
			return nil, errInjected
		}
		if len(s.inq) > 0 && (!s.hold || s.credits > 0) {
			r := s.inq[0]
			s.inq = s.inq[1:]
			if s.hold {
				s.credits--
			}
			s.nIn++
			tr.emit(dxEnvEv("SharedIn", dxKey(r), r, s.nIn))
			s.mu.Unlock()
			return r, nil
		}
		w := s.wake
		s.mu.Unlock()
		select {
		case <-w:
		case <-ctx.Done():
		}
	}
}

func (s *dxShared) Write(ctx context.Context, r *goat.Rpc) error {
	for {
		s.mu.Lock()
		if err := ctx.Err(); err != nil {
			s.mu.Unlock()
			return err
		}
		if s.failed {
			s.mu.Unlock()
			return errInjected
		}
		if s.refuse > 0 { // a transient refusal: this envelope is lost, the transport stays up
			s.refuse--
			tr.emit(dxEnvEv("Refused", r.GetHeader().GetDestination(), r, 0))
			s.mu.Unlock()
			return errInjected
		}
		if !s.stuck {
			s.nOut++
			tr.emit(dxEnvEv("SharedOut", r.GetHeader().GetDestination(), r, s.nOut))
			if s.route != nil {
				s.route(r)
			}
			s.mu.Unlock()
			return nil
		}
		w := s.wake
		s.mu.Unlock()
		select {
		case <-w:
		case <-ctx.Done():
		}
	}
}

// dxClient is the client side of the shared link for one logical client.
type dxClient struct {
	sh    *dxShared
	inbox *pipe
	cc    *goat.ClientConn
}

func (c *dxClient) Read(ctx context.Context) (*goat.Rpc, error) { return c.inbox.Read(ctx) }
func (c *dxClient) Write(ctx context.Context, r *goat.Rpc) error {
	if err := ctx.Err(); err != nil {
		return err
	}
	c.sh.inject(r)
	return nil
}

// ---- logical connections --------------------------------------------------------

type dxConn struct {
	rt  *dxRT
	key string
	inc int
	rw  goat.RpcReadWriter
}

func (c *dxConn) read(ctx context.Context, id int) (*goat.Rpc, error) {
	e := ev("LRead")
	e.C, e.K, e.N = id, c.key, c.inc
	tr.emit(e)
	r, err := c.rw.Read(ctx)
	x := ev("LReadRet")
	x.C, x.K, x.N, x.Res = id, c.key, c.inc, errRes(err)
	if err == nil {
		x.Pay, x.X = bodyTok(r.GetBody()), dxDigest(r)
	} else {
		x.Msg = tok([]byte(err.Error()))
	}
	tr.emit(x)
	return r, err
}

func (c *dxConn) write(ctx context.Context, id int, r *goat.Rpc) error {
	e := ev("LWrite")
	e.C, e.K, e.N, e.Pay, e.X = id, c.key, c.inc, bodyTok(r.GetBody()), dxDigest(r)
	tr.emit(e)
	err := c.rw.Write(ctx, r)
	x := ev("LWriteRet")
	x.C, x.K, x.N, x.Res = id, c.key, c.inc, errRes(err)
	if err != nil {
		x.Msg = tok([]byte(err.Error()))
	}
	tr.emit(x)
	return err
}

// as goat.RpcReadWriter (rpc mode: what the server is given), ids from a counter
func (c *dxConn) Read(ctx context.Context) (*goat.Rpc, error) {
	return c.read(ctx, int(c.rt.opSeq.Add(1)))
}
func (c *dxConn) Write(ctx context.Context, r *goat.Rpc) error {
	return c.write(ctx, int(c.rt.opSeq.Add(1)), r)
}

// ---- runtime ------------------------------------------------------------------

type dxRT struct {
	sc     *dxScen
	g      *gateTab
	sh     *dxShared
	dm     *goat.Demux
	root   context.Context
	cancel context.CancelFunc

	mu      sync.Mutex
	wake    chan struct{}
	conns   map[string][]*dxConn
	lastKey string
	runRet  bool
	opSeq   atomic.Int64

	srv   *goat.Server
	clis  map[string]*dxClient
	calls map[int]*call
}

// the caller-supplied key function (runs under the demux's lock, in Run)
func (rt *dxRT) keyFn(r *goat.Rpc) string {
	k := dxKey(r)
	rt.mu.Lock()
	rt.lastKey = k
	rt.mu.Unlock()
	return k
}

// onNewConnection: the callback does not name the key. Run cannot get past the
// hand-off of the creating envelope before somebody reads the new connection,
// and nobody can before this callback ran, so the key is the last one computed.
func (rt *dxRT) onNew(rw goat.RpcReadWriter) {
	rt.mu.Lock()
	k := rt.lastKey
	c := &dxConn{rt: rt, key: k, inc: len(rt.conns[k]) + 1, rw: rw}
	rt.conns[k] = append(rt.conns[k], c)
	e := ev("NewConn")
	e.K, e.N = k, c.inc
	tr.emit(e)
	close(rt.wake)
	rt.wake = make(chan struct{})
	rt.mu.Unlock()
	if rt.srv != nil {
		rt.srv.Serve(rt.root, c)
	}
}

// connOf waits for the connection a step names.
func (rt *dxRT) connOf(k string, inc int) *dxConn {
	first := true
	for {
		rt.mu.Lock()
		cs := rt.conns[k]
		if first && inc == 0 {
			inc = max(len(cs), 1)
		}
		first = false
		if len(cs) >= inc {
			rt.mu.Unlock()
			return cs[inc-1]
		}
		w := rt.wake
		rt.mu.Unlock()
		select {
		case <-w:
		case <-rt.root.Done():
			return nil
		}
	}
}

func dxBody(pay string) *goatorepo.Body {
	b, _ := proto.Marshal(&wrapperspb.BytesValue{Value: payBytes(pay)})
	return &goatorepo.Body{Data: b}
}

func dxEchoDesc() *grpc.ServiceDesc {
	return &grpc.ServiceDesc{
		ServiceName: svcName, HandlerType: (*any)(nil),
		Methods: []grpc.MethodDesc{{MethodName: "Unary",
			Handler: func(_ any, _ context.Context, dec func(any) error, _ grpc.UnaryServerInterceptor) (any, error) {
				in := new(wrapperspb.BytesValue)
				if err := dec(in); err != nil {
					return nil, err
				}
				return in, nil
			}}},
		Streams: []grpc.StreamDesc{{StreamName: "Bidi", ServerStreams: true, ClientStreams: true,
			Handler: func(_ any, ss grpc.ServerStream) error {
				for {
					m := new(wrapperspb.BytesValue)
					if err := ss.RecvMsg(m); err != nil {
						if err == io.EOF {
							return nil
						}
						return err
					}
					if err := ss.SendMsg(m); err != nil {
						return err
					}
				}
			}}},
	}
}

func (rt *dxRT) step(i int, st dxStep) {
	id := i + 1
	switch st.Op {
	case "in":
		rt.sh.inject(&goat.Rpc{Id: uint64(id), Header: &goatorepo.RequestHeader{Source: st.K, Destination: "srv",
			Method: "/" + svcName + "/Unary"}, Body: dxBody(st.Pay)})
	case "lread":
		go func() {
			if c := rt.connOf(st.K, st.Inc); c != nil {
				c.read(rt.root, id)
			}
		}()
	case "lwrite":
		go func() {
			if c := rt.connOf(st.K, st.Inc); c != nil {
				c.write(rt.root, id, &goat.Rpc{Id: uint64(1000 + id), Header: &goatorepo.RequestHeader{Source: "srv",
					Destination: st.K, Method: "/" + svcName + "/Unary"}, Body: dxBody(st.Pay)})
			}
		}()
	case "cancel":
		e := ev("Cancel")
		e.K = st.K
		tr.emit(e)
		rt.dm.Cancel(st.K)
		e.Ev = "CancelRet"
		tr.emit(e)
	case "stop":
		tr.emit(ev("Stop"))
		rt.dm.Stop()
	case "arm":
		rt.g.arm(dxGate, 0, st.N)
	case "rel":
		rt.g.release(dxGate, 0)
	case "stuck", "hold":
		e := ev(map[string]string{"stuck": "Stuck", "hold": "Hold"}[st.Op])
		e.Res = map[bool]string{true: "on", false: "off"}[st.On]
		rt.sh.with(func() {
			if st.Op == "stuck" {
				rt.sh.stuck = st.On
			} else {
				rt.sh.hold, rt.sh.credits = st.On, 0
			}
			tr.emit(e)
		})
	case "adv": // virtual time passes (a write held by the shared transport simply waits)
		time.Sleep(time.Duration(max(st.N, 1)) * time.Millisecond)
	case "refuse":
		rt.sh.with(func() { rt.sh.refuse += max(st.N, 1) })
	case "dlv":
		rt.sh.with(func() { rt.sh.credits += max(st.N, 1) })
	case "q":
		synctest.Wait()
		n, tops := census(true)
		e := ev("Quiesce")
		e.N, e.X = n, strings.Join(tops, " ")
		tr.emit(e)
	case "ucall", "sopen":
		cli := rt.clis[st.K]
		if cli == nil {
			panic("verif-harness: unknown client " + st.K)
		}
		e := ev("CallOf")
		e.C, e.K, e.Res = st.C, st.K, st.Kind
		tr.emit(e)
		cs := Step{Op: st.Op, C: st.C, Conn: 1, Kind: st.Kind, Pay: st.Pay}
		cl := newCall(rt.root, cs)
		rt.calls[st.C] = cl
		if st.Op == "ucall" {
			go cl.runUnary(cli.cc, cs)
		} else {
			go cl.runStream(cli.cc, cs)
		}
	case "ssend":
		rt.calls[st.C].sendQ <- cop{"send", st.Pay}
	case "sclose":
		rt.calls[st.C].sendQ <- cop{"close", ""}
	case "srecv":
		rt.calls[st.C].recvQ <- cop{"recv", ""}
	default:
		panic("verif-harness: unknown demux op " + st.Op)
	}
}

func (rt *dxRT) unwind() {
	tr.emit(ev("Unwind"))
	rt.g.releaseAll()
	rt.dm.Stop()
	rt.cancel()
	for _, c := range rt.calls {
		c.cancel()
	}
	rt.sh.with(func() { rt.sh.failed, rt.sh.stuck = true, false })
	if rt.srv != nil {
		rt.srv.Stop()
	}
	synctest.Wait()
	for _, c := range rt.calls {
		close(c.sendQ)
		close(c.recvQ)
	}
	for _, c := range rt.clis {
		c.inbox.with(func() { c.inbox.rerr = errInjected })
	}
	synctest.Wait()
	// a run loop that ignores Stop sits in the hand-off: take what it holds
	dctx, dcancel := context.WithCancel(context.Background())
	rt.mu.Lock()
	for _, cs := range rt.conns {
		for _, c := range cs {
			go func() {
				for {
					if _, err := c.rw.Read(dctx); err != nil {
						return
					}
				}
			}()
		}
	}
	rt.mu.Unlock()
	synctest.Wait()
	dcancel()
	synctest.Wait()
	time.Sleep(40 * time.Second) // pending virtual timers
	synctest.Wait()
}

func runDemux(t *testing.T, _ *Scenario, raw []byte) {
	var sc dxScen
	if err := json.Unmarshal(raw, &sc); err != nil {
		t.Fatalf("verif-harness: demux scenario: %v", err)
	}
	synctest.Test(t, func(t *testing.T) {
		rt := &dxRT{sc: &sc, g: &gateTab{armed: map[string][]*armed{}}, wake: make(chan struct{}),
			conns: map[string][]*dxConn{}, clis: map[string]*dxClient{}, calls: map[int]*call{}}
		rt.opSeq.Store(100000)
		rt.sh = &dxShared{wake: make(chan struct{}), dataFirst: sc.DataFirst}
		rt.root, rt.cancel = context.WithCancel(context.Background())
		tr.mu.Lock()
		tr.start = time.Now()
		tr.mu.Unlock()
		verifhook.Install(&verifhook.Hooks{Gate: rt.g.gate})
		b := ev("Begin")
		b.K, b.X, b.N = sc.Fam, sc.Mode, 1
		tr.emit(b)

		if sc.Mode == "rpc" {
			rt.srv = goat.NewServer("srv")
			rt.srv.RegisterService(dxEchoDesc(), nil)
			for i := 1; i <= max(sc.NCli, 1); i++ {
				name := fmt.Sprintf("cli%d", i)
				c := &dxClient{sh: rt.sh, inbox: newPipe(0, "", "", true, false)}
				c.cc = goat.NewClientConn(c, name, "srv")
				rt.clis[name] = c
			}
			rt.sh.route = func(r *goat.Rpc) {
				if c := rt.clis[r.GetHeader().GetDestination()]; c != nil {
					c.inbox.inject(r)
				}
			}
		}
		rt.dm = goat.NewDemux(context.Background(), rt.sh, rt.keyFn, rt.onNew)
		go func() {
			rt.dm.Run()
			rt.mu.Lock()
			rt.runRet = true
			tr.emit(ev("RunRet"))
			rt.mu.Unlock()
		}()
		synctest.Wait()
		for i, st := range sc.Steps {
			rt.step(i, st)
			if !st.Nw {
				synctest.Wait()
			}
		}
		synctest.Wait()
		rt.unwind()
		verifhook.Install(nil)
		if n, tops := census(true); n > 0 {
			sort.Strings(tops)
			l := ev("Leak")
			l.N, l.X = n, strings.Join(tops, " ")
			tr.emit(l)
			tr.emit(ev("End"))
			os.Exit(4)
		}
		tr.emit(ev("End"))
	})
}
