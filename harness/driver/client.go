package driver

import (
	"context"
	"errors"
	"fmt"
	"io"
	"sync"
	"time"

	"github.com/avos-io/goat"
	"google.golang.org/grpc"
	"google.golang.org/grpc/codes"
	"google.golang.org/grpc/metadata"
	"google.golang.org/grpc/status"
	"google.golang.org/protobuf/types/known/wrapperspb"
)

var errAppCause = errors.New("verif: the application gave up for a reason of its own")

type cop struct {
	op  string
	pay string
}

// call is one scripted client call.
type call struct {
	c      int
	conn   int
	kind   string
	ctx    context.Context
	cancel context.CancelFunc
	sendQ  chan cop
	recvQ  chan cop

	mu   sync.Mutex
	pend map[string]int // op name -> issued and not yet returned
	done bool           // unary returned / stream open failed
}

func (cl *call) begin(op string) {
	cl.mu.Lock()
	cl.pend[op]++
	cl.mu.Unlock()
}
func (cl *call) end(op string) {
	cl.mu.Lock()
	cl.pend[op]--
	cl.mu.Unlock()
}

func (cl *call) base(name string) Ev {
	e := ev(name)
	e.C, e.Conn = cl.c, cl.conn
	return e
}

func errFields(e *Ev, err error) {
	if err == nil {
		return
	}
	st, ok := status.FromError(err)
	e.Code = int(st.Code())
	e.Msg = tok([]byte(st.Message()))
	e.N = len(st.Proto().GetDetails())
	if ok {
		e.K = "st"
	} else {
		e.K = "plain"
	}
}

// errClass: "" (nil), "eof", "ctx" (the context's error, raw or as a status), "other"
func errClass(err error) string {
	switch {
	case err == nil:
		return ""
	case err == io.EOF:
		return "eof"
	case errors.Is(err, context.Canceled), errors.Is(err, context.DeadlineExceeded):
		return "ctx"
	}
	if c := status.Code(err); c == codes.Canceled || c == codes.DeadlineExceeded {
		return "ctx"
	}
	return "other"
}

func methodOf(kind string) (string, *grpc.StreamDesc) {
	switch kind {
	case "bidi":
		return "/" + svcName + "/Bidi", &grpc.StreamDesc{StreamName: "Bidi", ServerStreams: true, ClientStreams: true}
	case "cs":
		return "/" + svcName + "/CS", &grpc.StreamDesc{StreamName: "CS", ClientStreams: true}
	case "ss":
		return "/" + svcName + "/SS", &grpc.StreamDesc{StreamName: "SS", ServerStreams: true}
	case "xbidi": // a method the service does not have
		return "/" + svcName + "/Nope", &grpc.StreamDesc{StreamName: "Nope", ServerStreams: true, ClientStreams: true}
	case "ybidi": // a service the server does not have
		return "/no.Such/Bidi", &grpc.StreamDesc{StreamName: "Bidi", ServerStreams: true, ClientStreams: true}
	}
	return "/" + svcName + "/Unary", nil
}

func newCall(parent context.Context, st Step) *call {
	cl := &call{c: st.C, conn: st.Conn, kind: st.Kind, pend: map[string]int{},
		sendQ: make(chan cop, 4096), recvQ: make(chan cop, 4096)}
	if cl.conn == 0 {
		cl.conn = 1
	}
	md := mdOf(st.Md)
	ctx := parent
	if anon != nil {
		// no call token: with no scripted metadata either, the caller's context carries no outgoing metadata at all
		if len(md) > 0 {
			ctx = metadata.NewOutgoingContext(parent, md)
		}
		anon.started(st.C)
	} else {
		md.Set(tokenKey, fmt.Sprintf("%d", st.C))
		ctx = metadata.NewOutgoingContext(parent, md)
	}
	switch {
	case st.What == "cause" && st.To != 0:
		// the caller's context ends with a cause of the application's own (context.Cause): its Err() is still
		// DeadlineExceeded / Canceled, and that is what the call reports
		cl.ctx, cl.cancel = context.WithTimeoutCause(ctx, time.Duration(st.To)*time.Millisecond, errAppCause)
	case st.What == "cause":
		c2, cc := context.WithCancelCause(ctx)
		cl.ctx, cl.cancel = c2, func() { cc(errAppCause) }
	case st.To != 0:
		cl.ctx, cl.cancel = context.WithTimeout(ctx, time.Duration(st.To)*time.Millisecond)
	default:
		cl.ctx, cl.cancel = context.WithCancel(ctx)
	}
	return cl
}

func (cl *call) runUnary(cc *goat.ClientConn, st Step) {
	e := cl.base("UCall")
	e.K, e.Pay, e.N = "unary", tok(payBytes(st.Pay)), st.To
	if st.What == "bad" {
		e.X = "bad"
	}
	e.Md = mdCanon(mdOf(st.Md))
	cl.begin("unary")
	tr.emit(e)
	// a reply object that is not fresh (an application may reuse one, an interceptor may have touched it): whatever the
	// response is, it replaces what is in there
	reply := &wrapperspb.BytesValue{Value: []byte("stale contents of a reused reply")}
	m, _ := methodOf("unary")
	var err error
	if st.What == "bad" { // a request the codec refuses: the call fails locally, nothing is written
		err = cc.Invoke(cl.ctx, m, "not a protobuf message", reply)
	} else {
		err = cc.Invoke(cl.ctx, m, &wrapperspb.BytesValue{Value: payBytes(st.Pay)}, reply)
	}
	r := cl.base("URet")
	if err == nil {
		r.Res, r.Pay = "ok", tok(reply.GetValue())
	} else {
		r.Res = "err"
		errFields(&r, err)
	}
	if cl.ctx.Err() != nil {
		r.X = "ctxdone"
	}
	cl.mu.Lock()
	cl.pend["unary"]--
	cl.done = true
	tr.emit(r)
	cl.mu.Unlock()
}

func (cl *call) runStream(cc *goat.ClientConn, st Step) {
	e := cl.base("SOpen")
	e.K, e.N = st.Kind, st.To
	e.Md = mdCanon(mdOf(st.Md))
	cl.begin("open")
	tr.emit(e)
	if st.What == "pre" { // the caller's context is over before NewStream is called
		tr.emit(cl.base("Cancel"))
		cl.cancel()
	}
	m, desc := methodOf(st.Kind)
	cs, err := cc.NewStream(cl.ctx, desc, m)
	r := cl.base("SOpenRet")
	r.Res = errRes(err)
	errFields(&r, err)
	cl.mu.Lock()
	cl.pend["open"]--
	if err != nil {
		cl.done = true
	}
	tr.emit(r)
	cl.mu.Unlock()
	if err != nil {
		go func() {
			for range cl.sendQ {
			}
		}()
		for range cl.recvQ {
		}
		return
	}
	go cl.sendLoop(cs)
	cl.recvLoop(cs)
}

func (cl *call) sendLoop(cs grpc.ClientStream) {
	for op := range cl.sendQ {
		switch op.op {
		case "send":
			e := cl.base("SSend")
			e.Pay = tok(payBytes(op.pay))
			cl.begin("send")
			tr.emit(e)
			err := cs.SendMsg(&wrapperspb.BytesValue{Value: payBytes(op.pay)})
			r := cl.base("SSendRet")
			r.Res = errRes(err)
			errFields(&r, err)
			if err == io.EOF {
				r.Res = "eof"
			}
			r.X = errClass(err)
			cl.mu.Lock()
			cl.pend["send"]--
			tr.emit(r)
			cl.mu.Unlock()
		case "sendbad":
			// a message the codec refuses (not a proto.Message): SendMsg fails locally, nothing is written for
			// it and the stream is over
			cl.begin("send")
			tr.emit(cl.base("SSendBad"))
			err := cs.SendMsg("not a protobuf message")
			r := cl.base("SSendBadRet")
			r.Res = errRes(err)
			errFields(&r, err)
			r.X = errClass(err)
			cl.mu.Lock()
			cl.pend["send"]--
			tr.emit(r)
			cl.mu.Unlock()
		case "close":
			cl.begin("close")
			tr.emit(cl.base("SClose"))
			err := cs.CloseSend()
			r := cl.base("SCloseRet")
			r.Res = errRes(err)
			errFields(&r, err)
			cl.mu.Lock()
			cl.pend["close"]--
			tr.emit(r)
			cl.mu.Unlock()
		}
	}
}

func (cl *call) recvLoop(cs grpc.ClientStream) {
	m := new(wrapperspb.BytesValue) // one object for every RecvMsg of this call (the library must overwrite it)
	for op := range cl.recvQ {
		switch op.op {
		case "recv":
			cl.begin("recv")
			tr.emit(cl.base("SRecv"))
			err := cs.RecvMsg(m)
			r := cl.base("SRecvRet")
			switch {
			case err == nil:
				r.Res, r.Pay = "msg", tok(m.GetValue())
			case err == io.EOF:
				r.Res = "eof"
			default:
				r.Res = "err"
				errFields(&r, err)
			}
			if cl.ctx.Err() != nil {
				r.X = "ctxdone"
			}
			cl.mu.Lock()
			cl.pend["recv"]--
			tr.emit(r)
			cl.mu.Unlock()
		case "hdr":
			cl.begin("hdr")
			tr.emit(cl.base("SHdr"))
			md, err := cs.Header()
			r := cl.base("SHdrRet")
			r.Res = errRes(err)
			errFields(&r, err)
			if md == nil {
				r.K = "nil"
			} else {
				r.Md = mdCanon(md)
			}
			cl.mu.Lock()
			cl.pend["hdr"]--
			tr.emit(r)
			cl.mu.Unlock()
		case "trl":
			cl.begin("trl") // (Trailer never waits: pending at a census, it is reported and has no excuse)
			md := cs.Trailer()
			r := cl.base("STrl")
			if md == nil {
				r.K = "nil"
			} else {
				r.Md = mdCanon(md)
			}
			cl.mu.Lock()
			cl.pend["trl"]--
			tr.emit(r)
			cl.mu.Unlock()
		}
	}
}
