package driver

import (
	"bufio"
	"encoding/json"
	"fmt"
	"os"
	"runtime"
	"sort"
	"strconv"
	"strings"
	"testing"
	"time"

	"github.com/rs/zerolog"
)

// TestDriver executes the scenarios of $VERIF_SCEN (NDJSON, one scenario per
// line) starting at index $VERIF_FROM and appends events to $VERIF_OUT.
// Exit codes: 0 all done; 3 wedged (watchdog); 4 goroutines leaked; other = crash.
func TestDriver(t *testing.T) {
	scen := os.Getenv("VERIF_SCEN")
	out := os.Getenv("VERIF_OUT")
	if scen == "" || out == "" {
		t.Skip("VERIF_SCEN / VERIF_OUT not set")
	}
	from, _ := strconv.Atoi(os.Getenv("VERIF_FROM"))
	zerolog.SetGlobalLevel(zerolog.Disabled)
	f, err := os.OpenFile(out, os.O_CREATE|os.O_WRONLY|os.O_APPEND, 0o644)
	if err != nil {
		t.Fatal(err)
	}
	tr.f = f
	in, err := os.Open(scen)
	if err != nil {
		t.Fatal(err)
	}
	rd := bufio.NewReaderSize(in, 1<<20)

	wd := 4 * time.Second
	if v := os.Getenv("VERIF_WATCHDOG_S"); v != "" {
		n, _ := strconv.Atoi(v)
		wd = time.Duration(n) * time.Second
	}
	go watchdog(wd)

	idx := 0
	for {
		line, err := rd.ReadBytes('\n')
		if len(line) > 1 {
			if idx >= from {
				var sc Scenario
				if e := json.Unmarshal(line, &sc); e != nil {
					t.Fatalf("verif-harness: scenario %d: %v", idx, e)
				}
				if sc.Runner != "" {
					r, ok := runners[sc.Runner]
					if !ok {
						t.Fatalf("verif-harness: unknown runner %q", sc.Runner)
					}
					tr.mu.Lock()
					tr.sc = sc.Sc
					tr.start = time.Time{}
					tr.mu.Unlock()
					r(t, &sc, line)
				} else {
					runScenario(t, &sc)
				}
			}
			idx++
		}
		if err != nil {
			break
		}
	}
	f.Close()
}

// watchdog runs outside any bubble on the real clock: scenarios need
// milliseconds of CPU, so no trace progress for wd means a real deadlock
// (goroutines blocked on a sync.Mutex are not durably blocked for synctest).
func watchdog(wd time.Duration) {
	last := tr.n.Load()
	lastChange := time.Now()
	for {
		time.Sleep(200 * time.Millisecond)
		cur := tr.n.Load()
		if cur != last {
			last, lastChange = cur, time.Now()
			continue
		}
		if time.Since(lastChange) < wd {
			continue
		}
		// No trace progress for wd. A real wedge under synctest always has a goroutine of the
		// bubble waiting for a sync mutex (otherwise synctest.Wait would have returned), and the
		// picture does not change: require both, so that a starved machine is never mistaken for
		// a deadlock. After two minutes without progress and without that picture: harness failure.
		a := bubbleBlocked()
		time.Sleep(time.Second)
		if tr.n.Load() != last {
			continue
		}
		b := bubbleBlocked()
		if a == "" || a != b {
			if time.Since(lastChange) > 2*time.Minute {
				fmt.Fprintf(os.Stderr, "verif-harness: no progress for 2 minutes and no mutex deadlock\n%s\n", b)
				os.Exit(5)
			}
			continue
		}
		buf := make([]byte, 4<<20)
		n := runtime.Stack(buf, true)
		fmt.Fprintf(os.Stderr, "VERIF-WEDGED\n%s\n", buf[:n])
		_, tops := census(false)
		e := ev("Wedged")
		e.Sc = tr.sc
		e.Seq = tr.seq + 1
		e.X = fmt.Sprint(tops)
		tr.emitRaw(e)
		x := ev("End")
		x.Sc = tr.sc
		x.Seq = tr.seq + 2
		tr.emitRaw(x)
		os.Exit(3)
	}
}

// bubbleBlocked returns a stable description of the goroutines waiting for a sync mutex
// ("" if there is none): goroutine id and innermost goat frame, sorted.
func bubbleBlocked() string {
	buf := make([]byte, 4<<20)
	n := runtime.Stack(buf, true)
	var out []string
	for _, g := range strings.Split(string(buf[:n]), "\n\n") {
		hdr := goroutineHdr.FindStringSubmatch(g)
		if hdr == nil || !strings.Contains(hdr[2], "Mutex.Lock") && !strings.Contains(hdr[2], "RWMutex") {
			continue
		}
		top := ""
		for _, ln := range strings.Split(g, "\n") {
			if strings.HasPrefix(ln, "github.com/avos-io/goat") {
				top = ln
				if i := strings.LastIndex(top, "("); i > 0 {
					top = top[:i]
				}
				break
			}
		}
		out = append(out, hdr[1]+":"+top)
	}
	sort.Strings(out)
	return strings.Join(out, " ")
}
