package driver

import (
	"bufio"
	"encoding/json"
	"fmt"
	"os"
	"runtime"
	"strconv"
	"testing"
	"time"

	"github.com/rs/zerolog"
)

// TestDriver executes the scenarios of $VERIF_SCEN (NDJSON, one scenario per
// line) starting at index $VERIF_FROM and appends events to $VERIF_OUT.
// Exit codes: 0 all done; 3 wedged (watchdog); 4 goroutines leaked; other = crash.
func TestDriver(t *testing.T) {
	scen := os.Getenv("VERIF_SCEN")
	out := os.Getenv("VERIF_OUT")
	if scen == "" || out == "" {
		t.Skip("VERIF_SCEN / VERIF_OUT not set")
	}
	from, _ := strconv.Atoi(os.Getenv("VERIF_FROM"))
	zerolog.SetGlobalLevel(zerolog.Disabled)
	f, err := os.OpenFile(out, os.O_CREATE|os.O_WRONLY|os.O_APPEND, 0o644)
	if err != nil {
		t.Fatal(err)
	}
	tr.f = f
	in, err := os.Open(scen)
	if err != nil {
		t.Fatal(err)
	}
	rd := bufio.NewReaderSize(in, 1<<20)

	wd := 4 * time.Second
	if v := os.Getenv("VERIF_WATCHDOG_S"); v != "" {
		n, _ := strconv.Atoi(v)
		wd = time.Duration(n) * time.Second
	}
	go watchdog(wd)

	idx := 0
	for {
		line, err := rd.ReadBytes('\n')
		if len(line) > 1 {
			if idx >= from {
				var sc Scenario
				if e := json.Unmarshal(line, &sc); e != nil {
					t.Fatalf("verif-harness: scenario %d: %v", idx, e)
				}
				if sc.Runner != "" {
					r, ok := runners[sc.Runner]
					if !ok {
						t.Fatalf("verif-harness: unknown runner %q", sc.Runner)
					}
					tr.mu.Lock()
					tr.sc = sc.Sc
					tr.start = time.Time{}
					tr.mu.Unlock()
					r(t, &sc, line)
				} else {
					runScenario(t, &sc)
				}
			}
			idx++
		}
		if err != nil {
			break
		}
	}
	f.Close()
}

// watchdog runs outside any bubble on the real clock: scenarios need
// milliseconds of CPU, so no trace progress for wd means a real deadlock
// (goroutines blocked on a sync.Mutex are not durably blocked for synctest).
func watchdog(wd time.Duration) {
	last := tr.n.Load()
	lastChange := time.Now()
	for {
		time.Sleep(200 * time.Millisecond)
		cur := tr.n.Load()
		if cur != last {
			last, lastChange = cur, time.Now()
			continue
		}
		if time.Since(lastChange) < wd {
			continue
		}
		buf := make([]byte, 4<<20)
		n := runtime.Stack(buf, true)
		fmt.Fprintf(os.Stderr, "VERIF-WEDGED\n%s\n", buf[:n])
		_, tops := census(false)
		e := ev("Wedged")
		e.Sc = tr.sc
		e.Seq = tr.seq + 1
		e.X = fmt.Sprint(tops)
		tr.emitRaw(e)
		x := ev("End")
		x.Sc = tr.sc
		x.Seq = tr.seq + 2
		tr.emitRaw(x)
		os.Exit(3)
	}
}
