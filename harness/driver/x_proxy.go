package driver

// Runner "proxy" (properties C16 and C17): a real goat.Proxy inside a synctest
// bubble. Every connection of the proxy is a scheduler-owned link (pipe.go):
//
//	peer end  --c2s-->  proxy end     (what the peer writes, the proxy's readLoop reads)
//	peer end  <--s2c--  proxy end     (what the proxy's writeLoop writes)
//
// The peer is either raw (mode "env": the scenario injects envelopes) or a real
// goat endpoint (mode "rpc": goat.ClientConn per client, goat.NewDemux keyed by
// the header source + one Server.Serve per logical connection per server name).
//
// Events (all with conn 0/1 so that the orchestrator keeps one segment):
//
//	Begin     k=fam x=mode msg=proxy name md=[{icpt,[kind,from,to]}]
//	Attach    k=name n=connection number              before Proxy.AddClient
//	PeerWrite k=name n=conn x=content token md=[rec,nxt] env   an envelope enters the proxy's read side
//	Hk        k=proxy.accept|route|drop|remove msg=id n=qlen x=source/destination/name   (library hooks)
//	PeerRead  k=name n=conn x=content token md=[rec,nxt] env   the proxy's writeLoop wrote it to the peer
//	PWFail    k=name n=conn                           the proxy's write returned an error
//	Dial      k=name n=conn res=plan(ok|err|slow|slowerr|unknown)    newConnection called
//	DialRet   k=name n=conn res=ok|err                newConnection returns
//	Fault     k=stuck|unstick|rfail|wfail n=conn      role of a peer
//	Disconnect k=name x=error                         the proxy's disconnect callback
//	Cancel                                            the proxy's context is cancelled
//	Census    n=goat goroutines in the bubble x=tops  (after Cancel: must be 0)
//	GatePark / GatePass k=gate                        the dispatcher is held / released (arm, rel steps)
//	Quiesce                                           everything is durably blocked
//	RCall     c=token k=kind x=client msg=server      an API-level call starts (then the events of client.go / svc.go)
//	Pend      c=token k=op                            API operation still pending at Quiesce
//	Unwind ... End                                    harness teardown (not judged, except Crash/Leak)
//
// The content token x is the hash of the envelope with the routing fields
// (destination, proxy_record, proxy_next) cleared: "unchanged except for routing fields".

import (
	"context"
	"encoding/json"
	"errors"
	"fmt"
	"os"
	"strings"
	"sync"
	"sync/atomic"
	"testing"
	"testing/synctest"
	"time"

	"github.com/avos-io/goat"
	"github.com/avos-io/goat/gen/goatorepo"
	"github.com/avos-io/goat/verifhook"
	"google.golang.org/protobuf/proto"
)

func init() { runners["proxy"] = runProxy }

type pxStep struct {
	Op     string `json:"op"`
	Name   string `json:"name,omitempty"`
	Conn   int    `json:"conn,omitempty"`   // scenario-assigned connection number (attached peers)
	Dialed string `json:"dialed,omitempty"` // or: the latest connection dialled for this name
	Env    *EnvJ  `json:"env,omitempty"`
	Rep    int    `json:"rep,omitempty"` // "w": write rep envelopes with consecutive ids
	What   string `json:"what,omitempty"`
	Nw     bool   `json:"nw,omitempty"`
	// rpc mode
	C    int    `json:"c,omitempty"`
	Cli  string `json:"cli,omitempty"`
	Kind string `json:"kind,omitempty"`
	Pay  string `json:"pay,omitempty"`
	Hp   []HOp  `json:"hp,omitempty"`
	H    *HOp   `json:"h,omitempty"`
	N    int    `json:"n,omitempty"`
	// holding the dispatcher (serveClients): gates "proxy.enqueue.window" (library hook right before the
	// enqueue), "px.icpt" (the interceptor blocks), "px.cb" (the disconnect callback blocks)
	Gate string `json:"gate,omitempty"`
	Id   uint64 `json:"id,omitempty"`
}

type pxScenario struct {
	Mode  string `json:"mode"`  // env | rpc
	ByRef bool   `json:"byref"` // the peers' links hand envelopes over by reference (in-memory transports): an empty list stays an empty list
	Px    string `json:"px"`
	Icpt  struct {
		Kind string `json:"kind"` // nil | id | rw | rej
		From string `json:"from"`
		To   string `json:"to"`
	} `json:"icpt"`
	Dial    map[string]string `json:"dial"` // dialable name -> ok | err | slow | slowerr
	Ps      []pxStep          `json:"steps"`
	Clients []struct {
		Name string `json:"name"`
		Dst  string `json:"dst"`
	} `json:"clients"`
	Servers []struct {
		Name string `json:"name"`
		Pre  bool   `json:"pre"` // attached before the traffic starts (else dialled on demand)
	} `json:"servers"`
}

// pxConn is one connection of the proxy.
type pxConn struct {
	rt   *pxRt
	hn   int
	name string
	l    *link
	wmu  sync.Mutex  // serialises the peer's writers: PeerWrite order = queue order
	deaf atomic.Bool // the connection's Read ignores its context (a blocking net.Conn framing does): only a failure of the link ends it
}

// proxy end: handed to AddClient / returned by newConnection
type pxProxyEnd struct{ c *pxConn }

func (e pxProxyEnd) Read(ctx context.Context) (*goat.Rpc, error) {
	if e.c.deaf.Load() {
		return e.c.l.srv.Read(context.Background())
	}
	return e.c.l.srv.Read(ctx)
}
func (e pxProxyEnd) Write(ctx context.Context, r *goat.Rpc) error {
	err := e.c.l.srv.Write(ctx, r)
	if err == nil {
		tr.emit(pxEnvEv("PeerRead", e.c, r))
	} else if ctx.Err() == nil {
		x := ev("PWFail")
		x.K, x.N = e.c.name, e.c.hn
		tr.emit(x)
	}
	return err
}

// peer end: used by the raw peer (scenario) or by a real goat endpoint
type pxPeerEnd struct{ c *pxConn }

func (e pxPeerEnd) Read(ctx context.Context) (*goat.Rpc, error) { return e.c.l.cli.Read(ctx) }
func (e pxPeerEnd) Write(ctx context.Context, r *goat.Rpc) error {
	e.c.wmu.Lock()
	defer e.c.wmu.Unlock()
	if ctx.Err() != nil {
		return ctx.Err()
	}
	tr.emit(pxEnvEv("PeerWrite", e.c, r))
	return e.c.l.cli.Write(ctx, r)
}

func pxEnvEv(name string, c *pxConn, r *goat.Rpc) Ev {
	e := envEv(name, 0, r)
	e.K, e.N = c.name, c.hn
	cp := proto.Clone(r).(*goat.Rpc)
	rec, nxt := []string{}, []string{}
	if cp.Header != nil {
		rec = append(rec, cp.Header.ProxyRecord...)
		nxt = append(nxt, cp.Header.ProxyNext...)
		cp.Header.Destination, cp.Header.ProxyRecord, cp.Header.ProxyNext = "", nil, nil
	}
	b, err := proto.MarshalOptions{Deterministic: true}.Marshal(cp)
	if err != nil {
		panic("verif-harness: marshal: " + err.Error())
	}
	e.X = tok(append([]byte{0}, b...)) // leading 0: always the len:hash form
	e.Md = []KV{{K: "rec", V: rec}, {K: "nxt", V: nxt}}
	return e
}

type pxRt struct {
	sc      *pxScenario
	root    context.Context
	cancel  context.CancelFunc
	pctx    context.Context // the proxy's context
	pcancel context.CancelFunc
	p       *goat.Proxy

	mu       sync.Mutex
	conns    map[int]*pxConn
	dialed   map[string]*pxConn
	nextDial int
	slow     map[string]chan struct{} // slow dials waiting for their release
	reattach map[string]int           // name -> connection number to attach in the disconnect callback
	onRoute  map[string]chan struct{} // name -> released when the interceptor sees an envelope for that name
	unwound  bool
	g        *gateTab // holds the dispatcher: arm / rel steps, GatePark / GatePass events

	// rpc mode
	w     *world
	clis  map[string]*goat.ClientConn
	srvs  []*goat.Server
	dmx   []*goat.Demux
	calls map[int]*call
}

func (rt *pxRt) newConn(name string, hn int) *pxConn {
	c := &pxConn{rt: rt, hn: hn, name: name, l: newLink(0, true, !rt.sc.ByRef, "", "", "", "")}
	rt.mu.Lock()
	rt.conns[hn] = c
	rt.mu.Unlock()
	return c
}

func (rt *pxRt) attach(name string, hn int, deaf ...bool) *pxConn {
	c := rt.newConn(name, hn)
	if len(deaf) > 0 && deaf[0] {
		c.deaf.Store(true)
	}
	e := ev("Attach")
	e.K, e.N = name, hn
	tr.emit(e)
	// AddClient never waits for anything but the table's lock: if it has not returned once everything else has come to
	// rest, it never will (a wait on a channel; a wait on the mutex makes synctest.Wait hang and the watchdog report it)
	done := make(chan struct{})
	go func() { rt.p.AddClient(name, pxProxyEnd{c}); close(done) }()
	synctest.Wait()
	select {
	case <-done:
	default:
		w := ev("Wedged")
		w.K, w.X = name, "AddClient has not returned"
		tr.emit(w)
		tr.emit(ev("End"))
		os.Exit(3)
	}
	return c
}

// attachFromCallback: AddClient called by application code running inside the proxy (the disconnect callback)
func (rt *pxRt) attachFromCallback(name string, hn int) *pxConn {
	c := rt.newConn(name, hn)
	e := ev("Attach")
	e.K, e.N = name, hn
	tr.emit(e)
	rt.p.AddClient(name, pxProxyEnd{c})
	return c
}

func (rt *pxRt) hookEmit(name string, obj any, id uint64, n int, s string) {
	if !strings.HasPrefix(name, "proxy.") {
		return // hooks of the endpoints (rpc mode) belong to other properties
	}
	e := ev("Hk")
	e.K, e.Msg, e.N, e.X = name, fmt.Sprintf("%d", id), n, s
	tr.emit(e)
}

func (rt *pxRt) intercept(h *goatorepo.RequestHeader) error {
	rt.g.gate("px.icpt", nil, 0) // application code that takes its time (arm step)
	rt.mu.Lock()
	if ch, ok := rt.onRoute[h.Destination]; ok { // "attach_on_route": a peer attaches while its first envelope is being routed
		delete(rt.onRoute, h.Destination)
		close(ch)
	}
	rt.mu.Unlock()
	switch rt.sc.Icpt.Kind {
	case "rw":
		if h.Destination == rt.sc.Icpt.From {
			h.Destination = rt.sc.Icpt.To
		}
	case "rej":
		if h.Destination == rt.sc.Icpt.From {
			return errors.New("verif: rejected by interceptor")
		}
	}
	return nil
}

// newConnection is the proxy's dial-on-demand callback.
func (rt *pxRt) newConnection(id string) (goat.RpcReadWriter, error) {
	rt.mu.Lock()
	rt.nextDial++
	hn := 100 + rt.nextDial
	plan, ok := rt.sc.Dial[id]
	if !ok {
		plan = "unknown"
	}
	var ch chan struct{}
	if strings.HasPrefix(plan, "slow") && !rt.unwound {
		ch = make(chan struct{})
		rt.slow[id] = ch
	}
	rt.mu.Unlock()
	e := ev("Dial")
	e.K, e.N, e.Res = id, hn, plan
	tr.emit(e)
	if ch != nil {
		<-ch
	}
	r := ev("DialRet")
	r.K, r.N = id, hn
	if plan == "err" || plan == "slowerr" || plan == "unknown" {
		r.Res = "err"
		tr.emit(r)
		if strings.HasSuffix(id, "-ctx") { // names ending in -ctx fail with a wrapped context error (a dial timeout)
			return nil, fmt.Errorf("dial %s: %w", id, context.DeadlineExceeded)
		}
		return nil, errors.New("verif: dial failed")
	}
	c := rt.newConn(id, hn)
	if plan == "okdeaf" { // the dialled connection's Read does not look at its context
		c.deaf.Store(true)
	}
	rt.mu.Lock()
	rt.dialed[id] = c
	rt.mu.Unlock()
	if rt.sc.Mode == "rpc" {
		rt.serveOn(c)
	}
	r.Res = "ok"
	tr.emit(r)
	return pxProxyEnd{c}, nil
}

func (rt *pxRt) onDisconnect(id string, reason error) {
	e := ev("Disconnect")
	e.K = id
	if reason != nil {
		e.X = tok([]byte(reason.Error()))
	}
	tr.emit(e)
	rt.g.gate("px.cb", nil, 0) // application code that takes its time (arm step)
	rt.mu.Lock()
	hn, ok := rt.reattach[id]
	delete(rt.reattach, id)
	un := rt.unwound
	rt.mu.Unlock()
	if ok && !un {
		rt.attachFromCallback(id, hn)
	}
}

func (rt *pxRt) connOf(st pxStep) *pxConn {
	rt.mu.Lock()
	defer rt.mu.Unlock()
	var c *pxConn
	if st.Dialed != "" {
		c = rt.dialed[st.Dialed]
	} else {
		c = rt.conns[st.Conn]
	}
	return c
}

// serveOn starts the server side of a shared connection: Demux keyed by the
// header source, one Serve per logical (per-client) connection.
func (rt *pxRt) serveOn(c *pxConn) {
	var srv *goat.Server
	for _, s := range rt.srvs {
		if s != nil && rt.srvName(s) == c.name {
			srv = s
		}
	}
	if srv == nil {
		panic("verif-harness: no server named " + c.name)
	}
	dm := goat.NewDemux(rt.root, pxPeerEnd{c},
		func(r *goat.Rpc) string { return r.GetHeader().GetSource() },
		func(rw goat.RpcReadWriter) { srv.Serve(rt.root, rw) })
	rt.mu.Lock()
	rt.dmx = append(rt.dmx, dm)
	rt.mu.Unlock()
	go dm.Run()
}

var pxSrvNames sync.Map // *goat.Server -> name (Server does not expose its id)

func (rt *pxRt) srvName(s *goat.Server) string {
	v, _ := pxSrvNames.Load(s)
	n, _ := v.(string)
	return n
}

func (rt *pxRt) step(st pxStep) {
	switch st.Op {
	case "attach":
		c := rt.attach(st.Name, st.Conn, st.What == "deaf")
		if rt.sc.Mode == "rpc" { // a server (re)starts and attaches again under its name
			for _, s := range rt.srvs {
				if rt.srvName(s) == st.Name {
					rt.serveOn(c)
					break
				}
			}
		}
	case "attach_on_route":
		// AddClient(Name, connection Conn) runs in a goroutine of its own, started by the interceptor when the first
		// envelope for Name is on its way through forwardRpc: an application's accept path racing the dispatcher
		ch := make(chan struct{})
		rt.mu.Lock()
		if rt.onRoute == nil {
			rt.onRoute = map[string]chan struct{}{}
		}
		rt.onRoute[st.Name] = ch
		rt.mu.Unlock()
		go func() {
			select {
			case <-ch:
			case <-rt.root.Done():
				return
			}
			c := rt.newConn(st.Name, st.Conn)
			e := ev("Attach")
			e.K, e.N, e.Res = st.Name, st.Conn, "async"
			tr.emit(e)
			rt.p.AddClient(st.Name, pxProxyEnd{c})
			e.Ev = "AttachRet"
			tr.emit(e)
		}()
	case "arm":
		rt.g.arm(st.Gate, st.Id, st.N)
	case "rel":
		rt.g.release(st.Gate, st.Id)
	case "reattach_cb": // attach connection Conn under Name inside the next disconnect callback for Name
		rt.mu.Lock()
		rt.reattach[st.Name] = st.Conn
		rt.mu.Unlock()
	case "w":
		c := rt.connOf(st)
		if c == nil {
			// the peer was never dialled (e.g. the dial failed): nothing to write
			return
		}
		n := st.Rep
		if n == 0 {
			n = 1
		}
		for i := 0; i < n; i++ {
			r := st.Env.rpc()
			r.Id += uint64(i)
			pxPeerEnd{c}.Write(context.Background(), r)
		}
	case "fault":
		c := rt.connOf(st)
		if c == nil {
			return
		}
		e := ev("Fault")
		e.K, e.N = st.What, c.hn
		switch st.What {
		case "stuck":
			c.l.s2c.with(func() { tr.emit(e); c.l.s2c.stuck = true })
		case "unstick":
			c.l.s2c.with(func() { tr.emit(e); c.l.s2c.stuck, c.l.s2c.wpass = false, 0 })
		case "pass": // a stuck peer takes exactly one more envelope
			c.l.s2c.with(func() { tr.emit(e); c.l.s2c.wpass++ })
		case "rfail":
			c.l.c2s.with(func() { tr.emit(e); c.l.c2s.rerr = errInjected })
		case "wfail":
			c.l.s2c.with(func() { tr.emit(e); c.l.s2c.werr = errInjected })
		case "wfaildeaf": // writes fail while the reader sits in a Read that does not look at its context (attach ... deaf)
			e.K = "wfail"
			c.l.s2c.with(func() { tr.emit(e); c.l.s2c.werr = errInjected })
		case "rfailctx": // the same failures with errors that wrap a context error (a websocket bound to a request context ...)
			e.K = "rfail"
			c.l.c2s.with(func() { tr.emit(e); c.l.c2s.rerr = fmt.Errorf("read: %w", context.Canceled) })
		case "wfailctx":
			e.K = "wfail"
			c.l.s2c.with(func() { tr.emit(e); c.l.s2c.werr = fmt.Errorf("write: %w", context.DeadlineExceeded) })
		case "rfailtmp":
			e.K = "rfail"
			c.l.c2s.with(func() { tr.emit(e); c.l.c2s.rerr = errTemporary{} })
		default:
			panic("verif-harness: unknown fault " + st.What)
		}
	case "reldial":
		rt.mu.Lock()
		ch := rt.slow[st.Name]
		delete(rt.slow, st.Name)
		rt.mu.Unlock()
		if ch != nil {
			close(ch)
		}
	case "cancel":
		tr.emit(ev("Cancel"))
		rt.pcancel()
	case "census":
		n, tops := census(true)
		e := ev("Census")
		e.N, e.X = n, strings.Join(tops, " ")
		tr.emit(e)
	case "q":
		rt.quiesce()
	case "adv":
		time.Sleep(time.Duration(st.N) * time.Millisecond)
	// ---- rpc mode ----
	case "ucall", "sopen":
		s := Step{Op: st.Op, C: st.C, Conn: 1, Kind: st.Kind, Pay: st.Pay}
		cl := newCall(rt.root, s)
		rt.calls[st.C] = cl
		rt.w.queue(st.C)
		rt.w.push(st.C, st.Hp...)
		e := ev("RCall")
		e.C, e.Conn, e.K, e.X, e.Msg = st.C, 1, st.Kind, st.Cli, st.Name
		if st.Op == "ucall" {
			e.K = "unary"
		}
		tr.emit(e)
		cc := rt.clis[st.Cli]
		if cc == nil {
			panic("verif-harness: unknown client " + st.Cli)
		}
		if st.Op == "ucall" {
			go cl.runUnary(cc, s)
		} else {
			go cl.runStream(cc, s)
		}
	case "send":
		rt.calls[st.C].sendQ <- cop{"send", st.Pay}
	case "close":
		rt.calls[st.C].sendQ <- cop{"close", ""}
	case "recv":
		n := st.N
		if n == 0 {
			n = 1
		}
		for i := 0; i < n; i++ {
			rt.calls[st.C].recvQ <- cop{"recv", ""}
		}
	case "hop":
		rt.w.push(st.C, *st.H)
	case "hops":
		rt.w.push(st.C, st.Hp...)
	default:
		panic("verif-harness: unknown proxy op " + st.Op)
	}
}

func (rt *pxRt) quiesce() {
	for _, c := range sortedKeys(rt.calls) {
		cl := rt.calls[c]
		cl.mu.Lock()
		for _, op := range []string{"unary", "open", "send", "close", "recv"} {
			if cl.pend[op] > 0 {
				e := cl.base("Pend")
				e.K = op
				tr.emit(e)
			}
		}
		cl.mu.Unlock()
	}
	tr.emit(ev("Quiesce"))
}

func (rt *pxRt) unwind() {
	tr.emit(ev("Unwind"))
	rt.mu.Lock()
	rt.unwound = true
	rt.g.releaseAll()
	for k, ch := range rt.slow {
		close(ch)
		delete(rt.slow, k)
	}
	rt.mu.Unlock()
	for _, c := range sortedKeys(rt.calls) {
		rt.calls[c].cancel()
	}
	if rt.w != nil {
		rt.w.closeAll()
	}
	synctest.Wait()
	for _, c := range sortedKeys(rt.calls) {
		close(rt.calls[c].sendQ)
		close(rt.calls[c].recvQ)
	}
	fail := func() {
		rt.mu.Lock()
		cs := make([]*pxConn, 0, len(rt.conns))
		for _, c := range rt.conns {
			cs = append(cs, c)
		}
		rt.mu.Unlock()
		for _, c := range cs {
			for _, p := range []*pipe{c.l.c2s, c.l.s2c} {
				p.with(func() { p.rerr, p.werr, p.stuck = errInjected, errInjected, false })
			}
		}
	}
	fail()
	for _, d := range rt.dmx {
		d.Stop()
	}
	for _, s := range rt.srvs {
		s.Stop()
		pxSrvNames.Delete(s)
	}
	rt.pcancel()
	rt.cancel()
	synctest.Wait()
	fail() // connections dialled during the unwind
	// The unfixed proxy leaves its peer loops blocked in a bare send on the
	// commands channel once serveClients has returned (D13, judged by the
	// Census event of the C17 scenarios). synctest requires every goroutine of
	// the bubble to exit, so drain them: Serve() on the cancelled context
	// receives a few commands and returns.
	for i := 0; i < 2000; i++ {
		if n, _ := census(true); n == 0 {
			break
		}
		rt.p.Serve()
		synctest.Wait()
		if i%50 == 49 {
			time.Sleep(time.Second)
		}
	}
	time.Sleep(40 * time.Second)
	synctest.Wait()
}

func runProxy(t *testing.T, sc *Scenario, raw []byte) {
	var ps pxScenario
	if err := json.Unmarshal(raw, &ps); err != nil {
		t.Fatalf("verif-harness: proxy scenario: %v", err)
	}
	if ps.Px == "" {
		ps.Px = "px"
	}
	if ps.Mode == "" {
		ps.Mode = "env"
	}
	synctest.Test(t, func(t *testing.T) {
		rt := &pxRt{sc: &ps, conns: map[int]*pxConn{}, dialed: map[string]*pxConn{}, slow: map[string]chan struct{}{},
			reattach: map[string]int{}, g: &gateTab{armed: map[string][]*armed{}}, clis: map[string]*goat.ClientConn{}, calls: map[int]*call{}}
		rt.root, rt.cancel = context.WithCancel(context.Background())
		rt.pctx, rt.pcancel = context.WithCancel(rt.root)
		tr.mu.Lock()
		tr.start = time.Now()
		tr.mu.Unlock()
		verifhook.Install(&verifhook.Hooks{Emit: rt.hookEmit, Gate: rt.g.gate})
		b := ev("Begin")
		b.K, b.X, b.Msg, b.N = sc.Fam, ps.Mode, ps.Px, 1
		b.Md = []KV{{K: "icpt", V: []string{ps.Icpt.Kind, ps.Icpt.From, ps.Icpt.To}}}
		tr.emit(b)

		var icpt goat.RpcIntercepter
		if ps.Icpt.Kind != "" && ps.Icpt.Kind != "nil" {
			icpt = rt.intercept
		}
		rt.p = goat.NewProxy(rt.pctx, ps.Px, rt.newConnection, icpt, rt.onDisconnect)
		go rt.p.Serve()

		if ps.Mode == "rpc" {
			rt.w = newWorld()
			hn := 0
			for _, s := range ps.Servers {
				srv := goat.NewServer(s.Name)
				srv.RegisterService(rt.w.serviceDesc(), nil)
				pxSrvNames.Store(srv, s.Name)
				rt.srvs = append(rt.srvs, srv)
				if s.Pre {
					hn++
					c := rt.attach(s.Name, hn)
					rt.serveOn(c)
				}
			}
			for _, c := range ps.Clients {
				hn++
				pc := rt.attach(c.Name, hn)
				rt.clis[c.Name] = goat.NewClientConn(pxPeerEnd{pc}, c.Name, c.Dst)
			}
		}
		synctest.Wait()
		for _, st := range ps.Ps {
			rt.step(st)
			if !st.Nw {
				synctest.Wait()
			}
		}
		synctest.Wait()
		rt.unwind()
		verifhook.Install(nil)
		if n, tops := census(true); n > 0 {
			l := ev("Leak")
			l.N, l.X = n, strings.Join(tops, " ")
			tr.emit(l)
			tr.emit(ev("End"))
			os.Exit(4)
		}
		tr.emit(ev("End"))
	})
}
