package driver

// Runner "timeout" (property C08): timeout header grammar and deadline
// propagation, recorded from the real library for spec/TimeoutTrace.tla.
//
// A scenario is a batch of steps, executed one after the other in one synctest
// bubble (virtual clock: every duration below is exact):
//
//	{op:"parse", what:<header value>, pay:<header key>, kind:unary|bidi|cs|ss}
//	    1. goat.VerifParseGrpcTimeout(what)                       -> Parse line, msg="hook"
//	    2. a raw client envelope {pay: what} into a real goat.Server over a
//	       scheduler-owned link; the handler reads its context    -> Parse line, msg=kind
//	{op:"prop", what:"dl"|"none", to:<caller timeout ns>, ms:<ns slept between creating the
//	 context and calling>, n:<transit ns>, kind:...}
//	    a real goat.ClientConn calls a real goat.Server; the request is held in
//	    the pipe while the virtual clock advances by the transit time
//	                                                              -> PCall, PWire, Prop lines
//
// On every line msg is "hook" or the kind of call and k is msg#<step index>
// (a label: the orchestrator groups rejections by it).
// TLC has 32-bit integers and cannot index strings, so
//   - a duration is logged as sign (code: 1 = negative), hours (h), seconds
//     within the hour (t) and nanoseconds within the second (n);
//   - header keys and values are logged byte by byte (md entries "key", "in");
//   - c is the virtual time of the line in microseconds since the scenario began.
//
// The harness classifies nothing: whether an input is well formed, what it
// means and whether the observed result is right is decided by the specification.

import (
	"context"
	"encoding/json"
	"fmt"
	"strconv"
	"sync"
	"testing"
	"testing/synctest"
	"time"

	"github.com/avos-io/goat"
	"github.com/avos-io/goat/gen/goatorepo"
	"github.com/avos-io/goat/verifhook"
	"google.golang.org/grpc"
	"google.golang.org/grpc/metadata"
	"google.golang.org/protobuf/types/known/wrapperspb"
)

func init() { runners["timeout"] = runTimeout }

const tmSvc = "verif.Timeout"

type tmStep struct {
	Op   string `json:"op"`
	What string `json:"what"`
	Pay  string `json:"pay"`
	Kind string `json:"kind"`
	To   int64  `json:"to"`
	Ms   int64  `json:"ms"`
	N    int64  `json:"n"`
}

type tmScenario struct {
	Fam   string   `json:"fam"`
	Steps []tmStep `json:"steps"`
}

// tmWorld is the state shared by the driver, the transports and the handlers
// of one scenario.
type tmWorld struct {
	t0      time.Time
	mu      sync.Mutex
	cur     map[int]tmStep // step index -> step, for the handler's log line
	started map[int]bool   // step index -> its handler ran
}

func (w *tmWorld) nowUs() int { return int(time.Since(w.t0) / time.Microsecond) }

// chars spells a string byte by byte: ASCII bytes as one-character strings,
// others as "xNN" (never equal to a digit or a unit letter).
func chars(s string) []string {
	out := make([]string, 0, len(s))
	for i := 0; i < len(s); i++ {
		if b := s[i]; b < 0x80 {
			out = append(out, string(rune(b)))
		} else {
			out = append(out, fmt.Sprintf("x%02x", b))
		}
	}
	return out
}

// setDur stores a duration in the line: sign, hours, seconds, nanoseconds.
func setDur(e *Ev, ns int64) {
	u := uint64(ns)
	e.Code = 0
	if ns < 0 {
		e.Code = 1
		u = uint64(-(ns + 1)) + 1
	}
	const hour = uint64(time.Hour)
	e.H = int(u / hour)
	e.T = int(u % hour / uint64(time.Second))
	e.N = int(u % uint64(time.Second))
}

// observe logs what a handler sees: its deadline or the absence of one.
func (w *tmWorld) observe(ctx context.Context, kind string) {
	md, _ := metadata.FromIncomingContext(ctx)
	idx := -1
	if v := md.Get(tokenKey); len(v) == 1 {
		idx, _ = strconv.Atoi(v[0])
	}
	w.mu.Lock()
	st, ok := w.cur[idx]
	w.started[idx] = true
	w.mu.Unlock()
	if !ok {
		panic(fmt.Sprintf("verif-harness: handler for unknown step %d", idx))
	}
	name := "Parse"
	if st.Op == "prop" {
		name = "Prop"
	}
	e := ev(name)
	e.Msg, e.K, e.C, e.X = kind, fmt.Sprintf("%s#%d", kind, idx), w.nowUs(), tok([]byte(st.What))
	e.Code = 0
	if d, has := ctx.Deadline(); has {
		e.Res = "dl"
		setDur(&e, int64(time.Until(d)))
	} else {
		e.Res = "nodl"
	}
	if st.Op == "parse" {
		e.Md = []KV{{K: "key", V: chars(st.Pay)}, {K: "in", V: chars(st.What)}}
	}
	tr.emit(e)
}

func (w *tmWorld) unary(srv any, ctx context.Context, dec func(any) error, _ grpc.UnaryServerInterceptor) (any, error) {
	w.observe(ctx, "unary")
	return &wrapperspb.BytesValue{}, nil
}

func (w *tmWorld) stream(kind string) grpc.StreamHandler {
	return func(srv any, ss grpc.ServerStream) error {
		w.observe(ss.Context(), kind)
		return nil
	}
}

func (w *tmWorld) desc() *grpc.ServiceDesc {
	return &grpc.ServiceDesc{
		ServiceName: tmSvc,
		HandlerType: (*any)(nil),
		Methods:     []grpc.MethodDesc{{MethodName: "Unary", Handler: w.unary}},
		Streams: []grpc.StreamDesc{
			{StreamName: "Bidi", Handler: w.stream("bidi"), ServerStreams: true, ClientStreams: true},
			{StreamName: "CS", Handler: w.stream("cs"), ClientStreams: true},
			{StreamName: "SS", Handler: w.stream("ss"), ServerStreams: true},
		},
	}
}

func tmMethod(kind string) (string, *grpc.StreamDesc) {
	switch kind {
	case "unary":
		return "/" + tmSvc + "/Unary", nil
	case "bidi":
		return "/" + tmSvc + "/Bidi", &grpc.StreamDesc{StreamName: "Bidi", ServerStreams: true, ClientStreams: true}
	case "cs":
		return "/" + tmSvc + "/CS", &grpc.StreamDesc{StreamName: "CS", ClientStreams: true}
	case "ss":
		return "/" + tmSvc + "/SS", &grpc.StreamDesc{StreamName: "SS", ServerStreams: true}
	}
	panic("verif-harness: unknown kind " + kind)
}

// tmConn is one client/server connection over a scheduler-owned link. The
// request direction is released by the driver, the response direction flows.
type tmConn struct {
	l      *link
	srv    *goat.Server
	ctx    context.Context
	cancel context.CancelFunc
}

func (w *tmWorld) connect() *tmConn {
	c := &tmConn{l: newLink(1, false, true, "", "", "", "")}
	c.l.s2c.auto = true
	c.ctx, c.cancel = context.WithCancel(context.Background())
	c.srv = goat.NewServer("srv")
	c.srv.RegisterService(w.desc(), nil)
	go c.srv.Serve(c.ctx, c.l.srv)
	synctest.Wait()
	return c
}

// close fails both directions (the client's read loop ends only with its
// transport), stops the server and waits for every goroutine to settle.
func (c *tmConn) close() {
	for _, p := range []*pipe{c.l.c2s, c.l.s2c} {
		p.with(func() { p.rerr, p.werr = errInjected, errInjected })
	}
	c.srv.Stop()
	c.cancel()
	synctest.Wait()
}

// release hands the next n queued requests to the server (-1: all from now on).
func (c *tmConn) release(n int) {
	p := c.l.c2s
	p.with(func() {
		if n < 0 {
			p.auto = true
		} else {
			p.credits += n
		}
	})
	synctest.Wait()
}

// ---- parser vectors ---------------------------------------------------------

func (w *tmWorld) parseHook(idx int, st tmStep) {
	e := ev("Parse")
	e.Msg, e.K, e.C, e.X = "hook", fmt.Sprintf("hook#%d", idx), w.nowUs(), tok([]byte(st.What))
	e.Md = []KV{{K: "key", V: []string{}}, {K: "in", V: chars(st.What)}}
	e.Code = 0
	ns, ok := goat.VerifParseGrpcTimeout(st.What)
	if ok {
		e.Res = "dl"
		setDur(&e, ns)
	} else {
		e.Res = "nodl"
	}
	tr.emit(e)
}

// parseWire sends the header as a foreign peer would: a raw envelope whose
// header list carries the key exactly as spelled in the scenario.
func (w *tmWorld) parseWire(c *tmConn, idx int, st tmStep) {
	m, sd := tmMethod(st.Kind)
	r := &goat.Rpc{
		Id: uint64(idx + 1),
		Header: &goatorepo.RequestHeader{
			Method: m, Source: "cli", Destination: "srv",
			Headers: []*goatorepo.KeyValue{
				{Key: tokenKey, Value: strconv.Itoa(idx)},
				{Key: st.Pay, Value: st.What},
			},
		},
	}
	if sd == nil {
		r.Body = &goatorepo.Body{Data: []byte{}}
	}
	c.l.c2s.inject(r)
	c.release(1)
}

// ---- propagation runs ---------------------------------------------------------

// tmClientEnd is the client's transport. It does not look at the caller's
// context (a transport need not), so that a call whose deadline has already
// passed still reaches the wire; the write is logged where it happens.
type tmClientEnd struct {
	junk  string // a malformed timeout value the caller's metadata carries (not logged as the library's header)
	w     *tmWorld
	l     *link
	wrote bool
}

func (t *tmClientEnd) Read(ctx context.Context) (*goat.Rpc, error) { return t.l.s2c.Read(ctx) }

func (t *tmClientEnd) Write(ctx context.Context, r *goat.Rpc) error {
	if !t.wrote {
		// the first envelope of the connection is the request that opens the call
		t.wrote = true
		e := ev("PWire")
		e.C, e.Code = t.w.nowUs(), 0
		n := 0
		junk := t.junk
		for _, kv := range r.GetHeader().GetHeaders() {
			if lowerASCII(kv.GetKey()) != timeoutKey {
				continue
			}
			if junk != "" && kv.GetValue() == junk { // the malformed entry the caller's own metadata carries: not the library's
				junk = ""
				continue
			}
			if n++; n == 1 {
				e.Md = []KV{{K: "key", V: chars(kv.GetKey())}, {K: "in", V: chars(kv.GetValue())}}
				e.X = tok([]byte(kv.GetValue()))
			}
		}
		e.N = n
		tr.emit(e)
	}
	return t.l.c2s.Write(context.Background(), r)
}

func lowerASCII(s string) string {
	b := []byte(s)
	for i, c := range b {
		if 'A' <= c && c <= 'Z' {
			b[i] = c + 'a' - 'A'
		}
	}
	return string(b)
}

func (w *tmWorld) prop(idx int, st tmStep) {
	c := w.connect()
	cc := goat.NewClientConn(&tmClientEnd{w: w, l: c.l, junk: st.Pay}, "cli", "srv")
	ctx := metadata.AppendToOutgoingContext(c.ctx, tokenKey, strconv.Itoa(idx))
	if st.Pay != "" {
		// the application (or an interceptor) has put something under the timeout key that is not wire format:
		// it is ignored, the caller's deadline still reaches the handler
		ctx = metadata.AppendToOutgoingContext(ctx, []string{"grpc-timeout", "GRPC-Timeout", "Grpc-Timeout"}[idx%3], st.Pay)
	}
	cancel := context.CancelFunc(func() {})
	if st.What == "dl" {
		ctx, cancel = context.WithTimeout(ctx, time.Duration(st.To))
	}
	if st.Ms > 0 {
		time.Sleep(time.Duration(st.Ms))
	}
	e := ev("PCall")
	e.Msg, e.K, e.C, e.Code, e.Res = st.Kind, fmt.Sprintf("%s#%d", st.Kind, idx), w.nowUs(), 0, "nodl"
	if d, ok := ctx.Deadline(); ok {
		e.Res = "dl"
		setDur(&e, int64(time.Until(d)))
	}
	tr.emit(e)
	m, sd := tmMethod(st.Kind)
	done := make(chan struct{})
	go func() {
		defer close(done)
		if sd == nil {
			cc.Invoke(ctx, m, &wrapperspb.BytesValue{}, new(wrapperspb.BytesValue))
		} else {
			cc.NewStream(ctx, sd, m)
		}
	}()
	synctest.Wait() // the request is written and held in the pipe
	if st.N > 0 {
		time.Sleep(time.Duration(st.N)) // transit: the virtual clock advances
	}
	c.release(1)
	w.mu.Lock()
	ran := w.started[idx]
	w.mu.Unlock()
	if !ran {
		panic(fmt.Sprintf("verif-harness: step %d: the request was delivered but no handler started", idx))
	}
	c.release(-1)
	cancel()
	c.close()
	<-done
}

// ---- runner -------------------------------------------------------------------

func runTimeout(t *testing.T, sc *Scenario, raw []byte) {
	var ts tmScenario
	if err := json.Unmarshal(raw, &ts); err != nil {
		t.Fatalf("verif-harness: timeout scenario: %v", err)
	}
	synctest.Test(t, func(t *testing.T) {
		verifhook.Install(nil)
		w := &tmWorld{t0: time.Now(), cur: map[int]tmStep{}, started: map[int]bool{}}
		b := ev("Begin")
		b.K, b.N = ts.Fam, 1
		tr.emit(b)
		var pc *tmConn // shared by the parser vectors of the batch
		for i, st := range ts.Steps {
			w.mu.Lock()
			w.cur[i] = st
			w.mu.Unlock()
			switch st.Op {
			case "parse":
				w.parseHook(i, st)
				if pc == nil {
					pc = w.connect()
				}
				w.parseWire(pc, i, st)
				w.mu.Lock()
				ran := w.started[i]
				w.mu.Unlock()
				if !ran {
					panic(fmt.Sprintf("verif-harness: step %d: no handler started for the raw request", i))
				}
			case "prop":
				w.prop(i, st)
			default:
				panic("verif-harness: unknown timeout op " + st.Op)
			}
		}
		if pc != nil {
			pc.close()
		}
		tr.emit(ev("End"))
	})
}
