package driver

// C19 - the transports shipped with the library (runner "transport").
//
// Sub-kinds (scenario field "kind"):
//
//	channel    goat.NewGoatOverChannel pair, inside a synctest bubble
//	websocket  goat.NewGoatOverWebsocket on both ends of a real loopback
//	           connection (httptest server + websocket.Accept / websocket.Dial),
//	           real time; a raw peer can write text frames / arbitrary bytes
//	           through the underlying *websocket.Conn
//	http       one GoatOverHttp with a clockwork fake clock inside a synctest
//	           bubble; ServeHTTP is called directly with crafted requests (a
//	           panic in it kills the worker process: Crash line), Read / ctx /
//	           cleaner ticks (fakeClock.Advance) / gate http.serve.window
//	httploop   two GoatOverHttp instances behind httptest loopback servers,
//	           real time: Write on one is a POST into the other's ServeHTTP
//
// The runner executes a script of steps; Read / Write calls run on one reader
// and one writer goroutine per end (so at most one Read and one Write are
// outstanding per end, and write order is program order).  Events:
//
//	WS/W/WErr   write started / returned nil / returned an error   (c = op id, k = end, h = http conn, pay = digest)
//	RS/R/RErr   read started / returned a value / returned an error
//	RawIn       raw bytes written below the envelope layer (res = wf|bad|text)
//	HS/Http     ServeHTTP called with a request of class res / returned status code
//	Conn        GoatOverHttp handed out a connection (onConnect / NewConnection)
//	CtxDone     the context of op c is cancelled (logged BEFORE cancel())
//	Tick        the fake clock is advanced by n seconds (logged before Advance)
//	Pend*, Quiesce   operations still pending at quiescence, with their ctx state
//	Alive       the runner is waiting (keeps the wedge watchdog quiet, no meaning)
//	NoConn / RawFail / Crash   GoatOverHttp never announced a connection / the raw
//	            peer found the connection closed / ServeHTTP panicked behind
//	            net/http's recover: none of them has an action in the specification
//
// The digest is SHA-256 over the deterministic protobuf encoding, computed
// here for the value handed to Write and for the value returned by Read.

import (
	"bytes"
	"context"
	"crypto/sha256"
	"encoding/hex"
	"encoding/json"
	"errors"
	"fmt"
	"io"
	"math/rand"
	"net/http"
	"net/http/httptest"
	"sort"
	"strings"
	"sync"
	"sync/atomic"
	"testing"
	"testing/synctest"
	"time"

	"github.com/avos-io/goat"
	"github.com/avos-io/goat/gen/goatorepo"
	"github.com/avos-io/goat/verifhook"
	"github.com/coder/websocket"
	"github.com/jonboulle/clockwork"
	"google.golang.org/protobuf/proto"
	"google.golang.org/protobuf/types/known/anypb"
	"google.golang.org/protobuf/types/known/wrapperspb"
)

func init() { runners["transport"] = runTransport }

// ---- scenario -----------------------------------------------------------------

// tVal describes one envelope value; the content is derived from the seed.
type tVal struct {
	Id   uint64 `json:"id"`
	P    int    `json:"p"`    // presence: 1 header, 2 body, 4 status, 8 trailer, 16 reset
	Bl   int    `json:"bl"`   // body length in bytes
	Seed int64  `json:"seed"` // content seed
	Str  int    `json:"str"`  // string flavour: 0 ascii, 1 non-ASCII, 2 empty, 3 long non-ASCII
	Nkv  int    `json:"nkv"`  // header / trailer key-values (keys repeat)
	Nrec int    `json:"nrec"` // proxy_record entries
	Nnxt int    `json:"nnxt"` // proxy_next entries
	Ndet int    `json:"ndet"` // status details
	Code int32  `json:"code"`
	Src  string `json:"src"` // header source ("" = none)
}

// tRaw describes raw transport input.
type tRaw struct {
	Typ  string `json:"typ"`  // bin | text
	Mode string `json:"mode"` // rand (n random bytes) | mut (mutated encoding of base) | valid (encoding of base)
	N    int    `json:"n"`
	Seed int64  `json:"seed"`
	Muts int    `json:"muts"`
	Base *tVal  `json:"base"`
}

type tStep struct {
	Op      string `json:"op"`
	Id      int    `json:"id"`
	End     string `json:"end"`  // stream kinds: a|b; http kinds: instance A|B
	Addr    string `json:"addr"` // http kinds: name of the connection's address
	V       *tVal  `json:"v"`
	Raw     *tRaw  `json:"raw"`
	Shape   string `json:"shape"` // hs: nobody | unreadable | raw | val
	Ids     []int  `json:"ids"`
	Ms      int    `json:"ms"`
	S       int    `json:"s"` // tick: seconds
	Gate    string `json:"gate"`
	Gid     uint64 `json:"gid"`     // gate id: the envelope id of the request to park
	Pre     bool   `json:"pre"`     // the context is already done when the call is made
	Src     string `json:"src"`     // burst: the (fresh) source of the simultaneous first requests
	Dial    bool   `json:"dial"`    // burst: NewConnection(address of src) races the requests
	Unsized bool   `json:"unsized"` // hs: the request body has no announced length (chunked): ContentLength -1
	Lane    int    `json:"lane"`    // w: writer goroutine of that end (0 = the end's one sequential writer); writes of different lanes overlap
}

type tScen struct {
	Kind      string  `json:"kind"`
	Cap       int     `json:"cap"`
	Compress  bool    `json:"compress"`
	TimeoutS  int     `json:"timeout_s"`
	IntervalS int     `json:"interval_s"`
	AutoRead  bool    `json:"autoread"` // every connection GoatOverHttp hands out gets a reader loop at once
	Steps     []tStep `json:"steps"`
}

// ---- values, raw inputs, digests ------------------------------------------------

var tStrPool = []string{"héllo wörld", "日本語のテキスト", "🐐 goat ✓", "Ünï\u0000cödé", "ñ", "‍́a", "Ελληνικά", "a b\tc\nd"}

func tStr(rng *rand.Rand, flavour int) string {
	switch flavour {
	case 2:
		return ""
	case 1:
		return tStrPool[rng.Intn(len(tStrPool))] + fmt.Sprintf("-%d", rng.Intn(1000))
	case 3:
		var sb strings.Builder
		for sb.Len() < 4096 {
			sb.WriteString(tStrPool[rng.Intn(len(tStrPool))])
		}
		return sb.String()
	}
	return fmt.Sprintf("s%x", rng.Int63())
}

func tKVs(rng *rand.Rand, n, flavour int) []*goatorepo.KeyValue {
	var out []*goatorepo.KeyValue
	for i := 0; i < n; i++ {
		k := fmt.Sprintf("k%d", i%((n+1)/2)) // keys repeat
		if flavour == 1 && i%3 == 2 {
			k = "clé-" + k
		}
		out = append(out, &goatorepo.KeyValue{Key: k, Value: tStr(rng, flavour)})
	}
	return out
}

func (v *tVal) build() *goat.Rpc {
	rng := rand.New(rand.NewSource(v.Seed))
	r := &goat.Rpc{Id: v.Id}
	if v.P&1 != 0 {
		h := &goatorepo.RequestHeader{Method: "/svc/" + tStr(rng, v.Str), Source: v.Src, Destination: tStr(rng, v.Str)}
		h.Headers = tKVs(rng, v.Nkv, v.Str)
		for i := 0; i < v.Nrec; i++ {
			h.ProxyRecord = append(h.ProxyRecord, tStr(rng, v.Str))
		}
		for i := 0; i < v.Nnxt; i++ {
			h.ProxyNext = append(h.ProxyNext, tStr(rng, v.Str))
		}
		r.Header = h
	}
	if v.P&2 != 0 {
		data := make([]byte, v.Bl)
		rng.Read(data)
		r.Body = &goatorepo.Body{Data: data}
	}
	if v.P&4 != 0 {
		st := &goatorepo.ResponseStatus{Code: v.Code, Message: tStr(rng, v.Str)}
		for i := 0; i < v.Ndet; i++ {
			a, _ := anypb.New(wrapperspb.String(tStr(rng, v.Str)))
			st.Details = append(st.Details, a)
		}
		r.Status = st
	}
	if v.P&8 != 0 {
		r.Trailer = &goatorepo.Trailer{Metadata: tKVs(rng, v.Nkv, v.Str)}
	}
	if v.P&16 != 0 {
		r.Reset_ = &goatorepo.Reset{Type: tStr(rng, v.Str)}
	}
	return r
}

// tDigest is the (trusted) equality token of an envelope value.
func tDigest(m *goat.Rpc) string {
	if m == nil {
		return "nil"
	}
	b, err := proto.MarshalOptions{Deterministic: true}.Marshal(m)
	if err != nil {
		return "unencodable"
	}
	h := sha256.Sum256(b)
	return fmt.Sprintf("%d:%s", len(b), hex.EncodeToString(h[:8]))
}

func tBytesDigest(b []byte) string {
	h := sha256.Sum256(b)
	return fmt.Sprintf("raw%d:%s", len(b), hex.EncodeToString(h[:8]))
}

func (x *tRaw) build() []byte {
	rng := rand.New(rand.NewSource(x.Seed))
	if x.Mode == "rand" {
		b := make([]byte, x.N)
		rng.Read(b)
		return b
	}
	b, err := proto.Marshal(x.Base.build())
	if err != nil {
		panic("verif-harness: cannot encode base value: " + err.Error())
	}
	if x.Mode == "valid" {
		return b
	}
	for i := 0; i < x.Muts; i++ {
		if len(b) == 0 {
			b = []byte{byte(rng.Intn(256))}
			continue
		}
		switch rng.Intn(6) {
		case 0: // flip a byte
			b[rng.Intn(len(b))] ^= byte(1 + rng.Intn(255))
		case 1: // truncate
			b = b[:rng.Intn(len(b))]
		case 2: // delete a range
			i, n := rng.Intn(len(b)), 1+rng.Intn(8)
			if i+n > len(b) {
				n = len(b) - i
			}
			b = append(b[:i:i], b[i+n:]...)
		case 3: // insert random bytes
			i := rng.Intn(len(b) + 1)
			ins := make([]byte, 1+rng.Intn(8))
			rng.Read(ins)
			b = append(b[:i:i], append(ins, b[i:]...)...)
		case 4: // duplicate a slice
			i := rng.Intn(len(b))
			j := i + rng.Intn(len(b)-i)
			b = append(b[:j:j], append(append([]byte{}, b[i:j]...), b[j:]...)...)
		case 5: // oversize a length / varint
			b[rng.Intn(len(b))] = 0xff
		}
	}
	return b
}

// tClassifyRaw decides well-formedness of raw bytes the way the property words
// it: "undecodable bytes" = proto.Unmarshal fails.
func tClassifyRaw(data []byte) (*goat.Rpc, bool) {
	var m goat.Rpc
	if err := proto.Unmarshal(data, &m); err != nil {
		return nil, false
	}
	return &m, true
}

// ---- runtime --------------------------------------------------------------------

type tOp struct {
	id     int
	typ    string // R | W | H
	ctx    context.Context
	cancel context.CancelFunc
	done   chan struct{}
	// guarded by tRun.mu: a cancel that arrives before the operation's start
	// line is logged right after it (the specification knows an op from its start)
	started, early bool
}

type tWorker struct{ ch chan func() }

func newTWorker() *tWorker {
	w := &tWorker{ch: make(chan func(), 8192)}
	go func() {
		for f := range w.ch {
			f()
		}
	}()
	return w
}

// tEnd is one end of a stream transport or one GoatOverHttp connection.
type tEnd struct {
	name   string // a | b ("" for http connections)
	conn   int    // index of the http connection (0 for stream ends)
	inst   string // owning GoatOverHttp instance
	addr   string // real address of the http connection
	rw     goat.RpcReadWriter
	w, r   *tWorker
	lanes  map[int]*tWorker // additional writers (concurrent with w and with each other)
	nW, nR int
	raw    *websocket.Conn
	failed atomic.Bool // a Read returned an error (reader loops stop)
}

type tInst struct {
	name      string
	goh       *goat.GoatOverHttp
	srv       *httptest.Server
	hostport  string
	mu        sync.Mutex
	hold      chan struct{}
	loseReply int // the answers to the next requests ServeHTTP has served are lost on the way back (connection aborted)
}

type tRun struct {
	sc     *tScen
	bubble bool
	root   context.Context
	stop   context.CancelFunc

	mu     sync.Mutex
	ops    map[int]*tOp
	ends   map[string]*tEnd
	conns  []*tEnd        // http connections, index+1 = conn number
	cur    map[string]int // inst|addr -> latest connection handed out
	insts  map[string]*tInst
	names  map[string]string // real address -> name in the trace
	addrs  map[string]string // name -> real address
	fc     clockwork.FakeClock
	g      *gateTab
	reqSeq atomic.Int64
	arSeq  atomic.Int64 // ids of the reads issued by the reader loops (autoread)
	unw    atomic.Bool
	dead   atomic.Bool // the scenario is over: stragglers must not write into the next one
	closer []func()
}

// emit writes a trace line of this scenario; goroutines that outlive it are muted.
func (r *tRun) emit(e Ev) {
	if !r.dead.Load() {
		tr.emit(e)
	}
}

func (r *tRun) settle() {
	if r.bubble {
		synctest.Wait()
	}
}

func (r *tRun) newOp(id int, typ string) *tOp {
	ctx, cancel := context.WithCancel(r.root)
	op := &tOp{id: id, typ: typ, ctx: ctx, cancel: cancel, done: make(chan struct{})}
	r.mu.Lock()
	if _, dup := r.ops[id]; dup {
		panic(fmt.Sprintf("verif-harness: duplicate op id %d", id))
	}
	r.ops[id] = op
	r.mu.Unlock()
	return op
}

func (r *tRun) opEv(name string, e *tEnd, id int) Ev {
	x := ev(name)
	x.C = id
	if e != nil {
		x.K, x.H, x.X = e.name, e.conn, e.inst
	}
	return x
}

func tErrClass(err error) string {
	if errors.Is(err, context.Canceled) || errors.Is(err, context.DeadlineExceeded) {
		return "ctx"
	}
	return "other"
}

func tShort(err error) string {
	s := err.Error()
	if len(s) > 80 {
		s = s[:80]
	}
	return tok([]byte(strings.ReplaceAll(s, " ", "_")))
}

// begin logs the start line of an operation (and a cancellation that is already in).
func (r *tRun) begin(op *tOp, start Ev, pre bool) {
	r.mu.Lock()
	defer r.mu.Unlock()
	r.emit(start)
	op.started = true
	if pre || op.early {
		x := ev("CtxDone")
		x.C = op.id
		r.emit(x)
		op.cancel()
	}
}

func (r *tRun) doRead(e *tEnd, op *tOp, pre bool) {
	r.begin(op, r.opEv("RS", e, op.id), pre)
	m, err := e.rw.Read(op.ctx)
	if err != nil {
		x := r.opEv("RErr", e, op.id)
		x.Res, x.Msg = tErrClass(err), tShort(err)
		r.emit(x)
		e.failed.Store(true)
	} else {
		e.nR++
		x := r.opEv("R", e, op.id)
		x.N, x.Pay = e.nR, tDigest(m)
		r.emit(x)
	}
	close(op.done)
}

// class of an envelope as an HTTP request body at instance h (the ladder of ServeHTTP)
func (r *tRun) httpClass(h *tInst, m *goat.Rpc) (class, addr string) {
	if m.GetHeader() == nil {
		return "nohdr", ""
	}
	if m.GetHeader().GetSource() == "" {
		return "nosrc", ""
	}
	a, err := r.mapSource(h, m.GetHeader().GetSource())
	if err != nil {
		return "maperr", ""
	}
	return "ok", a
}

func (r *tRun) doWrite(e *tEnd, op *tOp, v *tVal, pre bool, lane int) {
	m := v.build()
	x := r.opEv("WS", e, op.id)
	x.N = lane
	x.Pay = tDigest(m)
	x.Res = "wf"
	if e.conn != 0 { // http: how the peer's ladder will see it
		x.Msg = r.name(e.addr)
		if peer := r.insts[x.Msg]; peer != nil {
			x.Res, _ = r.httpClass(peer, m)
		} else {
			x.Res = "unreach"
		}
	}
	r.begin(op, x, pre)
	err := e.rw.Write(op.ctx, m)
	if err != nil {
		y := r.opEv("WErr", e, op.id)
		y.Res, y.Msg = tErrClass(err), tShort(err)
		r.emit(y)
	} else {
		y := r.opEv("W", e, op.id)
		r.mu.Lock() // writers of different lanes finish concurrently: number and log atomically
		e.nW++
		y.N = e.nW
		r.emit(y)
		r.mu.Unlock()
	}
	close(op.done)
}

// doRaw writes bytes through the raw websocket connection of end e.
func (r *tRun) doRaw(e *tEnd, st tStep) {
	data := st.Raw.build()
	x := r.opEv("RawIn", e, st.Id)
	x.N = len(data)
	typ := websocket.MessageBinary
	if st.Raw.Typ == "text" {
		typ = websocket.MessageText
		x.Res, x.Pay = "text", tBytesDigest(data)
	} else if m, ok := tClassifyRaw(data); ok {
		x.Res, x.Pay = "wf", tDigest(m)
	} else {
		x.Res, x.Pay = "bad", tBytesDigest(data)
	}
	r.emit(x)
	ctx, cancel := context.WithTimeout(r.root, 30*time.Second)
	defer cancel()
	if err := e.raw.Write(ctx, typ, data); err != nil && !r.unw.Load() {
		y := r.opEv("RawFail", e, st.Id)
		y.Msg = tShort(err)
		r.emit(y)
	}
}

// ---- stream kinds -----------------------------------------------------------------

func (r *tRun) newEnd(name string, rw goat.RpcReadWriter, raw *websocket.Conn) *tEnd {
	e := &tEnd{name: name, rw: rw, raw: raw, w: newTWorker(), r: newTWorker()}
	r.ends[name] = e
	return e
}

func (r *tRun) setupChannel() {
	ab := make(chan *goat.Rpc, r.sc.Cap)
	ba := make(chan *goat.Rpc, r.sc.Cap)
	r.newEnd("a", goat.NewGoatOverChannel(ba, ab), nil)
	r.newEnd("b", goat.NewGoatOverChannel(ab, ba), nil)
}

func (r *tRun) setupWebsocket() {
	mode := websocket.CompressionDisabled
	if r.sc.Compress {
		mode = websocket.CompressionContextTakeover
	}
	got := make(chan *websocket.Conn, 1)
	stop := make(chan struct{})
	srv := httptest.NewServer(http.HandlerFunc(func(w http.ResponseWriter, q *http.Request) {
		c, err := websocket.Accept(w, q, &websocket.AcceptOptions{CompressionMode: mode})
		if err != nil {
			return
		}
		got <- c
		<-stop
	}))
	ctx, cancel := context.WithTimeout(context.Background(), 100*time.Second) // loopback, but the machine may be starved
	defer cancel()
	ca, _, err := websocket.Dial(ctx, "ws"+strings.TrimPrefix(srv.URL, "http"), &websocket.DialOptions{CompressionMode: mode})
	if err != nil {
		panic("verif-harness: websocket dial: " + err.Error())
	}
	var cb *websocket.Conn
	select {
	case cb = <-got:
	case <-ctx.Done():
		panic("verif-harness: websocket accept timed out")
	}
	// the library's default message limit is 32 KiB: a property of the
	// connection the application hands in, not of the goat wrapper
	ca.SetReadLimit(-1)
	cb.SetReadLimit(-1)
	r.newEnd("a", goat.NewGoatOverWebsocket(ca), ca)
	r.newEnd("b", goat.NewGoatOverWebsocket(cb), cb)
	r.closer = append(r.closer, func() {
		ca.CloseNow()
		cb.CloseNow()
		close(stop)
		srv.CloseClientConnections()
		srv.Close()
	})
}

// ---- http kinds ---------------------------------------------------------------------

func (r *tRun) name(addr string) string {
	if n, ok := r.names[addr]; ok {
		return n
	}
	return tok([]byte(addr))
}

// mapSource is the SourceToAddress of every instance: sources starting with
// "unmappable" fail; "srcA"/"srcB"/"nowhere" are the loop instances and a
// closed port; anything else maps to "@"+source.
func (r *tRun) mapSource(h *tInst, src string) (string, error) {
	if strings.HasPrefix(src, "unmappable") {
		return "", errors.New("unmappable source")
	}
	if a, ok := r.addrs[strings.TrimPrefix(src, "src")]; ok && strings.HasPrefix(src, "src") {
		return a, nil
	}
	return "@" + src, nil
}

func (r *tRun) addConn(h *tInst, addr string, rw goat.RpcReadWriter, how string) int {
	r.mu.Lock()
	defer r.mu.Unlock()
	for _, c := range r.conns {
		if c.rw == rw {
			r.cur[h.name+"|"+addr] = c.conn
			return c.conn
		}
	}
	e := &tEnd{conn: len(r.conns) + 1, inst: h.name, addr: addr, rw: rw, w: newTWorker(), r: newTWorker()}
	r.conns = append(r.conns, e)
	r.cur[h.name+"|"+addr] = e.conn
	x := ev("Conn")
	x.N, x.H, x.Msg, x.K, x.X = e.conn, e.conn, r.name(addr), how, h.name
	r.emit(x)
	if r.sc.AutoRead {
		go r.autoRead(e)
	}
	return e.conn
}

// autoRead is what an application does with a connection it is handed: read it
// until it fails.  Every Read is an operation of its own (ids from 200001).
func (r *tRun) autoRead(e *tEnd) {
	for !r.unw.Load() && r.root.Err() == nil {
		op := r.newOp(int(200000+r.arSeq.Add(1)), "R")
		r.doRead(e, op, false)
		select {
		case <-op.ctx.Done(): // cancelled (unwind)
			return
		default:
		}
		if e.failed.Load() {
			return
		}
	}
}

func (r *tRun) newInst(name string, loop bool) *tInst {
	h := &tInst{name: name}
	r.insts[name] = h
	if loop {
		h.srv = httptest.NewServer(r.wrap(h))
		h.hostport = strings.TrimPrefix(h.srv.URL, "http://")
		r.names[h.hostport], r.addrs[name] = name, h.hostport
	}
	h.goh = goat.NewGoatOverHttp(
		func(id string, rw goat.RpcReadWriter) { r.addConn(h, id, rw, "accept") },
		func(src string) (string, error) { return r.mapSource(h, src) },
		goat.WithClock(r.fc),
		goat.WithConnectionCleanupInterval(time.Duration(r.sc.IntervalS)*time.Second),
		goat.WithConnectionTimeout(time.Duration(r.sc.TimeoutS)*time.Second))
	return h
}

type tFailReader struct{}

func (tFailReader) Read([]byte) (int, error) { return 0, errors.New("injected body read failure") }

// classify computes the class of a request body the way the ladder is specified.
func (r *tRun) classify(h *tInst, data []byte) (class, addr, dg string) {
	m, ok := tClassifyRaw(data)
	if !ok {
		return "undecodable", "", tBytesDigest(data)
	}
	class, addr = r.httpClass(h, m)
	return class, addr, tDigest(m)
}

// prepServe builds the request of an `hs` / `burst` step and its start line.
func (r *tRun) prepServe(h *tInst, shape string, v *tVal, raw *tRaw, op *tOp, unsized ...bool) (*http.Request, Ev) {
	x := ev("HS")
	x.C, x.K, x.X = op.id, "direct", h.name
	var body io.ReadCloser
	switch shape {
	case "nobody":
		x.Res = "nobody"
	case "unreadable":
		x.Res = "unreadable"
		body = io.NopCloser(tFailReader{})
	default:
		var data []byte
		if shape == "raw" {
			data = raw.build()
		} else {
			var err error
			if data, err = proto.Marshal(v.build()); err != nil {
				panic("verif-harness: " + err.Error())
			}
		}
		var addr string
		x.Res, addr, x.Pay = r.classify(h, data)
		if x.Res == "ok" {
			x.Msg = r.name(addr)
		}
		x.N = len(data)
		body = io.NopCloser(bytes.NewReader(data))
	}
	q, err := http.NewRequestWithContext(op.ctx, "POST", "http://goat.invalid/", nil)
	if err != nil {
		panic("verif-harness: " + err.Error())
	}
	q.Body = body
	// what net/http's server reports: the announced length, or -1 for a body of unknown length (chunked)
	q.ContentLength = int64(x.N)
	if body != nil && (shape == "unreadable" || (len(unsized) > 0 && unsized[0])) {
		q.ContentLength = -1
	}
	return q, x
}

// serve calls ServeHTTP directly: a panic in it is not recovered by anybody.
func (r *tRun) serve(h *tInst, q *http.Request, op *tOp) {
	rec := httptest.NewRecorder()
	h.goh.ServeHTTP(rec, q)
	y := ev("Http")
	y.C, y.Code, y.X = op.id, rec.Code, h.name
	r.emit(y)
	close(op.done)
}

func (r *tRun) doServe(h *tInst, st tStep, op *tOp) {
	q, x := r.prepServe(h, st.Shape, st.V, st.Raw, op, st.Unsized)
	r.begin(op, x, st.Pre)
	r.serve(h, q, op)
}

// burst releases len(st.Ids) first requests of one fresh source at the same
// instant (optionally with a NewConnection for that source's address): the
// start lines are written beforehand, the goroutines wait at a barrier and
// then do nothing but call the library.
func (r *tRun) burst(h *tInst, st tStep) {
	start := make(chan struct{})
	for i, id := range st.Ids {
		v := *st.V
		v.Id, v.Seed, v.Src = v.Id+uint64(i), v.Seed+int64(i), st.Src
		op := r.newOp(id, "H")
		q, x := r.prepServe(h, "val", &v, nil, op)
		r.begin(op, x, false)
		go func() {
			<-start
			r.serve(h, q, op)
		}()
	}
	if st.Dial {
		addr, _ := r.mapSource(h, st.Src)
		go func() {
			<-start
			r.addConn(h, addr, h.goh.NewConnection(addr), "dial")
		}()
	}
	if r.bubble {
		synctest.Wait() // everybody is parked at the barrier
	} else {
		time.Sleep(time.Millisecond)
	}
	close(start)
}

type tStatusWriter struct {
	http.ResponseWriter
	code int
}

func (w *tStatusWriter) WriteHeader(c int) { w.code = c; w.ResponseWriter.WriteHeader(c) }

// wrap is the handler of a loop instance's HTTP server: it logs the request
// class and the answer around the real ServeHTTP.  net/http would swallow a
// panic of the handler goroutine, so it is turned into a Crash line here.
func (r *tRun) wrap(h *tInst) http.Handler {
	return http.HandlerFunc(func(w http.ResponseWriter, q *http.Request) {
		data, err := io.ReadAll(q.Body)
		q.Body.Close()
		if err != nil {
			return
		}
		h.mu.Lock()
		hold := h.hold
		h.mu.Unlock()
		if hold != nil { // a stalled peer: the request is never processed
			<-hold
			http.Error(w, "stalled", http.StatusServiceUnavailable)
			return
		}
		op := r.newOp(int(100000+r.reqSeq.Add(1)), "H")
		defer close(op.done)
		x := ev("HS")
		x.C, x.K, x.X, x.N = op.id, "loop", h.name, len(data)
		var addr string
		x.Res, addr, x.Pay = r.classify(h, data)
		if x.Res == "ok" {
			x.Msg = r.name(addr)
		}
		r.begin(op, x, false)
		q.Body = io.NopCloser(bytes.NewReader(data))
		sw := &tStatusWriter{ResponseWriter: w, code: 200}
		defer func() {
			if p := recover(); p != nil {
				if p == http.ErrAbortHandler { // ours (a lost reply)
					panic(p)
				}
				c := ev("Crash")
				c.C, c.X = op.id, fmt.Sprint(p)
				r.emit(c)
				panic(http.ErrAbortHandler)
			}
		}()
		h.goh.ServeHTTP(sw, q)
		h.mu.Lock()
		lose := h.loseReply > 0 && sw.code == 200
		if lose {
			h.loseReply--
		}
		h.mu.Unlock()
		y := ev("Http")
		y.C, y.Code, y.X = op.id, sw.code, h.name
		if lose {
			// the request was served (the envelope is with its reader), the answer never reaches the sender: net/http
			// drops the connection without writing the buffered response
			y.Res = "lost"
			r.emit(y)
			panic(http.ErrAbortHandler)
		}
		r.emit(y)
	})
}

func (r *tRun) connFor(st tStep) *tEnd {
	inst := st.End
	if inst == "" {
		inst = "A"
	}
	addr := st.Addr
	if a, ok := r.addrs[addr]; ok {
		addr = a
	}
	key := inst + "|" + addr
	deadline := time.Now().Add(60 * time.Second)
	for {
		r.settle()
		r.mu.Lock()
		var e *tEnd
		if idx := r.cur[key]; idx != 0 {
			e = r.conns[idx-1]
		}
		r.mu.Unlock()
		if e != nil {
			return e
		}
		if r.bubble || time.Now().After(deadline) {
			return nil
		}
		time.Sleep(2 * time.Millisecond)
	}
}

// ---- steps --------------------------------------------------------------------------

func (r *tRun) endFor(st tStep, op *tOp) *tEnd {
	var e *tEnd
	if r.sc.Kind == "http" || r.sc.Kind == "httploop" {
		e = r.connFor(st)
	} else {
		e = r.ends[st.End]
	}
	if e == nil {
		x := ev("NoConn") // GoatOverHttp never handed out the connection
		x.C, x.Msg = st.Id, st.Addr
		r.emit(x)
		close(op.done)
	}
	return e
}

func (r *tRun) cancelOp(id int) {
	r.mu.Lock()
	op := r.ops[id]
	r.mu.Unlock()
	if op == nil {
		panic(fmt.Sprintf("verif-harness: cancel of unknown op %d", id))
	}
	r.mu.Lock()
	if !op.started {
		op.early = true
		r.mu.Unlock()
		op.cancel()
		return
	}
	r.mu.Unlock()
	x := ev("CtxDone")
	x.C = id
	r.emit(x)
	op.cancel()
}

func (r *tRun) waitOps(ids []int, ms int) {
	if r.bubble {
		synctest.Wait()
		return
	}
	if ms == 0 {
		ms = 60000
	}
	deadline := time.Now().Add(time.Duration(ms) * time.Millisecond)
	alive := time.NewTicker(time.Second)
	defer alive.Stop()
	for _, id := range ids {
		r.mu.Lock()
		op := r.ops[id]
		r.mu.Unlock()
		if op == nil {
			panic(fmt.Sprintf("verif-harness: wait for unknown op %d", id))
		}
		for pending := true; pending; {
			select {
			case <-op.done:
				pending = false
			case <-alive.C:
				r.emit(ev("Alive")) // keeps the wedge watchdog quiet: this runner has its own timeouts
				if time.Now().After(deadline) {
					return
				}
			}
		}
	}
}

// pendingOps lists the operations that have not returned (r.mu held by the
// caller if the answer has to stay true while lines are written).
func (r *tRun) pendingOpsLocked(startedOnly bool) []*tOp {
	var out []*tOp
	for _, op := range r.ops {
		select {
		case <-op.done:
		default:
			if op.started || !startedOnly {
				out = append(out, op)
			}
		}
	}
	sort.Slice(out, func(i, j int) bool { return out[i].id < out[j].id })
	return out
}

func (r *tRun) pendingOps() []*tOp {
	r.mu.Lock()
	defer r.mu.Unlock()
	return r.pendingOpsLocked(false)
}

// quiesce reports the operations that are still pending, with the state of
// their contexts.  The caller has waited for everything it expects to finish
// (bubble: synctest.Wait is exact).  Start lines are written under r.mu, so
// the list and the Quiesce line are consistent with the trace so far; an
// operation still queued behind a blocked one has no start line and is not
// an operation yet.
func (r *tRun) quiesce() {
	r.settle()
	if !r.bubble { // give freshly queued operations the time to reach their call
		deadline := time.Now().Add(3 * time.Second)
		for time.Now().Before(deadline) {
			r.mu.Lock()
			n := len(r.pendingOpsLocked(false)) - len(r.pendingOpsLocked(true))
			r.mu.Unlock()
			if n == 0 {
				break
			}
			time.Sleep(2 * time.Millisecond)
		}
	}
	r.mu.Lock()
	defer r.mu.Unlock()
	p := r.pendingOpsLocked(true)
	for _, op := range p {
		x := ev("Pend")
		x.C, x.K, x.Res = op.id, op.typ, "live"
		if op.ctx.Err() != nil {
			x.Res = "done"
		}
		r.emit(x)
	}
	x := ev("Quiesce")
	x.N = len(p)
	r.emit(x)
}

func (r *tRun) step(st tStep) {
	switch st.Op {
	case "w":
		op := r.newOp(st.Id, "W")
		if e := r.endFor(st, op); e != nil {
			w := e.w
			if st.Lane != 0 {
				if e.lanes == nil {
					e.lanes = map[int]*tWorker{}
				}
				if e.lanes[st.Lane] == nil {
					e.lanes[st.Lane] = newTWorker()
				}
				w = e.lanes[st.Lane]
			}
			w.ch <- func() { r.doWrite(e, op, st.V, st.Pre, st.Lane) }
		}
	case "r":
		op := r.newOp(st.Id, "R")
		if e := r.endFor(st, op); e != nil {
			e.r.ch <- func() { r.doRead(e, op, st.Pre) }
		}
	case "raw":
		e := r.ends[st.End]
		e.w.ch <- func() { r.doRaw(e, st) }
	case "hs":
		h := r.insts[map[bool]string{true: "A", false: st.End}[st.End == ""]]
		op := r.newOp(st.Id, "H")
		go r.doServe(h, st, op)
	case "burst":
		r.burst(r.insts["A"], st)
	case "dial":
		h := r.insts[st.End]
		addr := st.Addr
		if a, ok := r.addrs[addr]; ok {
			addr = a
		}
		r.addConn(h, addr, h.goh.NewConnection(addr), "dial")
	case "cancel":
		for _, id := range append([]int{}, st.Ids...) {
			r.cancelOp(id)
		}
		if st.Id != 0 {
			r.cancelOp(st.Id)
		}
	case "wait":
		r.waitOps(st.Ids, st.Ms)
	case "sleep":
		time.Sleep(time.Duration(st.Ms) * time.Millisecond)
	case "tick":
		x := ev("Tick")
		x.N = st.S
		r.emit(x)
		r.fc.Advance(time.Duration(st.S) * time.Second)
	case "arm":
		r.g.arm(st.Gate, st.Gid, 0)
	case "rel":
		r.g.release(st.Gate, st.Gid)
	case "hold":
		h := r.insts[st.End]
		h.mu.Lock()
		h.hold = make(chan struct{})
		h.mu.Unlock()
	case "unhold":
		r.unhold(r.insts[st.End])
	case "losereply":
		h := r.insts[st.End]
		h.mu.Lock()
		h.loseReply++
		h.mu.Unlock()
	case "q":
		r.quiesce()
	default:
		panic("verif-harness: unknown transport op " + st.Op)
	}
	r.settle()
}

func (r *tRun) unhold(h *tInst) {
	h.mu.Lock()
	if h.hold != nil {
		close(h.hold)
		h.hold = nil
	}
	h.mu.Unlock()
}

// waitAll waits (real time) until every operation has returned.
func (r *tRun) waitAll(d time.Duration) bool {
	deadline := time.Now().Add(d)
	for len(r.pendingOps()) > 0 {
		if time.Now().After(deadline) {
			return false
		}
		time.Sleep(5 * time.Millisecond)
	}
	return true
}

func (r *tRun) unwind() {
	r.emit(ev("Unwind"))
	r.unw.Store(true)
	r.mu.Lock()
	for _, op := range r.ops {
		op.cancel()
	}
	r.mu.Unlock()
	r.g.releaseAll()
	for _, h := range r.insts {
		r.unhold(h)
	}
	r.settle()
	if len(r.insts) > 0 {
		if !r.bubble {
			r.waitAll(2 * time.Second)
		}
		// Whatever is still blocked ignores its context (shipped http.go): give
		// every blocked sender a reader, then let the cleaner close everything.
		r.mu.Lock()
		conns := append([]*tEnd{}, r.conns...)
		r.mu.Unlock()
		for _, c := range conns {
			c := c
			go func() {
				for {
					if _, err := c.rw.Read(r.root); err != nil { // root: an unregistered connection is never closed
						return
					}
				}
			}()
		}
		r.settle()
		if !r.bubble {
			time.Sleep(20 * time.Millisecond)
		}
		r.fc.Advance(time.Duration(20*r.sc.TimeoutS+2*r.sc.IntervalS) * time.Second)
		r.settle()
		if !r.bubble {
			r.waitAll(5 * time.Second)
		}
		for _, h := range r.insts {
			h.goh.Cancel()
			if h.srv != nil {
				h.srv.CloseClientConnections()
				done := make(chan struct{})
				go func(s *httptest.Server) { s.Close(); close(done) }(h.srv)
				select {
				case <-done:
				case <-time.After(5 * time.Second):
				}
			}
		}
	}
	for _, f := range r.closer {
		f()
	}
	if !r.bubble {
		r.waitAll(5 * time.Second)
	}
	r.stop()
	for _, e := range r.ends {
		close(e.w.ch)
		close(e.r.ch)
		for _, w := range e.lanes {
			close(w.ch)
		}
	}
	r.mu.Lock()
	for _, c := range r.conns {
		close(c.w.ch)
		close(c.r.ch)
		for _, w := range c.lanes {
			close(w.ch)
		}
	}
	r.mu.Unlock()
	r.settle()
}

func (r *tRun) run(fam string) {
	sc := r.sc
	tr.mu.Lock()
	tr.start = time.Now()
	tr.mu.Unlock()
	r.root, r.stop = context.WithCancel(context.Background())
	if !r.bubble {
		// Real-time scenarios have their own (generous) timeouts everywhere; under heavy machine
		// load a silent stretch of 4 s is no wedge.  The heartbeat stops after 3 minutes, so a
		// real lock-up inside a synchronous library call still ends in a Wedged line.
		go func() {
			t := time.NewTicker(time.Second)
			defer t.Stop()
			for i := 0; i < 180; i++ {
				select {
				case <-r.root.Done():
					return
				case <-t.C:
					r.emit(ev("Alive"))
				}
			}
		}()
	}
	verifhook.Install(&verifhook.Hooks{Gate: r.g.gate})
	defer verifhook.Install(nil)
	b := ev("Begin")
	b.K, b.X, b.N = fam, sc.Kind, 1
	b.Code, b.C, b.H = sc.Cap, sc.TimeoutS, sc.IntervalS
	r.emit(b)
	switch sc.Kind {
	case "channel":
		r.setupChannel()
	case "websocket":
		r.setupWebsocket()
	case "http":
		r.fc = clockwork.NewFakeClock()
		r.newInst("A", false)
	case "httploop":
		r.fc = clockwork.NewFakeClock()
		r.addrs["nowhere"], r.names["127.0.0.1:1"] = "127.0.0.1:1", "nowhere"
		r.newInst("A", true)
		r.newInst("B", true)
	default:
		panic("verif-harness: unknown transport kind " + sc.Kind)
	}
	r.settle()
	for _, st := range sc.Steps {
		r.step(st)
	}
	r.unwind()
	r.dead.Store(true)
	tr.emit(ev("End"))
}

func runTransport(t *testing.T, s *Scenario, raw []byte) {
	var sc tScen
	if err := json.Unmarshal(raw, &sc); err != nil {
		t.Fatalf("verif-harness: transport scenario: %v", err)
	}
	if sc.TimeoutS == 0 {
		sc.TimeoutS, sc.IntervalS = 240, 60
	}
	mk := func(bubble bool) *tRun {
		return &tRun{sc: &sc, bubble: bubble, ops: map[int]*tOp{}, ends: map[string]*tEnd{}, cur: map[string]int{},
			insts: map[string]*tInst{}, names: map[string]string{}, addrs: map[string]string{},
			g: &gateTab{armed: map[string][]*armed{}}}
	}
	if sc.Kind == "channel" || sc.Kind == "http" {
		synctest.Test(t, func(t *testing.T) { mk(true).run(s.Fam) })
	} else {
		mk(false).run(s.Fam)
	}
}
