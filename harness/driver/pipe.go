package driver

import (
	"context"
	"errors"
	"fmt"
	"os"
	"runtime"
	"sync"

	"github.com/avos-io/goat"
	"google.golang.org/protobuf/proto"
)

// pipe is one direction of a scheduler-owned transport: an ordered queue whose
// delivery is either automatic or released envelope by envelope by the
// scheduler. All blocking is on channels so that synctest sees it as durable.
type pipe struct {
	mu           sync.Mutex
	q            []*goat.Rpc
	credits      int  // envelopes released for delivery (manual mode)
	auto         bool // deliver as soon as written
	ser          bool // serialising transport (marshal+unmarshal) vs by reference
	nFailedReads int
	rerr         error
	werr         error
	werr1        bool // fail exactly the next write
	stuck        bool
	wpass        int    // while stuck: that many Writes are let through all the same (a slow consumer, one envelope at a time)
	onWrite      func() // one-shot: runs inside the next accepted Write, after the envelope is queued and logged
	cap          int    // > 0: a Write blocks while cap envelopes are queued unread (back-pressure, like an unbuffered channel or a full socket)
	wake         chan struct{}
	conn         int
	wEv          string // event name for writes ("CW" or "SW"), "" = silent
	rEv          string // event name for reads  ("SR" or "CR")
	nW, nR       int
}

func newPipe(conn int, wEv, rEv string, auto, ser bool) *pipe {
	return &pipe{wake: make(chan struct{}), conn: conn, wEv: wEv, rEv: rEv, auto: auto, ser: ser}
}

func (p *pipe) broadcastLocked() {
	close(p.wake)
	p.wake = make(chan struct{})
}

func (p *pipe) with(f func()) {
	p.mu.Lock()
	f()
	p.broadcastLocked()
	p.mu.Unlock()
}

func (p *pipe) Write(ctx context.Context, r *goat.Rpc) error {
	for {
		p.mu.Lock()
		if err := ctx.Err(); err != nil {
			p.mu.Unlock()
			return err
		}
		if p.werr1 {
			p.werr1 = false
			if p.wEv != "" {
				e := ev("WFail")
				e.Conn, e.K = p.conn, p.wEv
				if r.GetReset_() != nil { // the refused envelope is a reset: its sender has made its one attempt
					e.X, e.Msg = "rst", fmt.Sprintf("%d", r.GetId())
				}
				tr.emit(e)
			}
			p.mu.Unlock()
			return errInjected
		}
		if p.werr != nil {
			err := p.werr
			if p.wEv != "" {
				e := ev("WFail")
				e.Conn, e.K = p.conn, p.wEv
				if r.GetReset_() != nil { // the refused envelope is a reset: its sender has made its one attempt
					e.X, e.Msg = "rst", fmt.Sprintf("%d", r.GetId())
				}
				tr.emit(e)
			}
			p.mu.Unlock()
			return err
		}
		if (!p.stuck || p.wpass > 0) && (p.cap == 0 || len(p.q) < p.cap) {
			if p.stuck {
				p.wpass--
			}
			var cp *goat.Rpc
			if p.ser {
				b, err := proto.Marshal(r)
				if err != nil {
					p.mu.Unlock()
					return err
				}
				cp = &goat.Rpc{}
				if err := proto.Unmarshal(b, cp); err != nil {
					p.mu.Unlock()
					return err
				}
			} else {
				cp = r
			}
			p.q = append(p.q, cp)
			p.nW++
			if p.wEv != "" {
				e := envEv(p.wEv, p.conn, cp)
				e.N = p.nW
				tr.emit(e)
			}
			if f := p.onWrite; f != nil {
				p.onWrite = nil
				f()
			}
			p.broadcastLocked()
			p.mu.Unlock()
			return nil
		}
		w := p.wake
		p.mu.Unlock()
		select {
		case <-w:
		case <-ctx.Done():
			return ctx.Err()
		}
	}
}

func (p *pipe) Read(ctx context.Context) (*goat.Rpc, error) {
	for {
		p.mu.Lock()
		if p.rerr != nil {
			err := p.rerr
			p.nFailedReads++
			spin := p.nFailedReads == 20000
			p.mu.Unlock()
			if spin {
				// nobody reads a failed transport twenty thousand times: a retry loop that never ends (under synctest it
				// would keep the bubble from ever becoming idle)
				reportSpin("Read called 20000 times on a transport whose reads fail with: " + err.Error())
			}
			return nil, err
		}
		if len(p.q) > 0 && (p.auto || p.credits > 0) {
			r := p.q[0]
			p.q = p.q[1:]
			if !p.auto {
				p.credits--
			}
			p.nR++
			if p.rEv != "" {
				e := envEv(p.rEv, p.conn, r)
				e.N = p.nR
				tr.emit(e)
			}
			if p.cap > 0 {
				p.broadcastLocked() // a writer may be waiting for room
			}
			p.mu.Unlock()
			return r, nil
		}
		w := p.wake
		p.mu.Unlock()
		select {
		case <-w:
		case <-ctx.Done():
			return nil, ctx.Err()
		}
	}
}

// deliverable counts the queued envelopes a reader could take right now.
func (p *pipe) deliverable() int {
	p.mu.Lock()
	defer p.mu.Unlock()
	if p.rerr != nil {
		return 0
	}
	if p.auto {
		return len(p.q)
	}
	if p.credits < len(p.q) {
		return p.credits
	}
	return len(p.q)
}

func (p *pipe) pending() int {
	p.mu.Lock()
	defer p.mu.Unlock()
	return len(p.q)
}

// inject appends an envelope as if the peer had written it (raw peer).
func (p *pipe) inject(r *goat.Rpc) {
	p.mu.Lock()
	if p.ser {
		// what a peer's envelope looks like after a real wire: empty byte fields arrive as nil, not as empty slices
		if b, err := proto.Marshal(r); err == nil {
			cp := &goat.Rpc{}
			if proto.Unmarshal(b, cp) == nil {
				r = cp
			}
		}
	}
	p.q = append(p.q, r)
	p.nW++
	if p.wEv != "" {
		e := envEv(p.wEv+"raw", p.conn, r)
		e.N = p.nW
		tr.emit(e)
	}
	p.broadcastLocked()
	p.mu.Unlock()
}

// end is one side of a link: it reads from one pipe and writes to the other.
type end struct {
	r *pipe
	w *pipe
}

func (e *end) Read(ctx context.Context) (*goat.Rpc, error)  { return e.r.Read(ctx) }
func (e *end) Write(ctx context.Context, r *goat.Rpc) error { return e.w.Write(ctx, r) }

// link is a bidirectional scheduler-owned connection between a client-side
// end and a server-side end.
type link struct {
	c2s, s2c *pipe
	cli, srv *end
}

func newLink(conn int, auto, ser bool, cw, sr, sw, cr string) *link {
	l := &link{
		c2s: newPipe(conn, cw, sr, auto, ser),
		s2c: newPipe(conn, sw, cr, auto, ser),
	}
	l.cli = &end{r: l.s2c, w: l.c2s}
	l.srv = &end{r: l.c2s, w: l.s2c}
	return l
}

var errInjected = errors.New("verif: injected transport failure")

// errTemporary is a persistent failure that (like *net.OpError{ETIMEDOUT}) reports itself as temporary.
type errTemporary struct{}

func (errTemporary) Error() string   { return "verif: connection timed out" }
func (errTemporary) Temporary() bool { return true }
func (errTemporary) Timeout() bool   { return true }

// tap wraps any RpcReadWriter and logs reads/writes with the given event names.
type tap struct {
	inner  goat.RpcReadWriter
	conn   int
	wEv    string
	rEv    string
	mu     sync.Mutex
	nW, nR int
}

func (t *tap) Read(ctx context.Context) (*goat.Rpc, error) {
	r, err := t.inner.Read(ctx)
	if err == nil && t.rEv != "" {
		t.mu.Lock()
		t.nR++
		e := envEv(t.rEv, t.conn, r)
		e.N = t.nR
		tr.emit(e)
		t.mu.Unlock()
	}
	return r, err
}

func (t *tap) Write(ctx context.Context, r *goat.Rpc) error {
	if t.wEv != "" {
		t.mu.Lock()
		t.nW++
		e := envEv(t.wEv, t.conn, r)
		e.N = t.nW
		tr.emit(e)
		t.mu.Unlock()
	}
	return t.inner.Write(ctx, r)
}

// reportSpin ends the worker with a Wedged line: a library goroutine is spinning on the transport (livelock).
func reportSpin(what string) {
	buf := make([]byte, 1<<20)
	n := runtime.Stack(buf, true)
	fmt.Fprintf(os.Stderr, "VERIF-WEDGED (livelock)\n%s\n", buf[:n])
	e := ev("Wedged")
	e.X = "livelock: " + what
	tr.emit(e)
	tr.emit(ev("End"))
	os.Exit(3)
}
