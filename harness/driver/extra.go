package driver

import (
	"context"

	"github.com/avos-io/goat"
	"google.golang.org/grpc/stats"
)

// nopStats is a stats.Handler that only exercises the library's stats paths
// (C20 has recording handlers of its own in x_observers.go).
type nopStats struct{}

func (nopStats) TagRPC(ctx context.Context, _ *stats.RPCTagInfo) context.Context   { return ctx }
func (nopStats) HandleRPC(context.Context, stats.RPCStats)                         {}
func (nopStats) TagConn(ctx context.Context, _ *stats.ConnTagInfo) context.Context { return ctx }
func (nopStats) HandleConn(context.Context, stats.ConnStats)                       {}

func (rt *runtimeS) serverObservers() []goat.ServerOption {
	var o []goat.ServerOption
	for i := 0; i < rt.sc.SStats; i++ {
		o = append(o, goat.StatsHandler(nopStats{}))
	}
	return o
}

func (rt *runtimeS) clientObservers(i int) []goat.DialOption {
	var o []goat.DialOption
	for k := 0; k < rt.sc.CStats; k++ {
		o = append(o, goat.WithStatsHandler(nopStats{}))
	}
	return o
}

func (rt *runtimeS) setupTopo()             { panic("verif-harness: topology not implemented: " + rt.sc.Topo) }
func (rt *runtimeS) stepExtra(st Step) bool { return false }
