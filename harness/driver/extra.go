package driver

import "github.com/avos-io/goat"

func (rt *runtimeS) serverObservers() []goat.ServerOption    { return nil }
func (rt *runtimeS) clientObservers(i int) []goat.DialOption { return nil }
func (rt *runtimeS) setupTopo()                              { panic("verif-harness: topology not implemented: " + rt.sc.Topo) }
func (rt *runtimeS) stepExtra(st Step) bool                  { return false }
