package driver

import (
	"context"
	"fmt"
	"sync"
	"sync/atomic"
	"testing/synctest"

	"github.com/avos-io/goat"
	"google.golang.org/grpc"
	"google.golang.org/grpc/stats"
)

// nopStats is a stats.Handler that only exercises the library's stats paths
// (C20 has recording handlers of its own in x_observers.go).
type nopStats struct{}

var spinSink atomic.Int64

func (nopStats) TagRPC(ctx context.Context, _ *stats.RPCTagInfo) context.Context { return ctx }
func (nopStats) HandleRPC(_ context.Context, s stats.RPCStats) {
	if _, ok := s.(*stats.OutHeader); ok {
		// an observer that takes a few microseconds over the headers (it spins: it must not block on anything the
		// scheduler could mistake for quiescence, and the library may call it with a lock held)
		// (counted, not timed: inside a synctest bubble the clock stands still while anything runs)
		for i := 0; i < 30000; i++ {
			spinSink.Add(1)
		}
	}
}
func (nopStats) TagConn(ctx context.Context, _ *stats.ConnTagInfo) context.Context { return ctx }
func (nopStats) HandleConn(context.Context, stats.ConnStats)                       {}

func (rt *runtimeS) serverObservers() []goat.ServerOption {
	var o []goat.ServerOption
	for i := 0; i < rt.sc.SStats; i++ {
		o = append(o, goat.StatsHandler(nopStats{}))
	}
	return o
}

// passThroughServerInterceptors: n interceptors of each kind that do nothing but call the next stage
// (installing them must not change what callers see - C03, C20).
func passThroughServerInterceptors(n int) []goat.ServerOption {
	if n <= 0 {
		return nil
	}
	u := func(ctx context.Context, req any, _ *grpc.UnaryServerInfo, h grpc.UnaryHandler) (any, error) {
		return h(ctx, req)
	}
	s := func(srv any, ss grpc.ServerStream, _ *grpc.StreamServerInfo, h grpc.StreamHandler) error {
		return h(srv, ss)
	}
	if n == 1 {
		return []goat.ServerOption{goat.UnaryInterceptor(u), goat.StreamInterceptor(s)}
	}
	us := make([]grpc.UnaryServerInterceptor, n)
	ss := make([]grpc.StreamServerInterceptor, n)
	for i := range us {
		us[i], ss[i] = u, s
	}
	return []goat.ServerOption{goat.ChainUnaryInterceptor(us...), goat.ChainStreamInterceptor(ss...)}
}

func (rt *runtimeS) clientObservers(i int) []goat.DialOption {
	var o []goat.DialOption
	if n := rt.sc.CIcpt; n > 0 {
		u := func(ctx context.Context, m string, req, reply any, cc *grpc.ClientConn, inv grpc.UnaryInvoker, opts ...grpc.CallOption) error {
			return inv(ctx, m, req, reply, cc, opts...)
		}
		s := func(ctx context.Context, d *grpc.StreamDesc, cc *grpc.ClientConn, m string, st grpc.Streamer, opts ...grpc.CallOption) (grpc.ClientStream, error) {
			return st(ctx, d, cc, m, opts...)
		}
		o = append(o, goat.WithUnaryInterceptor(u), goat.WithStreamInterceptor(s))
	}
	for k := 0; k < rt.sc.CStats; k++ {
		o = append(o, goat.WithStatsHandler(nopStats{}))
	}
	return o
}

// setupTopo builds the shipped relay topologies around the same scripted endpoints:
//
//	proxy:  client i -- link Ai -- goat.Proxy -- link Bi -- Serve             (one server-side connection per client)
//	pd:     client i -- link Ai -- goat.Proxy -- link B -- goat.Demux by source -- Serve per logical connection
//
// CW / CR are logged on the client's own link, SR / SW by a tap around the transport the Server is given,
// so the Layer-P rules judge the end-to-end behaviour; only the proxy's routing fields differ in between.
func (rt *runtimeS) setupTopo() {
	sc := rt.sc
	if sc.Topo != "proxy" && sc.Topo != "pd" {
		panic("verif-harness: topology not implemented: " + sc.Topo)
	}
	px := goat.NewProxy(rt.root, "px", func(id string) (goat.RpcReadWriter, error) {
		return nil, fmt.Errorf("verif: no such peer %s", id)
	}, nil, nil)
	go px.Serve()
	if sc.Topo == "pd" {
		b := newLink(0, true, sc.Ser, "", "", "", "")
		px.AddClient(sc.Srv, b.cli) // the proxy talks to the server side through b
		// the announcement callback does not name the key: serve each logical connection as it is announced,
		// learning the client index from the first envelope it reads
		dm2 := goat.NewDemux(rt.root, b.srv, func(r *goat.Rpc) string { return r.GetHeader().GetSource() },
			func(rw goat.RpcReadWriter) { go rt.serveLogical(rw) })
		go dm2.Run()
		rt.extra = append(rt.extra, func() {
			for _, p := range []*pipe{b.c2s, b.s2c} {
				p.with(func() { p.rerr, p.werr = errInjected, errInjected })
			}
			dm2.Stop()
		})
	}
	for i := 1; i <= sc.NCli; i++ {
		a := newLink(i, !sc.Manual, sc.Ser, "CW", "", "", "CR")
		rt.startClient(i, a, a.cli)
		px.AddClient(fmt.Sprintf("cli%d", i), a.srv)
		if sc.Topo == "proxy" {
			panic("verif-harness: topology proxy needs one server name per client; use pd")
		}
	}
	synctest.Wait()
}

// serveLogical serves one logical connection of the demultiplexer; the tap learns which client it
// belongs to from the source of the first envelope.
func (rt *runtimeS) serveLogical(rw goat.RpcReadWriter) {
	t := &lazyTap{inner: rw}
	rt.objMu.Lock()
	if rt.tapByG == nil {
		rt.tapByG = map[int64]*lazyTap{}
	}
	rt.tapByG[curGID()] = t
	rt.objMu.Unlock()
	ctx := context.WithValue(rt.root, connKey{}, 0)
	_ = rt.srv.Serve(context.WithValue(ctx, lazyKey{}, t), t)
}

type lazyKey struct{}

// lazyTap is a tap whose connection index is fixed by the first envelope read ("cli<i>").
type lazyTap struct {
	inner  goat.RpcReadWriter
	mu     sync.Mutex
	conn   int
	nW, nR int
}

func (t *lazyTap) connIdx() int {
	t.mu.Lock()
	defer t.mu.Unlock()
	return t.conn
}

func (t *lazyTap) Read(ctx context.Context) (*goat.Rpc, error) {
	r, err := t.inner.Read(ctx)
	if err == nil {
		t.mu.Lock()
		if t.conn == 0 {
			fmt.Sscanf(r.GetHeader().GetSource(), "cli%d", &t.conn)
		}
		t.nR++
		e := envEv("SR", t.conn, r)
		e.N = t.nR
		tr.emit(e)
		t.mu.Unlock()
	}
	return r, err
}

func (t *lazyTap) Write(ctx context.Context, r *goat.Rpc) error {
	t.mu.Lock()
	t.nW++
	e := envEv("SW", t.conn, r)
	e.N = t.nW
	tr.emit(e)
	t.mu.Unlock()
	return t.inner.Write(ctx, r)
}
func (rt *runtimeS) stepExtra(st Step) bool { return false }
