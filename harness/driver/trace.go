package driver

import (
	"crypto/sha256"
	"encoding/base64"
	"encoding/hex"
	"encoding/json"
	"fmt"
	"os"
	"sort"
	"strings"
	"sync"
	"sync/atomic"
	"time"

	"github.com/avos-io/goat"
	"github.com/avos-io/goat/gen/goatorepo"
	"google.golang.org/protobuf/proto"
	"google.golang.org/protobuf/types/known/wrapperspb"
)

// KV is one canonical metadata entry: lower-cased key, values in order.
type KV struct {
	K string   `json:"k"`
	V []string `json:"v"`
}

// EnvRec describes an envelope on the wire (presence bits as 0/1 ints).
type EnvRec struct {
	Id     string `json:"id"`
	Idn    int    `json:"idn"` // numeric id, -1 if it does not fit 31 bits
	H      int    `json:"h"`
	B      int    `json:"b"`
	S      int    `json:"s"`
	T      int    `json:"t"`
	R      int    `json:"r"`
	Code   int    `json:"code"`
	Msg    string `json:"msg"`
	Ndet   int    `json:"ndet"`
	Pay    string `json:"pay"`
	Md     []KV   `json:"md"`
	Tmd    []KV   `json:"tmd"`
	Meth   string `json:"meth"`
	Src    string `json:"src"`
	Dst    string `json:"dst"`
	To     string `json:"to"`     // raw grpc-timeout header value ("" = none)
	C      int    `json:"c"`      // call token carried in the header metadata
	BadMd  int    `json:"badmd"`  // 1 if some -bin header value is not valid base64
	BadTmd int    `json:"badtmd"` // same for the trailer metadata
	Rtype  string `json:"rtype"`
	Rec    int    `json:"rec"`  // length of proxy_record
	Nxt    int    `json:"nxt"`  // length of proxy_next
	Rs     string `json:"rs"`   // proxy_record, comma-joined
	Ns     string `json:"ns"`   // proxy_next, comma-joined
	Rret   string `json:"rret"` // the return route a reply to this envelope carries: the record without its last hop
}

// Ev is one trace line. Every top-level field is always present so that the
// TLA+ trace specification can access any of them on any line; env is present
// on wire events only.
type Ev struct {
	Seq  int     `json:"seq"`
	Sc   int     `json:"sc"`
	Conn int     `json:"conn"` // client connection index within the scenario (0 = scenario-wide)
	Ev   string  `json:"ev"`
	C    int     `json:"c"`    // call token (0 = none)
	H    int     `json:"h"`    // handler incarnation (0 = none)
	K    string  `json:"k"`    // kind / what
	Res  string  `json:"res"`  // result class
	Code int     `json:"code"` // status code (-1 = n/a, -2 = any non-OK)
	Msg  string  `json:"msg"`
	Pay  string  `json:"pay"` // payload token
	Md   []KV    `json:"md"`
	N    int     `json:"n"`
	T    int     `json:"t"` // virtual ms since scenario start
	X    string  `json:"x"` // free text
	Env  *EnvRec `json:"env,omitempty"`
}

type tracer struct {
	mu    sync.Mutex
	f     *os.File
	seq   int
	sc    int
	start time.Time
	n     atomic.Int64 // progress counter for the watchdog
	slim  bool         // long histories: registry and census lines only
	buf   []byte
}

var slimKeep = map[string]bool{"Begin": true, "Base": true, "Hk": true, "Quiesce": true, "CReg": true, "End": true,
	"Unwind": true, "Leak": true, "Wedged": true, "Crash": true, "Fault": true, "Unfault": true, "Note": true, "Stuck": true, "Mismatch": true}

var tr = &tracer{}

func (t *tracer) emit(e Ev) {
	t.mu.Lock()
	defer t.mu.Unlock()
	if t.slim && !slimKeep[e.Ev] {
		t.n.Add(1)
		return
	}
	t.seq++
	e.Seq = t.seq
	e.Sc = t.sc
	if e.Ev != "Begin" && e.T == 0 && !t.start.IsZero() {
		e.T = int(time.Since(t.start) / time.Millisecond)
	}
	b, err := json.Marshal(&e)
	if err != nil {
		panic(err)
	}
	b = append(b, '\n')
	if t.f != nil {
		t.f.Write(b)
	}
	t.n.Add(1)
}

// emitRaw is used by the watchdog from outside the bubble.
func (t *tracer) emitRaw(e Ev) {
	if !t.mu.TryLock() {
		// a wedged goroutine may hold it; write anyway
		b, _ := json.Marshal(&e)
		t.f.Write(append(b, '\n'))
		return
	}
	t.mu.Unlock()
	t.emit(e)
}

func ev(name string) Ev { return Ev{Ev: name, Code: -1, Md: []KV{}} }

// ---- tokens ---------------------------------------------------------------

func isPlain(b []byte) bool {
	for _, c := range b {
		if c < 0x21 || c > 0x7e || c == '"' || c == '\\' {
			return false
		}
	}
	return true
}

// tok abbreviates a byte string: literal when short and printable, else len:hash.
func tok(b []byte) string {
	if len(b) == 0 {
		return "-"
	}
	if len(b) <= 32 && isPlain(b) {
		return string(b)
	}
	h := sha256.Sum256(b)
	return fmt.Sprintf("%d:%s", len(b), hex.EncodeToString(h[:6]))
}

// bodyTok decodes a wire body (an encoded BytesValue) to the payload token.
func bodyTok(b *goatorepo.Body) string {
	if b == nil {
		return ""
	}
	var v wrapperspb.BytesValue
	if err := proto.Unmarshal(b.GetData(), &v); err != nil {
		return "raw!"
	}
	return tok(v.GetValue())
}

const tokenKey = "x-verif-call"
const timeoutKey = "grpc-timeout"

// kvCanon canonicalises wire key/values: lower-cased keys sorted, per-key order kept;
// -bin values are decoded (bad=1 if one is not valid base64). The harness's own
// token key and the timeout header are excluded (returned separately).
func kvCanon(kvs []*goatorepo.KeyValue) (md []KV, call int, timeout string, bad int) {
	m := map[string][]string{}
	for _, kv := range kvs {
		k := strings.ToLower(kv.GetKey())
		v := kv.GetValue()
		if k == tokenKey {
			fmt.Sscanf(v, "%d", &call)
			continue
		}
		if k == timeoutKey {
			timeout = v
			continue
		}
		if strings.HasSuffix(k, "-bin") {
			d, err := base64.URLEncoding.DecodeString(v)
			if err != nil {
				bad = 1
			} else {
				v = string(d)
			}
		}
		m[k] = append(m[k], v)
	}
	return mapCanon(m), call, timeout, bad
}

// mdCanon canonicalises API-level metadata (values are raw bytes for -bin keys).
func mdCanon(m map[string][]string) []KV { return mapCanon(m) }

func mapCanon(m map[string][]string) []KV {
	keys := make([]string, 0, len(m))
	mm := map[string][]string{}
	for k, v := range m {
		lk := strings.ToLower(k)
		if lk == tokenKey || lk == timeoutKey {
			continue
		}
		if _, ok := mm[lk]; !ok {
			keys = append(keys, lk)
		}
		mm[lk] = append(mm[lk], v...)
	}
	sort.Strings(keys)
	out := make([]KV, 0, len(keys))
	for _, k := range keys {
		vs := make([]string, 0, len(mm[k]))
		for _, v := range mm[k] {
			vs = append(vs, tok([]byte(v)))
		}
		out = append(out, KV{K: k, V: vs})
	}
	return out
}

func b2i(b bool) int {
	if b {
		return 1
	}
	return 0
}

// anonTab: scenarios whose calls carry no call token (notoken: the caller attaches no metadata at all, so the
// library's "no metadata" paths run). Calls are strictly sequential there: the first envelope of a new id on the
// client's wire belongs to the call started last, and a new handler to the request the server read last.
type anonTab struct {
	mu      sync.Mutex
	opening []int          // calls started whose first envelope has not been seen yet
	idTok   map[string]int // "conn/id" -> call
	srvNew  []int          // requests read by the server whose handler has not started yet
}

var anon *anonTab

func (a *anonTab) started(c int) {
	a.mu.Lock()
	a.opening = append(a.opening, c)
	a.mu.Unlock()
}

func (a *anonTab) nextHandler() int {
	a.mu.Lock()
	defer a.mu.Unlock()
	if len(a.srvNew) == 0 {
		return 0
	}
	c := a.srvNew[0]
	a.srvNew = a.srvNew[1:]
	return c
}

// fix fills in the call of a wire event from what the harness knows.
func (a *anonTab) fix(name string, conn int, x *EnvRec) {
	a.mu.Lock()
	defer a.mu.Unlock()
	key := fmt.Sprintf("%d/%s", conn, x.Id)
	c, known := a.idTok[key]
	if !known && name == "CW" && x.H == 1 && len(a.opening) > 0 {
		c, known = a.opening[0], true
		a.opening = a.opening[1:]
		a.idTok[key] = c
	}
	if known {
		x.C = c
		if name == "SR" && x.H == 1 && x.T == 0 && x.R == 0 && !a.seenSR(key) {
			a.srvNew = append(a.srvNew, c)
		}
	}
}

func (a *anonTab) seenSR(key string) bool {
	k := "sr:" + key
	if _, ok := a.idTok[k]; ok {
		return true
	}
	a.idTok[k] = 0
	return false
}

// envEv builds a wire event for an envelope.
func envEv(name string, conn int, r *goat.Rpc) Ev {
	e := ev(name)
	e.Conn = conn
	x := &EnvRec{Id: fmt.Sprintf("%d", r.GetId()), Idn: -1, Code: -1, Md: []KV{}, Tmd: []KV{}}
	if r.GetId() < 1<<31 {
		x.Idn = int(r.GetId())
	}
	x.H, x.B, x.S, x.T, x.R = b2i(r.GetHeader() != nil), b2i(r.GetBody() != nil), b2i(r.GetStatus() != nil), b2i(r.GetTrailer() != nil), b2i(r.GetReset_() != nil)
	if r.GetStatus() != nil {
		x.Code = int(r.GetStatus().GetCode())
		x.Msg = tok([]byte(r.GetStatus().GetMessage()))
		x.Ndet = len(r.GetStatus().GetDetails())
	}
	x.Pay = bodyTok(r.GetBody())
	var bad1, bad2 int
	x.Md, x.C, x.To, bad1 = kvCanon(r.GetHeader().GetHeaders())
	if r.GetTrailer() != nil {
		x.Tmd, _, _, bad2 = kvCanon(r.GetTrailer().GetMetadata())
	}
	x.BadMd, x.BadTmd = bad1, bad2
	h := r.GetHeader()
	x.Meth, x.Src, x.Dst = h.GetMethod(), h.GetSource(), h.GetDestination()
	x.Rec, x.Nxt = len(h.GetProxyRecord()), len(h.GetProxyNext())
	x.Rs, x.Ns = strings.Join(h.GetProxyRecord(), ","), strings.Join(h.GetProxyNext(), ",")
	if n := len(h.GetProxyRecord()); n > 1 {
		x.Rret = strings.Join(h.GetProxyRecord()[:n-1], ",")
	}
	if r.GetReset_() != nil {
		x.Rtype = r.GetReset_().GetType()
	}
	if a := anon; a != nil && x.C == 0 {
		a.fix(name, conn, x)
	}
	e.Env = x
	e.C = x.C
	return e
}
