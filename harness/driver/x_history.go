package driver

import (
	"bytes"
	"context"
	"encoding/json"
	"fmt"
	"io"
	"math/rand"
	"os"
	"strings"
	"sync/atomic"
	"testing"
	"testing/synctest"
	"time"

	"github.com/avos-io/goat"
	"github.com/avos-io/goat/verifhook"
	"google.golang.org/grpc/metadata"
	"google.golang.org/protobuf/types/known/wrapperspb"
)

// Runner "history": a long self-driving history of RPCs of all four kinds with
// all outcomes on ONE connection, in waves of up to Par concurrent RPCs. Only
// registry events and the census at the quiescent point after each wave are
// recorded (slim trace, validated by spec/GoatRegistryTrace.tla).
type historyScn struct {
	N    int   `json:"n"`    // number of RPCs
	Par  int   `json:"par"`  // RPCs per wave
	Seed int64 `json:"seed"` // workload seed
	// Storm: every wave is Par unary echo calls released at the same instant,
	// with distinct (optionally large) payloads; each caller checks that it got
	// the reply to its own request (C01, C05).
	Storm bool `json:"storm"`
	Big   bool `json:"big"`
}

func init() { runners["history"] = runHistory }

var histOutcomes = []string{"ok", "ok", "ok", "herr", "cancel", "deadline", "earlyret", "failopen", "cancelunread"}
var histKinds = []string{"unary", "unary", "bidi", "cs", "ss"}

func runHistory(t *testing.T, sc *Scenario, raw []byte) {
	var hs historyScn
	if err := json.Unmarshal(raw, &hs); err != nil {
		panic("verif-harness: " + err.Error())
	}
	if hs.Par <= 0 {
		hs.Par = 8
	}
	tr.mu.Lock()
	tr.slim = true
	tr.mu.Unlock()
	defer func() {
		tr.mu.Lock()
		tr.slim = false
		tr.mu.Unlock()
	}()
	synctest.Test(t, func(t *testing.T) {
		rt := &runtimeS{sc: sc, w: newWorld(), g: &gateTab{armed: map[string][]*armed{}},
			clis: map[int]*cliConn{}, srvs: map[int]*srvConn{}, calls: map[int]*call{}, objs: map[any]int{}}
		rt.root, rt.cancel = context.WithCancel(context.Background())
		tr.mu.Lock()
		tr.start = time.Now()
		tr.mu.Unlock()
		verifhook.Install(&verifhook.Hooks{Emit: rt.hookEmit, Gate: rt.g.gate})
		rt.defaults()
		b := ev("Begin")
		b.K, b.X, b.N, b.Msg, b.Pay = sc.Fam, "history", 1, sc.Srv, "cli1"
		tr.emit(b)
		rt.setup()
		synctest.Wait()
		rt.base, _ = census(true)
		e := ev("Base")
		e.N = rt.base
		tr.emit(e)

		rng := rand.New(rand.NewSource(hs.Seed))
		cc := rt.clis[1].cc
		link := rt.clis[1].link
		ntok := 0
		for done := 0; done < hs.N; {
			n := hs.Par
			if hs.N-done < n {
				n = hs.N - done
			}
			failopen := !hs.Storm && rng.Intn(12) == 0
			if failopen {
				link.c2s.with(func() { link.c2s.werr = errInjected })
			}
			var fin atomic.Int64
			if hs.Storm {
				gate := make(chan struct{})
				for i := 0; i < n; i++ {
					ntok++
					size := 16
					if hs.Big {
						size = []int{1500, 2048, 8192, 65536}[rng.Intn(4)]
					}
					seed := rng.Uint64()
					nst := 1 + rng.Intn(3)
					if i%3 == 2 {
						// a bidirectional echo stream of nst distinct messages: every reply must be
						// the caller's own message, in order, then io.EOF (C02, C05)
						go func(c int) {
							defer fin.Add(1)
							md := metadata.Pairs(tokenKey, fmt.Sprintf("%d", 1000000+c))
							ctx, cancel := context.WithCancel(metadata.NewOutgoingContext(rt.root, md))
							defer cancel()
							m, desc := methodOf("bidi")
							<-gate
							mism := func(what string, got, want []byte) {
								x := ev("Mismatch")
								x.C, x.K, x.Pay, x.Msg = c, what, tok(got), tok(want)
								tr.emit(x)
							}
							cs, err := cc.NewStream(ctx, desc, m)
							if err != nil {
								mism("open", nil, nil)
								return
							}
							for k := 0; k < nst; k++ {
								req := payBytes(fmt.Sprintf("@%d:%d", size, (seed+uint64(k))%(1<<30)+1))
								req = append([]byte(fmt.Sprintf("%08d.%d|", c, k)), req...)
								if err := cs.SendMsg(&wrapperspb.BytesValue{Value: req}); err != nil {
									mism("send", nil, req)
									return
								}
								reply := new(wrapperspb.BytesValue)
								if err := cs.RecvMsg(reply); err != nil || !bytes.Equal(reply.GetValue(), req) {
									mism("recv", reply.GetValue(), req)
									return
								}
							}
							_ = cs.CloseSend()
							if err := cs.RecvMsg(new(wrapperspb.BytesValue)); err != io.EOF {
								mism("eof", nil, nil)
							}
						}(ntok)
						continue
					}
					go func(c int) {
						defer fin.Add(1)
						req := payBytes(fmt.Sprintf("@%d:%d", size, seed%(1<<30)+1))
						req = append([]byte(fmt.Sprintf("%08d|", c)), req...)
						md := metadata.Pairs(tokenKey, fmt.Sprintf("%d", 1000000+c))
						ctx := metadata.NewOutgoingContext(rt.root, md)
						reply := new(wrapperspb.BytesValue)
						m, _ := methodOf("unary")
						<-gate
						err := cc.Invoke(ctx, m, &wrapperspb.BytesValue{Value: req}, reply)
						if err != nil || !bytes.Equal(reply.GetValue(), req) {
							x := ev("Mismatch")
							x.C, x.Pay, x.Msg = c, tok([]byte(reply.GetValue())), tok(req)
							if err != nil {
								x.Res = "err"
							}
							tr.emit(x)
						}
					}(ntok)
				}
				synctest.Wait()
				close(gate)
			}
			for i := 0; i < n && !hs.Storm; i++ {
				ntok++
				kind := histKinds[rng.Intn(len(histKinds))]
				out := histOutcomes[rng.Intn(len(histOutcomes))]
				if failopen {
					out = "failopen"
				} else if out == "failopen" {
					out = "ok"
				}
				nmsg := rng.Intn(4)
				go func(c int) {
					defer fin.Add(1)
					histRPC(rt, cc, c, kind, out, nmsg)
				}(ntok)
			}
			// let the wave run; advance virtual time for deadlines
			for k := 0; ; k++ {
				synctest.Wait()
				rt.w.mu.Lock()
				live := len(rt.w.handlers)
				rt.w.mu.Unlock()
				if int(fin.Load()) == n && live == 0 {
					break
				}
				if k > 200 { // 10 virtual seconds: something never finishes
					x := ev("Stuck")
					x.N, x.Code = n-int(fin.Load()), live
					tr.emit(x)
					break
				}
				time.Sleep(50 * time.Millisecond)
			}
			if failopen {
				link.c2s.with(func() { link.c2s.werr = nil })
			}
			synctest.Wait()
			done += n
			histCensus(rt)
		}
		rt.unwind()
		verifhook.Install(nil)
		n, tops := census(true)
		if n > 0 {
			l := ev("Leak")
			l.N, l.X = n, strings.Join(tops, " ")
			tr.emit(l)
			tr.emit(ev("End"))
			os.Exit(4)
		}
		tr.emit(ev("End"))
	})
}

// histCensus emits the census of a quiescent point between waves: every RPC of
// the wave has terminated on the client side and every handler has returned.
func histCensus(rt *runtimeS) {
	rt.w.mu.Lock()
	live := len(rt.w.handlers)
	rt.w.mu.Unlock()
	e := ev("CReg")
	e.Conn, e.N = 1, rt.clis[1].cc.VerifRegistrySize()
	tr.emit(e)
	n, tops := census(true)
	q := ev("Quiesce")
	q.N = n
	q.K = fmt.Sprintf("%d", rt.base)
	if live == 0 {
		q.Res = "idle"
	} else {
		q.Res = "busy"
	}
	q.Code = live
	if n > rt.base {
		q.X = strings.Join(tops, " ")
	}
	tr.emit(q)
}

// histRPC runs one RPC to completion (from the caller's point of view).
func histRPC(rt *runtimeS, cc *goat.ClientConn, c int, kind, out string, nmsg int) {
	md := metadata.Pairs(tokenKey, fmt.Sprintf("%d", c))
	ctx := metadata.NewOutgoingContext(rt.root, md)
	var cancel context.CancelFunc
	if out == "deadline" {
		ctx, cancel = context.WithTimeout(ctx, 20*time.Millisecond)
	} else {
		ctx, cancel = context.WithCancel(ctx)
	}
	defer cancel()
	bv := func(s string) *wrapperspb.BytesValue { return &wrapperspb.BytesValue{Value: []byte(s)} }
	if out == "cancelunread" && (kind == "cs" || kind == "unary") {
		out = "cancel" // a client-streaming / unary handler has no responses to leave unread
	}

	// handler program
	var hp []HOp
	switch {
	case kind == "unary":
		switch out {
		case "herr", "earlyret":
			hp = []HOp{{O: "ret", Code: 5, Msg: "nope"}}
		case "cancel":
			hp = []HOp{{O: "sleep", Ms: 5}, {O: "ret", Pay: "late"}}
		case "deadline":
			hp = []HOp{{O: "ctxwait"}, {O: "ret", Code: 4, Msg: "dl"}}
		default:
			hp = []HOp{{O: "ret", Pay: "\x00echo"}}
		}
	case out == "herr":
		hp = []HOp{{O: "recv"}, {O: "ret", Code: 9, Msg: "failed"}}
	case out == "earlyret":
		hp = []HOp{{O: "ret"}}
	case out == "cancelunread" && kind != "cs":
		// two responses, then the handler waits for its context; the caller takes one and cancels
		hp = []HOp{{O: "send", Pay: "u0"}, {O: "send", Pay: "u1"}, {O: "ctxwait"}, {O: "ret", Code: 1, Msg: "gone"}}
	case out == "cancel" || out == "deadline" || out == "cancelunread":
		hp = []HOp{{O: "ctxwait"}, {O: "ret", Code: 1, Msg: "gone"}}
	case kind == "bidi":
		hp = []HOp{{O: "echo"}}
	case kind == "cs":
		hp = []HOp{{O: "drain"}, {O: "send", Pay: "sum"}, {O: "ret"}}
	default: // ss
		hp = []HOp{{O: "recv"}, {O: "burst", Pay: "s", N: nmsg}, {O: "ret"}}
	}
	rt.w.push(c, hp...)
	defer rt.w.forget(c)

	if kind == "unary" {
		if out == "cancel" {
			time.AfterFunc(time.Millisecond, cancel)
		}
		reply := new(wrapperspb.BytesValue)
		m, _ := methodOf("unary")
		_ = cc.Invoke(ctx, m, bv(fmt.Sprintf("q%d", c)), reply)
		return
	}
	m, desc := methodOf(kind)
	cs, err := cc.NewStream(ctx, desc, m)
	if err != nil {
		return
	}
	if kind == "ss" {
		nmsg = 1
	}
	if (out == "cancel" || out == "deadline" || out == "cancelunread") && nmsg > 1 {
		// The handler of these outcomes only waits for its context. A second
		// unread message would park the server's read loop (holding the registry
		// lock, by design, until the handler's deadline) and goroutines waiting
		// for a sync.Mutex are not durably blocked: synctest could then never
		// advance the virtual clock to that deadline.
		nmsg = 1
	}
	if out == "deadline" {
		nmsg = 0 // the half-close below is the one envelope the handler's queue can hold
	}
	for i := 0; i < nmsg; i++ {
		if cs.SendMsg(bv(fmt.Sprintf("m%d.%d", c, i))) != nil {
			break
		}
		if i == 0 && out == "cancel" {
			cancel()
		}
	}
	if out == "cancel" {
		cancel()
	}
	if out == "cancelunread" {
		_ = cs.RecvMsg(new(wrapperspb.BytesValue))
		cancel()
		return // never receives again
	}
	_ = cs.CloseSend()
	for i := 0; i < 1000; i++ {
		if err := cs.RecvMsg(new(wrapperspb.BytesValue)); err != nil {
			_ = err == io.EOF
			break
		}
	}
}
