package driver

import (
	"context"
	"encoding/hex"
	"errors"
	"fmt"
	"io"
	"runtime"
	"strconv"
	"strings"
	"sync"
	"time"

	"google.golang.org/grpc"
	"google.golang.org/grpc/codes"
	"google.golang.org/grpc/metadata"
	"google.golang.org/grpc/status"
	"google.golang.org/protobuf/types/known/anypb"
	"google.golang.org/protobuf/types/known/wrapperspb"
)

const svcName = "verif.Svc"

// HOp is one scripted handler operation.
type HOp struct {
	O    string      `json:"o"` // recv send sethdr sendhdr settrl ctxwait sleep ret echo drain burst
	Pay  string      `json:"pay,omitempty"`
	Md   [][2]string `json:"md,omitempty"`
	Ms   int         `json:"ms,omitempty"`
	Code int         `json:"code,omitempty"`
	Msg  string      `json:"msg,omitempty"`
	Ek   string      `json:"ek,omitempty"`  // error kind: status wrapped plain ctxcancel ctxdl okerr
	Det  int         `json:"det,omitempty"` // number of Any details
	N    int         `json:"n,omitempty"`
	Via  string      `json:"via,omitempty"` // stream handlers: "ctx" = through grpc.SetHeader / SendHeader / SetTrailer(ctx, ...) instead of the stream's methods
}

// hqueue is the per-call command queue of a handler.
type hqueue struct {
	mu     sync.Mutex
	ops    []HOp
	closed bool
	sig    chan struct{} // capacity 1: an op was queued
	done   chan struct{} // closed by close
}

func newHQueue() *hqueue { return &hqueue{sig: make(chan struct{}, 1), done: make(chan struct{})} }

func (q *hqueue) wake() {
	select {
	case q.sig <- struct{}{}:
	default:
	}
}

func (q *hqueue) put(op HOp) {
	q.mu.Lock()
	q.ops = append(q.ops, op)
	q.mu.Unlock()
	q.wake()
}

func (q *hqueue) close() {
	q.mu.Lock()
	if !q.closed {
		q.closed = true
		close(q.done)
	}
	q.mu.Unlock()
}

// get blocks until an op is queued (ok) or the queue is closed and drained (!ok).
func (q *hqueue) get() (HOp, bool) {
	for {
		q.mu.Lock()
		if len(q.ops) > 0 {
			op := q.ops[0]
			q.ops = q.ops[1:]
			more := len(q.ops) > 0
			q.mu.Unlock()
			if more {
				q.wake()
			}
			return op, true
		}
		closed := q.closed
		q.mu.Unlock()
		if closed {
			return HOp{}, false
		}
		select {
		case <-q.sig:
		case <-q.done:
		}
	}
}

type hstate struct {
	h       int
	c       int
	conn    int
	kind    string
	ctx     context.Context
	started bool
	ret     bool
	in      string // current operation ("idle" while waiting for the script)
}

// world is the per-scenario shared state of scripted endpoints.
type world struct {
	mu       sync.Mutex
	hq       map[int]*hqueue // call token -> queue
	hn       int
	usedTok  map[int]bool
	mdCache  map[string]metadata.MD // identical scripted metadata is ONE object across calls (legal: setters must copy)
	handlers []*hstate              // live (not yet returned) handler incarnations
	closed   bool
	connOf   func(ctx context.Context) int
	stopSrv  func() // handler op "stopsrv": the application stops its server from inside a handler
}

func newWorld() *world {
	return &world{hq: map[int]*hqueue{}, usedTok: map[int]bool{}, mdCache: map[string]metadata.MD{}}
}

func (w *world) queue(c int) *hqueue {
	w.mu.Lock()
	defer w.mu.Unlock()
	q, ok := w.hq[c]
	if !ok {
		q = newHQueue()
		if w.closed {
			q.close()
		}
		w.hq[c] = q
	}
	return q
}

func (w *world) push(c int, ops ...HOp) {
	q := w.queue(c)
	w.mu.Lock()
	defer w.mu.Unlock()
	if w.closed {
		return
	}
	for _, op := range ops {
		q.put(op)
	}
}

// forget drops the program queue of a call (long histories).
func (w *world) forget(c int) {
	w.mu.Lock()
	delete(w.hq, c)
	w.mu.Unlock()
}

// closeAll ends every handler program (used by the final unwind).
func (w *world) closeAll() {
	w.mu.Lock()
	defer w.mu.Unlock()
	if w.closed {
		return
	}
	w.closed = true
	for _, q := range w.hq {
		q.close()
	}
}

func (w *world) newHandler(ctx context.Context, kind string) (*hstate, *hqueue) {
	c := 0
	if md, ok := metadata.FromIncomingContext(ctx); ok {
		if v := md.Get(tokenKey); len(v) > 0 {
			c, _ = strconv.Atoi(v[0])
		}
	}
	if c == 0 && anon != nil {
		c = anon.nextHandler()
	}
	w.mu.Lock()
	w.hn++
	hs := &hstate{h: w.hn, c: c, kind: kind, ctx: ctx, started: true}
	if cv, ok := ctx.Value(connKey{}).(int); ok {
		hs.conn = cv
	}
	if lt, ok := ctx.Value(lazyKey{}).(*lazyTap); ok && hs.conn == 0 {
		lt.mu.Lock()
		hs.conn = lt.conn // relay topologies: the logical connection knows its client by now
		lt.mu.Unlock()
	}
	// a call token serves one handler incarnation; later ones get the default program
	var q *hqueue
	if c != 0 && !w.usedTok[c] {
		// no scripted program for this token (raw peers): default program
		w.usedTok[c] = true
		q = w.hq[c]
	}
	w.handlers = append(w.handlers, hs)
	w.mu.Unlock()
	return hs, q
}

func (w *world) dropLocked(hs *hstate) {
	for i, o := range w.handlers {
		if o == hs {
			w.handlers[i] = w.handlers[len(w.handlers)-1]
			w.handlers = w.handlers[:len(w.handlers)-1]
			break
		}
	}
	delete(w.hq, hs.c)
}

func (w *world) setIn(hs *hstate, in string) {
	w.mu.Lock()
	hs.in = in
	w.mu.Unlock()
}

// sharedMD returns the scenario-wide object for a scripted metadata set. Handlers hand THIS object to
// the library (as an application with package-level "common headers" would); events are logged from
// a private copy of the script (mdOf), so a library that scribbles into the caller's map is noticed.
func (w *world) sharedMD(p [][2]string) metadata.MD {
	key := fmt.Sprint(p)
	w.mu.Lock()
	defer w.mu.Unlock()
	m, ok := w.mdCache[key]
	if !ok {
		m = mdOf(p)
		w.mdCache[key] = m
	}
	return m
}

type connKey struct{}

// mdVal decodes a scripted metadata value: "@x:<hex>" stands for arbitrary bytes.
func mdVal(v string) string {
	if strings.HasPrefix(v, "@x:") {
		b, err := hex.DecodeString(v[3:])
		if err != nil {
			panic("verif-harness: bad hex metadata value " + v)
		}
		return string(b)
	}
	return v
}

// mdOf builds metadata exactly as scripted: keys keep their letter case (the
// library and grpc's metadata package have to normalise them).
func mdOf(p [][2]string) metadata.MD {
	m := metadata.MD{}
	for _, kv := range p {
		m[kv[0]] = append(m[kv[0]], mdVal(kv[1]))
	}
	return m
}

func mkErr(op HOp) error {
	if op.Code == 0 && (op.Ek == "" || op.Ek == "unenc") {
		return nil
	}
	switch op.Ek {
	case "plain":
		return errors.New(op.Msg)
	case "ctxcancel":
		return context.Canceled
	case "ctxdl":
		return context.DeadlineExceeded
	case "okerr": // a non-nil error whose status code is OK
		return okErr{op.Msg}
	}
	st := status.New(codes.Code(op.Code), op.Msg)
	if op.Det > 0 {
		var ds []*anypb.Any
		for i := 0; i < op.Det; i++ {
			a, _ := anypb.New(wrapperspb.String(fmt.Sprintf("detail-%d-%s", i, op.Msg)))
			ds = append(ds, a)
		}
		p := st.Proto()
		p.Details = ds
		st = status.FromProto(p)
	}
	if op.Ek == "wrapped" {
		return fmt.Errorf("wrapped: %w", st.Err())
	}
	return st.Err()
}

// okErr is a non-nil error whose gRPC status code is OK.
type okErr struct{ msg string }

func (e okErr) Error() string              { return e.msg }
func (e okErr) GRPCStatus() *status.Status { return status.New(codes.OK, e.msg) }

// expectedStatus describes what the caller must observe for a handler return:
// code -2 means "any non-OK code" (non-status errors).
func expectedStatus(err error) (code int, msg string, ndet int) {
	if err == nil {
		return 0, "", 0
	}
	st, ok := status.FromError(err)
	if !ok {
		return -2, err.Error(), 0
	}
	return int(st.Code()), st.Message(), len(st.Proto().GetDetails())
}

func payBytes(s string) []byte {
	// "@N:seed" expands to N pseudo-random bytes; otherwise literal
	if len(s) > 1 && s[0] == '@' {
		var n int
		var seed uint64
		fmt.Sscanf(s[1:], "%d:%d", &n, &seed)
		b := make([]byte, n)
		x := seed*2862933555777941757 + 3037000493
		for i := range b {
			x ^= x << 13
			x ^= x >> 7
			x ^= x << 17
			b[i] = byte(x >> 24)
		}
		return b
	}
	return []byte(s)
}

// ---- unary -----------------------------------------------------------------

func (w *world) unaryHandler(srv any, ctx context.Context, dec func(any) error, icpt grpc.UnaryServerInterceptor) (any, error) {
	in := new(wrapperspb.BytesValue)
	if err := dec(in); err != nil {
		return nil, err
	}
	impl := func(ctx context.Context, req any) (any, error) {
		return w.runUnary(ctx, req.(*wrapperspb.BytesValue))
	}
	if icpt == nil {
		return impl(ctx, in)
	}
	info := &grpc.UnaryServerInfo{Server: srv, FullMethod: "/" + svcName + "/Unary"}
	return icpt(ctx, in, info, impl)
}

func dlOf(ctx context.Context) int {
	if d, ok := ctx.Deadline(); ok {
		return int(time.Until(d) / time.Microsecond)
	}
	return -1
}

func (w *world) runUnary(ctx context.Context, in *wrapperspb.BytesValue) (any, error) {
	hs, q := w.newHandler(ctx, "unary")
	e := ev("HStart")
	e.C, e.H, e.Conn, e.K = hs.c, hs.h, hs.conn, "unary"
	e.Pay = tok(in.GetValue())
	md, _ := metadata.FromIncomingContext(ctx)
	e.Md = mdCanon(md)
	e.N = dlOf(ctx)
	tr.emit(e)
	var reply []byte = in.GetValue()
	var rerr error
	badReply := false // the handler returns (a reply the codec refuses, nil)
	done := false
	for !done {
		var op HOp
		ok := false
		if q != nil {
			w.setIn(hs, "idle")
			op, ok = q.get()
		}
		if !ok {
			op = HOp{O: "ret", Pay: "\x00echo"}
		}
		w.setIn(hs, op.O)
		switch op.O {
		case "sethdr":
			err := grpc.SetHeader(ctx, w.sharedMD(op.Md))
			he := ev("HSetHdr")
			he.C, he.H, he.Conn, he.Md = hs.c, hs.h, hs.conn, mdCanon(mdOf(op.Md))
			he.Res = errRes(err)
			tr.emit(he)
		case "sendhdr":
			err := grpc.SendHeader(ctx, w.sharedMD(op.Md))
			he := ev("HSendHdr")
			he.C, he.H, he.Conn, he.Md = hs.c, hs.h, hs.conn, mdCanon(mdOf(op.Md))
			he.Res = errRes(err)
			tr.emit(he)
		case "settrl":
			err := grpc.SetTrailer(ctx, w.sharedMD(op.Md))
			he := ev("HSetTrl")
			he.C, he.H, he.Conn, he.Md = hs.c, hs.h, hs.conn, mdCanon(mdOf(op.Md))
			he.Res = errRes(err)
			tr.emit(he)
		case "ctxwait":
			<-ctx.Done()
			he := ev("HCtxDone")
			he.C, he.H, he.Conn = hs.c, hs.h, hs.conn
			tr.emit(he)
		case "sleep":
			time.Sleep(time.Duration(op.Ms) * time.Millisecond)
		case "stopsrv":
			if w.stopSrv != nil {
				w.stopSrv()
			}
		case "ret":
			if op.Pay != "\x00echo" {
				reply = payBytes(op.Pay)
			}
			rerr = mkErr(op)
			badReply = op.Ek == "unenc"
			done = true
		default:
			// stream-only ops are ignored in unary handlers
		}
	}
	he := ev("HRet")
	he.C, he.H, he.Conn, he.K = hs.c, hs.h, hs.conn, "unary"
	code, msg, nd := expectedStatus(rerr)
	he.Code, he.Msg, he.N = code, tok([]byte(msg)), nd
	he.Pay = tok(reply)
	if badReply && rerr == nil {
		he.Pay = "@unenc"
	}
	if ctx.Err() != nil {
		he.Res = "ctxdone"
	}
	w.mu.Lock()
	hs.ret = true
	w.dropLocked(hs)
	tr.emit(he)
	w.mu.Unlock()
	if rerr != nil {
		return nil, rerr
	}
	if badReply {
		return "not a protobuf message", nil
	}
	return &wrapperspb.BytesValue{Value: reply}, nil
}

func errRes(err error) string {
	if err == nil {
		return "ok"
	}
	return "err"
}

// ---- streams ---------------------------------------------------------------

func (w *world) streamHandler(kind string) grpc.StreamHandler {
	return func(srv any, ss grpc.ServerStream) error {
		return w.runStream(kind, ss)
	}
}

func (w *world) runStream(kind string, ss grpc.ServerStream) error {
	ctx := ss.Context()
	hs, q := w.newHandler(ctx, kind)
	e := ev("HStart")
	e.C, e.H, e.Conn, e.K = hs.c, hs.h, hs.conn, kind
	md, _ := metadata.FromIncomingContext(ctx)
	e.Md = mdCanon(md)
	e.N = dlOf(ctx)
	tr.emit(e)

	base := func(name string) Ev {
		x := ev(name)
		x.C, x.H, x.Conn = hs.c, hs.h, hs.conn
		return x
	}
	m := new(wrapperspb.BytesValue) // one object for every RecvMsg of this handler (the library must overwrite it)
	recv := func() (string, error) {
		w.setIn(hs, "recv")
		tr.emit(base("HRecv"))
		err := ss.RecvMsg(m)
		r := base("HRecvRet")
		switch {
		case err == nil:
			r.Res, r.Pay = "msg", tok(m.GetValue())
		case err == io.EOF:
			r.Res = "eof"
		default:
			r.Res = "err"
			r.Code = int(status.Code(err))
			if ctx.Err() != nil {
				r.K = "ctxdone"
			}
		}
		tr.emit(r)
		return string(m.GetValue()), err
	}
	send := func(p []byte) error {
		w.setIn(hs, "send")
		s := base("HSend")
		s.Pay = tok(p)
		tr.emit(s)
		err := ss.SendMsg(&wrapperspb.BytesValue{Value: p})
		r := base("HSendRet")
		r.Res = errRes(err)
		if ctx.Err() != nil {
			r.K = "ctxdone"
		}
		tr.emit(r)
		return err
	}

	var rerr error
	done := false
	for !done {
		var op HOp
		ok := false
		if q != nil {
			w.setIn(hs, "idle")
			op, ok = q.get()
		}
		if !ok {
			op = HOp{O: "echo"}
		}
		w.setIn(hs, op.O)
		switch op.O {
		case "recv":
			recv()
		case "send":
			send(payBytes(op.Pay))
		case "burst":
			for i := 0; i < op.N; i++ {
				if send(payBytes(fmt.Sprintf("%s.%d", op.Pay, i))) != nil {
					break
				}
			}
		case "sethdr":
			var err error
			if op.Via == "ctx" {
				err = grpc.SetHeader(ctx, w.sharedMD(op.Md))
			} else {
				err = ss.SetHeader(w.sharedMD(op.Md))
			}
			he := base("HSetHdr")
			he.Md, he.Res = mdCanon(mdOf(op.Md)), errRes(err)
			tr.emit(he)
		case "sendhdr":
			he := base("HSendHdr")
			he.Md = mdCanon(mdOf(op.Md))
			tr.emit(he)
			var err error
			if op.Via == "ctx" {
				err = grpc.SendHeader(ctx, w.sharedMD(op.Md))
			} else {
				err = ss.SendHeader(w.sharedMD(op.Md))
			}
			hr := base("HSendHdrRet")
			hr.Res = errRes(err)
			tr.emit(hr)
		case "stopsrv":
			if w.stopSrv != nil {
				w.stopSrv()
			}
		case "sendbad":
			// a message the codec refuses: SendMsg fails, nothing is written for it, the stream goes on
			err := ss.SendMsg("not a protobuf message")
			he := base("HSendBad")
			he.Res = errRes(err)
			tr.emit(he)
		case "settrl":
			if op.Via == "ctx" {
				grpc.SetTrailer(ctx, w.sharedMD(op.Md))
			} else {
				ss.SetTrailer(w.sharedMD(op.Md))
			}
			he := base("HSetTrl")
			he.Md, he.Res = mdCanon(mdOf(op.Md)), "ok"
			tr.emit(he)
		case "parhdr":
			// SendHeader in a goroutine of its own, concurrently with a Send of the handler goroutine (the API permits
			// header calls concurrent with sends): whichever goes first, headers a successful SendHeader reports as
			// sent are on the first envelope
			doneCh := make(chan struct{})
			go func() {
				defer close(doneCh)
				he := base("HSendHdr")
				he.Md = mdCanon(mdOf(op.Md))
				tr.emit(he)
				err := ss.SendHeader(w.sharedMD(op.Md))
				hr := base("HSendHdrRet")
				hr.Res = errRes(err)
				tr.emit(hr)
			}()
			if op.N > 0 {
				runtime.Gosched()
			}
			send(payBytes(op.Pay))
			<-doneCh
		case "ctxwait":
			<-ctx.Done()
			tr.emit(base("HCtxDone"))
		case "sleep":
			time.Sleep(time.Duration(op.Ms) * time.Millisecond)
		case "stall":
			// stuck in something of its own: neither data nor the context moves it; only the end of the scenario does
			if q != nil {
				<-q.done
			}
		case "drain":
			for {
				if _, err := recv(); err != nil {
					break
				}
			}
		case "echo":
			// echo until EOF (then succeed) or error (then fail with it)
			for {
				p, err := recv()
				if err == io.EOF {
					break
				}
				if err != nil {
					rerr = status.Error(codes.Aborted, "recv failed")
					break
				}
				if kind != "cs" {
					if err := send([]byte(p)); err != nil {
						rerr = status.Error(codes.Aborted, "send failed")
						break
					}
				}
			}
			done = true
		case "ret":
			rerr = mkErr(op)
			done = true
		}
	}
	he := base("HRet")
	he.K = kind
	code, msg, nd := expectedStatus(rerr)
	if rerr != nil && code == 0 {
		code = int(codes.Internal) // documented rewrite: OK code with non-nil error
	}
	he.Code, he.Msg, he.N = code, tok([]byte(msg)), nd
	if ctx.Err() != nil {
		he.Res = "ctxdone"
	}
	w.mu.Lock()
	hs.ret = true
	w.dropLocked(hs)
	tr.emit(he)
	w.mu.Unlock()
	return rerr
}

func (w *world) serviceDesc() *grpc.ServiceDesc {
	return &grpc.ServiceDesc{
		ServiceName: svcName,
		HandlerType: (*any)(nil),
		Methods: []grpc.MethodDesc{
			{MethodName: "Unary", Handler: w.unaryHandler},
		},
		Streams: []grpc.StreamDesc{
			{StreamName: "Bidi", Handler: w.streamHandler("bidi"), ServerStreams: true, ClientStreams: true},
			{StreamName: "CS", Handler: w.streamHandler("cs"), ClientStreams: true},
			{StreamName: "SS", Handler: w.streamHandler("ss"), ServerStreams: true},
		},
	}
}
