--------------------------- MODULE GoatProtocolMC ---------------------------
(***************************************************************************)
(* Closure of Layer P for model checking: do the LOCAL rules of            *)
(* GoatProtocol (each event judged against what was delivered / called     *)
(* before it) COMPOSE to the END-TO-END statements of the properties?       *)
(*                                                                         *)
(* The environment below offers, in every state, every event an            *)
(* implementation could log - API calls and returns with any result,       *)
(* envelopes of every shape written by either side, handler events with    *)
(* any argument - and GoatProtocol's enabling conditions decide which of   *)
(* them are explainable.  Whatever sequence of explainable events TLC      *)
(* finds, the end-to-end invariants must hold:                             *)
(*   Paired          a successful unary result is the reply its own        *)
(*                   handler produced for its own request (C01)            *)
(*   StatusAgrees    a unary error status is the one its handler returned  *)
(*                   (no cancellation, no fault in this closure) (C03)     *)
(*   ClientPrefix    what a stream's caller received is a prefix of what   *)
(*                   its handler sent, in order (C02, C05)                 *)
(*   ServerPrefix    what the handler received is a prefix of what the     *)
(*                   caller sent (C02, C05)                                *)
(*   EofIffOk        the caller sees io.EOF only if its handler returned   *)
(*                   OK, and then it has received everything (C02, C03)    *)
(* If a rule of GoatProtocol were too weak (a trace specification that     *)
(* accepts too much), one of these would fail here.                        *)
(***************************************************************************)
EXTENDS GoatProtocol

CONSTANTS Pays,     \* payload tokens, e.g. {"a", "b"}
          MaxEv,    \* bound on the number of events
          MaxMsg    \* messages per direction on the stream

VARIABLES nev,      \* events so far
          ures,     \* result of the unary call: <<res, code, pay>> or <<>>
          crecv,    \* payloads the stream's caller received
          ceof,     \* the caller saw io.EOF
          hgot      \* handler incarnation -> payloads it received

mcvars == <<vars, nev, ures, crecv, ceof, hgot>>

U == 1      \* token of the unary call
S == 2      \* token of the streaming call

E0 == [id |-> "", idn |-> -1, h |-> 1, b |-> 0, s |-> 0, t |-> 0, r |-> 0, code |-> -1, msg |-> "", ndet |-> 0,
       pay |-> "", md |-> <<>>, tmd |-> <<>>, meth |-> "", src |-> "", dst |-> "", to |-> "", c |-> 0,
       badmd |-> 0, badtmd |-> 0, rtype |-> "", rec |-> 0, nxt |-> 0, rs |-> "", ns |-> "", rret |-> ""]
IdStr(n) == IF n = 1 THEN "1" ELSE IF n = 2 THEN "2" ELSE "3"
CEnv(n, kind) == [E0 EXCEPT !.id = IdStr(n), !.idn = n, !.meth = MethOfKind(kind), !.src = cfg.cli, !.dst = cfg.srv]
SEnv(n, kind) == [E0 EXCEPT !.id = IdStr(n), !.idn = n, !.meth = MethOfKind(kind), !.src = cfg.srv, !.dst = cfg.cli]

\* every envelope a client could put on the wire
ClientEnvs ==
  LET ids == 1..2 IN
  UNION { { [CEnv(n, "unary") EXCEPT !.b = 1, !.pay = p, !.c = U] : p \in Pays }
          \cup { [CEnv(n, "bidi") EXCEPT !.c = S], CEnv(n, "bidi") }
          \cup { [CEnv(n, "bidi") EXCEPT !.b = 1, !.pay = p] : p \in Pays }
          \cup { [CEnv(n, "bidi") EXCEPT !.t = 1, !.s = 1, !.code = 0] }
          \cup { [CEnv(n, "bidi") EXCEPT !.r = 1, !.rtype = "RST_STREAM"] } : n \in ids }
\* every envelope a server could put on the wire
ServerEnvs ==
  LET ids == 1..2 IN
  UNION { { [SEnv(n, "unary") EXCEPT !.t = 1, !.b = 1, !.pay = p] : p \in Pays }
          \cup { [SEnv(n, "unary") EXCEPT !.t = 1, !.s = 1, !.code = 5] }
          \cup { [SEnv(n, "bidi") EXCEPT !.b = 1, !.pay = p] : p \in Pays }
          \cup { [SEnv(n, "bidi") EXCEPT !.t = 1, !.s = 1, !.code = cd] : cd \in {0, 5} }
          \cup { [SEnv(n, "bidi") EXCEPT !.t = 1, !.r = 1, !.rtype = "RST_STREAM"] } : n \in ids }

MCInit == Init /\ nev = 0 /\ ures = <<>> /\ crecv = <<>> /\ ceof = FALSE /\ hgot = <<>>

Same == UNCHANGED <<ures, crecv, ceof, hgot>>
Step(A) == nev < MaxEv /\ nev' = nev + 1 /\ now' = now /\ A

MCNext ==
  \/ Step(\E p \in Pays : UCall(U, p, EmptyF, 0)) /\ Same
  \/ Step(SOpen(S, "bidi", EmptyF, 0)) /\ Same
  \/ Step(\E e \in ClientEnvs : ClientWrite(e)) /\ Same
  \/ Step(nSR < Len(cw) /\ ServerRead(cw[nSR + 1], nSR + 1)) /\ Same
  \/ Step(\E h \in 1..2, c \in {U, S}, p \in Pays \cup {""} :
            HStart(h, c, IF c = U THEN "unary" ELSE "bidi", p, EmptyF, -1)) /\ Same
  \/ \E h \in DOMAIN hnds, res \in {"msg", "eof", "err"}, p \in Pays \cup {""} :
        /\ Step(HRecvRet(h, res, p))
        /\ hgot' = IF res = "msg" THEN Put(hgot, h, Append(Get(hgot, h, <<>>), p)) ELSE hgot
        /\ UNCHANGED <<ures, crecv, ceof>>
  \/ Step(\E h \in DOMAIN hnds, p \in Pays : Len(hnds[h].sent) < MaxMsg /\ HSend(h, p)) /\ Same
  \/ Step(\E h \in DOMAIN hnds, res \in {"ok", "err"} : HSendRet(h, res)) /\ Same
  \/ Step(\E h \in DOMAIN hnds, cd \in {0, 5}, p \in Pays : HRet(h, cd, "", 0, IF hnds[h].kind = "unary" THEN p ELSE "")) /\ Same
  \/ Step(\E e \in ServerEnvs : ServerWrite(e)) /\ Same
  \/ Step(nCR < Len(sw) /\ ClientRead(sw[nCR + 1], nCR + 1)) /\ Same
  \/ \E res \in {"ok", "err"}, cd \in {-1, 0, 5}, p \in Pays \cup {""} :
        /\ Step(URet(U, res, cd, "", 0, p))
        /\ ures' = <<res, cd, p>> /\ UNCHANGED <<crecv, ceof, hgot>>
  \/ Step(\E res \in {"ok", "err"} : SOpenRet(S, res)) /\ Same
  \/ Step(\E p \in Pays : S \in DOMAIN calls /\ Len(calls[S].sent) < MaxMsg /\ SSend(S, p)) /\ Same
  \/ Step(\E res \in {"ok", "err"} : SSendRet(S, res, "other")) /\ Same
  \/ Step(SClose(S)) /\ Same
  \/ Step(\E res \in {"ok", "err"} : SCloseRet(S, res)) /\ Same
  \/ \E res \in {"msg", "eof", "err"}, cd \in {-1, 0, 1, 5}, p \in Pays \cup {""} :
        /\ Step(SRecvRet(S, res, cd, "", 0, p, FALSE))
        /\ crecv' = IF res = "msg" THEN Append(crecv, p) ELSE crecv
        /\ ceof' = (ceof \/ res = "eof")
        /\ UNCHANGED <<ures, hgot>>
  \/ nev = MaxEv /\ UNCHANGED mcvars

MCSpec == MCInit /\ [][MCNext]_mcvars

-----------------------------------------------------------------------------
HandlersOf(c) == {h \in DOMAIN hnds : hnds[h].c = c}
IsPrefixOf(a, b) == Len(a) <= Len(b) /\ \A i \in 1..Len(a) : a[i] = b[i]
\* the messages of a handler that were not refused, in order
SentOk(h) == SelectSeq([i \in DOMAIN hnds[h].sent |-> <<hnds[h].sent[i], hnds[h].sres[i]>>], LAMBDA x : x[2] # "err")

\* C01: exactly one handler per request, and the caller's reply is that handler's reply to that request
Paired ==
  /\ Cardinality(HandlersOf(U)) <= 1 /\ Cardinality(HandlersOf(S)) <= 1
  /\ (ures # <<>> /\ ures[1] = "ok") =>
        \E h \in HandlersOf(U) : hnds[h].ret /\ hnds[h].rc = 0 /\ hnds[h].rpay = ures[3]
\* C03: an error status reported to the unary caller is its handler's (nothing else can fail here)
StatusAgrees ==
  (ures # <<>> /\ ures[1] = "err") =>
        \E h \in HandlersOf(U) : hnds[h].ret /\ hnds[h].rc = ures[2] /\ ures[2] # 0
\* C02 / C05: per-direction prefix delivery on the stream
ClientPrefix == \A h \in HandlersOf(S) : \E k \in 0..Len(SentOk(h)) :
                   crecv = [i \in 1..k |-> SentOk(h)[i][1]]
ClientGotNothingWithoutHandler == HandlersOf(S) = {} => crecv = <<>>
ServerPrefix == \A h \in HandlersOf(S) : S \in DOMAIN calls /\ IsPrefixOf(Get(hgot, h, <<>>), calls[S].sent)
\* C02 / C03: io.EOF exactly on success, after everything
EofIffOk == ceof => \E h \in HandlersOf(S) : hnds[h].ret /\ hnds[h].rc = 0 /\ Len(crecv) = Len(SentOk(h))

\* Reachability probes (must be VIOLATED: they show that the invariants above are exercised)
ProbeUnaryOk == ~(ures # <<>> /\ ures[1] = "ok")
ProbeUnaryErr == ~(ures # <<>> /\ ures[1] = "err")
ProbeEof == ~ceof
ProbeMsgThenEof == ~(ceof /\ Len(crecv) = 1)
=============================================================================
