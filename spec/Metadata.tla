------------------------------ MODULE Metadata ------------------------------
(***************************************************************************)
(* The header / trailer emission machine of a server-side RPC (C04), as    *)
(* implemented by internal/server/stream.go (streams) and                  *)
(* internal/server/transport_stream.go (unary), and what the client's      *)
(* Header() / Trailer() show.                                              *)
(*                                                                         *)
(* A handler performs a sequence of operations                             *)
(*    SetHeader(i) SendHeader(i) SendMsg SetTrailer(i) Return(ok|err)      *)
(* where i names one of a few metadata sets.  The machine decides which    *)
(* envelopes leave and which metadata each carries.  TLC explores every    *)
(* operation sequence up to MaxOps and checks the invariants below; with   *)
(* PrintPaths = TRUE it prints each complete sequence, and the orchestrator *)
(* replays every one of them against the real server and validates the     *)
(* recorded trace against GoatProtocol's metadata rules (rule group md).   *)
(***************************************************************************)
EXTENDS Integers, Sequences, TLC

CONSTANTS Sets,      \* names of metadata sets, e.g. {1, 2}
          MaxOps,    \* bound on the number of operations before Return
          Unary,     \* TRUE: the unary twin (no SendMsg; SendHeader only marks)
          PrintPaths

VARIABLES hdrs,      \* sequence of set names accepted as headers so far
          sent,      \* headersSent
          trls,      \* sequence of set names accepted as trailers
          out,       \* emitted envelopes: [k |-> "H"|"B"|"T", md |-> Seq(Sets), tmd |-> Seq(Sets)]
          hist,      \* the operation sequence so far
          done
vars == <<hdrs, sent, trls, out, hist, done>>

Init == hdrs = <<>> /\ sent = FALSE /\ trls = <<>> /\ out = <<>> /\ hist = <<>> /\ done = FALSE

Op(name, i) == [op |-> name, i |-> i]

\* SetHeader fails once the headers have left; otherwise it accumulates
SetHeader(i) ==
  /\ ~done /\ Len(hist) < MaxOps
  /\ hdrs' = IF sent THEN hdrs ELSE Append(hdrs, i)
  /\ hist' = Append(hist, Op("sethdr", i))
  /\ UNCHANGED <<sent, trls, out, done>>

\* SendHeader: accumulates and (streams) emits a header-only envelope with everything set so far
SendHeader(i) ==
  /\ ~done /\ Len(hist) < MaxOps
  /\ IF sent THEN UNCHANGED <<hdrs, sent, out>>
     ELSE /\ hdrs' = Append(hdrs, i)
          /\ sent' = TRUE
          /\ out' = IF Unary THEN out ELSE Append(out, [k |-> "H", md |-> Append(hdrs, i), tmd |-> <<>>])
  /\ hist' = Append(hist, Op("sendhdr", i))
  /\ UNCHANGED <<trls, done>>

\* the first message carries the headers if they have not left yet
SendMsg ==
  /\ ~Unary /\ ~done /\ Len(hist) < MaxOps
  /\ out' = Append(out, [k |-> "B", md |-> IF sent THEN <<>> ELSE hdrs, tmd |-> <<>>])
  /\ sent' = TRUE
  /\ hist' = Append(hist, Op("send", 0))
  /\ UNCHANGED <<hdrs, trls, done>>

SetTrailer(i) ==
  /\ ~done /\ Len(hist) < MaxOps
  /\ trls' = Append(trls, i)
  /\ hist' = Append(hist, Op("settrl", i))
  /\ UNCHANGED <<hdrs, sent, out, done>>

\* returning emits the final envelope: trailers, status, and the headers if still pending
\* (unary: the single response always carries the collected headers)
Return(ok) ==
  /\ ~done
  /\ out' = Append(out, [k |-> "T", md |-> IF Unary \/ ~sent THEN hdrs ELSE <<>>, tmd |-> trls])
  /\ hist' = Append(hist, Op(IF ok THEN "retok" ELSE "reterr", 0))
  /\ done' = TRUE
  /\ PrintPaths => PrintT(<<"PATH", Append(hist, Op(IF ok THEN "retok" ELSE "reterr", 0))>>)
  /\ UNCHANGED <<hdrs, sent, trls>>

Next == \/ \E i \in Sets : SetHeader(i) \/ SendHeader(i) \/ SetTrailer(i)
        \/ SendMsg
        \/ \E ok \in BOOLEAN : Return(ok)
        \/ done /\ UNCHANGED vars
Spec == Init /\ [][Next]_vars

-----------------------------------------------------------------------------
(* What C04 needs from the machine                                          *)

\* the header operations that were accepted, in order
Accepted == SelectSeq(hist, LAMBDA o : o.op \in {"sethdr", "sendhdr"})
\* response metadata appears only on the first response envelope ...
MdOnlyOnFirst == \A k \in 2..Len(out) : out[k].md = <<>>
\* ... and that envelope carries exactly the headers accepted before it left, in order
FirstCarriesAll == out # <<>> => out[1].md = hdrs
\* nothing is accepted after emission, so what the client's Header() shows is final
HeadersFinal == sent => \A k \in 1..Len(out) : out[k].md = <<>> \/ out[k].md = hdrs
\* exactly one final envelope, last, carrying every trailer set, in order
TrailerLast == /\ \A k \in 1..Len(out) : (out[k].k = "T") <=> (done /\ k = Len(out))
               /\ done => out[Len(out)].tmd = trls
\* a unary exchange is one response envelope
UnaryOneResponse == Unary /\ done => Len(out) = 1
=============================================================================
