------------------------------ MODULE GoatTrace ------------------------------
(***************************************************************************)
(* Trace validation: every line of an NDJSON trace recorded from the real  *)
(* implementation must be explainable by an action of GoatProtocol with    *)
(* the recorded arguments.  All events carry their arguments, so the       *)
(* search is linear: one state per line.  Many scenarios are concatenated; *)
(* a Begin line re-initialises the state.                                  *)
(***************************************************************************)
EXTENDS GoatProtocol, Json, IOUtils

VARIABLE l

Trace == ndJsonDeserialize(IOEnv.VERIF_TRACE)

Is(name) == l <= Len(Trace) /\ Trace[l].ev = name /\ l' = l + 1
E == Trace[l]

TraceInit == Init /\ l = 1

Reset ==
  /\ cfg' = [srv |-> E.msg, cli |-> E.pay, rawcli |-> (E.res = "rawcli"), rawsrv |-> (E.res = "rawsrv"), ncli |-> E.n,
             relay |-> IF E.x = "pd" THEN "px" ELSE "",
             \* (the destination the clients name: the server's name unless the Begin line says otherwise)
             dst |-> IF Len(E.md) > 0 /\ E.md[1].k = "dst" THEN E.md[1].v[1] ELSE E.msg]
  /\ phase' = "run" /\ now' = 0
  /\ calls' = <<>> /\ byId' = <<>> /\ hi' = 0 /\ gaps' = {}
  /\ cw' = <<>> /\ nSR' = 0 /\ sw' = <<>> /\ nCR' = 0
  /\ cin' = <<>> /\ sin' = <<>> /\ preq' = <<>> /\ hnds' = <<>> /\ hOf' = <<>>
  /\ flt' = {} /\ creg' = {} /\ sreg' = {} /\ base' = 0
  /\ pend' = {} /\ live' = {} /\ cregN' = -1 /\ parked' = 0

Stutter == UNCHANGED <<cfg, phase, calls, byId, hi, gaps, cw, nSR, sw, nCR, cin, sin, preq,
                       hnds, hOf, flt, creg, sreg, base, pend, live, cregN, parked>>

\* every action leaves `now` to the trace: it is the time stamp of the line just consumed
Timed(A) == now' = E.t /\ A

TBegin == Is("Begin") /\ Reset
TBase == Is("Base") /\ now' = E.t /\ base' = E.n
         /\ UNCHANGED <<cfg, phase, calls, byId, hi, gaps, cw, nSR, sw, nCR, cin, sin, preq,
                        hnds, hOf, flt, creg, sreg, pend, live, cregN, parked>>
TUnwind == Is("Unwind") /\ phase = "run" /\ phase' = "unwind" /\ now' = E.t
           /\ UNCHANGED <<cfg, calls, byId, hi, gaps, cw, nSR, sw, nCR, cin, sin, preq,
                          hnds, hOf, flt, creg, sreg, base, pend, live, cregN, parked>>
TEnd == Is("End") /\ phase = "unwind" /\ phase' = "end" /\ now' = E.t
        /\ UNCHANGED <<cfg, calls, byId, hi, gaps, cw, nSR, sw, nCR, cin, sin, preq,
                       hnds, hOf, flt, creg, sreg, base, pend, live, cregN, parked>>
TTick == Is("Tick") /\ now' = E.t /\ Stutter
TGatePark == Is("GatePark") /\ parked' = parked + 1 /\ now' = E.t
             /\ UNCHANGED <<cfg, phase, calls, byId, hi, gaps, cw, nSR, sw, nCR, cin, sin, preq,
                            hnds, hOf, flt, creg, sreg, base, pend, live, cregN>>
TGatePass == Is("GatePass") /\ parked' = parked - 1 /\ now' = E.t
             /\ UNCHANGED <<cfg, phase, calls, byId, hi, gaps, cw, nSR, sw, nCR, cin, sin, preq,
                            hnds, hOf, flt, creg, sreg, base, pend, live, cregN>>

TUCall == Is("UCall") /\ IF E.x = "bad" THEN Timed(UCallBad(E.c, MdF(E.md), E.n)) ELSE Timed(UCall(E.c, E.pay, MdF(E.md), E.n))
TSOpen == Is("SOpen") /\ Timed(SOpen(E.c, E.k, MdF(E.md), E.n))
TCancel == Is("Cancel") /\ Timed(Cancel(E.c))
TCW == Is("CW") /\ Timed(ClientWrite(E.env))
TCWraw == Is("CWraw") /\ Timed(ClientWriteRaw(E.env))
TSR == Is("SR") /\ Timed(ServerRead(E.env, E.n))
TSW == Is("SW") /\ Timed(ServerWrite(E.env))
TSWraw == Is("SWraw") /\ Timed(ServerWriteRaw(E.env))
TCR == Is("CR") /\ Timed(ClientRead(E.env, E.n))

THStart == Is("HStart") /\ Timed(HStart(E.h, E.c, E.k, E.pay, MdF(E.md), E.n))
THRecv == Is("HRecv") /\ E.h \in DOMAIN hnds /\ now' = E.t /\ Stutter
THRecvRet == Is("HRecvRet") /\ Timed(HRecvRet(E.h, E.res, E.pay))
THSend == Is("HSend") /\ Timed(HSend(E.h, E.pay))
THSendBad == Is("HSendBad") /\ Timed(HSendBad(E.h, E.res))
THSendRet == Is("HSendRet") /\ Timed(HSendRet(E.h, E.res))
THSetHdr == Is("HSetHdr") /\ Timed(HSetHdr(E.h, MdF(E.md), E.res))
THSendHdr == Is("HSendHdr") /\ IF E.h \in DOMAIN hnds /\ hnds[E.h].kind = "unary"
                                 THEN Timed(HSendHdrUnary(E.h, MdF(E.md), E.res))
                                 ELSE Timed(HSendHdr(E.h, MdF(E.md)))
THSendHdrRet == Is("HSendHdrRet") /\ Timed(HSendHdrRet(E.h, E.res))
THSetTrl == Is("HSetTrl") /\ Timed(HSetTrl(E.h, MdF(E.md)))
THRet == Is("HRet") /\ Timed(HRet(E.h, E.code, E.msg, E.n, E.pay))
THCtxDone == Is("HCtxDone") /\ Timed(HCtxDone(E.h))

TURet == Is("URet") /\ Timed(URet(E.c, E.res, E.code, E.msg, E.n, E.pay))
TSOpenRet == Is("SOpenRet") /\ Timed(SOpenRet(E.c, E.res))
TSSend == Is("SSend") /\ Timed(SSend(E.c, E.pay))
TSSendRet == Is("SSendRet") /\ Timed(SSendRet(E.c, IF E.res = "ok" THEN "ok" ELSE "err", E.x))
TSSendBad == Is("SSendBad") /\ Timed(SSendBad(E.c))
TSSendBadRet == Is("SSendBadRet") /\ Timed(SSendBadRet(E.c, IF E.res = "ok" THEN "ok" ELSE "err"))
TSClose == Is("SClose") /\ Timed(SClose(E.c))
TSCloseRet == Is("SCloseRet") /\ Timed(SCloseRet(E.c, E.res))
TSRecv == Is("SRecv") /\ E.c \in DOMAIN calls /\ now' = E.t /\ Stutter
TSRecvRet == Is("SRecvRet") /\ Timed(SRecvRet(E.c, E.res, E.code, E.msg, E.n, E.pay, E.k = "plain"))
TSHdr == Is("SHdr") /\ E.c \in DOMAIN calls /\ now' = E.t /\ Stutter
TSHdrRet == Is("SHdrRet") /\ Timed(SHdrRet(E.c, E.res, MdF(E.md), E.k = "nil"))
TSTrl == Is("STrl") /\ Timed(STrl(E.c, MdF(E.md), E.k = "nil"))

TFault == Is("Fault") /\ Timed(Fault(E.k))
TUnfault == Is("Unfault") /\ Timed(Unfault(E.k))
TWFail == Is("WFail") /\ IF E.k # "SW" /\ E.x = "rst" THEN Timed(WFailRst(E.msg))
                                   ELSE Timed(Fault(IF E.k = "SW" THEN "swfail" ELSE "cwfail"))
TServeRet == Is("ServeRet") /\ Timed(ServeRet)

THk == /\ Is("Hk")
       /\ CASE E.k = "mux.reg" -> Timed(MuxReg(E.msg, E.n))
            [] E.k = "mux.unreg" -> Timed(MuxUnreg(E.msg, E.n))
            [] E.k = "mux.fail" -> Timed(MuxFail(E.n))
            [] E.k = "srv.reg" -> Timed(SrvReg(E.msg, E.n))
            [] E.k = "srv.unreg" -> Timed(SrvUnreg(E.msg, E.n))
            [] OTHER -> now' = E.t /\ Stutter

TPend == Is("Pend") /\ Timed(Pend(E.c, E.k))
THLive == Is("HLive") /\ Timed(HLive(E.h, E.k, E.res, E.x))
TCReg == Is("CReg") /\ Timed(CRegN(E.n))
\* (the orchestrator turns a TRACE_DEVIATION line into KNOWN-FINDING if known_findings.json lists it, else VIOLATION)
TQuiesce == Is("Quiesce") /\ (SenderHol(E.h % 1000) => PrintT(<<"TRACE_DEVIATION", "SenderHol", l>>))
                          /\ Timed(Quiesce(E.n, E.c, E.h \div 1000, E.h % 1000))

\* Crash, Wedged and Leak lines have no action: a trace containing one is rejected.

TraceNext ==
  \/ TBegin \/ TBase \/ TUnwind \/ TEnd \/ TTick \/ TGatePark \/ TGatePass
  \/ TUCall \/ TSOpen \/ TCancel \/ TCW \/ TCWraw \/ TSR \/ TSW \/ TSWraw \/ TCR
  \/ THStart \/ THRecv \/ THRecvRet \/ THSend \/ THSendBad \/ THSendRet \/ THSetHdr \/ THSendHdr \/ THSendHdrRet
  \/ THSetTrl \/ THRet \/ THCtxDone
  \/ TURet \/ TSOpenRet \/ TSSend \/ TSSendRet \/ TSSendBad \/ TSSendBadRet \/ TSClose \/ TSCloseRet \/ TSRecv \/ TSRecvRet
  \/ TSHdr \/ TSHdrRet \/ TSTrl
  \/ TFault \/ TUnfault \/ TWFail \/ TServeRet \/ THk \/ TPend \/ THLive \/ TCReg \/ TQuiesce

\* A line that no action explains is reported and the rest of its scenario is
\* skipped, so that the remaining scenarios of the batch are still checked.
NextBegin == IF \E j \in (l + 1)..Len(Trace) : Trace[j].ev = "Begin"
               THEN CHOOSE j \in (l + 1)..Len(Trace) :
                      Trace[j].ev = "Begin" /\ \A i \in (l + 1)..(j - 1) : Trace[i].ev # "Begin"
               ELSE Len(Trace) + 1
TSkip == /\ l <= Len(Trace)
         /\ ~ENABLED TraceNext
         /\ PrintT(<<"TRACE_REJECTED_AT_LINE", l, "of", Len(Trace)>>)
         /\ l' = NextBegin
         /\ UNCHANGED vars

\* A scenario is accepted iff SOME branch of the specification consumes it up to its End line (where logged
\* arguments leave a choice the branches that guessed wrong die on the way and are reported by TSkip, too):
SegOk == (l <= Len(Trace) /\ Trace[l].ev = "End") => PrintT(<<"TRACE_SEGMENT_OK", l>>)
TraceSpec == TraceInit /\ [][(TraceNext /\ SegOk) \/ TSkip]_<<vars, l>>

\* strict variant (no skipping): one state per consumed line plus the initial one
StrictSpec == TraceInit /\ [][TraceNext]_<<vars, l>>
TraceAccepted ==
  LET d == TLCGet("stats").diameter IN
  IF d - 1 = Len(Trace) THEN TRUE
  ELSE Print(<<"TRACE_REJECTED_AT_LINE", d, "of", Len(Trace)>>, FALSE)

\* for the diagnosis run (deadlock checking on): the end of the trace is not a deadlock
TDone == l > Len(Trace) /\ UNCHANGED <<vars, l>>
DiagSpec == TraceInit /\ [][TraceNext \/ TDone]_<<vars, l>>
=============================================================================
