---------------------------- MODULE GoatImplObs ----------------------------
(***************************************************************************)
(* The observer that binds Layer I (GoatImpl: what the code does) to       *)
(* Layer P (GoatProtocol: what an observer of the real code may see).      *)
(*                                                                         *)
(* GoatImpl is extended with a history variable `hist`: the sequence of    *)
(* OBSERVABLE events of the behaviour so far, every element a record in    *)
(* exactly the JSON shape of the trace lines GoatTrace.tla consumes        *)
(* (harness struct Ev, and EnvRec for the `env` field of CW/SR/SW/CR).     *)
(* Every GoatImpl action is conjoined with `hist' = hist \o <events>`;     *)
(* the events of an action are those the instrumented real code emits at   *)
(* the code the action transcribes (the transport wrapper logs CW/SR/SW/CR *)
(* when an envelope enters / leaves a wire, the scripted caller and        *)
(* handler log an API call before and its return after the call, the       *)
(* registry hooks log under the registry lock).                            *)
(*                                                                         *)
(* A behaviour is closed by the step ObsEnd, taken when no GoatImpl action *)
(* is enabled (the system is finished - or deadlocked): it appends the     *)
(* census of a quiescent point (Pend / HLive / CReg / Quiesce, if Census), *)
(* Unwind and End, and writes hist as one NDJSON file                      *)
(*    <IMPLOBS_OUT><n>.ndjson      (n = 0, 1, 2 ... per TLC run;           *)
(*                                  IMPLOBS_OUT = "-": nothing is written) *)
(* The Unwind line says how the behaviour ended (x: finished | deadlock)   *)
(* and whether some state of it violated one of GoatImpl's own state       *)
(* invariants (res: bad) - Layer P ignores both fields, the driver uses    *)
(* them to compare the two layers' verdicts behaviour by behaviour.        *)
(*                                                                         *)
(* Run with TLC, ONE worker (the files are numbered with a per-worker      *)
(* register), deadlock checking off (a closed behaviour has no successor): *)
(*   -simulate num=N    N random behaviours;                               *)
(*   (no -simulate)     ALL behaviours, breadth first - the state includes *)
(*                      the history, so only for the smallest constants;   *)
(* environment: IMPLOBS_OUT (above) and IMPLOBS_GUIDE, a JSON file with a  *)
(* sequence of GoatImpl states every behaviour starts with ("[]": none) -  *)
(* see Guide below.  GoatTrace.tla then has to accept every file (full     *)
(* Fixes) / reject some (a defect re-opened).  Driver: implobs.py.         *)
(*                                                                         *)
(* Abstractions made concrete here:                                        *)
(*   payloads   message k a caller sends "c<k>", message k a handler sends *)
(*              "h<k>", unary request "ping", unary reply "pong";          *)
(*   statuses   a handler's error is Unknown(2) "boom"; cancellation is    *)
(*              Canceled(1); a reset / a lost connection is reported as    *)
(*              Unavailable(14);                                           *)
(*   tokens     call c has the token TokF[c]; the handler serving stream   *)
(*              or request id i is incarnation i (ids are unique);         *)
(*   metadata   always empty; no deadlines (all time stamps 0).            *)
(* The adversarial-peer configurations (AdvClient / AdvServer > 0) are not *)
(* supported yet: they need raw-peer segments (Begin res = rawcli/rawsrv,  *)
(* CWraw / SWraw lines) and handler incarnations that outlive an id.       *)
(***************************************************************************)
EXTENDS GoatImpl, Json, IOUtils

CONSTANTS
  Hooks,      \* emit the registry hook lines (Hk mux.reg / mux.unreg / mux.fail / srv.reg / srv.unreg)
  Census      \* close a behaviour with the census of a quiescent point (Pend, HLive, CReg, Quiesce)

ASSUME AdvClient = 0 /\ AdvServer = 0

VARIABLES
  hist,       \* the observable events so far
  ucode,      \* unary call -> why it failed ("" | "status" | "ctx" | "conn"): GoatImpl keeps only "err"
  bad,        \* some state so far violated one of GoatImpl's state invariants
  nstep,      \* number of GoatImpl steps taken
  fin         \* the behaviour is closed

ovars == <<vars, hist, ucode, bad, nstep, fin>>

-----------------------------------------------------------------------------
(* Shapes                                                                   *)

BIDI == "/verif.Svc/Bidi"
UNARY == "/verif.Svc/Unary"
CLI == "cli1"
SRV == "srv"
ERRCODE == 2
ERRMSG == "boom"

EvBase == [seq |-> 0, sc |-> 0, conn |-> 1, ev |-> "", c |-> 0, h |-> 0, k |-> "", res |-> "", code |-> -1,
           msg |-> "", pay |-> "", md |-> <<>>, n |-> 0, t |-> 0, x |-> ""]
Ev(name) == [EvBase EXCEPT !.ev = name]

EnvBase == [id |-> "0", idn |-> 0, h |-> 1, b |-> 0, s |-> 0, t |-> 0, r |-> 0, code |-> -1, msg |-> "", ndet |-> 0,
            pay |-> "", md |-> <<>>, tmd |-> <<>>, meth |-> "", src |-> "", dst |-> "", to |-> "", c |-> 0,
            badmd |-> 0, badtmd |-> 0, rtype |-> "", rec |-> 0, nxt |-> 0, rs |-> "", ns |-> "", rret |-> ""]

\* call tokens: any fixed numbering of the calls
TokF == CHOOSE f \in [Calls -> 1..Cardinality(Calls)] : \A a, b \in Calls : a # b => f[a] # f[b]
Tok(c) == TokF[c]
TokOfId(id) == Tok(CallOf(id))
MethOfId(id) == IF IsStreamId(id) THEN BIDI ELSE UNARY

\* an envelope the client writes
CEnv(id, k, pay) ==
  LET e0 == [EnvBase EXCEPT !.id = ToString(id), !.idn = id, !.meth = MethOfId(id), !.src = CLI, !.dst = SRV] IN
  CASE k = "open"  -> [e0 EXCEPT !.c = TokOfId(id)]
    [] k = "req"   -> [e0 EXCEPT !.c = TokOfId(id), !.b = 1, !.pay = pay]
    [] k = "body"  -> [e0 EXCEPT !.b = 1, !.pay = pay]
    [] k = "close" -> [e0 EXCEPT !.t = 1, !.s = 1, !.code = 0, !.msg = "OK"]      \* CloseSend: status OK + trailer
    [] k = "rst"   -> [e0 EXCEPT !.r = 1, !.rtype = "RST_STREAM"]

\* an envelope the server writes
SEnv(id, k, pay) ==
  LET e0 == [EnvBase EXCEPT !.id = ToString(id), !.idn = id, !.meth = MethOfId(id), !.src = SRV, !.dst = CLI] IN
  CASE k = "body" -> [e0 EXCEPT !.b = 1, !.pay = pay]
    [] k = "ok"   -> [e0 EXCEPT !.t = 1, !.s = 1, !.code = 0, !.msg = "OK"]       \* SendTrailer(nil)
    [] k = "err"  -> [e0 EXCEPT !.t = 1, !.s = 1, !.code = ERRCODE, !.msg = ERRMSG]
    [] k = "rst"  -> [e0 EXCEPT !.t = 1, !.r = 1, !.rtype = "RST_STREAM"]         \* resetStream: reset + trailer
    [] k = "resp" -> [e0 EXCEPT !.t = 1, !.b = 1, !.pay = pay]                    \* unary reply: body + trailer, no status
    [] k = "uerr" -> [e0 EXCEPT !.t = 1, !.s = 1, !.code = ERRCODE, !.msg = ERRMSG]

Wire(name, n, env) == [env |-> env] @@ [Ev(name) EXCEPT !.n = n, !.c = env.c]

-----------------------------------------------------------------------------
(* Reading the history                                                      *)

Sel(name) == SelectSeq(hist, LAMBDA e : e.ev = name)
NEv(name) == Len(Sel(name))
NEvC(name, c) == Len(SelectSeq(hist, LAMBDA e : e.ev = name /\ e.c = c))
\* bodies of stream id the server has written so far
NSWBody(id) == Len(SelectSeq(hist, LAMBDA e : e.ev = "SW" /\ e.env.idn = id /\ e.env.b = 1 /\ e.env.t = 0))
LastPay(name, c) == LET s == SelectSeq(hist, LAMBDA e : e.ev = name /\ e.c = c) IN s[Len(s)].pay

\* the envelope that leaves a wire is the oldest one written and not yet read
SREv == LET n == NEv("SR") + 1 IN Wire("SR", n, Sel("CW")[n].env)
CREv == LET n == NEv("CR") + 1 IN Wire("CR", n, Sel("SW")[n].env)
CWEv(id, k, pay) == Wire("CW", NEv("CW") + 1, CEnv(id, k, pay))
SWEv(id, k) == Wire("SW", NEv("SW") + 1,
                    SEnv(id, k, IF k = "body" THEN "h" \o ToString(NSWBody(id) + 1) ELSE IF k = "resp" THEN "pong" ELSE ""))

Hk(what, id, n) == IF Hooks THEN <<[Ev("Hk") EXCEPT !.k = what, !.msg = ToString(id), !.code = id, !.n = n]>> ELSE <<>>
Fault(what) == [Ev("Fault") EXCEPT !.k = what]

\* ---- client API lines
CEv(name, c) == [Ev(name) EXCEPT !.c = Tok(c)]

\* how a terminal result reads at the API: <<res, code, msg>>
\* (an "err" comes from the stream's trailer - a status, or a reset - or, without a trailer, from the connection)
RecvResult(c, r) ==
  CASE r = "eof"      -> <<"eof", -1, "">>
    [] r = "canceled" -> <<"err", 1, "canceled">>
    [] r = "err"      -> IF gotTrailer[c] /\ rcur[c].k = "err" THEN <<"err", ERRCODE, ERRMSG>>
                         ELSE IF gotTrailer[c] THEN <<"err", 14, "reset">>
                         ELSE <<"err", 14, "conn">>
SRecvRetEv(c, r) ==
  IF r = "msg"
    THEN [CEv("SRecvRet", c) EXCEPT !.res = "msg",
                                    !.pay = "h" \o ToString(Len(SelectSeq(sres'[c], LAMBDA v : v = "msg")))]
    ELSE LET q == RecvResult(c, r) IN
         [CEv("SRecvRet", c) EXCEPT !.res = q[1], !.code = q[2], !.msg = q[3], !.k = IF q[1] = "err" THEN "st" ELSE ""]
\* SendMsg failing with the stream's stored result: io.EOF / the context's status / another status
SSendRetStored(c) ==
  LET r == rterm[c] IN
  [CEv("SSendRet", c) EXCEPT !.res = IF r = "eof" THEN "eof" ELSE "err",
                             !.x = IF r = "eof" THEN "eof" ELSE IF r = "canceled" THEN "ctx" ELSE "other",
                             !.code = IF r = "eof" THEN -1 ELSE RecvResult(c, r)[2]]
URetEv(c) ==
  IF ures'[c] = "ok" THEN [CEv("URet", c) EXCEPT !.res = "ok", !.pay = "pong"]
  ELSE LET why == ucode'[c] IN
       [CEv("URet", c) EXCEPT !.res = "err", !.k = "st",
                              !.code = IF why = "status" THEN ERRCODE ELSE IF why = "ctx" THEN 1 ELSE 14,
                              !.msg = IF why = "status" THEN ERRMSG ELSE why]

\* ---- handler lines (handler incarnation = id)
HEv(name, id) == [Ev(name) EXCEPT !.h = id, !.c = TokOfId(id)]
HRetEv(id, ok) == [HEv("HRet", id) EXCEPT !.k = IF IsStreamId(id) THEN "bidi" ELSE "unary",
                                          !.code = IF ok THEN 0 ELSE ERRCODE, !.msg = IF ok THEN "-" ELSE ERRMSG,
                                          !.pay = IF ok /\ ~IsStreamId(id) THEN "pong" ELSE ""]

-----------------------------------------------------------------------------
(* Directed behaviours.  IMPLOBS_GUIDE names a JSON file holding a sequence *)
(* of states of GoatImpl (a counterexample of TLC for "the target is never  *)
(* reached", the variables whose values are sets left out - JSON has no     *)
(* sets): the first Len(Guide) steps of every behaviour follow it, the rest *)
(* is free.  An empty sequence: no guidance.                                *)

Guide == JsonDeserialize(IOEnv.IMPLOBS_GUIDE)
ProjRec == [c2s |-> c2s, s2c |-> s2c, nextId |-> nextId, idOf |-> idOf, muxLock |-> muxLock, respCh |-> respCh, rErr |-> rErr,
            mpc |-> mpc, mcur |-> mcur, cReadFailed |-> cReadFailed, upc |-> upc, ures |-> ures, ucan |-> ucan, spc |-> spc,
            sop |-> sop, nsent |-> nsent, closed |-> closed, cancelled |-> cancelled, sres |-> sres, rpc |-> rpc, rcur |-> rcur,
            sctx |-> sctx, rdone |-> rdone, rterm |-> rterm, rChClosed |-> rChClosed, prot |-> prot, gotTrailer |-> gotTrailer,
            srpc |-> srpc, srcur |-> srcur, srvLock |-> srvLock, sch |-> sch, connCtx |-> connCtx, wpc |-> wpc, wcur |-> wcur,
            wrpc |-> wrpc, wrcur |-> wrcur, hpc |-> hpc, hrecv |-> hrecv, hsentN |-> hsentN, hres |-> hres, hsawEOF |-> hsawEOF,
            waitFor |-> waitFor, sReadFailed |-> sReadFailed, stopped |-> stopped, serveRet |-> serveRet, advN |-> advN]
Guided == nstep < Len(Guide) => LET g == Guide[nstep + 1] IN \A f \in DOMAIN g \cap DOMAIN ProjRec : ProjRec'[f] = g[f]

-----------------------------------------------------------------------------
(* The events of every GoatImpl action.  O(evs): the history grows by evs,  *)
(* the unary failure reasons stay.                                          *)

\* one of GoatImpl's state invariants is violated
Bad == ~( /\ UniqueIds /\ EofOnlyOnOk /\ NoCancelAfterSuccess /\ ResetNotBeforeTrailer
          /\ ResetNotBeforeTrailerPending /\ UnaryOkOnlyWithResp /\ RegistriesEmptyWhenFinished
          /\ ServeRetMeansHandlersDone /\ CancelReportsCanceled )

O(evs) == Guided /\ UNCHANGED <<ucode, fin>> /\ nstep' = nstep + 1 /\ bad' = (bad \/ Bad') /\ hist' = hist \o evs
OU(evs, c, why) == Guided /\ ucode' = [ucode EXCEPT ![c] = why] /\ UNCHANGED fin /\ nstep' = nstep + 1 /\ bad' = (bad \/ Bad') /\ hist' = hist \o evs

ConnErr == "conn"

\* ---- unary caller ---------------------------------------------------------
OUCheck(c) ==       \* Invoke is called; a connection that has failed refuses at once
  UCheck(c) /\ IF rErr THEN OU(<<[CEv("UCall", c) EXCEPT !.k = "unary", !.pay = "ping"], URetEv(c)>>, c, ConnErr)
                       ELSE O(<<[CEv("UCall", c) EXCEPT !.k = "unary", !.pay = "ping"]>>)
OURegister(c) ==
  URegister(c) /\ IF Fixed("D5") /\ rErr THEN OU(<<URetEv(c)>>, c, ConnErr)
                                         ELSE O(Hk("mux.reg", nextId, Cardinality(reg')))
OUWrite(c) ==
  UWrite(c) /\ IF ucan[c] THEN OU(<<>>, c, "ctx") ELSE O(<<CWEv(idOf[c], "req", "ping")>>)
OUAwait(c) ==
  UAwait(c) /\ LET id == idOf[c] IN
               IF respCh'[id] # respCh[id]
                 THEN OU(<<>>, c, IF Head(respCh[id]).k = "resp" THEN "" ELSE "status")
                 ELSE OU(<<>>, c, IF ucan[c] THEN "ctx" ELSE ConnErr)
OUUnregister(c) ==  \* the deferred unregister, then Invoke returns
  UUnregister(c) /\ O(Hk("mux.unreg", idOf[c], Cardinality(reg')) \o <<URetEv(c)>>)
OUnaryCallerCancel(c) == UnaryCallerCancel(c) /\ O(<<CEv("Cancel", c)>>)

\* ---- multiplexer read loop ------------------------------------------------
OMuxRead == MuxRead /\ O(IF cReadFailed THEN <<>> ELSE <<CREv>>)
OMuxLookup == MuxLookup /\ O(<<>>)
OMuxHandoff == MuxHandoff /\ O(<<>>)
OMuxFail == MuxFail /\ O(Hk("mux.fail", 0, 0))

\* ---- streaming call: the user's goroutine ----------------------------------
SOpenRetEv(c, res) == [CEv("SOpenRet", c) EXCEPT !.res = res, !.code = IF res = "ok" THEN -1 ELSE 14]
OSCheck(c) ==       \* NewStream is called
  SCheck(c) /\ O(<<[CEv("SOpen", c) EXCEPT !.k = "bidi"]>> \o IF rErr THEN <<SOpenRetEv(c, "err")>> ELSE <<>>)
OSRegister(c) ==
  SRegister(c) /\ O(IF Fixed("D5") /\ rErr THEN <<SOpenRetEv(c, "err")>> ELSE Hk("mux.reg", nextId, Cardinality(reg')))
OSOpen(c) == SOpen(c) /\ O(<<CWEv(idOf[c], "open", ""), SOpenRetEv(c, "ok")>>)

NextPay(c) == "c" \o ToString(NEvC("SSend", Tok(c)) + 1)
OSChoose(c) ==      \* the next API call begins
  SChoose(c) /\ O(CASE sop'[c] = "send"  -> <<[CEv("SSend", c) EXCEPT !.pay = NextPay(c)]>>
                    \* the transport is armed to refuse exactly the next write of the client: this SendMsg's
                    [] sop'[c] = "sendx" -> <<Fault("cwrite1"), [CEv("SSend", c) EXCEPT !.pay = NextPay(c)]>>
                    [] sop'[c] = "close" -> <<CEv("SClose", c)>>
                    [] sop'[c] = "recv"  -> <<CEv("SRecv", c)>>
                    [] OTHER -> <<>>)
OSOpCheck(c) ==     \* readErrorIfDone: a finished stream answers every call with its stored result
  SOpCheck(c) /\ O(IF rdone[c] THEN IF sop[c] = "recv" THEN <<SRecvRetEv(c, rterm[c])>> ELSE <<SSendRetStored(c)>>
                              ELSE <<>>)
OSSendWrite(c) ==
  SSendWrite(c) /\ O(IF sctx[c] THEN <<>>
                               ELSE <<CWEv(idOf[c], "body", LastPay("SSend", Tok(c))), [CEv("SSendRet", c) EXCEPT !.res = "ok"]>>)
OSSendRefused(c) == SSendRefused(c) /\ O(<<[Ev("WFail") EXCEPT !.k = "CW"]>>)
\* cs.teardown: cancel and unregister, in the order D22 fixes
TdHk(c, unreg) == IF unreg THEN Hk("mux.unreg", idOf[c], Cardinality(reg')) ELSE <<>>
OSTeardown1(c) == STeardown1(c) /\ O(TdHk(c, ~Fixed("D22")))
OSTeardown2(c) ==   \* teardown done: SendMsg returns the write's error (the context's, or the transport's)
  STeardown2(c) /\ O(TdHk(c, Fixed("D22")) \o <<[CEv("SSendRet", c) EXCEPT !.res = "err", !.k = "plain", !.code = 2,
                                                             !.x = IF SendRefused(c) THEN "other" ELSE "ctx"]>>)
OSCloseWrite(c) ==
  SCloseWrite(c) /\ O(IF sctx[c] THEN <<[CEv("SCloseRet", c) EXCEPT !.res = "err", !.k = "plain", !.code = 2]>>
                                 ELSE <<CWEv(idOf[c], "close", ""), [CEv("SCloseRet", c) EXCEPT !.res = "ok"]>>)
LastRes(c) == sres'[c][Len(sres'[c])]
OSRecvCtx(c) == SRecvCtx(c) /\ O(<<SRecvRetEv(c, LastRes(c))>>)
OSRecvClosed(c) == SRecvClosed(c) /\ O(<<SRecvRetEv(c, LastRes(c))>>)

\* ---- streaming call: the read loop ----------------------------------------
ORlRead(c) == RlRead(c) /\ O(<<>>)
ORlClassify(c) == RlClassify(c) /\ O(<<>>)
ORlHandoff(c) == RlHandoff(c) /\ O(IF sres'[c] # sres[c] THEN <<SRecvRetEv(c, "msg")>> ELSE <<>>)
ORlExitLock(c) == RlExitLock(c) /\ O(<<>>)
ORlExitRst(c) == RlExitRst(c) /\ O(IF ~gotTrailer[c] /\ sctx[c] THEN <<CWEv(idOf[c], "rst", "")>> ELSE <<>>)
ORlExitUnreg(c) == RlExitUnreg(c) /\ O(Hk("mux.unreg", idOf[c], Cardinality(reg')))
ORlExitDone(c) == RlExitDone(c) /\ O(<<>>)
\* the write of the reset is given up: the client has made its one attempt
ORlExitRstTimeout(c) ==
  RlExitRstTimeout(c) /\ O(<<[Ev("WFail") EXCEPT !.k = "CW", !.x = "rst", !.msg = ToString(idOf[c])]>>)
OCallerCancel(c) == CallerCancel(c) /\ O(<<CEv("Cancel", c)>>)

\* ---- server read loop -----------------------------------------------------
OSrvRead == SrvRead /\ O(IF sReadFailed \/ connCtx THEN <<>> ELSE <<SREv>>)
OSrvToWorker ==     \* a worker takes the request: its handler starts
  SrvToWorker /\ O(IF wpc' # wpc THEN <<[HEv("HStart", srcur.id) EXCEPT !.k = "unary", !.pay = "ping", !.n = -1]>> ELSE <<>>)
OSrvLockClassify == \* an open registers the stream and starts its handler
  SrvLockClassify /\ O(IF hpc' # hpc THEN Hk("srv.reg", srcur.id, Cardinality(sreg'))
                                            \o <<[HEv("HStart", srcur.id) EXCEPT !.k = "bidi", !.n = -1]>>
                                     ELSE <<>>)
OSrvForward == SrvForward /\ O(<<>>)
OSrvReset == SrvReset /\ O(IF s2c' # s2c THEN <<SWEv(srcur.id, "rst")>> ELSE <<>>)   \* before D4: written by the read loop itself
OSrvExit == SrvExit /\ O(<<>>)
OSrvCancelAndWait == SrvCancelAndWait /\ O(IF serveRet' /\ ~serveRet THEN <<Ev("ServeRet")>> ELSE <<>>)
OSrvWaitDone == SrvWaitDone /\ O(<<>>)

\* ---- unary workers, writer --------------------------------------------------
OWkRun(w) == WkRun(w) /\ O(<<HRetEv(wcur[w].id, wcur'[w].k = "resp")>>)
OWkHandoff(w) == WkHandoff(w) /\ O(<<>>)
OWkExit(w) == WkExit(w) /\ O(<<>>)
OWrWrite == WrWrite /\ O(IF s2c' # s2c THEN <<SWEv(wrcur.id, wrcur.k)>> ELSE <<>>)
OWrExit == WrExit /\ O(<<>>)

\* ---- stream handlers --------------------------------------------------------
OHChoose(id) ==
  HChoose(id) /\ O(CASE hpc'[id] = "recv" -> <<HEv("HRecv", id)>>
                     [] hpc'[id] = "send" -> <<[HEv("HSend", id) EXCEPT !.pay = "h" \o ToString(hsentN[id] + 1)]>>
                     [] hpc'[id] = "trailer" -> <<HRetEv(id, hres'[id] = "ok")>>
                     [] OTHER -> <<>>)
OHCtxWait(id) == HCtxWait(id) /\ O(<<HEv("HCtxDone", id)>>)
OHRecv(id) ==
  HRecv(id) /\ O(IF sch'[id] # sch[id]
                   THEN IF Head(sch[id]).k = "body"
                          THEN <<[HEv("HRecvRet", id) EXCEPT !.res = "msg", !.pay = "c" \o ToString(hrecv[id] + 1)]>>
                          ELSE <<[HEv("HRecvRet", id) EXCEPT !.res = "eof"]>>
                   ELSE <<[HEv("HRecvRet", id) EXCEPT !.res = "err", !.k = "ctxdone", !.code = 1]>>)
OHSend(id) ==
  HSend(id) /\ O(<<[HEv("HSendRet", id) EXCEPT !.res = IF wrpc' # wrpc THEN "ok" ELSE "err"]>>)
OHTrailer(id) == HTrailer(id) /\ O(<<>>)
OHCancel(id) == HCancel(id) /\ O(<<>>)
OHUnregister(id) == HUnregister(id) /\ O(Hk("srv.unreg", id, Cardinality(sreg')))

\* ---- environment ------------------------------------------------------------
OClientReadFail == ClientReadFail /\ O(<<Fault("cread")>>)
OStop == Stop /\ O(<<[Fault("stop") EXCEPT !.conn = 0]>>)
OPeerClosesAfterServe == PeerClosesAfterServe /\ O(<<Fault("cread")>>)
OServerSeesClose == ServerSeesClose /\ O(<<Fault("sread")>>)

ObsStep ==
  \/ \E c \in Unaries : OUCheck(c) \/ OURegister(c) \/ OUWrite(c) \/ OUAwait(c) \/ OUUnregister(c) \/ OUnaryCallerCancel(c)
  \/ OMuxRead \/ OMuxLookup \/ OMuxHandoff \/ OMuxFail
  \/ \E c \in Streams : \/ OSCheck(c) \/ OSRegister(c) \/ OSOpen(c) \/ OSChoose(c) \/ OSOpCheck(c) \/ OSSendWrite(c)
                        \/ OSSendRefused(c) \/ OSTeardown1(c) \/ OSTeardown2(c) \/ OSCloseWrite(c) \/ OSRecvCtx(c)
                        \/ OSRecvClosed(c) \/ ORlRead(c) \/ ORlClassify(c) \/ ORlHandoff(c) \/ ORlExitLock(c)
                        \/ ORlExitRst(c) \/ ORlExitUnreg(c) \/ ORlExitDone(c) \/ OCallerCancel(c) \/ ORlExitRstTimeout(c)
  \/ OSrvRead \/ OSrvToWorker \/ OSrvLockClassify \/ OSrvForward \/ OSrvReset \/ OSrvExit \/ OSrvCancelAndWait \/ OSrvWaitDone
  \/ \E w \in Workers : OWkRun(w) \/ OWkHandoff(w) \/ OWkExit(w)
  \/ OWrWrite \/ OWrExit
  \/ \E i \in Ids : OHChoose(i) \/ OHCtxWait(i) \/ OHRecv(i) \/ OHSend(i) \/ OHTrailer(i) \/ OHCancel(i) \/ OHUnregister(i)
  \/ OClientReadFail \/ OStop \/ OPeerClosesAfterServe \/ OServerSeesClose

-----------------------------------------------------------------------------
(* Closing a behaviour                                                      *)

Flat(S, F(_)) ==
  LET RECURSIVE go(_)
      go(T) == IF T = {} THEN <<>> ELSE LET x == CHOOSE y \in T : TRUE IN F(x) \o go(T \ {x})
  IN go(S)

\* client operations that have been called and have not returned
PendOfU(c) == IF upc[c] \in {"reg", "write", "await", "unreg"} THEN <<[CEv("Pend", c) EXCEPT !.k = "unary"]>> ELSE <<>>
PendOfS(c) ==
  LET op == CASE spc[c] \in {"reg", "open"} -> "open"
              [] spc[c] \in {"opcheck", "sendw", "sendxw", "td1", "td2"} -> IF sop[c] = "recv" THEN "recv" ELSE "send"
              [] spc[c] = "closew" -> "close"
              [] spc[c] = "recvsel" -> "recv"
              [] OTHER -> ""
  IN IF op = "" THEN <<>> ELSE <<[CEv("Pend", c) EXCEPT !.k = op]>>
\* stream handlers that have started and have not returned
HLiveOf(id) ==
  IF hpc[id] \in {"run", "recv", "send", "ctxwait"}
    THEN <<[HEv("HLive", id) EXCEPT !.k = "bidi", !.res = IF id \in hctx THEN "ctxdone" ELSE "live",
                                    !.x = IF hpc[id] = "run" THEN "idle" ELSE hpc[id]]>>
    ELSE <<>>
\* goroutines of the server connection that are still there
NSrv == (IF srpc = "end" THEN 0 ELSE 1) + (IF wrpc = "end" THEN 0 ELSE 1)
        + Cardinality({w \in Workers : wpc[w] # "end"}) + Cardinality({i \in Ids : hpc[i] \notin {"off", "end"}})
Min(a, b) == IF a < b THEN a ELSE b
CensusEvs ==
  Flat(Unaries, PendOfU) \o Flat(Streams, PendOfS) \o Flat(Ids, HLiveOf)
  \o <<[Ev("CReg") EXCEPT !.n = Cardinality(reg)],
       [Ev("Quiesce") EXCEPT !.conn = 0, !.n = 0, !.c = NSrv, !.k = "0", !.code = 0,
                             !.h = 1000 * Min(Len(c2s), 999) + Min(Len(s2c), 999)]>>

AnyStep == NextButTimeouts \/ \E c \in Streams : RlExitRstTimeout(c)
Quiet == ~ENABLED AnyStep

OutFile == IOEnv.IMPLOBS_OUT \o ToString(TLCGet(1)) \o ".ndjson"
ObsEnd ==
  /\ hist' = hist \o (IF Census THEN CensusEvs ELSE <<>>)
                  \o <<[Ev("Unwind") EXCEPT !.conn = 0, !.x = IF Finished THEN "finished" ELSE "deadlock",
                                            !.res = IF bad THEN "bad" ELSE ""],
                       [Ev("End") EXCEPT !.conn = 0]>>
  /\ fin' = TRUE
  /\ IF IOEnv.IMPLOBS_OUT = "-" THEN TRUE          \* (counting only)
       ELSE ndJsonSerialize(OutFile, hist') /\ TLCSet(1, TLCGet(1) + 1)
  /\ UNCHANGED <<vars, ucode, bad, nstep>>

ObsInit ==
  /\ Init
  /\ hist = <<[Ev("Begin") EXCEPT !.conn = 0, !.k = "IMPL", !.msg = SRV, !.pay = CLI, !.n = 1]>>
  /\ ucode = [c \in Unaries |-> ""]
  /\ fin = FALSE /\ bad = FALSE /\ nstep = 0
  /\ TLCSet(1, 0)

\* (after ObsEnd nothing is enabled: ObsEnd leaves GoatImpl's variables alone and they admit no step)
ObsNext == ObsStep \/ (~fin /\ Quiet /\ ObsEnd)

ObsSpec == ObsInit /\ [][ObsNext]_ovars
=============================================================================
