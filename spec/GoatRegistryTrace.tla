-------------------------- MODULE GoatRegistryTrace --------------------------
(* Trace validation of slim (registry + census) traces of long histories.   *)
EXTENDS GoatRegistry, Sequences, Json, IOUtils

VARIABLE l
Trace == ndJsonDeserialize(IOEnv.VERIF_TRACE)
Is(name) == l <= Len(Trace) /\ Trace[l].ev = name /\ l' = l + 1
E == Trace[l]

TraceInit == RInit /\ l = 1
TBegin == Is("Begin") /\ hi' = 0 /\ gaps' = {} /\ creg' = {} /\ sreg' = {} /\ base' = 0 /\ cregN' = -1 /\ stuck' = FALSE
TBase == Is("Base") /\ SetBase(E.n)
THk == /\ Is("Hk")
       /\ CASE E.k = "mux.reg" -> MuxReg(E.code, E.n)
            [] E.k = "mux.unreg" -> MuxUnreg(E.code, E.n)
            [] E.k = "mux.fail" -> MuxFail(E.n)
            [] E.k = "srv.reg" -> SrvReg(E.code, E.n)
            [] E.k = "srv.unreg" -> SrvUnreg(E.code, E.n)
            [] OTHER -> UNCHANGED rvars
TCReg == Is("CReg") /\ CRegN(E.n)
TQuiesce == Is("Quiesce") /\ Census(E.res = "idle", E.n)
TStuck == Is("Stuck") /\ Stuck
TOther == /\ l <= Len(Trace) /\ Trace[l].ev \in {"Unwind", "End", "Fault", "Unfault", "Note"}
          /\ l' = l + 1 /\ UNCHANGED rvars
\* Leak, Crash, Wedged: no action

TraceNext == TBegin \/ TBase \/ THk \/ TCReg \/ TQuiesce \/ TStuck \/ TOther

NextBegin == IF \E j \in (l + 1)..Len(Trace) : Trace[j].ev = "Begin"
               THEN CHOOSE j \in (l + 1)..Len(Trace) :
                      Trace[j].ev = "Begin" /\ \A i \in (l + 1)..(j - 1) : Trace[i].ev # "Begin"
               ELSE Len(Trace) + 1
TSkip == /\ l <= Len(Trace)
         /\ ~ENABLED TraceNext
         /\ PrintT(<<"TRACE_REJECTED_AT_LINE", l, "of", Len(Trace)>>)
         /\ l' = NextBegin
         /\ UNCHANGED rvars
\* A scenario is accepted iff SOME branch of the specification consumes it up to its End line (where logged
\* arguments leave a choice the branches that guessed wrong die on the way and are reported by TSkip, too):
SegOk == (l <= Len(Trace) /\ Trace[l].ev = "End") => PrintT(<<"TRACE_SEGMENT_OK", l>>)
TraceSpec == TraceInit /\ [][(TraceNext /\ SegOk) \/ TSkip]_<<rvars, l>>
=============================================================================
