SPECIFICATION DiagSpec
CHECK_DEADLOCK TRUE
