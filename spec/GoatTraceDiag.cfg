SPECIFICATION DiagSpec
CHECK_DEADLOCK TRUE
CONSTANT Off = {}
