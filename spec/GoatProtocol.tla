---------------------------- MODULE GoatProtocol ----------------------------
(***************************************************************************)
(* Layer P of the GOAT specification: what users of the library rely on,   *)
(* for ONE client connection served by ONE server connection.              *)
(*                                                                         *)
(* The state is the client-API view of every call, the two directions of   *)
(* the wire, the handler view of every RPC and a few connection facts.     *)
(* Every action is an OBSERVABLE event (API call / return, envelope        *)
(* written / delivered, handler call / return, fault, census) and its      *)
(* enabling condition is the justification the properties demand, e.g.     *)
(* "Recv may return io.EOF only if an OK close for this id was delivered   *)
(* and every delivered body was consumed".  There are no locks, goroutines *)
(* or channels here (that is GoatImpl.tla), so a refactoring that keeps    *)
(* the behaviour keeps being accepted.                                     *)
(*                                                                         *)
(* The module is used in two ways:                                         *)
(*  - GoatTrace.tla binds the action arguments to recorded events of the   *)
(*    real implementation (trace validation);                              *)
(*  - GoatProtocolMC.tla closes it with a small nondeterministic           *)
(*    environment and checks that the local rules compose to the           *)
(*    end-to-end properties (pairing, prefix delivery, EOF iff OK ...).    *)
(***************************************************************************)
EXTENDS Integers, Sequences, FiniteSets, TLC

\* Rule groups that are switched off (normally {}).  When a trace is rejected the
\* orchestrator re-validates it with one group off at a time to learn which
\* family of rules - hence which property - the implementation broke.
\*   md status pay ids wire ctx fault serve pend reg robust letgo route
CONSTANT Off
\* IF (not a disjunction) and "= TRUE" make TLC evaluate the guard as a plain predicate:
\* a disjunction in an action is split into one successor per true disjunct.
G(g, cond) == IF g \in Off THEN TRUE ELSE cond = TRUE

VARIABLES
  cfg,      \* [srv: server name, rawcli, rawsrv: BOOLEAN, ncli]
  phase,    \* "run" | "unwind" | "end"
  now,      \* virtual time (ms) of the latest event
  calls,    \* call token -> client-side call record
  byId,     \* stream id -> call token (client side)
  hi, gaps, \* ids used by the client: every id <= hi except those in gaps
  cw, nSR,  \* envelopes written by the client; how many the server has read
  sw, nCR,  \* envelopes written by the server; how many the client has read
  cin,      \* id -> what the client has been delivered for that id
  sin,      \* id -> what the server has been delivered for that id
  preq,     \* well-formed requests delivered to the server, handler not yet started
  hnds,     \* handler incarnation -> record
  hOf,      \* id -> latest handler incarnation bound to it
  flt,      \* set of fault / condition names that have occurred
  creg, sreg, \* ghost registries (ids), maintained from the registry events
  base,     \* goroutine baseline
  pend, live, cregN, \* census lines collected before the next Quiesce
  parked    \* number of goroutines parked at a scheduler gate

varsNoNow == <<cfg, phase, calls, byId, hi, gaps, cw, nSR, sw, nCR, cin, sin, preq,
               hnds, hOf, flt, creg, sreg, base, pend, live, cregN, parked>>
vars == <<cfg, phase, now, calls, byId, hi, gaps, cw, nSR, sw, nCR, cin, sin, preq,
          hnds, hOf, flt, creg, sreg, base, pend, live, cregN, parked>>

-----------------------------------------------------------------------------
(* Metadata: a finite function key -> sequence of values.                  *)

EmptyF == [k \in {} |-> <<>>]
\* l is a sequence of [k |-> key, v |-> <<values>>] with distinct keys
MdF(l) == [k \in {l[i].k : i \in DOMAIN l} |-> l[CHOOSE i \in DOMAIN l : l[i].k = k].v]
Cat2(f, g) == [k \in (DOMAIN f) \cup (DOMAIN g) |->
                 (IF k \in DOMAIN f THEN f[k] ELSE <<>>) \o (IF k \in DOMAIN g THEN g[k] ELSE <<>>)]

Get(f, k, d) == IF k \in DOMAIN f THEN f[k] ELSE d
Put(f, k, v) == (k :> v) @@ f

\* The time of the event being taken.  Every step first fixes now' (the trace
\* specification from the time stamp of the line, the model-checking closure by
\* its clock action) and the rules below are stated in terms of that time.
T == now'

OK == 0
CANCELED == 1
DEADLINE == 4

-----------------------------------------------------------------------------
(* Defaults                                                                *)

NoCin == [n |-> 0, bodies |-> <<>>, close |-> "", code |-> -1, msg |-> "", ndet |-> 0,
          tmd |-> EmptyF, fmd |-> EmptyF, fbad |-> FALSE, fb |-> 0, fs |-> 0, ft |-> 0,
          fcode |-> -1, fmsg |-> "", fndet |-> 0, fpay |-> "", tbad |-> FALSE, mayRst |-> FALSE]
Cin(id) == Get(cin, id, NoCin)

\* st: none | live | closing | dead
NoSin == [n |-> 0, items |-> <<>>, rst |-> FALSE, st |-> "none", must |-> 0, may |-> 0,
          hdrs |-> {}, nresp |-> 0,
          unk |-> FALSE,       \* a request for a method this server does not know has arrived under this id
          refused |-> FALSE]   \* ... and has been answered
Sin(id) == Get(sin, id, NoSin)

Stuck == flt \cap {"cstuck", "sstuck"} # {} \/ parked > 0
CliDown == flt \cap {"cread", "cwrite"} # {}
\* "cwrite1": exactly one client write is refused; the connection stays up
SrvDown == flt \cap {"sread", "swfail", "stop", "serveret"} # {} \/ phase # "run"

CtxDone(c) == \/ calls[c].cancelled
              \/ calls[c].dl >= 0 /\ T >= calls[c].dl
              \/ phase # "run"
\* what a context-related status may be for call c
CtxCodes(c) == (IF calls[c].cancelled \/ phase # "run" \/ "cwrite" \in flt THEN {CANCELED} ELSE {})
               \cup (IF calls[c].dl >= 0 /\ T >= calls[c].dl THEN {DEADLINE} ELSE {})

\* may the context of handler h be done?
HCause(h) == \/ hnds[h].rst
             \/ SrvDown
             \/ hnds[h].dl >= 0 /\ T >= hnds[h].dl

-----------------------------------------------------------------------------
(* Methods                                                                  *)
KindOfMeth(m) == CASE m = "/verif.Svc/Unary" -> "unary"
                   [] m = "/verif.Svc/Bidi" -> "bidi"
                   [] m = "/verif.Svc/CS" -> "cs"
                   [] m = "/verif.Svc/SS" -> "ss"
                   [] OTHER -> ""
MethOfKind(k) == CASE k = "unary" -> "/verif.Svc/Unary"
                   [] k = "bidi" -> "/verif.Svc/Bidi"
                   [] k = "cs" -> "/verif.Svc/CS"
                   [] k = "ss" -> "/verif.Svc/SS"
                   [] k = "xbidi" -> "/verif.Svc/Nope"      \* a streaming call of a method the service does not have
                   [] k = "ybidi" -> "/no.Such/Bidi"        \* ... of a service the server does not have
                   [] OTHER -> "?"

-----------------------------------------------------------------------------
Init ==
  /\ cfg = [srv |-> "srv", rawcli |-> FALSE, rawsrv |-> FALSE, ncli |-> 1, cli |-> "cli1", relay |-> "", dst |-> "srv"]
  /\ phase = "run" /\ now = 0
  /\ calls = <<>> /\ byId = <<>> /\ hi = 0 /\ gaps = {}
  /\ cw = <<>> /\ nSR = 0 /\ sw = <<>> /\ nCR = 0
  /\ cin = <<>> /\ sin = <<>> /\ preq = <<>> /\ hnds = <<>> /\ hOf = <<>>
  /\ flt = {} /\ creg = {} /\ sreg = {} /\ base = 0
  /\ pend = {} /\ live = {} /\ cregN = -1 /\ parked = 0

-----------------------------------------------------------------------------
(* Client API: starting calls                                               *)

NewCall(kind, pay, md, to) ==
  [kind |-> kind, id |-> "", pay |-> pay, md |-> md, dl |-> IF to > 0 THEN T + to ELSE -1,
   opened |-> "", sent |-> <<>>, late |-> <<>>, nW |-> 0, nOk |-> 0,
   closeCalled |-> FALSE, closeW |-> FALSE, rstW |-> FALSE, cancelled |-> FALSE,
   recvd |-> 0, term |-> "", tcode |-> -1, uret |-> FALSE, sendFailed |-> FALSE, sendRefused |-> FALSE, rstLost |-> FALSE, bad |-> FALSE]

UCall(c, pay, md, to) ==
  /\ c \notin DOMAIN calls
  /\ calls' = Put(calls, c, NewCall("unary", pay, md, to))
  /\ UNCHANGED <<cfg, phase, byId, hi, gaps, cw, nSR, sw, nCR, cin, sin, preq, hnds, hOf,
                 flt, creg, sreg, base, pend, live, cregN, parked>>

\* a unary call whose request the codec refuses: it fails locally and nothing is written for it
UCallBad(c, md, to) ==
  /\ c \notin DOMAIN calls
  /\ calls' = Put(calls, c, [NewCall("unary", "", md, to) EXCEPT !.bad = TRUE])
  /\ UNCHANGED <<cfg, phase, byId, hi, gaps, cw, nSR, sw, nCR, cin, sin, preq, hnds, hOf,
                 flt, creg, sreg, base, pend, live, cregN, parked>>

SOpen(c, kind, md, to) ==
  /\ c \notin DOMAIN calls
  /\ kind \in {"bidi", "cs", "ss", "xbidi", "ybidi"}
  /\ calls' = Put(calls, c, NewCall(kind, "", md, to))
  /\ UNCHANGED <<cfg, phase, byId, hi, gaps, cw, nSR, sw, nCR, cin, sin, preq, hnds, hOf,
                 flt, creg, sreg, base, pend, live, cregN, parked>>

Cancel(c) ==
  /\ c \in DOMAIN calls
  /\ calls' = [calls EXCEPT ![c].cancelled = TRUE]
  /\ UNCHANGED <<cfg, phase, byId, hi, gaps, cw, nSR, sw, nCR, cin, sin, preq, hnds, hOf,
                 flt, creg, sreg, base, pend, live, cregN, parked>>

-----------------------------------------------------------------------------
(* The client writes an envelope (C05 unique ids, C06 client half of the    *)
(* wire protocol).  env is the envelope record of the trace.                *)

FreshId(n) == n >= 0 /\ (n > hi \/ n \in gaps)
UseId(n) == IF n > hi \/ n < 0 THEN /\ hi' = n
                           /\ gaps' = gaps \cup ((hi + 1)..(n - 1))
                      ELSE /\ hi' = hi
                           /\ gaps' = gaps \ {n}

HdrConst(env, c) == /\ env.h = 1
                    /\ env.meth = MethOfKind(calls[c].kind)
                    /\ env.src = cfg.cli
                    /\ env.dst = cfg.dst

ClientWrite(env) ==
  /\ ~cfg.rawcli
  \* what an endpoint writes carries no route record of its own making and (a client) no route to follow: the record is
  \* the relays' to write - also when an envelope shares its header object with one a relay has already seen (C16)
  /\ G("route", env.rec = 0 /\ env.nxt = 0)
  /\ \/ \* first envelope of a call: carries the call token
        /\ env.c \in DOMAIN calls
        /\ calls[env.c].id = ""
        /\ G("wire", ~calls[env.c].bad)
        /\ LET c == env.c IN
           /\ G("ids", FreshId(env.idn)) /\ UseId(env.idn)
           /\ env.id \notin DOMAIN byId
           /\ G("wire", HdrConst(env, c))
           /\ G("md", MdF(env.md) = calls[c].md)
           /\ G("wire", env.s = 0 /\ env.t = 0 /\ env.r = 0)
           /\ IF calls[c].kind = "unary"
                THEN G("wire", env.b = 1) /\ G("pay", env.pay = calls[c].pay)
                ELSE G("wire", env.b = 0)
           /\ G("wire", (calls[c].dl >= 0) <=> (env.to # ""))
           /\ calls' = [calls EXCEPT ![c].id = env.id]
           /\ byId' = Put(byId, env.id, c)
     \/ \* later envelope of a stream
        /\ env.id \in DOMAIN byId
        /\ LET c == byId[env.id] IN
           /\ calls[c].id = env.id /\ env.c \in {0, c}
           /\ calls[c].kind # "unary"
           /\ G("wire", HdrConst(env, c))
           /\ G("wire", ~calls[c].rstW)         \* the reset is final
           /\ G("md", env.md = <<>>)
           /\ \/ \* body
                 /\ env.b = 1 /\ env.t = 0 /\ env.s = 0 /\ env.r = 0
                 /\ G("wire", ~calls[c].closeW)
                 /\ calls[c].nW < Len(calls[c].sent)
                 /\ G("pay", env.pay = calls[c].sent[calls[c].nW + 1])
                 /\ calls' = [calls EXCEPT ![c].nW = @ + 1]
              \/ \* half-close
                 /\ env.t = 1 /\ env.b = 0 /\ env.r = 0
                 /\ G("wire", env.s = 0 \/ env.code = OK)
                 /\ G("wire", calls[c].closeCalled /\ ~calls[c].closeW)
                 /\ calls' = [calls EXCEPT ![c].closeW = TRUE]
              \/ \* reset: only for a call whose context is done
                 /\ env.r = 1 /\ env.b = 0 /\ env.rtype = "RST_STREAM"
                 \* (a send whose write was refused tears the stream down; its SendMsg may not have returned yet)
                 /\ G("ctx", CtxDone(c) \/ "cwrite" \in flt \/ calls[c].sendFailed
                              \/ ("cwfail" \in flt /\ calls[c].nOk < Len(calls[c].sent)))
                 /\ calls' = [calls EXCEPT ![c].rstW = TRUE]
           /\ UNCHANGED <<byId, hi, gaps>>
  /\ cw' = Append(cw, env)
  /\ UNCHANGED <<cfg, phase, nSR, sw, nCR, cin, sin, preq, hnds, hOf,
                 flt, creg, sreg, base, pend, live, cregN, parked>>

\* a raw peer playing the client: anything goes
ClientWriteRaw(env) ==
  /\ cfg.rawcli
  /\ cw' = Append(cw, env)
  /\ UNCHANGED <<cfg, phase, calls, byId, hi, gaps, nSR, sw, nCR, cin, sin, preq, hnds, hOf,
                 flt, creg, sreg, base, pend, live, cregN, parked>>

-----------------------------------------------------------------------------
(* Delivery to the server (ordered, exactly once: assumption on the         *)
(* transport, checked for the shipped ones in C19), and classification.     *)

\* A request the server may run a handler for (C12)
WellFormedReq(env) == /\ env.h = 1
                      /\ KindOfMeth(env.meth) # ""
                      /\ env.dst = cfg.srv
                      /\ env.badmd = 0

\* a reset is an envelope whose reset field names the one documented type
IsRst(env) == env.r = 1 /\ env.rtype = "RST_STREAM"

SrvItem(env) == IF env.t = 1 THEN [k |-> "close", pay |-> "", code |-> IF env.s = 1 THEN env.code ELSE OK]
                ELSE IF env.b = 1 THEN [k |-> "body", pay |-> env.pay, code |-> -1]
                ELSE [k |-> "hdr", pay |-> "-", code |-> -1]

\* an envelope without the routing fields a relay (proxy) maintains
NoRoute(e) == [e EXCEPT !.rec = 0, !.nxt = 0, !.rs = "", !.ns = "", !.rret = ""]
\* ... which it maintains like this (C16): on a direct connection nothing changes; an envelope written without a route
\* record crosses the one relay of the topology with exactly that relay's name recorded - once, for every envelope of a
\* stream alike - and with nothing left to follow
RouteKept(w, r) == IF cfg.relay = "" THEN r.rs = w.rs /\ r.ns = w.ns /\ r.rec = w.rec /\ r.nxt = w.nxt
                   ELSE (w.rs = "" /\ w.nxt <= 1) => (r.rs = cfg.relay /\ r.rec = 1 /\ r.nxt = 0)

ServerRead(env, n) ==
  /\ n = nSR + 1 /\ n <= Len(cw)
  \* ordered, exactly once, unchanged - except the routing record a relay (proxy) maintains
  /\ NoRoute(env) = NoRoute(cw[n])
  /\ G("route", RouteKept(cw[n], env))
  /\ nSR' = n
  /\ LET id == env.id
         s == Sin(id)
         kind == IF env.h = 1 THEN KindOfMeth(env.meth) ELSE ""
         base0 == [s EXCEPT !.n = @ + 1,
                            !.hdrs = IF env.h = 1 THEN @ \cup {<<env.meth, env.src, env.dst, env.rret>>} ELSE @]
     IN
     IF env.h = 0 \/ kind = "" \/ env.dst # cfg.srv
       THEN \* ignored by the server: nothing may happen for it - except that a request naming a method the server
            \* does not know may be refused (once per id; goat drops it silently)
            /\ sin' = Put(sin, id, IF env.h = 1 /\ env.dst = cfg.srv /\ env.r = 0 /\ env.t = 0
                                     THEN [base0 EXCEPT !.unk = TRUE] ELSE base0)
            /\ UNCHANGED preq
     ELSE IF kind = "unary"
       THEN IF env.badmd = 0 /\ ~(env.b = 1 /\ env.pay = "raw!")
              THEN /\ preq' = Append(preq, [c |-> env.c, id |-> id, kind |-> "unary", pay |-> IF env.b = 1 THEN env.pay ELSE "-",
                                            md |-> MdF(env.md), b |-> env.b, meth |-> env.meth, src |-> env.src, dst |-> env.dst])
                   /\ sin' = Put(sin, id, base0)
              ELSE \* undecodable metadata or body on a unary request: no handler; an error reply
                   /\ sin' = Put(sin, id, [base0 EXCEPT !.may = @ + 1]) /\ UNCHANGED preq
     ELSE \* a streaming method
       IF IsRst(env)
         THEN /\ sin' = Put(sin, id, [base0 EXCEPT !.rst = TRUE]) /\ UNCHANGED preq
       ELSE IF s.st = "live"
         THEN /\ sin' = Put(sin, id, [base0 EXCEPT !.items = Append(@, SrvItem(env))]) /\ UNCHANGED preq
       ELSE IF s.st = "closing"
         THEN \* the handler has returned, the stream may or may not still be registered
              /\ sin' = Put(sin, id, [base0 EXCEPT !.may = @ + 1]) /\ UNCHANGED preq
       ELSE \* none / dead: not registered
         IF env.b = 1 \/ (env.t = 0 /\ env.badmd = 1)
           THEN /\ sin' = Put(sin, id, [base0 EXCEPT !.must = @ + 1]) /\ UNCHANGED preq
         ELSE IF env.t = 1
           THEN /\ sin' = Put(sin, id, base0) /\ UNCHANGED preq
         ELSE \* a well-formed open: the stream is registered from here on
              /\ sin' = Put(sin, id, [base0 EXCEPT !.st = "live", !.items = <<>>, !.rst = FALSE])
              /\ preq' = Append(preq, [c |-> env.c, id |-> id, kind |-> kind, pay |-> "",
                                       md |-> MdF(env.md), b |-> 0, meth |-> env.meth, src |-> env.src, dst |-> env.dst])
  \* a reset reaches the handler that currently owns the id
  /\ hnds' = IF env.h = 1 /\ KindOfMeth(env.meth) \notin {"", "unary"} /\ env.dst = cfg.srv /\ IsRst(env)
                 /\ env.id \in DOMAIN hOf
               THEN [hnds EXCEPT ![hOf[env.id]].rst = TRUE] ELSE hnds
  /\ UNCHANGED <<cfg, phase, calls, byId, hi, gaps, cw, sw, nCR, cin, hOf,
                 flt, creg, sreg, base, pend, live, cregN, parked>>

-----------------------------------------------------------------------------
(* Handlers (C01 exactly once with the caller's request, C04 metadata)      *)

FirstReq(c, kind) == CHOOSE i \in DOMAIN preq :
                        /\ preq[i].c = c /\ preq[i].kind = kind
                        /\ \A j \in 1..(i - 1) : ~(preq[j].c = c /\ preq[j].kind = kind)
RemoveAt(s, i) == SubSeq(s, 1, i - 1) \o SubSeq(s, i + 1, Len(s))

HStart(h, c, kind, pay, md, dlus) ==
  /\ h \notin DOMAIN hnds
  /\ \E i \in DOMAIN preq : preq[i].c = c /\ preq[i].kind = kind
  /\ LET i == FirstReq(c, kind)
         r == preq[i] IN
     /\ G("pay", kind = "unary" => pay = r.pay)
     /\ G("md", md = r.md)
     /\ preq' = RemoveAt(preq, i)
     /\ hnds' = Put(hnds, h, [c |-> c, id |-> r.id, kind |-> kind, nrecv |-> 0,
                              sent |-> <<>>, sres |-> <<>>, lastW |-> 0,
                              hdr |-> EmptyF, pendHdr |-> EmptyF, hdrPending |-> FALSE, hdrW |-> FALSE,
                              hdrQ |-> FALSE, hdrQmd |-> EmptyF, hdrQby |-> FALSE, hsent |-> FALSE, hdrAlt |-> EmptyF, hdrAltOn |-> FALSE,
                              trl |-> EmptyF, ret |-> FALSE, rc |-> -1, rmsg |-> "", rndet |-> 0,
                              \* (a reset may have been read before the handler's goroutine logged its start)
                              rpay |-> "", trW |-> FALSE, rst |-> (kind # "unary" /\ Sin(r.id).rst),
                              dl |-> IF dlus >= 0 THEN T + ((dlus + 999) \div 1000) ELSE -1,
                              meth |-> r.meth, src |-> r.src, dst |-> r.dst])
     /\ hOf' = IF kind = "unary" THEN hOf ELSE Put(hOf, r.id, h)
  /\ UNCHANGED <<cfg, phase, calls, byId, hi, gaps, cw, nSR, sw, nCR, cin, sin,
                 flt, creg, sreg, base, pend, live, cregN, parked>>

HUpd(h, rec) == /\ hnds' = [hnds EXCEPT ![h] = rec]
                /\ UNCHANGED <<cfg, phase, calls, byId, hi, gaps, cw, nSR, sw, nCR, cin, sin, preq, hOf,
                               flt, creg, sreg, base, pend, live, cregN, parked>>

HRecvRet(h, res, pay) ==
  /\ h \in DOMAIN hnds /\ hnds[h].kind # "unary" /\ ~hnds[h].ret
  /\ LET x == hnds[h]
         items == Sin(x.id).items
         nxt == x.nrecv + 1 IN
     \/ /\ res = "msg"
        /\ nxt <= Len(items)
        /\ items[nxt].k \in {"body", "hdr"} /\ G("pay", items[nxt].pay = pay)
        /\ HUpd(h, [x EXCEPT !.nrecv = nxt])
     \/ /\ res = "eof"
        /\ nxt <= Len(items)
        /\ items[nxt].k = "close" /\ items[nxt].code = OK
        /\ HUpd(h, [x EXCEPT !.nrecv = nxt])
     \/ /\ res = "err"
        /\ ( \/ G("ctx", HCause(h))
             \/ nxt <= Len(items) /\ items[nxt].k = "close" /\ items[nxt].code # OK
             \/ nxt <= Len(items) /\ items[nxt].k = "body" /\ items[nxt].pay = "raw!" ) = TRUE  \* undecodable body
        /\ HUpd(h, x)

HSend(h, pay) ==
  /\ h \in DOMAIN hnds /\ hnds[h].kind # "unary" /\ ~hnds[h].ret
  /\ HUpd(h, [hnds[h] EXCEPT !.sent = Append(@, pay), !.sres = Append(@, "?"), !.hsent = TRUE])

\* SendMsg with a message the codec refuses: it fails, nothing is written for it, the stream goes on
HSendBad(h, res) ==
  /\ h \in DOMAIN hnds /\ hnds[h].kind # "unary" /\ ~hnds[h].ret
  /\ G("pay", res = "err")
  /\ HUpd(h, hnds[h])

HSendRet(h, res) ==
  /\ h \in DOMAIN hnds /\ Len(hnds[h].sres) > 0 /\ hnds[h].sres[Len(hnds[h].sres)] = "?"
  /\ G("ctx", res = "err" => HCause(h))  \* a send on a healthy stream does not fail
  /\ HUpd(h, [hnds[h] EXCEPT !.sres[Len(hnds[h].sres)] = res])

HSetHdr(h, md, res) ==
  /\ h \in DOMAIN hnds /\ ~hnds[h].ret
  /\ G("md", res = "err" => hnds[h].hsent \/ hnds[h].hdrW \/ hnds[h].hdrPending \/ hnds[h].hdrQ \/ HCause(h))
  /\ HUpd(h, IF res = "ok" THEN [hnds[h] EXCEPT !.hdr = Cat2(@, md)] ELSE hnds[h])

\* stream SendHeader: call and return are separate events; the header-only envelope is handed
\* to the connection's writer in between and reaches the wire before or after the return (hdrQ:
\* a header-only envelope is owed to the wire)
HSendHdr(h, md) ==
  /\ h \in DOMAIN hnds /\ ~hnds[h].ret
  /\ LET x == hnds[h]
         first == ~x.hsent /\ ~x.hdrW /\ ~x.hdrQ IN      \* only the first SendHeader emits
     HUpd(h, [x EXCEPT !.pendHdr = md, !.hdrPending = TRUE, !.hdrQby = first,
                       !.hdrQ = @ \/ first, !.hdrQmd = IF first THEN Cat2(x.hdr, md) ELSE @])
HSendHdrRet(h, res) ==
  /\ h \in DOMAIN hnds /\ hnds[h].hdrPending
  /\ G("md", res = "err" => hnds[h].hsent \/ hnds[h].hdrW \/ HCause(h))
  /\ HUpd(h, [hnds[h] EXCEPT !.hdrPending = FALSE, !.pendHdr = EmptyF, !.hsent = @ \/ res = "ok",
                             !.hdrQ = IF res = "err" /\ hnds[h].hdrQby THEN FALSE ELSE @,
                             !.hdr = IF res = "ok" THEN Cat2(@, hnds[h].pendHdr) ELSE @,
                             !.hdrAltOn = @ \/ res = "err",
                             !.hdrAlt = IF res = "err" THEN Cat2(hnds[h].hdr, hnds[h].pendHdr) ELSE @])
\* unary grpc.SendHeader only collects, and marks the headers as sent
HSendHdrUnary(h, md, res) ==
  /\ h \in DOMAIN hnds /\ ~hnds[h].ret
  /\ G("md", res = "err" => hnds[h].hsent \/ HCause(h))
  /\ HUpd(h, IF res = "ok" THEN [hnds[h] EXCEPT !.hdr = Cat2(@, md), !.hsent = TRUE] ELSE hnds[h])

HSetTrl(h, md) ==
  /\ h \in DOMAIN hnds /\ ~hnds[h].ret
  /\ HUpd(h, [hnds[h] EXCEPT !.trl = Cat2(@, md)])

HRet(h, code, msg, ndet, pay) ==
  /\ h \in DOMAIN hnds /\ ~hnds[h].ret
  /\ LET id == hnds[h].id
         its == Sin(id).items
         \* the server's read loop looks a stream up AFTER it has read an envelope: a body delivered while the stream was
         \* registered and not consumed by the handler may still be in the read loop's hand when the handler returns and
         \* unregisters - it is then answered with a reset like one delivered afterwards (found by the cross-layer check,
         \* GoatImplObs: a behaviour of the design model that this rule used to reject; reproduced on the real code)
         inHand == IF Len(its) > hnds[h].nrecv /\ its[Len(its)].k = "body" THEN 1 ELSE 0 IN
     sin' = IF hnds[h].kind # "unary" /\ Sin(id).st = "live" /\ Get(hOf, id, 0) = h
              THEN Put(sin, id, [Sin(id) EXCEPT !.st = "closing", !.may = @ + inHand]) ELSE sin
  /\ hnds' = [hnds EXCEPT ![h].ret = TRUE, ![h].rc = code, ![h].rmsg = msg, ![h].rndet = ndet, ![h].rpay = pay]
  /\ UNCHANGED <<cfg, phase, calls, byId, hi, gaps, cw, nSR, sw, nCR, cin, preq, hOf,
                 flt, creg, sreg, base, pend, live, cregN, parked>>

HCtxDone(h) ==
  /\ h \in DOMAIN hnds
  /\ G("ctx", HCause(h))             \* a handler context is done only for a reason
  /\ UNCHANGED varsNoNow

-----------------------------------------------------------------------------
(* The server writes an envelope (C06 server half, C03 status, C04 md)      *)

\* what HRet reports as the reply of a unary handler that returned (a value the codec refuses, nil)
Unenc == "@unenc"

StatusMatches(env, h) ==
  LET x == hnds[h] IN
  G("status",
    IF x.rc = OK THEN env.s = 0 \/ env.code = OK
    ELSE /\ env.s = 1
         /\ IF x.rc = -2 THEN env.code # OK ELSE env.code = x.rc
         /\ env.msg = x.rmsg /\ env.ndet = x.rndet)

RespHdrConst(env, x) == /\ env.h = 1 /\ env.meth = x.meth /\ env.src = x.dst /\ env.dst = x.src

\* The headers a handler has set travel on its first response envelope - unless a Send of that handler failed before
\* anything was written (its context was done for a cause: the caller has reset the stream, the connection or the
\* deadline has ended it): that Send had taken the headers with it and what is still written afterwards goes without
\* - and a SendHeader that failed the same way may have left its metadata behind for the next envelope
HdrOnFirst(x, md) == \/ md = x.hdr
                     \/ md = EmptyF /\ \E j \in DOMAIN x.sres : x.sres[j] = "err"
                     \/ x.hdrAltOn /\ md = x.hdrAlt

\* index of the next handler send that can appear on the wire
NextSend(x) == CHOOSE j \in (x.lastW + 1)..Len(x.sent) :
                  /\ x.sres[j] # "err"
                  /\ \A i \in (x.lastW + 1)..(j - 1) : x.sres[i] = "err"
HasNextSend(x) == \E j \in (x.lastW + 1)..Len(x.sent) : x.sres[j] # "err"

ServerWrite(env) ==
  /\ ~cfg.rawsrv
  /\ G("route", env.rec = 0)
  /\ G("wire", Sin(env.id).n > 0)         \* only for ids it has received
  /\ \/ \* reset answering a body (or an undecodable open) for a stream it does not know
        /\ env.r = 1 /\ env.t = 1 /\ env.b = 0 /\ env.rtype = "RST_STREAM"
        /\ LET s == Sin(env.id) IN
           /\ G("wire", s.must + s.may > 0)
           \* (header echoed from an envelope of that id, return route = that envelope's route record without its last hop)
           /\ G("wire", env.h = 1 /\ <<env.meth, env.dst, env.src, env.ns>> \in s.hdrs)
           \* it never overtakes the trailer of a stream that ended normally
           /\ G("wire", env.id \in DOMAIN hOf =>
                LET x == hnds[hOf[env.id]] IN
                   x.kind # "unary" /\ x.ret /\ ~x.trW => HCause(hOf[env.id]))
           /\ sin' = Put(sin, env.id, IF s.must > 0 THEN [s EXCEPT !.must = @ - 1]
                                      ELSE IF s.may > 0 THEN [s EXCEPT !.may = @ - 1] ELSE s)
        /\ UNCHANGED hnds
     \/ \* the response of a unary handler: exactly one, with header, trailer and a body or a non-OK status
        /\ env.r = 0
        /\ env.h = 1 /\ KindOfMeth(env.meth) = "unary"
        /\ LET cand == {h \in DOMAIN hnds : hnds[h].kind = "unary" /\ hnds[h].id = env.id /\ hnds[h].ret /\ ~hnds[h].trW}
               fits(h) == (hnds[h].rc = OK /\ hnds[h].rpay # Unenc) => env.pay = hnds[h].rpay
           IN
           /\ G("wire", cand # {})
           /\ cand # {} =>
                LET h == IF \E g \in cand : fits(g) THEN CHOOSE g \in cand : fits(g) ELSE CHOOSE g \in cand : TRUE
                    x == hnds[h] IN
                /\ G("wire", RespHdrConst(env, x))
                /\ G("wire", <<env.meth, env.dst, env.src, env.ns>> \in Sin(env.id).hdrs)    \* the return route (C16)
                /\ G("wire", env.t = 1)
                /\ IF x.rc = OK /\ x.rpay = Unenc
                     \* a reply the codec refuses is not on the wire, whatever status the server makes of it (goat: none);
                     \* the caller then cannot see a success (URet: ok only with a body)
                     THEN G("pay", env.b = 0)
                     ELSE /\ StatusMatches(env, h)
                          /\ x.rc = OK => G("wire", env.b = 1) /\ (env.b = 1 => G("pay", env.pay = x.rpay))
                /\ G("md", MdF(env.md) = x.hdr /\ MdF(env.tmd) = x.trl)
                /\ hnds' = [hnds EXCEPT ![h].trW = TRUE]
           /\ cand = {} => UNCHANGED hnds
        /\ UNCHANGED sin
     \/ \* an envelope of a stream handler
        /\ env.r = 0
        /\ ~(env.h = 1 /\ KindOfMeth(env.meth) = "unary")
        /\ env.id \in DOMAIN hOf
        /\ LET h == hOf[env.id]
               x == hnds[h]
               md == MdF(env.md) IN
           /\ G("wire", ~x.trW)                 \* nothing after the close
           /\ G("wire", RespHdrConst(env, x))
           /\ \/ \* explicit header
                 /\ env.b = 0 /\ env.t = 0 /\ env.s = 0
                 /\ G("wire", x.hdrQ)
                 \* (after the first envelope it is too late: the caller's Header() is what the first envelope carried - C04, C06)
                 /\ ("wire" \in Off \/ "md" \in Off \/ ~x.hdrW) = TRUE
                 /\ G("md", md = x.hdrQmd)
                 /\ hnds' = [hnds EXCEPT ![h].hdrW = TRUE, ![h].hdrQ = FALSE]
              \/ \* message
                 /\ env.b = 1 /\ env.t = 0 /\ env.s = 0
                 /\ HasNextSend(x)
                 /\ G("pay", env.pay = x.sent[NextSend(x)])
                 /\ G("wire", x.hdrW => md = EmptyF) /\ G("md", ~x.hdrW => HdrOnFirst(x, md))
                 /\ hnds' = [hnds EXCEPT ![h].lastW = NextSend(x), ![h].hdrW = TRUE]
              \/ \* close
                 /\ env.t = 1 /\ env.b = 0
                 /\ x.ret /\ G("wire", ~HasNextSend(x))
                 /\ StatusMatches(env, h)
                 /\ G("wire", x.hdrW => md = EmptyF) /\ G("md", ~x.hdrW => HdrOnFirst(x, md))
                 /\ G("md", MdF(env.tmd) = x.trl)
                 /\ hnds' = [hnds EXCEPT ![h].trW = TRUE, ![h].hdrW = TRUE]
        /\ UNCHANGED sin
     \/ \* refusal of a request for a method the server does not know: one error status per id, nothing else, ever
        /\ env.r = 0 /\ env.t = 1 /\ env.s = 1 /\ env.code # OK /\ env.b = 0
        /\ env.h = 1 /\ KindOfMeth(env.meth) = ""
        /\ Sin(env.id).unk /\ ~Sin(env.id).refused
        /\ G("wire", <<env.meth, env.dst, env.src, env.ns>> \in Sin(env.id).hdrs)
        /\ sin' = Put(sin, env.id, [Sin(env.id) EXCEPT !.refused = TRUE])
        /\ UNCHANGED hnds
     \/ \* reply to a unary request with undecodable metadata: an error status, no handler
        /\ env.r = 0 /\ env.t = 1 /\ env.s = 1 /\ env.code # OK /\ env.b = 0
        /\ env.h = 1 /\ KindOfMeth(env.meth) = "unary"
        /\ ~\E h \in DOMAIN hnds : hnds[h].kind = "unary" /\ hnds[h].id = env.id /\ hnds[h].ret /\ ~hnds[h].trW
        /\ Sin(env.id).may > 0
        /\ G("wire", env.h = 1 /\ <<env.meth, env.dst, env.src, env.ns>> \in Sin(env.id).hdrs)
        /\ sin' = Put(sin, env.id, [Sin(env.id) EXCEPT !.may = @ - 1])
        /\ UNCHANGED hnds
  /\ sw' = Append(sw, env)
  /\ UNCHANGED <<cfg, phase, calls, byId, hi, gaps, cw, nSR, nCR, cin, preq, hOf,
                 flt, creg, sreg, base, pend, live, cregN, parked>>

ServerWriteRaw(env) ==
  /\ cfg.rawsrv
  /\ sw' = Append(sw, env)
  /\ UNCHANGED <<cfg, phase, calls, byId, hi, gaps, cw, nSR, nCR, cin, sin, preq, hnds, hOf,
                 flt, creg, sreg, base, pend, live, cregN, parked>>

-----------------------------------------------------------------------------
(* Delivery to the client                                                   *)

ClientRead(env, n) ==
  /\ n = nCR + 1 /\ n <= Len(sw)
  /\ NoRoute(env) = NoRoute(sw[n])
  /\ G("route", RouteKept(sw[n], env))
  /\ nCR' = n
  /\ LET id == env.id
         x == Cin(id)
         x1 == IF x.n = 0
                 THEN [x EXCEPT !.n = 1, !.fmd = MdF(env.md), !.fbad = (env.badmd = 1), !.fb = env.b, !.fs = env.s,
                                !.ft = env.t, !.fcode = env.code, !.fmsg = env.msg, !.fndet = env.ndet, !.fpay = env.pay]
                 ELSE [x EXCEPT !.n = @ + 1]
         x2 == IF x1.close # "" THEN x1           \* after the close nothing counts
               ELSE IF env.t = 1
                 THEN [x1 EXCEPT !.close = IF env.r = 1 THEN "rst"
                                           ELSE IF env.s = 0 \/ env.code = OK THEN "ok" ELSE "err",
                                 !.code = env.code, !.msg = env.msg, !.ndet = env.ndet, !.tmd = MdF(env.tmd),
                                 !.tbad = (env.badtmd = 1)]
               ELSE IF env.r = 1 THEN [x1 EXCEPT !.mayRst = TRUE]
               ELSE IF env.b = 1 THEN [x1 EXCEPT !.bodies = Append(@, env.pay)]
               ELSE x1
     IN cin' = Put(cin, id, x2)
  /\ UNCHANGED <<cfg, phase, calls, byId, hi, gaps, cw, nSR, sw, sin, preq, hnds, hOf,
                 flt, creg, sreg, base, pend, live, cregN, parked>>

-----------------------------------------------------------------------------
(* Client API results (C01, C02, C03, C07, C09, C13)                        *)

CUpd(c, rec) == /\ calls' = [calls EXCEPT ![c] = rec]
                /\ UNCHANGED <<cfg, phase, byId, hi, gaps, cw, nSR, sw, nCR, cin, sin, preq, hnds, hOf,
                               flt, creg, sreg, base, pend, live, cregN, parked>>

\* End to end (C01, C03): did the handler of this call return success on a connection that is still healthy?
\* Then nothing but the caller's own context may turn the call into a failure.
HandlerOkHealthy(c) ==
  /\ ~SrvDown /\ ~CliDown
  /\ \E h \in DOMAIN hnds : hnds[h].c = c /\ c # 0 /\ hnds[h].ret /\ hnds[h].rc = OK /\ ~HCause(h)
                            /\ hnds[h].rpay # "@unenc"     \* (a reply the codec refused never left the server)

URet(c, res, code, msg, ndet, pay) ==
  /\ c \in DOMAIN calls /\ calls[c].kind = "unary" /\ ~calls[c].uret
  /\ LET x == Cin(calls[c].id) IN
     \/ /\ res = "ok"
        /\ calls[c].id # "" /\ x.n > 0
        /\ G("status", x.fb = 1 /\ (x.fs = 0 \/ x.fcode = OK))
        /\ G("pay", pay = x.fpay)
     \/ /\ res = "err"
        /\ G("status", HandlerOkHealthy(c) => CtxDone(c))
        /\ ( \/ CtxDone(c)
             \/ CliDown
             \/ calls[c].bad
             \/ /\ calls[c].id # "" /\ x.n > 0
                /\ \/ x.fs = 1 /\ x.fcode # OK /\ G("status", code = x.fcode /\ msg = x.fmsg /\ ndet = x.fndet)
                   \/ x.fb = 0 /\ (x.fs = 0 \/ x.fcode = OK)      \* malformed: neither body nor error
                   \/ x.fpay = "raw!" ) = TRUE                     \* undecodable body
  /\ CUpd(c, [calls[c] EXCEPT !.uret = TRUE])

\* the stream was (or is being) torn down by its own refused Send: SendMsg may not have returned yet
\* (sendRefused: for a reason of the transport or the codec - a Send that failed because the caller's context was
\* done is no excuse for reporting anything but the context's status afterwards, C07)
SendTornDown(c) == calls[c].sendRefused \/ ("cwfail" \in flt /\ calls[c].nOk < Len(calls[c].sent))

SOpenRet(c, res) ==
  /\ c \in DOMAIN calls /\ calls[c].kind # "unary" /\ calls[c].opened = ""
  /\ res = "ok" => calls[c].id # ""                 \* the open envelope was written
  /\ G("fault", res = "err" => CtxDone(c) \/ CliDown \/ "cwfail" \in flt)      \* (a refused write of the opening envelope)
  /\ CUpd(c, [calls[c] EXCEPT !.opened = res])

SSend(c, pay) ==
  /\ c \in DOMAIN calls /\ calls[c].opened = "ok"
  /\ CUpd(c, [calls[c] EXCEPT !.sent = Append(@, pay), !.late = Append(@, calls[c].cancelled \/ (calls[c].dl >= 0 /\ T >= calls[c].dl))])

StreamMayBeOver(c) == \/ CtxDone(c) \/ CliDown \/ calls[c].sendFailed \/ "cwrite1" \in flt
                      \/ Cin(calls[c].id).close # "" \/ Cin(calls[c].id).mayRst \/ Cin(calls[c].id).fbad

SSendRet(c, res, cls) ==
  /\ c \in DOMAIN calls /\ calls[c].opened = "ok"
  /\ calls[c].nOk < Len(calls[c].sent)
  /\ IF res = "ok"
       THEN /\ calls[c].nW > calls[c].nOk           \* it is on the wire
            /\ G("ctx", ~calls[c].late[calls[c].nOk + 1])  \* C07: a send begun after cancel fails
            /\ CUpd(c, [calls[c] EXCEPT !.nOk = @ + 1])
       ELSE /\ G("fault", StreamMayBeOver(c))
            \* C07: a send begun after the caller's cancellation / deadline on a stream that had not ended otherwise
            \* fails with the context's error (not io.EOF, not something else)
            /\ LET x == Cin(calls[c].id) IN
               G("ctx", (calls[c].late[calls[c].nOk + 1] /\ x.close = "" /\ ~x.mayRst /\ ~x.fbad /\ ~CliDown
                         /\ ~calls[c].sendFailed /\ "cwrite1" \notin flt) => cls = "ctx")
            \* the message did not go out: drop it from the expected wire sequence
            /\ CUpd(c, [calls[c] EXCEPT !.sendFailed = TRUE,
                                        !.sendRefused = @ \/ (flt \cap {"cwfail", "cwrite1", "cwrite"} # {}),
                                        !.sent = IF calls[c].nW > calls[c].nOk THEN @ ELSE SubSeq(@, 1, calls[c].nOk) \o SubSeq(@, calls[c].nOk + 2, Len(@)),
                                        !.late = IF calls[c].nW > calls[c].nOk THEN @ ELSE SubSeq(@, 1, calls[c].nOk) \o SubSeq(@, calls[c].nOk + 2, Len(@)),
                                        !.nOk = IF calls[c].nW > calls[c].nOk THEN @ + 1 ELSE @])

\* SendMsg with a message the codec refuses: a local failure, nothing is written for it and the stream is torn
\* down (its peer is told with the stream's one reset, like after any other failed Send)
SSendBad(c) ==
  /\ c \in DOMAIN calls /\ calls[c].opened = "ok"
  /\ CUpd(c, [calls[c] EXCEPT !.sendFailed = TRUE, !.sendRefused = TRUE])
SSendBadRet(c, res) ==
  /\ c \in DOMAIN calls /\ calls[c].opened = "ok" /\ calls[c].sendFailed
  /\ G("fault", res = "err")                    \* a message that cannot be encoded is never reported as sent
  /\ CUpd(c, calls[c])

SClose(c) ==
  /\ c \in DOMAIN calls /\ calls[c].opened = "ok"
  /\ CUpd(c, [calls[c] EXCEPT !.closeCalled = TRUE])

SCloseRet(c, res) ==
  /\ c \in DOMAIN calls /\ calls[c].closeCalled
  /\ res = "ok" => calls[c].closeW
  /\ G("fault", res = "err" => StreamMayBeOver(c))
  /\ CUpd(c, calls[c])

SRecvRet(c, res, code, msg, ndet, pay, plain) ==
  /\ c \in DOMAIN calls /\ calls[c].opened = "ok"
  /\ LET k == calls[c]
         x == Cin(k.id) IN
     \/ /\ res = "msg"
        /\ k.term = ""
        /\ k.recvd < Len(x.bodies) /\ G("pay", pay = x.bodies[k.recvd + 1])
        /\ CUpd(c, [k EXCEPT !.recvd = @ + 1])
     \/ /\ res = "eof"
        /\ G("status", x.close = "ok") /\ G("pay", k.recvd = Len(x.bodies))  \* C02: EOF exactly on success, after everything
        /\ CUpd(c, [k EXCEPT !.term = "eof"])
     \/ /\ res = "err"
        /\ (code # OK \/ plain) = TRUE
        /\ G("status", HandlerOkHealthy(c) => CtxDone(c) \/ SendTornDown(c) \/ x.fbad \/ k.term = "err"
                                              \/ (plain /\ k.recvd < Len(x.bodies) /\ x.bodies[k.recvd + 1] = "raw!"))
        /\ ( \/ "status" \in Off
             \/ x.close = "err" /\ code = x.code /\ msg = x.msg /\ ndet = x.ndet   \* C03
             \* a reset explains an error - unless the handler of this very stream returned on a healthy
             \* stream: then its trailer, not a reset, is what the caller must see (C03 / C06)
             \/ /\ x.close = "rst" \/ x.mayRst
                /\ G("status", ~(k.id \in DOMAIN hOf /\ hnds[hOf[k.id]].ret /\ ~HCause(hOf[k.id])))
             \/ code \in CtxCodes(c)                                               \* C07
             \/ "ctx" \in Off /\ CtxCodes(c) # {}
             \/ "cread" \in flt
             \/ SendTornDown(c)                  \* the stream was torn down by its own failed Send
             \/ x.fbad
             \/ plain /\ k.recvd < Len(x.bodies) /\ x.bodies[k.recvd + 1] = "raw!"
             \/ k.term = "err" /\ code = k.tcode ) = TRUE
        /\ LET rawb == plain /\ k.recvd < Len(x.bodies) /\ x.bodies[k.recvd + 1] = "raw!" IN
           \* an undecodable message is consumed and reported; the stream goes on
           CUpd(c, [k EXCEPT !.term = IF @ = "" /\ ~rawb THEN "err" ELSE @, !.tcode = IF k.term = "" /\ ~rawb THEN code ELSE @,
                             !.recvd = IF rawb THEN @ + 1 ELSE @])

SHdrRet(c, res, md, isnil) ==
  /\ c \in DOMAIN calls /\ calls[c].opened = "ok"
  /\ LET x == Cin(calls[c].id) IN
     ( \/ res = "ok" /\ x.n > 0 /\ ~x.fbad /\ ~isnil /\ G("md", md = x.fmd)        \* C04
       \* (nil, nil): the stream ended without headers - but never when the first envelope delivered carried some (C04)
       \/ res = "ok" /\ isnil /\ StreamMayBeOver(c) /\ G("md", x.n = 0 \/ x.fbad \/ x.fmd = EmptyF)
       \/ res = "err" /\ StreamMayBeOver(c) ) = TRUE
  /\ CUpd(c, calls[c])

STrl(c, md, isnil) ==
  /\ c \in DOMAIN calls /\ calls[c].opened = "ok"
  /\ LET x == Cin(calls[c].id) IN
     \* after a terminal result that came from the close envelope, the trailer is that envelope's
     (calls[c].term = "eof" \/ (calls[c].term = "err" /\ x.close = "err" /\ ~CtxDone(c) /\ ~CliDown))
        => G("md", x.tbad \/ IF isnil THEN x.tmd = EmptyF ELSE md = x.tmd)
  /\ UNCHANGED varsNoNow

-----------------------------------------------------------------------------
(* Faults and connection end (C09, C10)                                      *)

Fault(what) ==
  /\ flt' = flt \cup {what}
  /\ UNCHANGED <<cfg, phase, calls, byId, hi, gaps, cw, nSR, sw, nCR, cin, sin, preq, hnds, hOf,
                 creg, sreg, base, pend, live, cregN, parked>>

\* The transport refused the write of a stream's reset while the connection stays up (one failed POST, say): the
\* client has made its one attempt - no second reset follows - and its peer cannot know that the stream is over.
WFailRst(id) ==
  /\ flt' = flt \cup {"cwfail"}
  /\ calls' = IF id \in DOMAIN byId THEN [calls EXCEPT ![byId[id]].rstW = TRUE, ![byId[id]].rstLost = TRUE] ELSE calls
  /\ UNCHANGED <<cfg, phase, byId, hi, gaps, cw, nSR, sw, nCR, cin, sin, preq, hnds, hOf,
                 creg, sreg, base, pend, live, cregN, parked>>

Unfault(what) ==
  /\ flt' = flt \ {what}
  /\ UNCHANGED <<cfg, phase, calls, byId, hi, gaps, cw, nSR, sw, nCR, cin, sin, preq, hnds, hOf,
                 creg, sreg, base, pend, live, cregN, parked>>

ServeRet ==
  /\ G("serve", flt \cap {"sread", "swfail", "stop"} # {} \/ phase # "run")     \* Serve returns only for a reason
  /\ G("serve", \A h \in DOMAIN hnds : hnds[h].kind # "unary" => hnds[h].ret)   \* C10: stream handlers finished
  /\ flt' = flt \cup {"serveret"}
  /\ UNCHANGED <<cfg, phase, calls, byId, hi, gaps, cw, nSR, sw, nCR, cin, sin, preq, hnds, hOf,
                 creg, sreg, base, pend, live, cregN, parked>>

-----------------------------------------------------------------------------
(* Registry events (C14) - emitted under the registry locks                 *)

MuxReg(id, n) == /\ creg' = creg \cup {id} /\ G("reg", n = Cardinality(creg \cup {id}))
                 /\ UNCHANGED <<cfg, phase, calls, byId, hi, gaps, cw, nSR, sw, nCR, cin, sin, preq, hnds, hOf,
                                flt, sreg, base, pend, live, cregN, parked>>
MuxUnreg(id, n) == /\ creg' = creg \ {id} /\ G("reg", n = Cardinality(creg \ {id}))
                   /\ UNCHANGED <<cfg, phase, calls, byId, hi, gaps, cw, nSR, sw, nCR, cin, sin, preq, hnds, hOf,
                                  flt, sreg, base, pend, live, cregN, parked>>
MuxFail(n) == /\ creg' = IF n = 0 THEN {} ELSE creg
              /\ G("reg", n \in {0, Cardinality(creg)})
              /\ UNCHANGED <<cfg, phase, calls, byId, hi, gaps, cw, nSR, sw, nCR, cin, sin, preq, hnds, hOf,
                             flt, sreg, base, pend, live, cregN, parked>>
SrvReg(id, n) == /\ sreg' = sreg \cup {id} /\ G("reg", n = Cardinality(sreg \cup {id}))
                 /\ UNCHANGED <<cfg, phase, calls, byId, hi, gaps, cw, nSR, sw, nCR, cin, sin, preq, hnds, hOf,
                                flt, creg, base, pend, live, cregN, parked>>
SrvUnreg(id, n) ==
  /\ sreg' = sreg \ {id} /\ G("reg", n = Cardinality(sreg \ {id}))
  /\ sin' = IF id \in DOMAIN sin /\ sin[id].st \in {"live", "closing"}
              THEN [sin EXCEPT ![id].st = "dead"] ELSE sin
  /\ UNCHANGED <<cfg, phase, calls, byId, hi, gaps, cw, nSR, sw, nCR, cin, preq, hnds, hOf,
                 flt, creg, base, pend, live, cregN, parked>>

-----------------------------------------------------------------------------
(* Census at a quiescent point: every goroutine of the scenario is durably  *)
(* blocked, so "still pending" means "will never return unless something    *)
(* new happens" (C01 never none, C07, C09, C10, C11, C13, C14).             *)

\* By design (no flow control) the client's read loop waits, head of line, behind a stream whose caller has
\* messages to fetch and neither fetches them nor cancels; while it waits it cannot notice a failed transport.
CliHol == \E c \in DOMAIN calls : /\ calls[c].kind # "unary" /\ calls[c].opened = "ok" /\ ~CtxDone(c)
                                  /\ calls[c].recvd < Len(Cin(calls[c].id).bodies)
CreadSeen == "cread" \in flt /\ ~CliHol

ClientFinished(c) ==
  LET k == calls[c] IN
  IF k.kind = "unary" THEN k.uret
  ELSE \/ k.opened = "err"
       \/ /\ k.opened = "ok"
          /\ \/ CtxDone(c) \/ CreadSeen \/ k.sendFailed
             \/ Cin(k.id).close # "" /\ k.recvd = Len(Cin(k.id).bodies)

\* KNOWN FINDING D25 (C11; head-of-line blocking without flow control, like D23).  The caller of a stream is inside
\* a Send / CloseSend, responses of that very stream wait unfetched (it will only receive once it has sent everything)
\* and the client's read loop demonstrably does not read any more (envelopes for it sit in the transport): it waits
\* behind those responses, the server's writer behind it, the server's read loop - which owes resets for late messages
\* or simply more responses - behind the writer, and the caller's Send behind the server's read loop.  Nothing on the
\* connection moves until that caller receives or gives up; no rule about "by now" can be judged at such a point.
SenderHol(unreadC) ==
  /\ unreadC > 0
  /\ \E p \in pend : /\ p.op \in {"send", "close"} /\ p.c \in DOMAIN calls
                     /\ LET k == calls[p.c] IN
                        /\ k.kind # "unary" /\ k.opened = "ok" /\ ~CtxDone(p.c)
                        /\ k.recvd < Len(Cin(k.id).bodies)
\* stall: nothing can be expected to have happened "by now" (a stuck transport, a goroutine the scheduler holds at a gate,
\* or the client's read loop stalled - by design - behind responses their caller has not fetched yet)
PendLegit(p, stall) ==
  LET c == p.c
      k == calls[c]
      x == Cin(k.id) IN
  \* (even then an operation whose own context is done returns: every blocking call of the client - a transport
  \* write included - gives up with its context; only a goroutine the scheduler holds at a gate cannot)
  \/ parked > 0
  \/ stall /\ ~CtxDone(c)
  \/ /\ p.op = "unary"
     \* (a failing write side only matters to a request that is not on the wire yet)
     /\ ~CtxDone(c) /\ ("cwrite" \notin flt \/ k.id # "") /\ ~CreadSeen /\ (k.id = "" \/ x.n = 0)
  \/ /\ p.op = "recv"
     /\ ~CtxDone(c) /\ ~CreadSeen /\ ~k.sendFailed
     /\ x.close = "" /\ ~x.fbad /\ k.recvd = Len(x.bodies) /\ k.term = ""
  \/ /\ p.op = "hdr"
     /\ ~CtxDone(c) /\ ~CreadSeen /\ ~k.sendFailed /\ x.n = 0

NLiveUnary == Cardinality({v \in live : v.kind = "unary"})
\* By design the server's read loop waits, head of line, for a free unary worker (8) or for a live stream
\* handler that is not receiving; while it waits it does not read, so a failing transport read has not happened yet.
SrvHol == \/ NLiveUnary >= 8 /\ preq # <<>>                      \* a request it has read waits for a worker
          \* (only while that handler's context is live: the read loop lets go of a stream whose context is done)
          \/ \E v \in live : /\ v.kind # "unary" /\ v.in # "recv" /\ v.res = "live" /\ v.h \in DOMAIN hnds
                              \* one envelope fits the stream's queue, the next one is in the read loop's hand
                              /\ Len(Sin(hnds[v.h].id).items) - hnds[v.h].nrecv >= 2
SrvDownSeen == flt \cap {"swfail", "stop", "serveret"} # {} \/ phase # "run" \/ ("sread" \in flt /\ ~SrvHol)
\* a cause that MUST have cancelled handler h's context by now
HCauseSeen(h) == \/ hnds[h].rst
                 \/ SrvDownSeen
                 \/ hnds[h].dl >= 0 /\ T >= hnds[h].dl

LiveLegit(v, stall) ==
  LET h == v.h IN
  /\ h \in DOMAIN hnds
  \* (parked > 0: the scheduler holds some goroutine at a gate - what that goroutine would have
  \* delivered has not happened yet)
  /\ G("ctx", v.res = "live" => parked > 0 \/ ~HCauseSeen(h))       \* C07 / C10: cancelled with its cause
  /\ G("pend", v.in = "recv" => /\ v.res = "live"                   \* blocked calls unblock on the context
                                /\ (parked > 0 \/ hnds[h].nrecv = Len(Sin(hnds[h].id).items))) \* and on data
  /\ G("pend", v.in = "send" => stall)
  /\ G("pend", v.in = "ctxwait" => v.res = "live")

Idle == /\ \A c \in DOMAIN calls : ClientFinished(c)
        /\ \A h \in DOMAIN hnds : hnds[h].ret
        /\ preq = <<>>

Quiesce(ngor, nsrv, unreadS, unreadC) ==
  LET stall == Stuck \/ (CliHol /\ unreadC > 0) IN
  /\ \A p \in pend : p.c \in DOMAIN calls /\ G("pend", PendLegit(p, stall))
  /\ \A v \in live : LiveLegit(v, stall)
  \* every well-formed request delivered to a live server started its handler (C01 "never none")
  /\ G("robust", preq # <<>> => SrvDown \/ stall \/ NLiveUnary >= 8)
  \* a live server keeps reading what is deliverable, unless its worker pool is busy with live handlers or it
  \* waits (head of line, by design) for a live stream handler that is not reading (C12, C11); likewise the client
  /\ G("robust", (unreadS > 0 /\ cfg.ncli = 1 /\ ~cfg.rawsrv) => SrvDown \/ stall \/ NLiveUnary >= 8
                      \/ \E v \in live : v.kind # "unary" /\ v.in # "recv" /\ v.res = "live")
  /\ G("pend", (unreadC > 0 /\ cfg.ncli = 1 /\ ~cfg.rawcli) => CliDown \/ stall
                      \/ CliHol)
  \* every returned handler has its response / close on the wire (C06)
  /\ G("wire", \A h \in DOMAIN hnds : hnds[h].ret /\ ~hnds[h].trW => SrvDown \/ stall \/ HCause(h))
  \* bodies for unknown streams were answered with a reset (C12)
  /\ G("robust", \A id \in DOMAIN sin : sin[id].must > 0 => SrvDown \/ stall)
  \* a cancelled stream has sent its reset (C07)
  /\ G("ctx", \A c \in DOMAIN calls :
        (calls[c].kind # "unary" /\ calls[c].opened = "ok" /\ CtxDone(c) /\ phase = "run"
         /\ Cin(calls[c].id).close = "" /\ ~Cin(calls[c].id).mayRst /\ ~CliDown /\ ~stall) => calls[c].rstW)
  \* Serve has returned if its connection ended and no scripted handler holds it (C10)
  /\ G("serve", ((flt \cap {"swfail", "stop"} # {} \/ ("sread" \in flt /\ ~SrvHol)) /\ ~stall
        /\ \A v \in live : v.kind = "unary" \/ v.in \notin {"idle", "sleep"}) => "serveret" \in flt)
  \* registries (C14)
  /\ G("reg", cregN >= 0 => cregN = Cardinality(creg))
  /\ G("reg", ~stall => \A c \in DOMAIN calls : ClientFinished(c) /\ calls[c].id # "" => calls[c].id \notin creg)
  /\ G("reg", ~stall => \A h \in DOMAIN hnds : hnds[h].ret /\ hnds[h].kind # "unary" /\ Get(hOf, hnds[h].id, 0) = h => hnds[h].id \notin sreg)
  /\ G("reg", (Idle /\ ~stall) => creg = {} /\ sreg = {} /\ ((cfg.ncli = 1 /\ base >= 0) => ngor <= base))
  \* (topologies whose connections come into being with the first envelope: the idle level is learnt at the first idle point)
  /\ base' = IF base < 0 /\ Idle /\ ~stall THEN ngor ELSE base
  \* once Serve has returned and the handlers have returned, no goroutine of that connection remains (C10),
  \* even if the transport was stuck: a blocked write returns when the connection context is done
  /\ G("serve", ("serveret" \in flt /\ cfg.ncli = 1 /\ live = {} /\ parked = 0) => nsrv = 0)
  \* when the caller's side of a stream is over on a healthy connection, the server's side does not
  \* sit in a blocking call for ever: it has been told (C14, C07)
  /\ G("letgo", (~stall /\ ~CliDown /\ ~SrvDown) =>
        \A v \in live : (v.kind # "unary" /\ v.in \in {"recv", "ctxwait"} /\ v.h \in DOMAIN hnds) =>
           ~\E c \in DOMAIN calls : /\ calls[c].id = hnds[v.h].id /\ calls[c].kind # "unary"
                                    /\ ClientFinished(c) /\ Cin(calls[c].id).close = "" /\ ~calls[c].rstLost
                                    /\ (v.in = "ctxwait" \/ hnds[v.h].nrecv = Len(Sin(hnds[v.h].id).items)))
  \* after a quiescent point a finished stream is definitely unregistered
  /\ sin' = [id \in DOMAIN sin |-> IF sin[id].st = "closing" /\ ~stall THEN [sin[id] EXCEPT !.st = "dead"] ELSE sin[id]]
  /\ pend' = {} /\ live' = {} /\ cregN' = -1
  /\ UNCHANGED <<cfg, phase, calls, byId, hi, gaps, cw, nSR, sw, nCR, cin, preq, hnds, hOf,
                 flt, creg, sreg, parked>>

Pend(c, op) == /\ pend' = pend \cup {[c |-> c, op |-> op]}
               /\ UNCHANGED <<cfg, phase, calls, byId, hi, gaps, cw, nSR, sw, nCR, cin, sin, preq, hnds, hOf,
                              flt, creg, sreg, base, live, cregN, parked>>
HLive(h, kind, res, in) == /\ live' = live \cup {[h |-> h, kind |-> kind, res |-> res, in |-> in]}
                           /\ UNCHANGED <<cfg, phase, calls, byId, hi, gaps, cw, nSR, sw, nCR, cin, sin, preq, hnds, hOf,
                                          flt, creg, sreg, base, pend, cregN, parked>>
CRegN(n) == /\ cregN' = n
            /\ UNCHANGED <<cfg, phase, calls, byId, hi, gaps, cw, nSR, sw, nCR, cin, sin, preq, hnds, hOf,
                           flt, creg, sreg, base, pend, live, parked>>

=============================================================================
