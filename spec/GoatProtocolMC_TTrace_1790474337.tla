---- MODULE GoatProtocolMC_TTrace_1790474337 ----
EXTENDS Sequences, TLCExt, Toolbox, Naturals, TLC, GoatProtocolMC

_expression ==
    LET GoatProtocolMC_TEExpression == INSTANCE GoatProtocolMC_TEExpression
    IN GoatProtocolMC_TEExpression!expression
----

_trace ==
    LET GoatProtocolMC_TETrace == INSTANCE GoatProtocolMC_TETrace
    IN GoatProtocolMC_TETrace!trace
----

_inv ==
    ~(
        TLCGet("level") = Len(_TETrace)
        /\
        hi = (1)
        /\
        cin = (("1" :> [code |-> -1, msg |-> "", ndet |-> 0, tmd |-> <<>>, n |-> 1, bodies |-> <<>>, close |-> "ok", fmd |-> <<>>, fbad |-> FALSE, fb |-> 1, fs |-> 0, ft |-> 1, fcode |-> -1, fmsg |-> "", fndet |-> 0, fpay |-> "a", tbad |-> FALSE, mayRst |-> FALSE]))
        /\
        nSR = (1)
        /\
        hgot = (<<>>)
        /\
        ceof = (FALSE)
        /\
        now = (0)
        /\
        sin = (("1" :> [n |-> 1, items |-> <<>>, rst |-> FALSE, st |-> "none", must |-> 0, may |-> 0, hdrs |-> {<<"/verif.Svc/Unary", "cli1", "srv">>}, nresp |-> 0]))
        /\
        preq = (<<>>)
        /\
        nCR = (1)
        /\
        nev = (9)
        /\
        hOf = (<<>>)
        /\
        live = ({})
        /\
        pend = ({})
        /\
        phase = ("run")
        /\
        crecv = (<<>>)
        /\
        parked = (0)
        /\
        sw = (<<[b |-> 1, id |-> "1", idn |-> 1, h |-> 1, s |-> 0, t |-> 1, r |-> 0, code |-> -1, msg |-> "", ndet |-> 0, pay |-> "a", md |-> <<>>, tmd |-> <<>>, meth |-> "/verif.Svc/Unary", src |-> "srv", dst |-> "cli1", to |-> "", c |-> 0, badmd |-> 0, badtmd |-> 0, rtype |-> "", rec |-> 0, nxt |-> 0]>>)
        /\
        hnds = (<<[id |-> "1", meth |-> "/verif.Svc/Unary", src |-> "cli1", dst |-> "srv", c |-> 1, kind |-> "unary", sent |-> <<>>, sres |-> <<>>, ret |-> TRUE, rc |-> 0, rpay |-> "a", rst |-> FALSE, dl |-> -1, nrecv |-> 0, lastW |-> 0, hdr |-> <<>>, pendHdr |-> <<>>, hdrPending |-> FALSE, hdrW |-> FALSE, hdrQ |-> FALSE, hdrQmd |-> <<>>, hdrQby |-> FALSE, hsent |-> FALSE, trl |-> <<>>, rmsg |-> "", rndet |-> 0, trW |-> TRUE]>>)
        /\
        cfg = ([cli |-> "cli1", srv |-> "srv", rawcli |-> FALSE, rawsrv |-> FALSE, ncli |-> 1])
        /\
        gaps = ({})
        /\
        flt = ({})
        /\
        cw = (<<[b |-> 1, id |-> "1", idn |-> 1, h |-> 1, s |-> 0, t |-> 0, r |-> 0, code |-> -1, msg |-> "", ndet |-> 0, pay |-> "a", md |-> <<>>, tmd |-> <<>>, meth |-> "/verif.Svc/Unary", src |-> "cli1", dst |-> "srv", to |-> "", c |-> 1, badmd |-> 0, badtmd |-> 0, rtype |-> "", rec |-> 0, nxt |-> 0]>>)
        /\
        sreg = ({})
        /\
        cregN = (-1)
        /\
        calls = (<<[id |-> "1", pay |-> "a", md |-> <<>>, kind |-> "unary", sent |-> <<>>, cancelled |-> FALSE, dl |-> -1, opened |-> "", late |-> <<>>, nW |-> 0, nOk |-> 0, closeCalled |-> FALSE, closeW |-> FALSE, rstW |-> FALSE, recvd |-> 0, term |-> "", tcode |-> -1, uret |-> TRUE, sendFailed |-> FALSE], [id |-> "", pay |-> "", md |-> <<>>, kind |-> "bidi", sent |-> <<>>, cancelled |-> FALSE, dl |-> -1, opened |-> "", late |-> <<>>, nW |-> 0, nOk |-> 0, closeCalled |-> FALSE, closeW |-> FALSE, rstW |-> FALSE, recvd |-> 0, term |-> "", tcode |-> -1, uret |-> FALSE, sendFailed |-> FALSE]>>)
        /\
        byId = (("1" :> 1))
        /\
        ures = (<<"ok", -1, "a">>)
        /\
        creg = ({})
        /\
        base = (0)
    )
----

_init ==
    /\ phase = _TETrace[1].phase
    /\ creg = _TETrace[1].creg
    /\ ures = _TETrace[1].ures
    /\ cregN = _TETrace[1].cregN
    /\ cin = _TETrace[1].cin
    /\ hgot = _TETrace[1].hgot
    /\ ceof = _TETrace[1].ceof
    /\ preq = _TETrace[1].preq
    /\ now = _TETrace[1].now
    /\ pend = _TETrace[1].pend
    /\ cw = _TETrace[1].cw
    /\ sin = _TETrace[1].sin
    /\ gaps = _TETrace[1].gaps
    /\ nev = _TETrace[1].nev
    /\ byId = _TETrace[1].byId
    /\ sreg = _TETrace[1].sreg
    /\ hOf = _TETrace[1].hOf
    /\ sw = _TETrace[1].sw
    /\ nCR = _TETrace[1].nCR
    /\ hi = _TETrace[1].hi
    /\ parked = _TETrace[1].parked
    /\ base = _TETrace[1].base
    /\ hnds = _TETrace[1].hnds
    /\ live = _TETrace[1].live
    /\ calls = _TETrace[1].calls
    /\ cfg = _TETrace[1].cfg
    /\ nSR = _TETrace[1].nSR
    /\ crecv = _TETrace[1].crecv
    /\ flt = _TETrace[1].flt
----

_next ==
    /\ \E i,j \in DOMAIN _TETrace:
        /\ \/ /\ j = i + 1
              /\ i = TLCGet("level")
        /\ phase  = _TETrace[i].phase
        /\ phase' = _TETrace[j].phase
        /\ creg  = _TETrace[i].creg
        /\ creg' = _TETrace[j].creg
        /\ ures  = _TETrace[i].ures
        /\ ures' = _TETrace[j].ures
        /\ cregN  = _TETrace[i].cregN
        /\ cregN' = _TETrace[j].cregN
        /\ cin  = _TETrace[i].cin
        /\ cin' = _TETrace[j].cin
        /\ hgot  = _TETrace[i].hgot
        /\ hgot' = _TETrace[j].hgot
        /\ ceof  = _TETrace[i].ceof
        /\ ceof' = _TETrace[j].ceof
        /\ preq  = _TETrace[i].preq
        /\ preq' = _TETrace[j].preq
        /\ now  = _TETrace[i].now
        /\ now' = _TETrace[j].now
        /\ pend  = _TETrace[i].pend
        /\ pend' = _TETrace[j].pend
        /\ cw  = _TETrace[i].cw
        /\ cw' = _TETrace[j].cw
        /\ sin  = _TETrace[i].sin
        /\ sin' = _TETrace[j].sin
        /\ gaps  = _TETrace[i].gaps
        /\ gaps' = _TETrace[j].gaps
        /\ nev  = _TETrace[i].nev
        /\ nev' = _TETrace[j].nev
        /\ byId  = _TETrace[i].byId
        /\ byId' = _TETrace[j].byId
        /\ sreg  = _TETrace[i].sreg
        /\ sreg' = _TETrace[j].sreg
        /\ hOf  = _TETrace[i].hOf
        /\ hOf' = _TETrace[j].hOf
        /\ sw  = _TETrace[i].sw
        /\ sw' = _TETrace[j].sw
        /\ nCR  = _TETrace[i].nCR
        /\ nCR' = _TETrace[j].nCR
        /\ hi  = _TETrace[i].hi
        /\ hi' = _TETrace[j].hi
        /\ parked  = _TETrace[i].parked
        /\ parked' = _TETrace[j].parked
        /\ base  = _TETrace[i].base
        /\ base' = _TETrace[j].base
        /\ hnds  = _TETrace[i].hnds
        /\ hnds' = _TETrace[j].hnds
        /\ live  = _TETrace[i].live
        /\ live' = _TETrace[j].live
        /\ calls  = _TETrace[i].calls
        /\ calls' = _TETrace[j].calls
        /\ cfg  = _TETrace[i].cfg
        /\ cfg' = _TETrace[j].cfg
        /\ nSR  = _TETrace[i].nSR
        /\ nSR' = _TETrace[j].nSR
        /\ crecv  = _TETrace[i].crecv
        /\ crecv' = _TETrace[j].crecv
        /\ flt  = _TETrace[i].flt
        /\ flt' = _TETrace[j].flt

\* Uncomment the ASSUME below to write the states of the error trace
\* to the given file in Json format. Note that you can pass any tuple
\* to `JsonSerialize`. For example, a sub-sequence of _TETrace.
    \* ASSUME
    \*     LET J == INSTANCE Json
    \*         IN J!JsonSerialize("GoatProtocolMC_TTrace_1790474337.json", _TETrace)

=============================================================================

 Note that you can extract this module `GoatProtocolMC_TEExpression`
  to a dedicated file to reuse `expression` (the module in the 
  dedicated `GoatProtocolMC_TEExpression.tla` file takes precedence 
  over the module `GoatProtocolMC_TEExpression` below).

---- MODULE GoatProtocolMC_TEExpression ----
EXTENDS Sequences, TLCExt, Toolbox, Naturals, TLC, GoatProtocolMC

expression == 
    [
        \* To hide variables of the `GoatProtocolMC` spec from the error trace,
        \* remove the variables below.  The trace will be written in the order
        \* of the fields of this record.
        phase |-> phase
        ,creg |-> creg
        ,ures |-> ures
        ,cregN |-> cregN
        ,cin |-> cin
        ,hgot |-> hgot
        ,ceof |-> ceof
        ,preq |-> preq
        ,now |-> now
        ,pend |-> pend
        ,cw |-> cw
        ,sin |-> sin
        ,gaps |-> gaps
        ,nev |-> nev
        ,byId |-> byId
        ,sreg |-> sreg
        ,hOf |-> hOf
        ,sw |-> sw
        ,nCR |-> nCR
        ,hi |-> hi
        ,parked |-> parked
        ,base |-> base
        ,hnds |-> hnds
        ,live |-> live
        ,calls |-> calls
        ,cfg |-> cfg
        ,nSR |-> nSR
        ,crecv |-> crecv
        ,flt |-> flt
        
        \* Put additional constant-, state-, and action-level expressions here:
        \* ,_stateNumber |-> _TEPosition
        \* ,_phaseUnchanged |-> phase = phase'
        
        \* Format the `phase` variable as Json value.
        \* ,_phaseJson |->
        \*     LET J == INSTANCE Json
        \*     IN J!ToJson(phase)
        
        \* Lastly, you may build expressions over arbitrary sets of states by
        \* leveraging the _TETrace operator.  For example, this is how to
        \* count the number of times a spec variable changed up to the current
        \* state in the trace.
        \* ,_phaseModCount |->
        \*     LET F[s \in DOMAIN _TETrace] ==
        \*         IF s = 1 THEN 0
        \*         ELSE IF _TETrace[s].phase # _TETrace[s-1].phase
        \*             THEN 1 + F[s-1] ELSE F[s-1]
        \*     IN F[_TEPosition - 1]
    ]

=============================================================================



Parsing and semantic processing can take forever if the trace below is long.
 In this case, it is advised to uncomment the module below to deserialize the
 trace from a generated binary file.

\*
\*---- MODULE GoatProtocolMC_TETrace ----
\*EXTENDS IOUtils, TLC, GoatProtocolMC
\*
\*trace == IODeserialize("GoatProtocolMC_TTrace_1790474337.bin", TRUE)
\*
\*=============================================================================
\*

---- MODULE GoatProtocolMC_TETrace ----
EXTENDS TLC, GoatProtocolMC

trace == 
    <<
    ([hi |-> 0,cin |-> <<>>,nSR |-> 0,hgot |-> <<>>,ceof |-> FALSE,now |-> 0,sin |-> <<>>,preq |-> <<>>,nCR |-> 0,nev |-> 0,hOf |-> <<>>,live |-> {},pend |-> {},phase |-> "run",crecv |-> <<>>,parked |-> 0,sw |-> <<>>,hnds |-> <<>>,cfg |-> [cli |-> "cli1", srv |-> "srv", rawcli |-> FALSE, rawsrv |-> FALSE, ncli |-> 1],gaps |-> {},flt |-> {},cw |-> <<>>,sreg |-> {},cregN |-> -1,calls |-> <<>>,byId |-> <<>>,ures |-> <<>>,creg |-> {},base |-> 0]),
    ([hi |-> 0,cin |-> <<>>,nSR |-> 0,hgot |-> <<>>,ceof |-> FALSE,now |-> 0,sin |-> <<>>,preq |-> <<>>,nCR |-> 0,nev |-> 1,hOf |-> <<>>,live |-> {},pend |-> {},phase |-> "run",crecv |-> <<>>,parked |-> 0,sw |-> <<>>,hnds |-> <<>>,cfg |-> [cli |-> "cli1", srv |-> "srv", rawcli |-> FALSE, rawsrv |-> FALSE, ncli |-> 1],gaps |-> {},flt |-> {},cw |-> <<>>,sreg |-> {},cregN |-> -1,calls |-> <<[id |-> "", pay |-> "a", md |-> <<>>, kind |-> "unary", sent |-> <<>>, cancelled |-> FALSE, dl |-> -1, opened |-> "", late |-> <<>>, nW |-> 0, nOk |-> 0, closeCalled |-> FALSE, closeW |-> FALSE, rstW |-> FALSE, recvd |-> 0, term |-> "", tcode |-> -1, uret |-> FALSE, sendFailed |-> FALSE]>>,byId |-> <<>>,ures |-> <<>>,creg |-> {},base |-> 0]),
    ([hi |-> 0,cin |-> <<>>,nSR |-> 0,hgot |-> <<>>,ceof |-> FALSE,now |-> 0,sin |-> <<>>,preq |-> <<>>,nCR |-> 0,nev |-> 2,hOf |-> <<>>,live |-> {},pend |-> {},phase |-> "run",crecv |-> <<>>,parked |-> 0,sw |-> <<>>,hnds |-> <<>>,cfg |-> [cli |-> "cli1", srv |-> "srv", rawcli |-> FALSE, rawsrv |-> FALSE, ncli |-> 1],gaps |-> {},flt |-> {},cw |-> <<>>,sreg |-> {},cregN |-> -1,calls |-> <<[id |-> "", pay |-> "a", md |-> <<>>, kind |-> "unary", sent |-> <<>>, cancelled |-> FALSE, dl |-> -1, opened |-> "", late |-> <<>>, nW |-> 0, nOk |-> 0, closeCalled |-> FALSE, closeW |-> FALSE, rstW |-> FALSE, recvd |-> 0, term |-> "", tcode |-> -1, uret |-> FALSE, sendFailed |-> FALSE], [id |-> "", pay |-> "", md |-> <<>>, kind |-> "bidi", sent |-> <<>>, cancelled |-> FALSE, dl |-> -1, opened |-> "", late |-> <<>>, nW |-> 0, nOk |-> 0, closeCalled |-> FALSE, closeW |-> FALSE, rstW |-> FALSE, recvd |-> 0, term |-> "", tcode |-> -1, uret |-> FALSE, sendFailed |-> FALSE]>>,byId |-> <<>>,ures |-> <<>>,creg |-> {},base |-> 0]),
    ([hi |-> 1,cin |-> <<>>,nSR |-> 0,hgot |-> <<>>,ceof |-> FALSE,now |-> 0,sin |-> <<>>,preq |-> <<>>,nCR |-> 0,nev |-> 3,hOf |-> <<>>,live |-> {},pend |-> {},phase |-> "run",crecv |-> <<>>,parked |-> 0,sw |-> <<>>,hnds |-> <<>>,cfg |-> [cli |-> "cli1", srv |-> "srv", rawcli |-> FALSE, rawsrv |-> FALSE, ncli |-> 1],gaps |-> {},flt |-> {},cw |-> <<[b |-> 1, id |-> "1", idn |-> 1, h |-> 1, s |-> 0, t |-> 0, r |-> 0, code |-> -1, msg |-> "", ndet |-> 0, pay |-> "a", md |-> <<>>, tmd |-> <<>>, meth |-> "/verif.Svc/Unary", src |-> "cli1", dst |-> "srv", to |-> "", c |-> 1, badmd |-> 0, badtmd |-> 0, rtype |-> "", rec |-> 0, nxt |-> 0]>>,sreg |-> {},cregN |-> -1,calls |-> <<[id |-> "1", pay |-> "a", md |-> <<>>, kind |-> "unary", sent |-> <<>>, cancelled |-> FALSE, dl |-> -1, opened |-> "", late |-> <<>>, nW |-> 0, nOk |-> 0, closeCalled |-> FALSE, closeW |-> FALSE, rstW |-> FALSE, recvd |-> 0, term |-> "", tcode |-> -1, uret |-> FALSE, sendFailed |-> FALSE], [id |-> "", pay |-> "", md |-> <<>>, kind |-> "bidi", sent |-> <<>>, cancelled |-> FALSE, dl |-> -1, opened |-> "", late |-> <<>>, nW |-> 0, nOk |-> 0, closeCalled |-> FALSE, closeW |-> FALSE, rstW |-> FALSE, recvd |-> 0, term |-> "", tcode |-> -1, uret |-> FALSE, sendFailed |-> FALSE]>>,byId |-> ("1" :> 1),ures |-> <<>>,creg |-> {},base |-> 0]),
    ([hi |-> 1,cin |-> <<>>,nSR |-> 1,hgot |-> <<>>,ceof |-> FALSE,now |-> 0,sin |-> ("1" :> [n |-> 1, items |-> <<>>, rst |-> FALSE, st |-> "none", must |-> 0, may |-> 0, hdrs |-> {<<"/verif.Svc/Unary", "cli1", "srv">>}, nresp |-> 0]),preq |-> <<[b |-> 1, id |-> "1", pay |-> "a", md |-> <<>>, meth |-> "/verif.Svc/Unary", src |-> "cli1", dst |-> "srv", c |-> 1, kind |-> "unary"]>>,nCR |-> 0,nev |-> 4,hOf |-> <<>>,live |-> {},pend |-> {},phase |-> "run",crecv |-> <<>>,parked |-> 0,sw |-> <<>>,hnds |-> <<>>,cfg |-> [cli |-> "cli1", srv |-> "srv", rawcli |-> FALSE, rawsrv |-> FALSE, ncli |-> 1],gaps |-> {},flt |-> {},cw |-> <<[b |-> 1, id |-> "1", idn |-> 1, h |-> 1, s |-> 0, t |-> 0, r |-> 0, code |-> -1, msg |-> "", ndet |-> 0, pay |-> "a", md |-> <<>>, tmd |-> <<>>, meth |-> "/verif.Svc/Unary", src |-> "cli1", dst |-> "srv", to |-> "", c |-> 1, badmd |-> 0, badtmd |-> 0, rtype |-> "", rec |-> 0, nxt |-> 0]>>,sreg |-> {},cregN |-> -1,calls |-> <<[id |-> "1", pay |-> "a", md |-> <<>>, kind |-> "unary", sent |-> <<>>, cancelled |-> FALSE, dl |-> -1, opened |-> "", late |-> <<>>, nW |-> 0, nOk |-> 0, closeCalled |-> FALSE, closeW |-> FALSE, rstW |-> FALSE, recvd |-> 0, term |-> "", tcode |-> -1, uret |-> FALSE, sendFailed |-> FALSE], [id |-> "", pay |-> "", md |-> <<>>, kind |-> "bidi", sent |-> <<>>, cancelled |-> FALSE, dl |-> -1, opened |-> "", late |-> <<>>, nW |-> 0, nOk |-> 0, closeCalled |-> FALSE, closeW |-> FALSE, rstW |-> FALSE, recvd |-> 0, term |-> "", tcode |-> -1, uret |-> FALSE, sendFailed |-> FALSE]>>,byId |-> ("1" :> 1),ures |-> <<>>,creg |-> {},base |-> 0]),
    ([hi |-> 1,cin |-> <<>>,nSR |-> 1,hgot |-> <<>>,ceof |-> FALSE,now |-> 0,sin |-> ("1" :> [n |-> 1, items |-> <<>>, rst |-> FALSE, st |-> "none", must |-> 0, may |-> 0, hdrs |-> {<<"/verif.Svc/Unary", "cli1", "srv">>}, nresp |-> 0]),preq |-> <<>>,nCR |-> 0,nev |-> 5,hOf |-> <<>>,live |-> {},pend |-> {},phase |-> "run",crecv |-> <<>>,parked |-> 0,sw |-> <<>>,hnds |-> <<[id |-> "1", meth |-> "/verif.Svc/Unary", src |-> "cli1", dst |-> "srv", c |-> 1, kind |-> "unary", sent |-> <<>>, sres |-> <<>>, ret |-> FALSE, rc |-> -1, rpay |-> "", rst |-> FALSE, dl |-> -1, nrecv |-> 0, lastW |-> 0, hdr |-> <<>>, pendHdr |-> <<>>, hdrPending |-> FALSE, hdrW |-> FALSE, hdrQ |-> FALSE, hdrQmd |-> <<>>, hdrQby |-> FALSE, hsent |-> FALSE, trl |-> <<>>, rmsg |-> "", rndet |-> 0, trW |-> FALSE]>>,cfg |-> [cli |-> "cli1", srv |-> "srv", rawcli |-> FALSE, rawsrv |-> FALSE, ncli |-> 1],gaps |-> {},flt |-> {},cw |-> <<[b |-> 1, id |-> "1", idn |-> 1, h |-> 1, s |-> 0, t |-> 0, r |-> 0, code |-> -1, msg |-> "", ndet |-> 0, pay |-> "a", md |-> <<>>, tmd |-> <<>>, meth |-> "/verif.Svc/Unary", src |-> "cli1", dst |-> "srv", to |-> "", c |-> 1, badmd |-> 0, badtmd |-> 0, rtype |-> "", rec |-> 0, nxt |-> 0]>>,sreg |-> {},cregN |-> -1,calls |-> <<[id |-> "1", pay |-> "a", md |-> <<>>, kind |-> "unary", sent |-> <<>>, cancelled |-> FALSE, dl |-> -1, opened |-> "", late |-> <<>>, nW |-> 0, nOk |-> 0, closeCalled |-> FALSE, closeW |-> FALSE, rstW |-> FALSE, recvd |-> 0, term |-> "", tcode |-> -1, uret |-> FALSE, sendFailed |-> FALSE], [id |-> "", pay |-> "", md |-> <<>>, kind |-> "bidi", sent |-> <<>>, cancelled |-> FALSE, dl |-> -1, opened |-> "", late |-> <<>>, nW |-> 0, nOk |-> 0, closeCalled |-> FALSE, closeW |-> FALSE, rstW |-> FALSE, recvd |-> 0, term |-> "", tcode |-> -1, uret |-> FALSE, sendFailed |-> FALSE]>>,byId |-> ("1" :> 1),ures |-> <<>>,creg |-> {},base |-> 0]),
    ([hi |-> 1,cin |-> <<>>,nSR |-> 1,hgot |-> <<>>,ceof |-> FALSE,now |-> 0,sin |-> ("1" :> [n |-> 1, items |-> <<>>, rst |-> FALSE, st |-> "none", must |-> 0, may |-> 0, hdrs |-> {<<"/verif.Svc/Unary", "cli1", "srv">>}, nresp |-> 0]),preq |-> <<>>,nCR |-> 0,nev |-> 6,hOf |-> <<>>,live |-> {},pend |-> {},phase |-> "run",crecv |-> <<>>,parked |-> 0,sw |-> <<>>,hnds |-> <<[id |-> "1", meth |-> "/verif.Svc/Unary", src |-> "cli1", dst |-> "srv", c |-> 1, kind |-> "unary", sent |-> <<>>, sres |-> <<>>, ret |-> TRUE, rc |-> 0, rpay |-> "a", rst |-> FALSE, dl |-> -1, nrecv |-> 0, lastW |-> 0, hdr |-> <<>>, pendHdr |-> <<>>, hdrPending |-> FALSE, hdrW |-> FALSE, hdrQ |-> FALSE, hdrQmd |-> <<>>, hdrQby |-> FALSE, hsent |-> FALSE, trl |-> <<>>, rmsg |-> "", rndet |-> 0, trW |-> FALSE]>>,cfg |-> [cli |-> "cli1", srv |-> "srv", rawcli |-> FALSE, rawsrv |-> FALSE, ncli |-> 1],gaps |-> {},flt |-> {},cw |-> <<[b |-> 1, id |-> "1", idn |-> 1, h |-> 1, s |-> 0, t |-> 0, r |-> 0, code |-> -1, msg |-> "", ndet |-> 0, pay |-> "a", md |-> <<>>, tmd |-> <<>>, meth |-> "/verif.Svc/Unary", src |-> "cli1", dst |-> "srv", to |-> "", c |-> 1, badmd |-> 0, badtmd |-> 0, rtype |-> "", rec |-> 0, nxt |-> 0]>>,sreg |-> {},cregN |-> -1,calls |-> <<[id |-> "1", pay |-> "a", md |-> <<>>, kind |-> "unary", sent |-> <<>>, cancelled |-> FALSE, dl |-> -1, opened |-> "", late |-> <<>>, nW |-> 0, nOk |-> 0, closeCalled |-> FALSE, closeW |-> FALSE, rstW |-> FALSE, recvd |-> 0, term |-> "", tcode |-> -1, uret |-> FALSE, sendFailed |-> FALSE], [id |-> "", pay |-> "", md |-> <<>>, kind |-> "bidi", sent |-> <<>>, cancelled |-> FALSE, dl |-> -1, opened |-> "", late |-> <<>>, nW |-> 0, nOk |-> 0, closeCalled |-> FALSE, closeW |-> FALSE, rstW |-> FALSE, recvd |-> 0, term |-> "", tcode |-> -1, uret |-> FALSE, sendFailed |-> FALSE]>>,byId |-> ("1" :> 1),ures |-> <<>>,creg |-> {},base |-> 0]),
    ([hi |-> 1,cin |-> <<>>,nSR |-> 1,hgot |-> <<>>,ceof |-> FALSE,now |-> 0,sin |-> ("1" :> [n |-> 1, items |-> <<>>, rst |-> FALSE, st |-> "none", must |-> 0, may |-> 0, hdrs |-> {<<"/verif.Svc/Unary", "cli1", "srv">>}, nresp |-> 0]),preq |-> <<>>,nCR |-> 0,nev |-> 7,hOf |-> <<>>,live |-> {},pend |-> {},phase |-> "run",crecv |-> <<>>,parked |-> 0,sw |-> <<[b |-> 1, id |-> "1", idn |-> 1, h |-> 1, s |-> 0, t |-> 1, r |-> 0, code |-> -1, msg |-> "", ndet |-> 0, pay |-> "a", md |-> <<>>, tmd |-> <<>>, meth |-> "/verif.Svc/Unary", src |-> "srv", dst |-> "cli1", to |-> "", c |-> 0, badmd |-> 0, badtmd |-> 0, rtype |-> "", rec |-> 0, nxt |-> 0]>>,hnds |-> <<[id |-> "1", meth |-> "/verif.Svc/Unary", src |-> "cli1", dst |-> "srv", c |-> 1, kind |-> "unary", sent |-> <<>>, sres |-> <<>>, ret |-> TRUE, rc |-> 0, rpay |-> "a", rst |-> FALSE, dl |-> -1, nrecv |-> 0, lastW |-> 0, hdr |-> <<>>, pendHdr |-> <<>>, hdrPending |-> FALSE, hdrW |-> FALSE, hdrQ |-> FALSE, hdrQmd |-> <<>>, hdrQby |-> FALSE, hsent |-> FALSE, trl |-> <<>>, rmsg |-> "", rndet |-> 0, trW |-> TRUE]>>,cfg |-> [cli |-> "cli1", srv |-> "srv", rawcli |-> FALSE, rawsrv |-> FALSE, ncli |-> 1],gaps |-> {},flt |-> {},cw |-> <<[b |-> 1, id |-> "1", idn |-> 1, h |-> 1, s |-> 0, t |-> 0, r |-> 0, code |-> -1, msg |-> "", ndet |-> 0, pay |-> "a", md |-> <<>>, tmd |-> <<>>, meth |-> "/verif.Svc/Unary", src |-> "cli1", dst |-> "srv", to |-> "", c |-> 1, badmd |-> 0, badtmd |-> 0, rtype |-> "", rec |-> 0, nxt |-> 0]>>,sreg |-> {},cregN |-> -1,calls |-> <<[id |-> "1", pay |-> "a", md |-> <<>>, kind |-> "unary", sent |-> <<>>, cancelled |-> FALSE, dl |-> -1, opened |-> "", late |-> <<>>, nW |-> 0, nOk |-> 0, closeCalled |-> FALSE, closeW |-> FALSE, rstW |-> FALSE, recvd |-> 0, term |-> "", tcode |-> -1, uret |-> FALSE, sendFailed |-> FALSE], [id |-> "", pay |-> "", md |-> <<>>, kind |-> "bidi", sent |-> <<>>, cancelled |-> FALSE, dl |-> -1, opened |-> "", late |-> <<>>, nW |-> 0, nOk |-> 0, closeCalled |-> FALSE, closeW |-> FALSE, rstW |-> FALSE, recvd |-> 0, term |-> "", tcode |-> -1, uret |-> FALSE, sendFailed |-> FALSE]>>,byId |-> ("1" :> 1),ures |-> <<>>,creg |-> {},base |-> 0]),
    ([hi |-> 1,cin |-> ("1" :> [code |-> -1, msg |-> "", ndet |-> 0, tmd |-> <<>>, n |-> 1, bodies |-> <<>>, close |-> "ok", fmd |-> <<>>, fbad |-> FALSE, fb |-> 1, fs |-> 0, ft |-> 1, fcode |-> -1, fmsg |-> "", fndet |-> 0, fpay |-> "a", tbad |-> FALSE, mayRst |-> FALSE]),nSR |-> 1,hgot |-> <<>>,ceof |-> FALSE,now |-> 0,sin |-> ("1" :> [n |-> 1, items |-> <<>>, rst |-> FALSE, st |-> "none", must |-> 0, may |-> 0, hdrs |-> {<<"/verif.Svc/Unary", "cli1", "srv">>}, nresp |-> 0]),preq |-> <<>>,nCR |-> 1,nev |-> 8,hOf |-> <<>>,live |-> {},pend |-> {},phase |-> "run",crecv |-> <<>>,parked |-> 0,sw |-> <<[b |-> 1, id |-> "1", idn |-> 1, h |-> 1, s |-> 0, t |-> 1, r |-> 0, code |-> -1, msg |-> "", ndet |-> 0, pay |-> "a", md |-> <<>>, tmd |-> <<>>, meth |-> "/verif.Svc/Unary", src |-> "srv", dst |-> "cli1", to |-> "", c |-> 0, badmd |-> 0, badtmd |-> 0, rtype |-> "", rec |-> 0, nxt |-> 0]>>,hnds |-> <<[id |-> "1", meth |-> "/verif.Svc/Unary", src |-> "cli1", dst |-> "srv", c |-> 1, kind |-> "unary", sent |-> <<>>, sres |-> <<>>, ret |-> TRUE, rc |-> 0, rpay |-> "a", rst |-> FALSE, dl |-> -1, nrecv |-> 0, lastW |-> 0, hdr |-> <<>>, pendHdr |-> <<>>, hdrPending |-> FALSE, hdrW |-> FALSE, hdrQ |-> FALSE, hdrQmd |-> <<>>, hdrQby |-> FALSE, hsent |-> FALSE, trl |-> <<>>, rmsg |-> "", rndet |-> 0, trW |-> TRUE]>>,cfg |-> [cli |-> "cli1", srv |-> "srv", rawcli |-> FALSE, rawsrv |-> FALSE, ncli |-> 1],gaps |-> {},flt |-> {},cw |-> <<[b |-> 1, id |-> "1", idn |-> 1, h |-> 1, s |-> 0, t |-> 0, r |-> 0, code |-> -1, msg |-> "", ndet |-> 0, pay |-> "a", md |-> <<>>, tmd |-> <<>>, meth |-> "/verif.Svc/Unary", src |-> "cli1", dst |-> "srv", to |-> "", c |-> 1, badmd |-> 0, badtmd |-> 0, rtype |-> "", rec |-> 0, nxt |-> 0]>>,sreg |-> {},cregN |-> -1,calls |-> <<[id |-> "1", pay |-> "a", md |-> <<>>, kind |-> "unary", sent |-> <<>>, cancelled |-> FALSE, dl |-> -1, opened |-> "", late |-> <<>>, nW |-> 0, nOk |-> 0, closeCalled |-> FALSE, closeW |-> FALSE, rstW |-> FALSE, recvd |-> 0, term |-> "", tcode |-> -1, uret |-> FALSE, sendFailed |-> FALSE], [id |-> "", pay |-> "", md |-> <<>>, kind |-> "bidi", sent |-> <<>>, cancelled |-> FALSE, dl |-> -1, opened |-> "", late |-> <<>>, nW |-> 0, nOk |-> 0, closeCalled |-> FALSE, closeW |-> FALSE, rstW |-> FALSE, recvd |-> 0, term |-> "", tcode |-> -1, uret |-> FALSE, sendFailed |-> FALSE]>>,byId |-> ("1" :> 1),ures |-> <<>>,creg |-> {},base |-> 0]),
    ([hi |-> 1,cin |-> ("1" :> [code |-> -1, msg |-> "", ndet |-> 0, tmd |-> <<>>, n |-> 1, bodies |-> <<>>, close |-> "ok", fmd |-> <<>>, fbad |-> FALSE, fb |-> 1, fs |-> 0, ft |-> 1, fcode |-> -1, fmsg |-> "", fndet |-> 0, fpay |-> "a", tbad |-> FALSE, mayRst |-> FALSE]),nSR |-> 1,hgot |-> <<>>,ceof |-> FALSE,now |-> 0,sin |-> ("1" :> [n |-> 1, items |-> <<>>, rst |-> FALSE, st |-> "none", must |-> 0, may |-> 0, hdrs |-> {<<"/verif.Svc/Unary", "cli1", "srv">>}, nresp |-> 0]),preq |-> <<>>,nCR |-> 1,nev |-> 9,hOf |-> <<>>,live |-> {},pend |-> {},phase |-> "run",crecv |-> <<>>,parked |-> 0,sw |-> <<[b |-> 1, id |-> "1", idn |-> 1, h |-> 1, s |-> 0, t |-> 1, r |-> 0, code |-> -1, msg |-> "", ndet |-> 0, pay |-> "a", md |-> <<>>, tmd |-> <<>>, meth |-> "/verif.Svc/Unary", src |-> "srv", dst |-> "cli1", to |-> "", c |-> 0, badmd |-> 0, badtmd |-> 0, rtype |-> "", rec |-> 0, nxt |-> 0]>>,hnds |-> <<[id |-> "1", meth |-> "/verif.Svc/Unary", src |-> "cli1", dst |-> "srv", c |-> 1, kind |-> "unary", sent |-> <<>>, sres |-> <<>>, ret |-> TRUE, rc |-> 0, rpay |-> "a", rst |-> FALSE, dl |-> -1, nrecv |-> 0, lastW |-> 0, hdr |-> <<>>, pendHdr |-> <<>>, hdrPending |-> FALSE, hdrW |-> FALSE, hdrQ |-> FALSE, hdrQmd |-> <<>>, hdrQby |-> FALSE, hsent |-> FALSE, trl |-> <<>>, rmsg |-> "", rndet |-> 0, trW |-> TRUE]>>,cfg |-> [cli |-> "cli1", srv |-> "srv", rawcli |-> FALSE, rawsrv |-> FALSE, ncli |-> 1],gaps |-> {},flt |-> {},cw |-> <<[b |-> 1, id |-> "1", idn |-> 1, h |-> 1, s |-> 0, t |-> 0, r |-> 0, code |-> -1, msg |-> "", ndet |-> 0, pay |-> "a", md |-> <<>>, tmd |-> <<>>, meth |-> "/verif.Svc/Unary", src |-> "cli1", dst |-> "srv", to |-> "", c |-> 1, badmd |-> 0, badtmd |-> 0, rtype |-> "", rec |-> 0, nxt |-> 0]>>,sreg |-> {},cregN |-> -1,calls |-> <<[id |-> "1", pay |-> "a", md |-> <<>>, kind |-> "unary", sent |-> <<>>, cancelled |-> FALSE, dl |-> -1, opened |-> "", late |-> <<>>, nW |-> 0, nOk |-> 0, closeCalled |-> FALSE, closeW |-> FALSE, rstW |-> FALSE, recvd |-> 0, term |-> "", tcode |-> -1, uret |-> TRUE, sendFailed |-> FALSE], [id |-> "", pay |-> "", md |-> <<>>, kind |-> "bidi", sent |-> <<>>, cancelled |-> FALSE, dl |-> -1, opened |-> "", late |-> <<>>, nW |-> 0, nOk |-> 0, closeCalled |-> FALSE, closeW |-> FALSE, rstW |-> FALSE, recvd |-> 0, term |-> "", tcode |-> -1, uret |-> FALSE, sendFailed |-> FALSE]>>,byId |-> ("1" :> 1),ures |-> <<"ok", -1, "a">>,creg |-> {},base |-> 0])
    >>
----


=============================================================================

---- CONFIG GoatProtocolMC_TTrace_1790474337 ----
CONSTANTS
    Off = { }
    Pays = { "a" , "b" }
    MaxEv = 14
    MaxMsg = 1

INVARIANT
    _inv

CHECK_DEADLOCK
    \* CHECK_DEADLOCK off because of PROPERTY or INVARIANT above.
    FALSE

INIT
    _init

NEXT
    _next

CONSTANT
    _TETrace <- _trace

ALIAS
    _expression
=============================================================================
\* Generated on Sun Sep 27 01:59:01 UTC 2026