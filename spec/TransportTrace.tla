--------------------------- MODULE TransportTrace ---------------------------
(***************************************************************************)
(* C19 trace validation: every line recorded by harness/driver/            *)
(* x_transport.go from the REAL transports (channel.go, websocket.go,      *)
(* http.go) must be explained by an action with the recorded arguments.    *)
(*                                                                         *)
(* Stream transports (channel, websocket; two ends "a"/"b"): the actions   *)
(* of Transport.tla - ordered, exactly once, equal (digest), malformed =>  *)
(* error and not delivered, errors only for a done ctx / broken            *)
(* connection, legit-pending at quiescence.                                *)
(*                                                                         *)
(* GoatOverHttp (h # 0: connection objects handed out by the library): the *)
(* observable level of HttpTransport.tla, using the same HttpRules:        *)
(*   HS/Http   request of class c answered: 400 iff c # "ok" and then      *)
(*             never delivered; 200 iff delivered exactly once; any other  *)
(*             status only for an aborted request (its ctx done, or its    *)
(*             connection closed under it) that was not delivered          *)
(*   R         on connection c: the envelope of a request in flight for    *)
(*             c's address, with equal digest                              *)
(*   Tick      the fake clock; a cleaner run closes exactly the Idle       *)
(*             connections; their readers must fail (RErr), readers of     *)
(*             other connections must not                                  *)
(*   Crash     no action: send on closed channel etc. is a rejection       *)
(* One successor per line: the search is linear.                           *)
(***************************************************************************)
EXTENDS Transport, HttpRules, Json, IOUtils

VARIABLES l,        \* next trace line
          phase,    \* "run" | "unwind" | "end"
          hcfg,     \* [timeout, interval] of GoatOverHttp (seconds)
          now, nextTick,
          conns,    \* conn index -> [own, addr, open, last]
          reqs,     \* request id -> [at, class, addr, dg, st, ctx, lost]
                    \*   st: open -> delivered -> done | open -> owed (200 logged before the R) -> done
          parked,   \* goroutines parked in a gate (the harness holds them)
          npend     \* Pend lines since the last Quiesce

hvars == <<phase, hcfg, now, nextTick, conns, reqs, parked, npend>>
vars == <<tvars, hvars>>

Trace == ndJsonDeserialize(IOEnv.VERIF_TRACE)
E == Trace[l]
Is(name) == l <= Len(Trace) /\ Trace[l].ev = name /\ l' = l + 1 /\ phase = "run"

TraceInit ==
  /\ TInit /\ l = 1 /\ phase = "end"
  /\ hcfg = [timeout |-> 240, interval |-> 60] /\ now = 0 /\ nextTick = 60
  /\ conns = <<>> /\ reqs = <<>> /\ parked = 0 /\ npend = 0

HSame == UNCHANGED hvars
TSame == UNCHANGED tvars

TBegin ==
  /\ l <= Len(Trace) /\ E.ev = "Begin" /\ l' = l + 1
  /\ cfg' = [kind |-> E.x, cap |-> (IF E.x = "channel" THEN E.code ELSE -1), mayBreak |-> (E.x = "websocket")]
  /\ ops' = <<>> /\ q' = EmptyQ /\ sent' = EmptyQ /\ got' = EmptyQ
  /\ broken' = FALSE /\ nW' = ZeroN /\ nR' = ZeroN /\ nraw' = 0
  /\ phase' = "run" /\ hcfg' = [timeout |-> E.c, interval |-> E.h]
  /\ now' = 0 /\ nextTick' = E.h
  /\ conns' = <<>> /\ reqs' = <<>> /\ parked' = 0 /\ npend' = 0

TUnwind == Is("Unwind") /\ phase' = "unwind" /\ TSame
           /\ UNCHANGED <<hcfg, now, nextTick, conns, reqs, parked, npend>>
\* during the unwind the harness tears everything down: results are not judged any more
TUnwinding ==
  /\ l <= Len(Trace) /\ phase = "unwind" /\ l' = l + 1
  /\ E.ev \notin {"Begin", "End", "Crash", "Wedged", "Leak"}
  /\ UNCHANGED vars
TEnd == /\ l <= Len(Trace) /\ E.ev = "End" /\ l' = l + 1 /\ phase = "unwind" /\ phase' = "end" /\ TSame
        /\ UNCHANGED <<hcfg, now, nextTick, conns, reqs, parked, npend>>

TAlive == Is("Alive") /\ UNCHANGED vars
TGatePark == Is("GatePark") /\ parked' = parked + 1 /\ TSame
             /\ UNCHANGED <<phase, hcfg, now, nextTick, conns, reqs, npend>>
TGatePass == Is("GatePass") /\ parked' = parked - 1 /\ TSame
             /\ UNCHANGED <<phase, hcfg, now, nextTick, conns, reqs, npend>>

\* ------------------------------------------------------- http helpers ----
IsConn(c) == c \in DOMAIN conns
SameConn(c, own, addr) == conns[c].own = own /\ conns[c].addr = addr
OpenConnsOf(own, addr) == {c \in DOMAIN conns : SameConn(c, own, addr) /\ conns[c].open}
Min(S) == CHOOSE x \in S : \A y \in S : x <= y
InFlightReq(r) == reqs[r].st \in {"open", "delivered"}
\* close every open connection object of (own, addr); requests under way to it are "lost"
CloseAddr(cs, own, addr) ==
  [c \in DOMAIN cs |-> IF cs[c].own = own /\ cs[c].addr = addr THEN [cs[c] EXCEPT !.open = FALSE] ELSE cs[c]]
LoseAddr(rs, own, addr) ==
  [r \in DOMAIN rs |-> IF rs[r].at = own /\ rs[r].addr = addr /\ rs[r].st = "open"
                         THEN [rs[r] EXCEPT !.lost = TRUE] ELSE rs[r]]

\* A Write whose POST cannot succeed (unreachable peer, done ctx) unregisters the connection
\* before it returns: readers and senders of that address may see the closure before the
\* WErr line is written.
FailingWrite(own, addr) ==
  \E w \in DOMAIN ops : /\ ops[w].st = "pend" /\ ops[w].typ = "W" /\ ops[w].conn # 0
                         /\ SameConn(ops[w].conn, own, addr)
                         /\ (ops[w].cls = "unreach" \/ ops[w].ctx = "done")

\* ----------------------------------------------------------- writes ----
HWStart ==
  /\ E.c \notin DOMAIN ops /\ E.c \notin DOMAIN reqs /\ IsConn(E.h)
  /\ ops' = ops @@ (E.c :> NewOp("W", "", E.h, E.pay, E.res))
  /\ conns' = [conns EXCEPT ![E.h].last = now]                       \* Write: bumpActivity first
  /\ UNCHANGED <<cfg, q, sent, got, broken, nW, nR, nraw>>
  /\ UNCHANGED <<phase, hcfg, now, nextTick, reqs, parked, npend>>
TWS == Is("WS") /\ IF E.h = 0 THEN WStartL(E.c, E.k, E.pay, E.n) /\ E.c \notin DOMAIN reqs /\ HSame ELSE HWStart

\* a POST that was answered: the peer instance saw exactly this body (taken is set by its HS)
HWOk ==
  /\ Pending(E.c) /\ ops[E.c].typ = "W"
  /\ ops[E.c].cls # "unreach" /\ ops[E.c].taken
  /\ ops' = [ops EXCEPT ![E.c].st = "ret"]
  /\ UNCHANGED <<cfg, q, sent, got, broken, nW, nR, nraw>> /\ HSame
TW == Is("W") /\ E.c \in DOMAIN ops
      /\ IF ops[E.c].conn = 0 THEN WOk(E.c, E.n) /\ HSame ELSE HWOk

\* a failed POST (context done, peer unreachable) unregisters the connection
HWErr ==
  /\ Pending(E.c) /\ ops[E.c].typ = "W"
  /\ G("err", ops[E.c].ctx = "done" \/ ops[E.c].cls = "unreach" \/ ops[E.c].rlost)
  /\ ops' = [ops EXCEPT ![E.c].st = "ret"]
  /\ LET c == ops[E.c].conn IN
       /\ conns' = CloseAddr(conns, conns[c].own, conns[c].addr)
       /\ reqs' = LoseAddr(reqs, conns[c].own, conns[c].addr)
  /\ UNCHANGED <<cfg, q, sent, got, broken, nW, nR, nraw>>
  /\ UNCHANGED <<phase, hcfg, now, nextTick, parked, npend>>
TWErr == Is("WErr") /\ E.c \in DOMAIN ops
         /\ IF ops[E.c].conn = 0 THEN WErr(E.c) /\ HSame ELSE HWErr

\* ------------------------------------------------------------ reads ----
HRStart ==
  /\ E.c \notin DOMAIN ops /\ E.c \notin DOMAIN reqs /\ IsConn(E.h)
  /\ ops' = ops @@ (E.c :> NewOp("R", "", E.h, "", "wf"))
  /\ UNCHANGED <<cfg, q, sent, got, broken, nW, nR, nraw>> /\ HSame
TRS == Is("RS") /\ IF E.h = 0 THEN RStart(E.c, E.k) /\ E.c \notin DOMAIN reqs /\ HSame ELSE HRStart

\* the envelope of a well-formed request in flight for this connection's address - equal digest,
\* at most once per request (st leaves "open"/"owed"); Read bumps the activity stamp
HROk ==
  /\ Pending(E.c) /\ ops[E.c].typ = "R"
  /\ LET c == ops[E.c].conn
         cands == {r \in DOMAIN reqs : /\ reqs[r].st \in {"open", "owed"} /\ reqs[r].class = "ok"
                                       /\ reqs[r].at = conns[c].own /\ reqs[r].addr = conns[c].addr
                                       /\ reqs[r].dg = E.pay} IN
       /\ G("deliver", cands # {})
       /\ G("oneconn", OpenConnsOf(conns[c].own, conns[c].addr) \subseteq {c})   \* THE connection of that source
       /\ reqs' = IF cands = {} THEN reqs
                  ELSE [reqs EXCEPT ![Min(cands)].st = IF @ = "open" THEN "delivered" ELSE "done"]
       /\ conns' = [conns EXCEPT ![c].last = now]
  /\ ops' = [ops EXCEPT ![E.c].st = "ret"]
  /\ UNCHANGED <<cfg, q, sent, got, broken, nW, nR, nraw>>
  /\ UNCHANGED <<phase, hcfg, now, nextTick, parked, npend>>
TR == Is("R") /\ E.c \in DOMAIN ops
      /\ IF ops[E.c].conn = 0 THEN ROk(E.c, E.pay, E.n) /\ HSame ELSE HROk

\* a Read on a GoatOverHttp connection fails only if its ctx is done or the connection was closed
HRErr ==
  /\ Pending(E.c) /\ ops[E.c].typ = "R"
  /\ LET c == ops[E.c].conn IN
       G("err", ops[E.c].ctx = "done" \/ ~conns[c].open \/ FailingWrite(conns[c].own, conns[c].addr))
  /\ ops' = [ops EXCEPT ![E.c].st = "ret"]
  /\ UNCHANGED <<cfg, q, sent, got, broken, nW, nR, nraw>> /\ HSame
TRErr == Is("RErr") /\ E.c \in DOMAIN ops
         /\ IF ops[E.c].conn = 0 THEN RErr(E.c) /\ HSame ELSE HRErr

TRawIn == Is("RawIn") /\ RawIn(E.k, E.res, E.pay) /\ HSame

TCtxDone ==
  /\ Is("CtxDone")
  /\ IF E.c \in DOMAIN ops
       THEN CtxDone(E.c) /\ HSame
       ELSE /\ E.c \in DOMAIN reqs
            /\ reqs' = [reqs EXCEPT ![E.c].ctx = "done"]
            /\ TSame /\ UNCHANGED <<phase, hcfg, now, nextTick, conns, parked, npend>>

\* ------------------------------------------------------ GoatOverHttp ----
\* A new connection object is handed out only when none is open for that address: exactly one
\* announcement (OnConnect or NewConnection) per source while its connection lives - otherwise the
\* source's envelopes are split over two RpcReadWriters and the one that is not registered is never
\* failed by the idle timeout.
TConn ==
  /\ Is("Conn")
  /\ E.n \notin DOMAIN conns
  /\ G("conn", OpenConnsOf(E.x, E.msg) = {})
  /\ conns' = conns @@ (E.n :> [own |-> E.x, addr |-> E.msg, open |-> TRUE, last |-> -1])
  /\ TSame /\ UNCHANGED <<phase, hcfg, now, nextTick, reqs, parked, npend>>

\* ServeHTTP is called with a request of class E.res (decided by the harness on the raw body).
\* A request that came through the loopback (k = "loop") is the POST of a pending Write to this
\* instance: same digest, same class, each Write posted once.
LoopWrites(at, dg, cls) == {w \in DOMAIN ops : /\ ops[w].st = "pend" /\ ops[w].typ = "W" /\ ops[w].conn # 0
                                                /\ conns[ops[w].conn].addr = at /\ ~ops[w].taken
                                                /\ ops[w].dg = dg /\ ops[w].cls = cls}
THS ==
  /\ Is("HS")
  /\ E.c \notin DOMAIN reqs /\ E.c \notin DOMAIN ops
  /\ E.res \in Shapes
  /\ reqs' = reqs @@ (E.c :> [at |-> E.x, class |-> E.res, addr |-> E.msg, dg |-> E.pay,
                              st |-> "open", ctx |-> "live", lost |-> FALSE,
                              w |-> IF E.k = "loop" /\ LoopWrites(E.x, E.pay, E.res) # {} THEN Min(LoopWrites(E.x, E.pay, E.res)) ELSE 0])
  /\ IF E.k = "loop"
       THEN LET ws == {w \in DOMAIN ops : /\ ops[w].st = "pend" /\ ops[w].typ = "W" /\ ops[w].conn # 0
                                          /\ conns[ops[w].conn].addr = E.x /\ ~ops[w].taken
                                          /\ ops[w].dg = E.pay /\ ops[w].cls = E.res} IN
            /\ G("post", ws # {})
            /\ ops' = IF ws = {} THEN ops ELSE [ops EXCEPT ![Min(ws)].taken = TRUE]
       ELSE UNCHANGED ops
  /\ UNCHANGED <<cfg, q, sent, got, broken, nW, nR, nraw>>
  /\ UNCHANGED <<phase, hcfg, now, nextTick, conns, parked, npend>>

\* the answer: the 400 ladder, 200 iff delivered, anything else only for an aborted request
THttp ==
  /\ Is("Http")
  /\ E.c \in DOMAIN reqs /\ InFlightReq(E.c)
  /\ LET r == reqs[E.c] IN
       CASE E.code = 400 ->
              /\ G("ladder", ~WellFormed(r.class)) /\ r.st = "open"
              /\ reqs' = [reqs EXCEPT ![E.c].st = "done"]
         [] E.code = 200 ->
              /\ G("ladder", WellFormed(r.class))
              /\ reqs' = [reqs EXCEPT ![E.c].st = IF r.st = "delivered" THEN "done" ELSE "owed"]
              \* (res = "lost": the harness drops the connection instead of sending this answer - the envelope is with
              \* its reader, the Write that posted it will fail; it must not be posted again: THS, rule "post")
              /\ E.res = "lost" => r.w # 0
         [] OTHER ->
              /\ G("ladder", WellFormed(r.class)) /\ r.st = "open"
              /\ G("abort", r.ctx = "done" \/ r.lost \/ FailingWrite(r.at, r.addr))
              /\ reqs' = [reqs EXCEPT ![E.c].st = "done"]
  /\ IF E.code = 200 /\ E.res = "lost" /\ reqs[E.c].w # 0
       THEN /\ ops' = [ops EXCEPT ![reqs[E.c].w].rlost = TRUE]
            /\ UNCHANGED <<cfg, q, sent, got, broken, nW, nR, nraw>>
       ELSE TSame
  /\ UNCHANGED <<phase, hcfg, now, nextTick, conns, parked, npend>>

\* The fake clock is advanced by E.n seconds and the harness waits for the cleaner.  If the ticker
\* fires, the cleaner closes exactly the connections that are Idle at the new time.
TTick ==
  /\ Is("Tick")
  /\ now' = now + E.n
  /\ nextTick' = NextTick(now + E.n, nextTick, hcfg.interval)
  /\ LET fire == Fires(now + E.n, nextTick)
         dead == {c \in DOMAIN conns : fire /\ conns[c].open /\ Idle(now + E.n, conns[c].last, hcfg.timeout)} IN
       /\ conns' = [c \in DOMAIN conns |-> IF c \in dead THEN [conns[c] EXCEPT !.open = FALSE] ELSE conns[c]]
       /\ reqs' = [r \in DOMAIN reqs |->
                     IF reqs[r].st = "open" /\ (\E c \in dead : SameConn(c, reqs[r].at, reqs[r].addr))
                       THEN [reqs[r] EXCEPT !.lost = TRUE] ELSE reqs[r]]
  /\ TSame /\ UNCHANGED <<phase, hcfg, parked, npend>>

\* ------------------------------------------------------ quiescence ----
PendingOps == {id \in DOMAIN ops : ops[id].st = "pend"}
PendingReqs == {r \in DOMAIN reqs : InFlightReq(r)}

TPend ==
  /\ Is("Pend")
  /\ IF E.c \in DOMAIN ops
       THEN Pending(E.c) /\ E.res = ops[E.c].ctx
       ELSE E.c \in PendingReqs /\ E.res = reqs[E.c].ctx
  /\ npend' = npend + 1
  /\ TSame /\ UNCHANGED <<phase, hcfg, now, nextTick, conns, reqs, parked>>

\* readers waiting on connection c / requests waiting to be read from it
WaitingReaders(own, addr) ==
  {id \in PendingOps : ops[id].typ = "R" /\ ops[id].conn # 0 /\ SameConn(ops[id].conn, own, addr) /\ conns[ops[id].conn].open}
WaitingReqs(own, addr) ==
  {r \in DOMAIN reqs : reqs[r].st = "open" /\ reqs[r].class = "ok" /\ reqs[r].at = own /\ reqs[r].addr = addr}

LegitHttpOp(id) ==
  LET c == ops[id].conn IN
  /\ ops[id].ctx = "live"
  /\ ops[id].typ = "R" =>
       /\ conns[c].open                                              \* a closed connection fails its readers
       /\ (parked > 0 \/ WaitingReqs(conns[c].own, conns[c].addr) = {})   \* and a sender meets a reader
LegitReq(r) ==
  /\ reqs[r].st = "open" /\ reqs[r].class = "ok"      \* the ladder answers at once; a delivered request returns
  /\ \/ parked > 0                                    \* held by the harness in the gate
     \/ /\ reqs[r].ctx = "live" /\ ~reqs[r].lost      \* ServeHTTP gives up with its request / its connection
        /\ WaitingReaders(reqs[r].at, reqs[r].addr) = {}

TQuiesce ==
  /\ Is("Quiesce")
  /\ E.n = npend /\ npend = Cardinality(PendingOps) + Cardinality(PendingReqs)
  /\ \A id \in PendingOps : G("pend", IF ops[id].conn = 0 THEN LegitStream(id) ELSE LegitHttpOp(id))
  /\ \A r \in PendingReqs : G("pend", LegitReq(r))
  /\ \A r \in DOMAIN reqs : G("pend", reqs[r].st # "owed")          \* 200 answered => it was read
  /\ npend' = 0
  /\ TSame /\ UNCHANGED <<phase, hcfg, now, nextTick, conns, reqs, parked>>

\* Crash, Wedged, Leak, NoConn (GoatOverHttp never announced the connection) and RawFail
\* (the raw peer found the connection closed) have no action: such a trace is rejected.

TraceNext ==
  \/ TBegin \/ TUnwind \/ TUnwinding \/ TEnd \/ TAlive \/ TGatePark \/ TGatePass
  \/ TWS \/ TW \/ TWErr \/ TRS \/ TR \/ TRErr \/ TRawIn \/ TCtxDone
  \/ TConn \/ THS \/ THttp \/ TTick \/ TPend \/ TQuiesce

NextBegin == IF \E j \in (l + 1)..Len(Trace) : Trace[j].ev = "Begin"
               THEN CHOOSE j \in (l + 1)..Len(Trace) :
                      Trace[j].ev = "Begin" /\ \A i \in (l + 1)..(j - 1) : Trace[i].ev # "Begin"
               ELSE Len(Trace) + 1
TSkip == /\ l <= Len(Trace)
         /\ ~ENABLED TraceNext
         /\ PrintT(<<"TRACE_REJECTED_AT_LINE", l, "of", Len(Trace)>>)
         /\ l' = NextBegin
         /\ phase' = "end"
         /\ UNCHANGED <<tvars, hcfg, now, nextTick, conns, reqs, parked, npend>>

\* A scenario is accepted iff SOME branch of the specification consumes it up to its End line (where logged
\* arguments leave a choice the branches that guessed wrong die on the way and are reported by TSkip, too):
SegOk == (l <= Len(Trace) /\ Trace[l].ev = "End") => PrintT(<<"TRACE_SEGMENT_OK", l>>)
TraceSpec == TraceInit /\ [][(TraceNext /\ SegOk) \/ TSkip]_<<vars, l>>

StrictSpec == TraceInit /\ [][TraceNext]_<<vars, l>>
TraceAccepted ==
  LET d == TLCGet("stats").diameter IN
  IF d - 1 = Len(Trace) THEN TRUE
  ELSE Print(<<"TRACE_REJECTED_AT_LINE", d, "of", Len(Trace)>>, FALSE)
=============================================================================
