------------------------------ MODULE Observers ------------------------------
(***************************************************************************)
(* C20  "Interceptors and stats handlers see every RPC exactly once, in    *)
(* order".                                                                 *)
(*                                                                         *)
(* Part 1 - the property as automata over observer events (one action per  *)
(*   event kind, dispatched by Step(e); e is a record with the field names *)
(*   of a trace line):                                                     *)
(*   * per RPC and side a PIPELINE: the stages 0..n-1 are entered in       *)
(*     order, each exactly once, the handler (the core) runs exactly once  *)
(*     after stage n-1, the stages are left in reverse order; what stage i *)
(*     passes on (metadata, request) is what stage i+1 / the handler sees, *)
(*     what stage i returns (error, reply) is what stage i-1 / the peer    *)
(*     sees; messages of a stream hop through the stages' stream wrappers  *)
(*     the same way;                                                       *)
(*   * per (side, stats handler, tag) the RPC STATS automaton:             *)
(*     TagRPC -> Begin -> other events -> exactly one End; an event whose  *)
(*     context does not carry the handler's tag has no automaton to go to; *)
(*     End.Error = nil <=> the RPC succeeded (client: what Invoke /        *)
(*     the stream reported; server: what the handler chain returned);      *)
(*   * per (side, stats handler) the CONNECTION automaton:                 *)
(*     ConnBegin once, then ConnEnd once.                                  *)
(*                                                                         *)
(* Part 2 - a transcription of goat's observer-related control flow        *)
(*   (chained.go getChainUnaryHandler/getChainStreamHandler as RECURSIVE   *)
(*   operators with the index arithmetic of the Go code; server.go         *)
(*   processUnaryRpc/runStream, client.go invoke/newStream,                *)
(*   internal/util.go StatsStartServerRPC/StatsEndRPC) into event          *)
(*   programs.  Spec replays every program through the automata of part 1; *)
(*   a program the automata cannot follow is a deadlock / NotStuck         *)
(*   violation.  Mut selects a seeded fault of the transcription (to show  *)
(*   the model is not vacuous).                                            *)
(*                                                                         *)
(* ObserversTrace.tla feeds the lines recorded from the real code through  *)
(* the same Step.                                                          *)
(***************************************************************************)
EXTENDS Integers, Sequences, FiniteSets, TLC

\* Parameters of the design model; overridden from the cfg (CONSTANT X <- Y).
MaxC == 3              \* client chain lengths 0..MaxC
MaxS == 6              \* server chain lengths 0..MaxS (0 = no interceptor installed)
MaxH == 3              \* stats handlers per side 1..MaxH
Mut  == "none"         \* seeded fault of the transcription
MutSkipLast == "skiplast"    \* builder stops one interceptor early   (curr >= len-2)
MutSkipSecond == "skipsecond" \* ChainXInterceptor hands interceptors[0] the handler built for curr = 1
MutTagAfter == "tagafter"    \* Begin handed the context from before TagRPC
MutNoEnd    == "noend"       \* no End on the client when the open write fails
MutDupEnd   == "dupend"      \* End emitted by newStream's defer and by the read loop
MutEofNil   == "eofnil"      \* StatsEndRPC's io.EOF exemption with a handler returning io.EOF
MutDeadOpen == "deadopen"    \* NewStream on a failed connection returns before Begin
MutCursor   == "cursor"      \* chain walked by one closure with a forward-only cursor (grpc-go's first chain builder)
MutShadow   == "shadow"      \* invoke: the decode error of the reply is not the error the deferred End reports
MaxS2 == 2
MaxC1 == 1
MaxH2 == 2

VARIABLES
  cf,     \* [cn, sn, ch, sh]: chain lengths and numbers of stats handlers (client, server)
  flt,    \* a transport fault has been injected
  rp,     \* rpc token -> per-RPC record (NewRpc)
  tg,     \* <<side, handler, tag>> -> [c, ph, nil]: RPC stats automata
  cs,     \* <<side, handler>> -> "begun" | "ended": connection stats automata
  ph,     \* "run" | "quiesced"
  prog, pc  \* design model only: the transcribed program and the position in it

avars == <<cf, flt, rp, tg, cs, ph>>
vars == <<cf, flt, rp, tg, cs, ph, prog, pc>>

-----------------------------------------------------------------------------
\* Part 1: the automata

AInit ==
  /\ cf = [cn |-> 0, sn |-> 0, ch |-> 0, sh |-> 0]
  /\ flt = FALSE /\ rp = <<>> /\ tg = <<>> /\ cs = <<>> /\ ph = "run"

\* cp / sp: client / server pipeline. ph: "idle" (server, nothing seen yet), "down" (between
\* stages, going in), "in" (inside a stage, before it calls on), "core" (handler running),
\* "up" (between stages, going out), "back" (inside a stage, after its callee returned), "done".
\* a, b: the values in flight (metadata, request) going in, (error, reply) going out.
NewRpc(kind, md, req, causes) ==
  [kind |-> kind, cause |-> causes,
   cp |-> [n |-> cf.cn, depth |-> 0, ph |-> "down", a |-> md, b |-> req],
   sp |-> [n |-> cf.sn, depth |-> 0, ph |-> "idle", a |-> "", b |-> "", ran |-> FALSE, short |-> FALSE],
   wired |-> (cf.cn = 0), wa |-> md, wb |-> req,   \* what was handed to goat's Invoke / NewStream
   opened |-> "none", done |-> FALSE, settled |-> FALSE,
   csucc |-> "?", ssucc |-> "?",                    \* did the RPC succeed, as each side sees it
   upq |-> <<>>, dnq |-> <<>>,                      \* stream messages on the wire (client->server, server->client)
   inc |-> [i |-> 0, t |-> ""],                     \* inbound message hopping through the server stages' wrappers
   outc |-> [i |-> -1, t |-> ""]]                   \* outbound message, likewise (-1 = none)

Known(c) == c \in DOMAIN rp
SetR(c, r) == rp' = [rp EXCEPT ![c] = r]
YN(err) == IF err = "ok" THEN "y" ELSE "n"

CanEnter(p, i, a, b) == p.ph = "down" /\ p.depth = i /\ i < p.n /\ a = p.a /\ b = p.b
DoEnter(p) == [p EXCEPT !.ph = "in", !.depth = @ + 1]
CanCall(p, i) == p.ph = "in" /\ p.depth = i + 1
DoCall(p, a, b) == [p EXCEPT !.ph = "down", !.a = a, !.b = b]
CanBack(p, i, a, b) == p.ph = "up" /\ p.depth = i + 1 /\ a = p.a /\ b = p.b
DoBack(p) == [p EXCEPT !.ph = "back"]
CanExit(p, i) == p.ph = "back" /\ p.depth = i + 1
DoExit(p, a, b) == [p EXCEPT !.ph = "up", !.depth = @ - 1, !.a = a, !.b = b]
\* What a SERVER stage is free to do besides calling on once (an interceptor is user code): call its
\* handler again after it came back (a retrying / hedging stage: everything below it runs again, from
\* the next stage on, with what is handed on this time), or not at all (a refusing stage: it returns
\* its own result and nothing below it runs).
CanRecall(p, i) == p.ph = "back" /\ p.depth = i + 1
DoRecall(p, a, b) == [p EXCEPT !.ph = "down", !.a = a, !.b = b, !.ran = FALSE]
CanRefuse(p, i) == p.ph = "in" /\ p.depth = i + 1
DoRefuse(p, a, b) == [p EXCEPT !.ph = "up", !.depth = @ - 1, !.a = a, !.b = b, !.short = TRUE]

\* the server pipeline starts with what the client handed to goat
SrvP(r) == IF r.sp.ph = "idle" THEN [r.sp EXCEPT !.ph = "down", !.a = r.wa, !.b = r.wb] ELSE r.sp
SrvOK(r) == r.sp.ph # "idle" \/ r.wired

\* every End already seen for RPC c on a side agrees with the outcome on that side
EndsAgree(side, c, ok) ==
  \A k \in DOMAIN tg : (k[1] = side /\ tg[k].c = c /\ tg[k].ph = "ended") => (tg[k].nil = ok)

\* What goat's client reports for an RPC: the result of the server's outermost stage when that
\* has been produced, or a failure of the client's own (cancel, deadline, transport fault).
UpOK(r, err, reply) ==
  \/ /\ r.sp.ph = "up" /\ r.sp.depth = 0
     /\ err = r.sp.a
     /\ reply = (IF err = "ok" THEN r.sp.b ELSE "-")
  \/ err # "ok" /\ r.cause # {}

\* goat's Invoke (unary: result of the RPC) / NewStream (result of the open) returned (err, reply)
CoreRet(r, c, err, reply) ==
  IF r.kind = "unary"
    THEN /\ (UpOK(r, err, reply)) = TRUE /\ EndsAgree("c", c, err = "ok")
         \* a request the codec cannot encode, a reply it cannot decode: the call cannot have succeeded
         /\ (r.cause \cap {"badreq", "badreply"} # {} => err # "ok")
    ELSE (err = "ok" \/ r.cause # {}) = TRUE /\ (err # "ok" => EndsAgree("c", c, FALSE))
CoreSucc(r, err) == IF r.kind = "unary" \/ err # "ok" THEN YN(err) ELSE r.csucc

ACfg(e) ==
  /\ cf' = [cn |-> e.c, sn |-> e.h, ch |-> e.n, sh |-> e.code]
  /\ UNCHANGED <<flt, rp, tg, cs, ph>>

ACall(e) ==
  /\ ~Known(e.c) /\ ph = "run"
  /\ rp' = rp @@ (e.c :> NewRpc(e.res, e.msg, e.pay,
                                 (IF e.x = "dl" THEN {"deadline"} ELSE IF e.x = "pc" THEN {"cancel"}
                                  ELSE IF e.x = "bq" THEN {"badreq"} ELSE IF e.x = "br" THEN {"badreply"} ELSE {})
                                 \cup (IF flt THEN {"fault"} ELSE {})))
  /\ UNCHANGED <<cf, flt, tg, cs, ph>>

ACancel(e) ==
  /\ Known(e.c)
  /\ SetR(e.c, [rp[e.c] EXCEPT !.cause = @ \cup {"cancel"}])
  /\ UNCHANGED <<cf, flt, tg, cs, ph>>

AFault(e) ==
  /\ flt' = TRUE
  /\ rp' = [c \in DOMAIN rp |-> [rp[c] EXCEPT !.cause = @ \cup {"fault"}]]
  /\ UNCHANGED <<cf, tg, cs, ph>>

AUnfault(e) ==
  /\ flt' = FALSE
  /\ UNCHANGED <<cf, rp, tg, cs, ph>>

AIcptEnter(e) ==
  /\ Known(e.c)
  /\ LET r == rp[e.c] IN
       IF e.k = "c"
         THEN /\ CanEnter(r.cp, e.n, e.msg, e.pay)
              /\ SetR(e.c, [r EXCEPT !.cp = DoEnter(@)])
         ELSE /\ SrvOK(r) /\ CanEnter(SrvP(r), e.n, e.msg, e.pay)
              /\ SetR(e.c, [r EXCEPT !.sp = DoEnter(SrvP(r))])
  /\ UNCHANGED <<cf, flt, tg, cs, ph>>

AIcptCall(e) ==
  /\ Known(e.c)
  /\ LET r == rp[e.c] IN
       IF e.k = "c"
         THEN /\ CanCall(r.cp, e.n)
              /\ LET p == DoCall(r.cp, e.msg, e.pay) IN
                   SetR(e.c, IF p.depth = p.n
                               THEN [r EXCEPT !.cp = p, !.wired = TRUE, !.wa = e.msg, !.wb = e.pay]
                               ELSE [r EXCEPT !.cp = p])
         ELSE \/ /\ CanCall(r.sp, e.n)
                 /\ SetR(e.c, [r EXCEPT !.sp = DoCall(@, e.msg, e.pay)])
              \/ /\ CanRecall(r.sp, e.n)
                 /\ SetR(e.c, [r EXCEPT !.sp = DoRecall(@, e.msg, e.pay)])
  /\ UNCHANGED <<cf, flt, tg, cs, ph>>

AIcptBack(e) ==
  /\ Known(e.c)
  /\ LET r == rp[e.c] IN
       IF e.k = "c"
         THEN IF r.cp.ph = "down" /\ r.cp.depth = r.cp.n /\ e.n = r.cp.n - 1
                THEN \* goat's Invoke / NewStream returned to the innermost client stage
                     /\ CoreRet(r, e.c, e.msg, e.pay)
                     /\ SetR(e.c, [r EXCEPT !.cp = [@ EXCEPT !.ph = "back", !.a = e.msg, !.b = e.pay],
                                            !.csucc = CoreSucc(r, e.msg)])
                ELSE /\ CanBack(r.cp, e.n, e.msg, e.pay)
                     /\ SetR(e.c, [r EXCEPT !.cp = DoBack(@)])
         ELSE /\ CanBack(r.sp, e.n, e.msg, e.pay)
              /\ SetR(e.c, [r EXCEPT !.sp = DoBack(@)])
  /\ UNCHANGED <<cf, flt, tg, cs, ph>>

AIcptExit(e) ==
  /\ Known(e.c)
  /\ LET r == rp[e.c] IN
       IF e.k = "c"
         THEN /\ CanExit(r.cp, e.n)
              /\ SetR(e.c, [r EXCEPT !.cp = DoExit(@, e.msg, e.pay)])
         ELSE /\ CanExit(r.sp, e.n) \/ CanRefuse(r.sp, e.n)
              /\ LET p == IF CanRefuse(r.sp, e.n) THEN DoRefuse(r.sp, e.msg, e.pay) ELSE DoExit(r.sp, e.msg, e.pay) IN
                   \* leaving stage 0: this is the RPC's result as the server sees it
                   /\ (p.depth = 0 => EndsAgree("s", e.c, e.msg = "ok"))
                   /\ SetR(e.c, [r EXCEPT !.sp = p, !.ssucc = IF p.depth = 0 THEN YN(e.msg) ELSE @])
  /\ UNCHANGED <<cf, flt, tg, cs, ph>>

AHandlerRun(e) ==
  /\ Known(e.c)
  /\ LET r == rp[e.c]
         p == SrvP(r) IN
       /\ SrvOK(r)
       /\ p.ph = "down" /\ p.depth = p.n /\ ~p.ran       \* after all n stages, once
       /\ e.msg = p.a /\ e.pay = p.b
       /\ SetR(e.c, [r EXCEPT !.sp = [p EXCEPT !.ph = "core", !.ran = TRUE]])
  /\ UNCHANGED <<cf, flt, tg, cs, ph>>

AHandlerRet(e) ==
  /\ Known(e.c)
  /\ LET r == rp[e.c] IN
       /\ r.sp.ph = "core"
       /\ (r.sp.n = 0 => EndsAgree("s", e.c, e.msg = "ok"))
       /\ SetR(e.c, [r EXCEPT !.sp = [@ EXCEPT !.ph = "up", !.a = e.msg, !.b = e.pay],
                              !.ssucc = IF r.sp.n = 0 THEN YN(e.msg) ELSE @])
  /\ UNCHANGED <<cf, flt, tg, cs, ph>>

\* streams: result of the open as the caller (outside the client stages) sees it
AOpened(e) ==
  /\ Known(e.c) /\ rp[e.c].kind # "unary" /\ rp[e.c].opened = "none"
  /\ LET r == rp[e.c]
         o == IF e.msg = "ok" THEN "ok" ELSE "failed" IN
       IF r.cp.n = 0
         THEN /\ r.cp.ph = "down"
              /\ CoreRet(r, e.c, e.msg, "-")
              /\ SetR(e.c, [r EXCEPT !.cp = [@ EXCEPT !.ph = "done"], !.opened = o, !.csucc = CoreSucc(r, e.msg)])
         ELSE /\ r.cp.ph = "up" /\ r.cp.depth = 0 /\ e.msg = r.cp.a
              /\ SetR(e.c, [r EXCEPT !.cp = [@ EXCEPT !.ph = "done"], !.opened = o])
  /\ UNCHANGED <<cf, flt, tg, cs, ph>>

ARpcDone(e) ==
  /\ Known(e.c) /\ ~rp[e.c].done
  /\ LET r == rp[e.c] IN
       IF r.kind = "unary"
         THEN IF r.cp.n = 0
                THEN /\ r.cp.ph = "down"
                     /\ CoreRet(r, e.c, e.msg, e.pay)
                     /\ SetR(e.c, [r EXCEPT !.cp = [@ EXCEPT !.ph = "done"], !.done = TRUE, !.csucc = YN(e.msg)])
                ELSE /\ r.cp.ph = "up" /\ r.cp.depth = 0 /\ e.msg = r.cp.a /\ e.pay = r.cp.b
                     /\ SetR(e.c, [r EXCEPT !.cp = [@ EXCEPT !.ph = "done"], !.done = TRUE])
         ELSE /\ r.opened # "none"
              /\ IF r.opened = "failed"
                   THEN e.msg # "ok" /\ SetR(e.c, [r EXCEPT !.done = TRUE])
                   ELSE /\ (UpOK(r, e.msg, "-")) = TRUE
                        /\ EndsAgree("c", e.c, e.msg = "ok")
                        /\ SetR(e.c, [r EXCEPT !.done = TRUE, !.csucc = YN(e.msg)])
  /\ UNCHANGED <<cf, flt, tg, cs, ph>>

\* stream messages: the caller sends m, the server's stream wrappers 0..n-1 see it in turn (each
\* may rewrite it), the handler receives the result; replies travel n-1..0 and then to the caller
ACSend(e) ==
  /\ Known(e.c)
  /\ SetR(e.c, [rp[e.c] EXCEPT !.upq = Append(@, e.pay)])
  /\ UNCHANGED <<cf, flt, tg, cs, ph>>

AWrap(e) ==
  /\ Known(e.c) /\ e.k = "s"
  /\ LET r == rp[e.c] IN
       IF e.res = "in"
         THEN /\ r.inc.i = e.n /\ e.n < r.sp.n
              /\ IF e.n = 0 THEN Len(r.upq) > 0 /\ e.msg = Head(r.upq) ELSE e.msg = r.inc.t
              /\ SetR(e.c, [r EXCEPT !.inc = [i |-> e.n + 1, t |-> e.pay],
                                     !.upq = IF e.n = 0 THEN Tail(@) ELSE @])
         ELSE /\ r.outc.i = e.n /\ e.msg = r.outc.t
              /\ SetR(e.c, IF e.n = 0 THEN [r EXCEPT !.outc = [i |-> -1, t |-> ""], !.dnq = Append(@, e.pay)]
                                      ELSE [r EXCEPT !.outc = [i |-> e.n - 1, t |-> e.pay]])
  /\ UNCHANGED <<cf, flt, tg, cs, ph>>

AHRecv(e) ==
  /\ Known(e.c)
  /\ LET r == rp[e.c] IN
       IF r.sp.n = 0
         THEN Len(r.upq) > 0 /\ e.pay = Head(r.upq) /\ SetR(e.c, [r EXCEPT !.upq = Tail(@)])
         ELSE r.inc.i = r.sp.n /\ e.pay = r.inc.t /\ SetR(e.c, [r EXCEPT !.inc = [i |-> 0, t |-> ""]])
  /\ UNCHANGED <<cf, flt, tg, cs, ph>>

AHSend(e) ==
  /\ Known(e.c)
  /\ LET r == rp[e.c] IN
       /\ r.outc.i = -1
       /\ SetR(e.c, IF r.sp.n = 0 THEN [r EXCEPT !.dnq = Append(@, e.pay)]
                                  ELSE [r EXCEPT !.outc = [i |-> r.sp.n - 1, t |-> e.pay]])
  /\ UNCHANGED <<cf, flt, tg, cs, ph>>

ACRecv(e) ==
  /\ Known(e.c)
  /\ LET r == rp[e.c] IN
       Len(r.dnq) > 0 /\ e.pay = Head(r.dnq) /\ SetR(e.c, [r EXCEPT !.dnq = Tail(@)])
  /\ UNCHANGED <<cf, flt, tg, cs, ph>>

\* ---- stats: per RPC --------------------------------------------------------
NHandlers(side) == IF side = "c" THEN cf.ch ELSE cf.sh
TagsOf(side, j, c) == {k \in DOMAIN tg : k[1] = side /\ k[2] = j /\ tg[k].c = c}

\* TagRPC of handler e.n on side e.k for RPC e.c returned a context carrying the fresh tag e.h
ATag(e) ==
  /\ Known(e.c) /\ e.n < NHandlers(e.k) /\ e.h > 0
  /\ <<e.k, e.n, e.h>> \notin DOMAIN tg
  /\ TagsOf(e.k, e.n, e.c) = {}                 \* one Begin per RPC: one tag per RPC
  /\ tg' = tg @@ (<<e.k, e.n, e.h>> :> [c |-> e.c, ph |-> "tagged", nil |-> FALSE])
  /\ UNCHANGED <<cf, flt, rp, cs, ph>>

\* HandleRPC of handler e.n: e.h is the tag found in the context (0 = none), e.res the event kind,
\* e.code = 1 iff End.Error = nil
AStat(e) ==
  LET key == <<e.k, e.n, e.h>> IN
  /\ key \in DOMAIN tg
  /\ CASE e.res = "Begin" ->
            /\ tg[key].ph = "tagged"
            /\ tg' = [tg EXCEPT ![key] = [@ EXCEPT !.ph = "begun"]]
       [] e.res = "End" ->
            /\ tg[key].ph = "begun"
            /\ LET s == IF e.k = "c" THEN rp[tg[key].c].csucc ELSE rp[tg[key].c].ssucc IN
                 (s = "?" \/ (e.code = 1) = (s = "y")) = TRUE
            /\ tg' = [tg EXCEPT ![key] = [@ EXCEPT !.ph = "ended", !.nil = (e.code = 1)]]
       [] OTHER ->
            \* Begin comes before any other event; the property does not order the others
            \* against End (a caller may still be consuming a reply when the stream ends)
            /\ tg[key].ph \in {"begun", "ended"}
            /\ UNCHANGED tg
  /\ UNCHANGED <<cf, flt, rp, cs, ph>>

\* ---- stats: per connection ---------------------------------------------------
AConnStat(e) ==
  LET key == <<e.k, e.n>> IN
  /\ e.n < NHandlers(e.k)
  /\ IF e.res = "Begin"
       THEN key \notin DOMAIN cs /\ cs' = cs @@ (key :> "begun")
       ELSE key \in DOMAIN cs /\ cs[key] = "begun" /\ cs' = [cs EXCEPT ![key] = "ended"]
  /\ UNCHANGED <<cf, flt, rp, tg, ph>>

\* ---- the end of a scenario: every RPC is over, the connection has been torn down ----
\* Settled(c): RPC c is complete on both sides and was seen exactly once by every stats handler
ASettled(e) ==
  /\ Known(e.c) /\ ph = "run" /\ ~rp[e.c].settled
  /\ LET c == e.c IN
       /\ rp[c].done
       \* a chain that was entered was left again, through the handler
       /\ rp[c].sp.ph = "idle" \/ (rp[c].sp.ph = "up" /\ rp[c].sp.depth = 0 /\ (rp[c].sp.ran \/ rp[c].sp.short))
       \* every Begin of this RPC has its End
       /\ \A k \in DOMAIN tg : tg[k].c = c => tg[k].ph = "ended"
       \* every RPC, whatever its outcome, is seen by every client-side handler ...
       /\ \A j \in 0..(cf.ch - 1) : Cardinality(TagsOf("c", j, c)) = 1
       \* ... and by every server-side handler iff it reached the server
       /\ \A j \in 0..(cf.sh - 1) : Cardinality(TagsOf("s", j, c)) = (IF rp[c].sp.ph = "idle" THEN 0 ELSE 1)
  /\ SetR(e.c, [rp[e.c] EXCEPT !.settled = TRUE])
  /\ UNCHANGED <<cf, flt, tg, cs, ph>>

AQuiesce(e) ==
  /\ ph = "run" /\ ph' = "quiesced"
  /\ \A c \in DOMAIN rp : rp[c].settled
  /\ \A k \in DOMAIN tg : tg[k].ph = "ended"
  /\ \A j \in 0..(cf.sh - 1) : <<"s", j>> \in DOMAIN cs /\ cs[<<"s", j>>] = "ended"   \* the served connection
  /\ UNCHANGED <<cf, flt, rp, tg, cs>>

Step(e) ==
  CASE e.ev = "Cfg" -> ACfg(e)
    [] e.ev = "Call" -> ACall(e)
    [] e.ev = "Cancel" -> ACancel(e)
    [] e.ev = "Fault" -> AFault(e)
    [] e.ev = "Unfault" -> AUnfault(e)
    [] e.ev = "IcptEnter" -> AIcptEnter(e)
    [] e.ev = "IcptCall" -> AIcptCall(e)
    [] e.ev = "IcptBack" -> AIcptBack(e)
    [] e.ev = "IcptExit" -> AIcptExit(e)
    [] e.ev = "HandlerRun" -> AHandlerRun(e)
    [] e.ev = "HandlerRet" -> AHandlerRet(e)
    [] e.ev = "Opened" -> AOpened(e)
    [] e.ev = "RpcDone" -> ARpcDone(e)
    [] e.ev = "CSend" -> ACSend(e)
    [] e.ev = "Wrap" -> AWrap(e)
    [] e.ev = "HRecv" -> AHRecv(e)
    [] e.ev = "HSend" -> AHSend(e)
    [] e.ev = "CRecv" -> ACRecv(e)
    [] e.ev = "Tag" -> ATag(e)
    [] e.ev = "Stat" -> AStat(e)
    [] e.ev = "ConnStat" -> AConnStat(e)
    [] e.ev = "Settled" -> ASettled(e)
    [] e.ev = "Quiesce" -> AQuiesce(e)
    [] OTHER -> FALSE

-----------------------------------------------------------------------------
\* Part 2: goat's control flow, transcribed into event programs

Ev(ev, c, n, k, res, msg, pay, h, code, x) ==
  [ev |-> ev, c |-> c, n |-> n, k |-> k, res |-> res, msg |-> msg, pay |-> pay, h |-> h, code |-> code, x |-> x]
Park == Ev("Park", 0, 0, "", "", "", "", 0, -1, "")     \* where a blocked handler waits (splits a log)

RECURSIVE UpTo(_, _), From(_, _)
UpTo(s, m) == IF s = <<>> \/ Head(s).ev = m THEN <<>> ELSE <<Head(s)>> \o UpTo(Tail(s), m)
From(s, m) == IF s = <<>> THEN <<>> ELSE IF Head(s).ev = m THEN Tail(s) ELSE From(Tail(s), m)

\* F(0) \o ... \o F(n-1), n <= 6: a Go `for i := range xs` loop
Over(n, F(_)) ==
  (IF n > 0 THEN F(0) ELSE <<>>) \o (IF n > 1 THEN F(1) ELSE <<>>) \o (IF n > 2 THEN F(2) ELSE <<>>) \o
  (IF n > 3 THEN F(3) ELSE <<>>) \o (IF n > 4 THEN F(4) ELSE <<>>) \o (IF n > 5 THEN F(5) ELSE <<>>)

\* q: [c, kind, o, cn, sn, ch, sh]
TagId(side, j, c) == (IF side = "c" THEN 100 ELSE 200) + 10 * c + j + 1
NH(q, side) == IF side = "c" THEN q.ch ELSE q.sh
\* the tag handler j finds in a context that went through TagRPC of the handlers in `tagged`
Found(q, side, j, tagged) == IF j \in tagged THEN TagId(side, j, q.c) ELSE 0
StatEv(q, side, j, tagged, kind, code) == Ev("Stat", q.c, j, side, kind, "", "", Found(q, side, j, tagged), code, "")
All(q, side) == 0..(NH(q, side) - 1)

\* internal/util.go StatsStartServerRPC, and the loop at the top of client.go newStream:
\*   for _, sh := range handlers { ctx = sh.TagRPC(ctx); sh.HandleRPC(ctx, Begin); [server: InHeader] }
StatsStart(q, side) ==
  Over(NH(q, side), LAMBDA j :
         <<Ev("Tag", q.c, j, side, "", "", "", TagId(side, j, q.c), -1, ""),
           StatEv(q, side, j, IF Mut = "tagafter" THEN 0..(j - 1) ELSE 0..j, "Begin", -1)>>
         \o (IF side = "s" THEN <<StatEv(q, side, j, 0..j, "InHeader", -1)>> ELSE <<>>))
\* a `for _, sh := range handlers { sh.HandleRPC(ctx, kind) }` loop after the tagging
StatsAll(q, side, kind) == Over(NH(q, side), LAMBDA j : <<StatEv(q, side, j, All(q, side), kind, -1)>>)
\* internal/util.go StatsEndRPC: End.Error = appErr unless appErr is nil or io.EOF
StatsEnd(q, side, err) ==
  Over(NH(q, side), LAMBDA j :
         <<StatEv(q, side, j, All(q, side), "End", IF err = "ok" \/ (Mut = "eofnil" /\ err = "2:EOF") THEN 1 ELSE 0)>>)

Mark(side, i) == side \o ToString(i)
MarkErr(err, side, i) == IF err = "ok" THEN "ok" ELSE err \o Mark(side, i)

\* the handler: returns at once (ok / herr / eof) or waits for its context (cancel) and then
\* reports it; for a stream one message is exchanged first (hop == the wrappers' Wrap events)
HandlerErr(q) == CASE q.o \in {"ok", "badreply"} -> "ok" [] q.o = "herr" -> "13:e" [] q.o = "eof" -> "2:EOF" [] OTHER -> "1:cc"

Hops(q, dir) ==
  IF dir = "in"
    THEN Over(q.sn, LAMBDA i : <<Ev("Wrap", q.c, i, "s", "in", "m" \o (IF i = 0 THEN "" ELSE "+" \o ToString(i - 1)), "m+" \o ToString(i), 0, -1, "")>>)
    ELSE Over(q.sn, LAMBDA i0 : LET i == q.sn - 1 - i0 IN
              <<Ev("Wrap", q.c, i, "s", "out", "r" \o (IF i = q.sn - 1 THEN "" ELSE "+" \o ToString(i + 1)), "r+" \o ToString(i), 0, -1, "")>>)
InSeen(q) == IF q.sn = 0 THEN "m" ELSE "m+" \o ToString(q.sn - 1)
OutSent(q) == IF q.sn = 0 THEN "r" ELSE "r+0"

\* the server handler's part of a stream: receive one message, answer it, [wait], return.
\* internal/server/stream.go: RecvMsg emits InPayload, the first SendMsg OutHeader, SendMsg OutPayload
StreamBody(q) ==
  StatsAll(q, "s", "InPayload") \o Hops(q, "in") \o <<Ev("HRecv", q.c, 0, "", "", "", InSeen(q), 0, -1, "")>>
  \o <<Ev("HSend", q.c, 0, "", "", "", "r", 0, -1, "")>> \o Hops(q, "out")
  \o StatsAll(q, "s", "OutHeader") \o StatsAll(q, "s", "OutPayload")
  \* the caller receives the reply (and, if all goes well, half-closes) while the handler waits
  \o StatsAll(q, "c", "InHeader") \o <<Ev("CRecv", q.c, 0, "", "", "", OutSent(q), 0, -1, "")>> \o StatsAll(q, "c", "InPayload")
  \o (IF q.o = "cancel" THEN <<>> ELSE StatsAll(q, "c", "OutTrailer"))

Final(q, md, req) ==
  LET err == HandlerErr(q)
      rep == IF err = "ok" /\ q.kind = "unary" THEN "r" ELSE "-" IN
  [log |-> <<Ev("HandlerRun", q.c, 0, "", q.kind, md, req, 0, -1, "")>>
           \o (IF q.kind = "unary" THEN <<>> ELSE StreamBody(q))
           \o (IF q.o = "cancel" THEN <<Park>> ELSE <<>>)
           \o <<Ev("HandlerRet", q.c, 0, "", q.kind, err, rep, 0, -1, "")>>,
   err |-> err, reply |-> rep]

\* chained.go -----------------------------------------------------------------
\* func getChainUnaryHandler(interceptors, curr, info, finalHandler) grpc.UnaryHandler {
\*     if curr == len(interceptors)-1 { return finalHandler }
\*     return func(ctx, req) { return interceptors[curr+1](ctx, req, info, getChainUnaryHandler(interceptors, curr+1, info, finalHandler)) }
\* }
\* (getChainStreamHandler is the same function over stream handlers.)
\* GetChain(q, curr, md, req) is that closure applied to (ctx carrying md, req);
\* Stage(q, i, md, req) is the harness's marking interceptor i called with GetChain(q, i, ..) as its handler.
RECURSIVE GetChain(_, _, _, _), Stage(_, _, _, _)
GetChain(q, curr, md, req) ==
  IF (IF Mut = "skiplast" THEN curr >= q.sn - 2 ELSE curr = q.sn - 1)
    THEN Final(q, md, req)
    ELSE IF curr + 1 >= q.sn     \* interceptors[curr+1]: index out of range (only reachable in a mutant)
           THEN [log |-> <<Ev("Crash", q.c, curr, "", "", "", "", 0, -1, "")>>, err |-> "crash", reply |-> "-"]
           ELSE Stage(q, curr + 1, md, req)
\* The harness's stage i calls its handler once; stage q.rt calls it a second time after it came back
\* (a retrying stage; the same closure, so with the forward-only cursor of Mut = "cursor" the second
\* call resumes at the last interceptor); stage q.dn does not call it at all.
Stage(q, i, md, req) ==
  LET md2 == md \o Mark("s", i)
      rq2 == IF q.kind = "unary" THEN req \o Mark("s", i) ELSE req
      r1 == GetChain(q, IF Mut = "skipsecond" /\ i = 0 THEN 1 ELSE i, md2, rq2)
      r == IF i # q.rt THEN r1
           ELSE IF Mut = "cursor" /\ i < q.sn - 1 THEN Stage(q, q.sn - 1, md2, rq2)
           ELSE r1
      er2 == MarkErr(r.err, "s", i)
      rp2 == IF r.reply = "-" THEN "-" ELSE r.reply \o Mark("s", i) IN
  IF i = q.dn
    THEN [log |-> <<Ev("IcptEnter", q.c, i, "s", q.kind, md, req, 0, -1, ""), Ev("IcptExit", q.c, i, "s", q.kind, "7:deny", "-", 0, -1, "")>>,
          err |-> "7:deny", reply |-> "-"]
    ELSE
  [log |-> <<Ev("IcptEnter", q.c, i, "s", q.kind, md, req, 0, -1, ""), Ev("IcptCall", q.c, i, "s", q.kind, md2, rq2, 0, -1, "")>>
           \o (IF i = q.rt THEN r1.log \o <<Ev("IcptBack", q.c, i, "s", q.kind, r1.err, r1.reply, 0, -1, ""),
                                              Ev("IcptCall", q.c, i, "s", q.kind, md2, rq2, 0, -1, "")>> ELSE <<>>)
           \o r.log
           \o <<Ev("IcptBack", q.c, i, "s", q.kind, r.err, r.reply, 0, -1, ""), Ev("IcptExit", q.c, i, "s", q.kind, er2, rp2, 0, -1, "")>>,
   err |-> er2, reply |-> rp2]
\* ChainUnaryInterceptor / ChainStreamInterceptor:
\*   s.unaryInterceptor = func(ctx, req, info, handler) { return interceptors[0](ctx, req, info, getChainUnaryHandler(interceptors, 0, info, handler)) }
\* server.go: `if h.srv.streamInterceptor != nil { appErr = interceptor(...) } else { appErr = sd.Handler(...) }`
ServerChain(q, md, req) == IF q.sn = 0 THEN Final(q, md, req) ELSE Stage(q, 0, md, req)

\* server.go processUnaryRpc ------------------------------------------------------
SrvUnary(q, md, req) ==
  LET ch == ServerChain(q, md, req) IN
  [log |-> StatsStart(q, "s") \o StatsAll(q, "s", "InPayload") \o ch.log
           \o Over(q.sh, LAMBDA j : <<StatEv(q, "s", j, All(q, "s"), "OutHeader", -1), StatEv(q, "s", j, All(q, "s"), "OutPayload", -1),
                                      StatEv(q, "s", j, All(q, "s"), "OutTrailer", -1)>>)
           \o StatsEnd(q, "s", ch.err),
   err |-> ch.err, reply |-> ch.reply]
\* server.go runStream (SendTrailer emits OutTrailer, then the deferred StatsEndRPC)
SrvStream(q, md) ==
  LET ch == ServerChain(q, md, "-") IN
  [log |-> StatsStart(q, "s") \o ch.log \o StatsAll(q, "s", "OutTrailer") \o StatsEnd(q, "s", ch.err),
   err |-> ch.err, reply |-> "-"]

\* client.go invoke ---------------------------------------------------------------
\* returns [log, err, reply, late]: late = what the server still does after the caller has gone
Invoke(q, md, req) ==
  LET pre == StatsStart(q, "c")
             \o Over(q.ch, LAMBDA j : <<StatEv(q, "c", j, All(q, "c"), "OutHeader", -1), StatEv(q, "c", j, All(q, "c"), "OutPayload", -1)>>)
      s == SrvUnary(q, md, req) IN
  CASE q.o = "cwrite" ->     \* CallUnaryMethod: conn.Write fails
         [log |-> pre \o StatsEnd(q, "c", "2:w"), err |-> "2:w", reply |-> "-", late |-> <<>>]
    [] q.o = "badreq" ->     \* codec.Marshal(args) fails: return before OutHeader / OutPayload
         [log |-> StatsStart(q, "c") \o StatsEnd(q, "c", "2:enc"), err |-> "2:enc", reply |-> "-", late |-> <<>>]
    [] q.o = "badreply" ->   \* codec.Unmarshal(reply) fails: logged, InPayload all the same, the error is returned
         [log |-> pre \o s.log \o StatsAll(q, "c", "InHeader") \o StatsAll(q, "c", "InPayload")
                  \o StatsEnd(q, "c", IF Mut = "shadow" THEN "ok" ELSE "2:dec"),
          err |-> "2:dec", reply |-> "-", late |-> <<>>]
    [] q.o = "cancel" ->     \* CallUnaryMethod: <-ctx.Done()
         [log |-> pre \o UpTo(s.log, "Park") \o <<Ev("Cancel", q.c, 0, "", "", "", "", 0, -1, "")>> \o StatsEnd(q, "c", "1:cc"),
          err |-> "1:cc", reply |-> "-", late |-> From(s.log, "Park")]
    [] OTHER ->
         [log |-> pre \o s.log \o StatsAll(q, "c", "InHeader")
                  \o (IF s.err = "ok" THEN StatsAll(q, "c", "InPayload") ELSE <<>>)
                  \o StatsEnd(q, "c", s.err),
          err |-> s.err, reply |-> s.reply, late |-> <<>>]

\* client.go newStream + internal/client/stream.go ----------------------------------
\* newStream: [NewStreamReadWriter]; tag+Begin loop; defer { if err != nil { End } }; open write; OutHeader; NewStream
\* returns [log (until NewStream returns), err, rest (the life of the stream), res (its result)]
NewStream(q, md) ==
  LET s == SrvStream(q, md)
      pre == StatsStart(q, "c")
      send == <<Ev("CSend", q.c, 0, "", "", "", "m", 0, -1, "")>> \o StatsAll(q, "c", "OutPayload") IN
  CASE q.o = "deadopen" ->  \* NewStreamReadWriter fails: return before any stats call
         [log |-> IF Mut = "deadopen" THEN <<>> ELSE pre \o StatsEnd(q, "c", "2:d"), err |-> "2:d", rest |-> <<>>, res |-> "2:d"]
    [] q.o = "cwrite" ->
         [log |-> pre \o (IF Mut = "noend" THEN <<>> ELSE StatsEnd(q, "c", "2:w")), err |-> "2:w", rest |-> <<>>, res |-> "2:w"]
    [] q.o = "cancel" ->
         [log |-> pre \o StatsAll(q, "c", "OutHeader"), err |-> "ok",
          rest |-> send \o UpTo(s.log, "Park") \o <<Ev("Cancel", q.c, 0, "", "", "", "", 0, -1, "")>>
                   \o StatsEnd(q, "c", "1:cc") \o <<Ev("RpcDone", q.c, 0, "", "", "1:cc", "-", 0, -1, "")>> \o From(s.log, "Park"),
          res |-> "1:cc"]
    [] OTHER ->
         [log |-> pre \o StatsAll(q, "c", "OutHeader"), err |-> "ok",
          rest |-> send \o s.log \o StatsEnd(q, "c", s.err)
                   \o (IF Mut = "dupend" THEN StatsEnd(q, "c", s.err) ELSE <<>>)
                   \o <<Ev("RpcDone", q.c, 0, "", "", s.err, "-", 0, -1, "")>>,
          res |-> s.err]

\* the caller's chain of client interceptors (hand-built or go-grpc-middleware; not goat code) ----
RECURSIVE CStage(_, _, _, _)
CStage(q, i, md, req) ==
  IF i = q.cn
    THEN IF q.kind = "unary" THEN Invoke(q, md, req)
         ELSE LET n == NewStream(q, md) IN [log |-> n.log, err |-> n.err, reply |-> "-", late |-> n.rest]
    ELSE LET md2 == md \o Mark("c", i)
             rq2 == IF q.kind = "unary" THEN req \o Mark("c", i) ELSE req
             r == CStage(q, i + 1, md2, rq2)
             er2 == MarkErr(r.err, "c", i)
             rp2 == IF r.reply = "-" THEN "-" ELSE r.reply \o Mark("c", i) IN
         [log |-> <<Ev("IcptEnter", q.c, i, "c", q.kind, md, req, 0, -1, ""), Ev("IcptCall", q.c, i, "c", q.kind, md2, rq2, 0, -1, "")>>
                  \o r.log
                  \o <<Ev("IcptBack", q.c, i, "c", q.kind, r.err, r.reply, 0, -1, ""), Ev("IcptExit", q.c, i, "c", q.kind, er2, rp2, 0, -1, "")>>,
          err |-> er2, reply |-> rp2, late |-> r.late]

\* one scenario: connection up, one RPC, connection down (server.go serve: TagConn/ConnBegin
\* loop, deferred ConnEnd loop; client.go NewClientConn / Close)
Program(q) ==
  LET r == CStage(q, 0, "c", IF q.kind = "unary" THEN "q" ELSE "-")
      conn(kind) == Over(q.ch, LAMBDA j : <<Ev("ConnStat", 0, j, "c", kind, "", "", 0, -1, "")>>)
                    \o Over(q.sh, LAMBDA j : <<Ev("ConnStat", 0, j, "s", kind, "", "", 0, -1, "")>>) IN
  <<Ev("Cfg", q.cn, q.ch, "", "", "", "", q.sn, q.sh, "")>> \o conn("Begin")
  \o (IF q.o \in {"cwrite", "deadopen"} THEN <<Ev("Fault", 0, 0, "cwrite", "", "", "", 0, -1, "")>> ELSE <<>>)
  \o <<Ev("Call", q.c, 0, "", q.kind, "c", IF q.kind = "unary" THEN "q" ELSE "-", 0, -1,
          IF q.o = "badreq" THEN "bq" ELSE IF q.o = "badreply" THEN "br" ELSE "")>>
  \o r.log
  \o (IF q.kind = "unary"
        THEN <<Ev("RpcDone", q.c, 0, "", "", r.err, r.reply, 0, -1, "")>> \o r.late
        ELSE <<Ev("Opened", q.c, 0, "", "", r.err, "-", 0, -1, "")>>
             \o (IF r.err = "ok" THEN r.late ELSE <<Ev("RpcDone", q.c, 0, "", "", r.err, "-", 0, -1, "")>>))
  \o conn("End") \o <<Ev("Settled", q.c, 0, "", "", "", "", 0, -1, ""), Ev("Quiesce", 0, 0, "", "", "", "", 0, -1, "")>>

Outcomes == {"ok", "herr", "cancel", "cwrite"}
           \cup (IF Mut = "eofnil" THEN {"eof"} ELSE {}) \cup (IF Mut = "deadopen" THEN {"deadopen"} ELSE {})
Params ==
  [c : {1}, kind : {"unary", "stream"}, o : Outcomes, cn : 0..MaxC, sn : 0..MaxS, ch : 1..MaxH, sh : 1..MaxH, rt : {-1}, dn : {-1}]
  \* a message the codec refuses on the way out, a reply it refuses on the way in
  \cup [c : {1}, kind : {"unary"}, o : {"badreq", "badreply"}, cn : 0..MaxC, sn : 0..MaxS, ch : 1..MaxH, sh : 1..MaxH, rt : {-1}, dn : {-1}]
  \* a server stage that calls its handler twice, one that does not call it
  \cup {q \in [c : {1}, kind : {"unary"}, o : {"ok", "herr"}, cn : {0, MaxC}, sn : 1..MaxS, ch : {1}, sh : {1, MaxH},
               rt : 0..(MaxS - 1), dn : {-1}] : q.rt < q.sn}
  \cup {q \in [c : {1}, kind : {"unary", "stream"}, o : {"ok"}, cn : {0, MaxC}, sn : 1..MaxS, ch : {1}, sh : {1, MaxH},
               rt : {-1}, dn : 0..(MaxS - 1)] : q.dn < q.sn}

Init == AInit /\ pc = 1 /\ prog \in {Program(q) : q \in Params}
Next == \/ pc <= Len(prog) /\ Step(prog[pc]) /\ pc' = pc + 1 /\ UNCHANGED prog
        \/ pc > Len(prog) /\ UNCHANGED vars
Spec == Init /\ [][Next]_vars

\* the transcribed code never produces an event the property's automata cannot follow
NotStuck == pc <= Len(prog) => ENABLED (Step(prog[pc]) /\ pc' = pc + 1 /\ UNCHANGED prog)
\* at the end of every program the scenario-end conditions were met
Finished == pc > Len(prog) => ph = "quiesced"

\* Direct statement of the chain properties on the transcribed builder, n = 1..MaxS:
\* entries 0..n-1 in order, handler once, exits n-1..0, a mark made at stage i is seen by every later stage
ChainQ(n) == [c |-> 1, kind |-> "unary", o |-> "ok", cn |-> 0, sn |-> n, ch |-> 1, sh |-> 1, rt |-> -1, dn |-> -1]
Proj(log, name) == SelectSeq(log, LAMBDA e : e.ev = name)
ChainShape ==
  \A n \in 1..MaxS :
    LET log == ServerChain(ChainQ(n), "c", "q").log
        en == Proj(log, "IcptEnter")  ex == Proj(log, "IcptExit")  hr == Proj(log, "HandlerRun") IN
    /\ Len(en) = n /\ \A i \in 1..n : en[i].n = i - 1
    /\ Len(ex) = n /\ \A i \in 1..n : ex[i].n = n - i
    /\ Len(hr) = 1
    /\ \A i \in 1..n : en[i].msg = (IF i = 1 THEN "c" ELSE en[i - 1].msg \o Mark("s", i - 2))
    /\ hr[1].msg = en[n].msg \o Mark("s", n - 1) /\ hr[1].pay = en[n].pay \o Mark("s", n - 1)
ASSUME Mut = "none" => ChainShape
=============================================================================
