---------------------------- MODULE HttpTransport ----------------------------
(***************************************************************************)
(* Implementation-shaped model of GoatOverHttp (http.go), C19.              *)
(*                                                                         *)
(*   ServeHTTP        one thread per request r: validation ladder           *)
(*                    (HttpRules!Shapes) -> retrieve (under the conns lock: *)
(*                    look up / create the connection of the mapped source) *)
(*                    -> [window: gate http.serve.window] -> hand the       *)
(*                    envelope to a reader of that connection (unbuffered   *)
(*                    readCh: a rendezvous) -> 200.                         *)
(*   httpReadWriter   Read(ctx) threads (rdr), Write (bumps lastActivity,   *)
(*                    a failed POST unregisters the connection).            *)
(*   connectionCleaner  ticker on the (fake) clock; at a tick, under the    *)
(*                    lock, every registered connection that is Idle is     *)
(*                    closed and removed from the table.                    *)
(*                                                                         *)
(* The model describes the code AS FIXED (fixes/D16a..d):                   *)
(*   closing a connection closes a `done` channel, never readCh; Read       *)
(*   selects on readCh / done / ctx; ServeHTTP selects on the send / done / *)
(*   the request's context.                                                 *)
(* Bug re-enables the defects of the shipped code:                          *)
(*   "CloseReadCh"     the cleaner (and a failed Write) close(readCh): a    *)
(*                     sender in or before `conn.readCh <-` panics          *)
(*   "ReadIgnoresCtx"  Read is a bare `<-readCh`                            *)
(*   "ServeIgnoresCtx" ServeHTTP is a bare `readCh <-`                      *)
(*   "NoSourceCheck"   (binding mutation) the ladder forgets Source == ""   *)
(*   "RetrieveNoRecheck" (binding mutation) retrieve looks the connection   *)
(*                     up under a read lock and, on a miss, stores a new    *)
(*                     one under the write lock without looking again: two  *)
(*                     concurrent first requests of a source create two     *)
(*                     connection objects, one of them unregistered         *)
(***************************************************************************)
EXTENDS Integers, Sequences, FiniteSets, TLC, HttpRules

CONSTANTS
  Addrs,        \* mapped source addresses
  Reqs,         \* request threads
  Rdrs,         \* reader threads
  UseShapes,    \* request shapes used (subset of Shapes)
  Timeout, Interval,   \* connectionTimeout, connectionCleanupInterval (seconds)
  Advances,     \* amounts the fake clock may be advanced by
  MaxTime,      \* bound on the clock
  MaxConns,     \* bound on connection objects ever created
  Writes,       \* BOOLEAN: model outbound Write (activity bump, failure => unregister)
  Bug

VARIABLES
  now, nextTick, tick,   \* fake clock, next ticker expiry, a tick is waiting in the ticker channel
  tab,                   \* conns.value: address -> connection object (0 = none)
  conns,                 \* connection objects ever created: <<[addr, closed, last]>>
  req,                   \* request thread -> [pc, shape, addr, conn, ctx, status]
  rdr,                   \* reader thread  -> [pc, conn, ctx, oks]
  crashed,               \* a goroutine panicked: send on closed channel
  dcount                 \* ghost: request -> how often its envelope was handed to a reader

vars == <<now, nextTick, tick, tab, conns, req, rdr, crashed, dcount>>

IdleReq == [pc |-> "idle", shape |-> "ok", addr |-> "", conn |-> 0, ctx |-> "live", status |-> 0]
IdleRdr == [pc |-> "idle", conn |-> 0, ctx |-> "live", oks |-> 0]

Init ==
  /\ now = 0 /\ nextTick = Interval /\ tick = FALSE
  /\ tab = [a \in Addrs |-> 0] /\ conns = <<>>
  /\ req = [r \in Reqs |-> IdleReq] /\ rdr = [d \in Rdrs |-> IdleRdr]
  /\ crashed = FALSE /\ dcount = [r \in Reqs |-> 0]

Closed(c) == conns[c].closed

\* ------------------------------------------------------------ ServeHTTP ----
ReqStart(r, s, a) ==
  /\ req[r].pc = "idle"
  /\ req' = [req EXCEPT ![r] = [IdleReq EXCEPT !.pc = "ladder", !.shape = s, !.addr = a]]
  /\ UNCHANGED <<now, nextTick, tick, tab, conns, rdr, crashed, dcount>>

Passes(s) == WellFormed(s) \/ (s = "nosrc" /\ "NoSourceCheck" \in Bug)

Ladder(r) ==
  /\ req[r].pc = "ladder"
  /\ req' = IF Passes(req[r].shape)
              THEN [req EXCEPT ![r].pc = "retrieve"]
              ELSE [req EXCEPT ![r].pc = "done", ![r].status = 400]
  /\ UNCHANGED <<now, nextTick, tick, tab, conns, rdr, crashed, dcount>>

\* retrieve(): atomic under the conns lock; a new connection has lastActivity 0 ("never")
Retrieve(r) ==
  /\ req[r].pc = "retrieve" /\ "RetrieveNoRecheck" \notin Bug
  /\ LET a == req[r].addr IN
       IF tab[a] # 0
         THEN /\ req' = [req EXCEPT ![r].pc = "window", ![r].conn = tab[a]]
              /\ UNCHANGED <<tab, conns>>
         ELSE /\ Len(conns) < MaxConns
              /\ conns' = Append(conns, [addr |-> a, closed |-> FALSE, last |-> -1])
              /\ tab' = [tab EXCEPT ![a] = Len(conns) + 1]
              /\ req' = [req EXCEPT ![r].pc = "window", ![r].conn = Len(conns) + 1]
  /\ UNCHANGED <<now, nextTick, tick, rdr, crashed, dcount>>

\* the mutation: look-up under the read lock ...
RetrieveLookup(r) ==
  /\ req[r].pc = "retrieve" /\ "RetrieveNoRecheck" \in Bug
  /\ req' = IF tab[req[r].addr] # 0
              THEN [req EXCEPT ![r].pc = "window", ![r].conn = tab[req[r].addr]]
              ELSE [req EXCEPT ![r].pc = "store"]
  /\ UNCHANGED <<now, nextTick, tick, tab, conns, rdr, crashed, dcount>>
\* ... and, after a miss, an unconditional store under the write lock
RetrieveStore(r) ==
  /\ req[r].pc = "store" /\ Len(conns) < MaxConns
  /\ conns' = Append(conns, [addr |-> req[r].addr, closed |-> FALSE, last |-> -1])
  /\ tab' = [tab EXCEPT ![req[r].addr] = Len(conns) + 1]
  /\ req' = [req EXCEPT ![r].pc = "window", ![r].conn = Len(conns) + 1]
  /\ UNCHANGED <<now, nextTick, tick, rdr, crashed, dcount>>

\* the window between retrieve and the send (gate http.serve.window in the real code)
EnterSend(r) ==
  /\ req[r].pc = "window"
  /\ req' = [req EXCEPT ![r].pc = "send"]
  /\ UNCHANGED <<now, nextTick, tick, tab, conns, rdr, crashed, dcount>>

\* `conn.readCh <- &rpc` meets `<-hrw.readCh`.  With the done channel readCh is
\* never closed, so a select may still choose the hand-over on a closed connection.
Handoff(r, d) ==
  /\ req[r].pc = "send" /\ rdr[d].pc = "recv" /\ rdr[d].conn = req[r].conn
  /\ ("CloseReadCh" \in Bug) => ~Closed(req[r].conn)
  /\ dcount' = [dcount EXCEPT ![r] = @ + 1]
  /\ req' = [req EXCEPT ![r].pc = "done", ![r].status = 200]
  /\ rdr' = [rdr EXCEPT ![d].pc = "idle", ![d].oks = @ + 1]
  /\ conns' = [conns EXCEPT ![req[r].conn].last = now]          \* Read: bumpActivity
  /\ UNCHANGED <<now, nextTick, tick, tab, crashed>>

\* shipped code: sending on (or blocked sending on) a closed channel panics
SendPanic(r) ==
  /\ "CloseReadCh" \in Bug
  /\ req[r].pc = "send" /\ Closed(req[r].conn)
  /\ crashed' = TRUE
  /\ req' = [req EXCEPT ![r].pc = "done", ![r].status = -1]
  /\ UNCHANGED <<now, nextTick, tick, tab, conns, rdr, dcount>>

\* fixed code: the select in ServeHTTP leaves through conn.done or r.Context().Done()
SendAbort(r) ==
  /\ req[r].pc = "send"
  /\ \/ Closed(req[r].conn) /\ "CloseReadCh" \notin Bug
     \/ req[r].ctx = "done" /\ "ServeIgnoresCtx" \notin Bug
  /\ req' = [req EXCEPT ![r].pc = "done", ![r].status = 503]
  /\ UNCHANGED <<now, nextTick, tick, tab, conns, rdr, crashed, dcount>>

\* the HTTP client went away
ReqCtxDone(r) ==
  /\ req[r].pc \in {"ladder", "retrieve", "store", "window", "send"} /\ req[r].ctx = "live"
  /\ req' = [req EXCEPT ![r].ctx = "done"]
  /\ UNCHANGED <<now, nextTick, tick, tab, conns, rdr, crashed, dcount>>

\* ------------------------------------------------------- httpReadWriter ----
ReadStart(d, c) ==
  /\ rdr[d].pc = "idle" /\ c \in 1..Len(conns)
  /\ rdr' = [rdr EXCEPT ![d].pc = "recv", ![d].conn = c, ![d].ctx = "live"]
  /\ UNCHANGED <<now, nextTick, tick, tab, conns, req, crashed, dcount>>

ReadCtxDone(d) ==
  /\ rdr[d].pc = "recv" /\ rdr[d].ctx = "live"
  /\ rdr' = [rdr EXCEPT ![d].ctx = "done"]
  /\ UNCHANGED <<now, nextTick, tick, tab, conns, req, crashed, dcount>>

\* Read fails: connection closed (both versions), or its ctx is done (fixed)
ReadAbort(d) ==
  /\ rdr[d].pc = "recv"
  /\ \/ Closed(rdr[d].conn)
     \/ rdr[d].ctx = "done" /\ "ReadIgnoresCtx" \notin Bug
  /\ rdr' = [rdr EXCEPT ![d].pc = "idle"]
  /\ UNCHANGED <<now, nextTick, tick, tab, conns, req, crashed, dcount>>

\* unregisterLocked(addr): closes whatever connection is registered for addr
Unregistered(a) ==
  [c \in 1..Len(conns) |-> IF tab[a] = c THEN [conns[c] EXCEPT !.closed = TRUE] ELSE conns[c]]

\* Write: bumpActivity, then the POST; a failed POST calls hrw.cancel() = unregister(addr)
Write(c, ok) ==
  /\ Writes /\ c \in 1..Len(conns)
  /\ IF ok
       THEN /\ conns' = [conns EXCEPT ![c].last = now]
            /\ UNCHANGED tab
       ELSE /\ conns' = [Unregistered(conns[c].addr) EXCEPT ![c].last = now]
            /\ tab' = [tab EXCEPT ![conns[c].addr] = 0]
  /\ UNCHANGED <<now, nextTick, tick, req, rdr, crashed, dcount>>

\* ---------------------------------------------------- clock and cleaner ----
Advance(s) ==
  /\ now + s <= MaxTime
  /\ now' = now + s
  /\ tick' = (tick \/ Fires(now + s, nextTick))
  /\ nextTick' = NextTick(now + s, nextTick, Interval)
  /\ UNCHANGED <<tab, conns, req, rdr, crashed, dcount>>

\* one cleaner run: reads the clock, then under the lock closes every idle registered connection
Clean ==
  /\ tick /\ tick' = FALSE
  /\ conns' = [c \in 1..Len(conns) |->
                 IF tab[conns[c].addr] = c /\ Idle(now, conns[c].last, Timeout)
                   THEN [conns[c] EXCEPT !.closed = TRUE] ELSE conns[c]]
  /\ tab' = [a \in Addrs |->
               IF tab[a] # 0 /\ Idle(now, conns[tab[a]].last, Timeout) THEN 0 ELSE tab[a]]
  /\ UNCHANGED <<now, nextTick, req, rdr, crashed, dcount>>

\* steps of the implementation (as opposed to its environment)
ImplNext ==
  \/ \E r \in Reqs : Ladder(r) \/ Retrieve(r) \/ RetrieveLookup(r) \/ RetrieveStore(r)
                     \/ EnterSend(r) \/ SendPanic(r) \/ SendAbort(r)
                     \/ \E d \in Rdrs : Handoff(r, d)
  \/ \E d \in Rdrs : ReadAbort(d)
  \/ Clean

EnvNext ==
  \/ \E r \in Reqs, s \in UseShapes, a \in Addrs : ReqStart(r, s, a)
  \/ \E r \in Reqs : ReqCtxDone(r)
  \/ \E d \in Rdrs : ReadCtxDone(d) \/ \E c \in 1..Len(conns) : ReadStart(d, c)
  \/ \E c \in 1..Len(conns), ok \in BOOLEAN : Write(c, ok)
  \/ \E s \in Advances : Advance(s)

Next == ~crashed /\ (ImplNext \/ EnvNext)

Spec == Init /\ [][Next]_vars
\* every thread that can leave its blocking operation eventually does
FairSpec ==
  /\ Spec
  /\ \A r \in Reqs : WF_vars(SendAbort(r) \/ SendPanic(r))
  /\ \A d \in Rdrs : WF_vars(ReadAbort(d))

\* ------------------------------------------------------------ properties ----
NoCrash == ~crashed

\* malformed => 400 and never delivered
LadderSound ==
  \A r \in Reqs : ~WellFormed(req[r].shape) =>
     /\ dcount[r] = 0
     /\ req[r].pc \in {"idle", "ladder", "done"}
     /\ req[r].pc = "done" => req[r].status = 400

\* One connection per source: every connection object that is not closed is THE registered one of
\* its address - only registered connections are announced once, receive all envelopes of the source
\* and are seen by the cleaner (so that the idle timeout can fail their readers).
LiveConnsRegistered == \A c \in 1..Len(conns) : ~conns[c].closed => tab[conns[c].addr] = c

\* exactly once, and the answer says so
AtMostOnce == \A r \in Reqs : dcount[r] <= 1
OkIffDelivered == \A r \in Reqs : req[r].pc = "done" => ((req[r].status = 200) <=> (dcount[r] = 1))

\* readers' results add up
ReadersCount ==
  LET RECURSIVE Sum(_)
      Sum(S) == IF S = {} THEN 0 ELSE LET x == CHOOSE x \in S : TRUE IN rdr[x].oks + Sum(S \ {x})
      RECURSIVE SumD(_)
      SumD(S) == IF S = {} THEN 0 ELSE LET x == CHOOSE x \in S : TRUE IN dcount[x] + SumD(S \ {x})
  IN Sum(Rdrs) = SumD(Reqs)

\* "a blocked Read returns once its ctx is done", "an idle connection fails its
\* readers", "ServeHTTP does not block for ever": whenever the implementation
\* has no step left, whoever is still blocked has a live ctx and an open connection
LegitPending ==
  (~crashed /\ ~ENABLED ImplNext) =>
     /\ \A d \in Rdrs : rdr[d].pc = "recv" => (rdr[d].ctx = "live" /\ ~Closed(rdr[d].conn))
     /\ \A r \in Reqs : req[r].pc = "send" => (req[r].ctx = "live" /\ ~Closed(req[r].conn))
     /\ \A r \in Reqs : req[r].pc \in {"idle", "send", "done"}

\* the same as liveness
ReadUnblocks == \A d \in Rdrs : (rdr[d].pc = "recv" /\ (rdr[d].ctx = "done" \/ Closed(rdr[d].conn))) ~> (rdr[d].pc = "idle")
ServeUnblocks == \A r \in Reqs : (req[r].pc = "send" /\ (req[r].ctx = "done" \/ Closed(req[r].conn))) ~> (req[r].pc = "done")
=============================================================================
