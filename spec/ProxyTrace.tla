----------------------------- MODULE ProxyTrace -----------------------------
(***************************************************************************)
(* Trace validation for the proxy (properties C16 and C17).                *)
(*                                                                         *)
(* Every line of an NDJSON trace recorded from a real goat.Proxy (runner   *)
(* harness/driver/x_proxy.go) must be explained by an action below with    *)
(* the recorded arguments; the state is what an observer of the proxy's    *)
(* connections can know:                                                   *)
(*   cs[i].in   envelopes the peer of connection i wrote, not yet accepted *)
(*   cur        the envelope accepted last and what must happen to it      *)
(*   cs[i].out  envelopes routed to connection i, not yet written to it    *)
(*   reg        name -> connection the proxy must have registered          *)
(* The routing decision is the one of ProxyRoute.tla, which Proxy.tla      *)
(* model-checks.  One state per line: the specification is deterministic.  *)
(*                                                                         *)
(* C16: PeerRead must take an envelope of `out` (exactly once), equal to   *)
(* the written one except for the routing fields (content token, source),  *)
(* with destination / record / next as computed by ProxyRoute, on the      *)
(* connection registered (or dialled once, on demand) for the computed     *)
(* target, never overtaking an earlier envelope of the same source         *)
(* connection; an accepted valid envelope is followed by route or drop;    *)
(* at Quiesce nothing is pending towards a healthy peer.  API level (RPC   *)
(* workloads): every completed call got its own data, a stream reported    *)
(* complete received every message sent.                                   *)
(* The ONLY tolerated loss is the named deviation ProxyDropFull: a         *)
(* proxy.drop event on a full (16) queue (known finding D11); each use is  *)
(* announced with a TRACE_DEVIATION line for the orchestrator.             *)
(*                                                                         *)
(* C17: an envelope with a missing header or a foreign source is accepted  *)
(* and then nothing (cur.st = "quiet"); a Crash line has no action; remove *)
(* may only unregister a failed connection; every detected failure has a   *)
(* Disconnect; envelopes written after Cancel are never accepted and the   *)
(* census after Cancel is 0; Quiesce demands delivery to healthy peers     *)
(* whatever the others do.                                                 *)
(***************************************************************************)
EXTENDS ProxyRoute, FiniteSets, TLC, Json, IOUtils

CONSTANT Off      \* rule groups to switch off (unused: single-property families)

VARIABLES
  l,          \* position in the trace
  pc,         \* [fam, mode, px, ic]
  phase,      \* "run" | "unwind" | "end"
  cs,         \* sequence of connection records
  reg,        \* name -> index into cs
  cur,        \* [st: "none"|"route"|"early"|"quiet"|"done", env, target]
  cancelled,  \* the proxy's context has been cancelled
  dropped,    \* destinations with a proxy.drop event (deviation ProxyDropFull)
  calls, hs, hOfC, pend   \* API level: calls, handlers, call -> handler, pending ops before Quiesce

rvars == <<cs, reg, cur, cancelled, dropped>>
avars == <<calls, hs, hOfC, pend>>
vars == <<pc, phase, cs, reg, cur, cancelled, dropped, calls, hs, hOfC, pend>>

Trace == ndJsonDeserialize(IOEnv.VERIF_TRACE)
E == Trace[l]
Is(name) == l <= Len(Trace) /\ Trace[l].ev = name /\ l' = l + 1
Run(name) == Is(name) /\ phase = "run"

Cap == 16     \* clientBufferSize: the per-destination queue of the proxy

Get(f, k, d) == IF k \in DOMAIN f THEN f[k] ELSE d
Put(f, k, v) == (k :> v) @@ f
Del(f, k) == [x \in DOMAIN f \ {k} |-> f[x]]
RemoveAt(s, k) == SubSeq(s, 1, k - 1) \o SubSeq(s, k + 1, Len(s))
Min(S) == CHOOSE x \in S : \A y \in S : x <= y

\* the orchestrator turns these lines into KNOWN-FINDING (or VIOLATION if unlisted)
Deviation(name) == PrintT(<<"TRACE_DEVIATION", name, l>>)

NoCur == [st |-> "none", target |-> "", env |-> [id |-> ""], q0 |-> 0, race |-> FALSE, dconn |-> 0]
NewConn(name, hn, st) ==
  [name |-> name, hn |-> hn, st |-> st, in |-> <<>>, out |-> <<>>, stuck |-> FALSE, rfail |-> FALSE,
   wfail |-> FALSE, wdet |-> FALSE, derr |-> FALSE, must |-> FALSE, rep |-> 0, att |-> "", prev |-> 0]

Init == /\ pc = [fam |-> "", mode |-> "env", px |-> "px", ic |-> [kind |-> "nil", from |-> "", to |-> ""]]
        /\ phase = "end" /\ cs = <<>> /\ reg = <<>> /\ cur = NoCur /\ cancelled = FALSE /\ dropped = {}
        /\ calls = <<>> /\ hs = <<>> /\ hOfC = <<>> /\ pend = {}
TraceInit == Init /\ l = 1

MdV(k) == LET i == CHOOSE i \in DOMAIN E.md : E.md[i].k = k IN E.md[i].v

TBegin ==
  /\ Is("Begin")
  /\ pc' = [fam |-> E.k, mode |-> E.x, px |-> E.msg,
            ic |-> [kind |-> MdV("icpt")[1], from |-> MdV("icpt")[2], to |-> MdV("icpt")[3]]]
  /\ phase' = "run" /\ cs' = <<>> /\ reg' = <<>> /\ cur' = NoCur /\ cancelled' = FALSE /\ dropped' = {}
  /\ calls' = <<>> /\ hs' = <<>> /\ hOfC' = <<>> /\ pend' = {}

Has(hn) == \E i \in DOMAIN cs : cs[i].hn = hn
Idx(hn) == CHOOSE i \in DOMAIN cs : cs[i].hn = hn
\* a connection whose failure the proxy has been shown (C17: only such a one may be unregistered)
Failed(c) == c.rfail \/ c.wdet \/ c.derr

-----------------------------------------------------------------------------
(* the relay                                                               *)

TAttach ==   \* Proxy.AddClient(name, conn): replaces whatever is registered under the name
  /\ Run("Attach") /\ ~Has(E.n)
  \* (att / prev: an AddClient running in a goroutine of its own is logged before it takes the table's lock; until its
  \* AttachRet, events of the registration it replaces may still follow)
  /\ cs' = Append(cs, [NewConn(E.k, E.n, "live") EXCEPT !.att = IF E.res = "async" THEN "ing" ELSE "",
                                                      !.prev = IF E.k \in DOMAIN reg THEN reg[E.k] ELSE 0])
  /\ reg' = Put(reg, E.k, Len(cs) + 1)
  \* AddClient of another goroutine overlapping the routing of an envelope for that very name: the dispatcher's
  \* lookup may have happened before or after the registration (cur.race)
  /\ cur' = IF cur.st = "route" /\ cur.target = E.k THEN [cur EXCEPT !.race = TRUE] ELSE cur
  /\ UNCHANGED <<pc, phase, cancelled, dropped, avars>>
\* AddClient has returned: from now on every envelope ACCEPTED for the name goes to this connection
TAttachRet == /\ Run("AttachRet") /\ Has(E.n)
              /\ cs' = [cs EXCEPT ![Idx(E.n)].att = ""]
              /\ UNCHANGED <<pc, phase, reg, cur, cancelled, dropped, avars>>

EnvOf(i) == [id |-> E.env.id, h |-> (E.env.h = 1), src |-> E.env.src, dst |-> E.env.dst,
             rec |-> MdV("rec"), nxt |-> MdV("nxt"), tok |-> E.x, sc |-> i, late |-> cancelled]

TPeerWrite ==
  /\ Run("PeerWrite") /\ Has(E.n)
  /\ LET i == Idx(E.n) IN
       /\ cs[i].name = E.k
       /\ cs' = [cs EXCEPT ![i].in = Append(@, EnvOf(i))]
  /\ UNCHANGED <<pc, phase, reg, cur, cancelled, dropped, avars>>

\* proxy.accept(id, source): serveClients received the envelope from a read loop.
\* The previous envelope must be done with; one written after Cancel is never accepted.
AcceptCands == {i \in DOMAIN cs : cs[i].name = E.x /\ Len(cs[i].in) > 0 /\ Head(cs[i].in).id = E.msg}
TAccept ==
  /\ Run("Hk") /\ E.k = "proxy.accept"
  /\ cur.st \notin {"route", "early"}
  /\ AcceptCands # {}
  /\ LET i == Min(AcceptCands)
         e == Head(cs[i].in)
         ok == SourceOk(cs[i].name, e) /\ IcptOk(pc.ic, e) IN
       /\ ~e.late
       /\ cs' = [cs EXCEPT ![i].in = Tail(@)]
       \* q0: what is queued for the target now.  serveClients is the only enqueuer, so the
       \* queue it finds at its enqueue attempt is a suffix of this one.
       /\ cur' = IF ok THEN [st |-> "route", target |-> Target(pc.ic, e), env |-> Forwarded(pc.px, pc.ic, e), race |-> FALSE, dconn |-> 0,
                              q0 |-> IF Target(pc.ic, e) \in DOMAIN reg THEN Len(cs[reg[Target(pc.ic, e)]].out) ELSE 0]
                       ELSE [st |-> "quiet", target |-> "", env |-> e, q0 |-> 0, race |-> FALSE, dconn |-> 0]
  /\ UNCHANGED <<pc, phase, reg, cancelled, dropped, avars>>

\* proxy.route(id, qlen, destination): enqueued for the registered connection of
\* the computed target, or for a connection that is now being dialled (once)
TRoute ==
  /\ Run("Hk") /\ E.k = "proxy.route"
  /\ cur.st = "route" /\ E.msg = cur.env.id /\ E.x = cur.target
  /\ LET new == cur.target \notin DOMAIN reg
         j == IF new THEN Len(cs) + 1 ELSE reg[cur.target]
         cs1 == IF new THEN Append(cs, NewConn(cur.target, 0, "dialing")) ELSE cs IN
       /\ cs' = [cs1 EXCEPT ![j].out = Append(@, cur.env)]
       /\ reg' = IF new THEN Put(reg, cur.target, j) ELSE reg
       /\ E.n <= Cap     \* (the logged length is read after the send: only its bound is meaningful)
  /\ cur' = [cur EXCEPT !.st = "done"]
  /\ UNCHANGED <<pc, phase, cancelled, dropped, avars>>

\* The envelope's lookup missed just before an overlapping AddClient registered the name: it is queued for a
\* connection dialled on demand, which the attached connection has replaced in the table already
TRouteRace ==
  /\ Run("Hk") /\ E.k = "proxy.route"
  /\ cur.st = "route" /\ E.msg = cur.env.id /\ E.x = cur.target /\ E.n <= Cap
  /\ cur.race /\ cur.target \in DOMAIN reg
  /\ cs' = IF cur.dconn # 0 THEN [cs EXCEPT ![cur.dconn].out = Append(@, cur.env)]     \* (its dial was logged first)
           ELSE Append(cs, [NewConn(cur.target, 0, "dialing") EXCEPT !.out = <<cur.env>>])
  /\ cur' = [cur EXCEPT !.st = "done"]
  /\ UNCHANGED <<pc, phase, reg, cancelled, dropped, avars>>

\* DEVIATION ProxyDropFull (known finding D11): the envelope is thrown away because
\* the destination's queue is full.  Only a really full queue explains it: at least Cap
\* envelopes were queued for the target and not yet written when this one was accepted.
TDrop ==
  /\ Run("Hk") /\ E.k = "proxy.drop"
  /\ cur.st = "route" /\ E.msg = cur.env.id /\ E.x = cur.target
  /\ cur.target \in DOMAIN reg
  /\ cur.q0 >= Cap /\ E.n <= Cap
  /\ Deviation("ProxyDropFull")
  /\ dropped' = dropped \cup {cur.target}
  /\ cur' = [cur EXCEPT !.st = "done"]
  /\ UNCHANGED <<pc, phase, cs, reg, cancelled, avars>>

\* proxy.remove(name): only a connection that failed may be forgotten (C17:
\* "without disturbing a newer connection attached under the same name")
TRemove ==
  /\ Run("Hk") /\ E.k = "proxy.remove"
  /\ IF E.x \in DOMAIN reg
       THEN LET c == cs[reg[E.x]] IN
            IF c.att = "ing" /\ \E i \in DOMAIN cs : i # reg[E.x] /\ cs[i].name = E.x /\ Failed(cs[i])
              THEN UNCHANGED reg    \* a failed registration (an earlier one, or the dial this routing started) which an
                                    \* AddClient in progress is about to replace - the Attach line is logged before its lock
              ELSE (cancelled \/ Failed(c)) = TRUE /\ reg' = Del(reg, E.x)
       ELSE UNCHANGED reg      \* a second report of a connection that is gone already: nothing to forget
  /\ UNCHANGED <<pc, phase, cs, cur, cancelled, dropped, avars>>

\* the proxy's writeLoop wrote an envelope to the peer of connection n
SameEnv(a, b) == a.id = b.id /\ a.tok = b.tok /\ a.h = b.h /\ a.src = b.src /\ a.dst = b.dst
                 /\ a.rec = b.rec /\ a.nxt = b.nxt
TPeerRead ==
  /\ Run("PeerRead") /\ Has(E.n)
  /\ LET i == Idx(E.n)
         e == EnvOf(0)
         M == {k \in DOMAIN cs[i].out : SameEnv(cs[i].out[k], e)} IN
       /\ cs[i].name = E.k /\ cs[i].st = "live"
       /\ M # {}
       /\ LET k == Min(M) IN
            \* order per source-destination pair
            /\ \A j \in 1..(k - 1) : cs[i].out[j].sc # cs[i].out[k].sc
            /\ cs' = [cs EXCEPT ![i].out = RemoveAt(@, k)]
  /\ UNCHANGED <<pc, phase, reg, cur, cancelled, dropped, avars>>

\* The route hook is emitted after the channel send, so the destination's writeLoop may
\* have written the envelope already: the write is then judged against `cur` and the
\* route event that follows (same goroutine, before the next accept) only closes it.
TPeerReadEarly ==
  /\ Run("PeerRead") /\ Has(E.n)
  /\ cur.st = "route" /\ cur.target \in DOMAIN reg
  /\ (reg[cur.target] = Idx(E.n) \/ (cur.race /\ cur.dconn = Idx(E.n))) = TRUE
  /\ LET i == Idx(E.n)
         e == EnvOf(0) IN
       /\ cs[i].name = E.k /\ cs[i].st = "live"
       /\ SameEnv(cur.env, e)
       /\ {k \in DOMAIN cs[i].out : SameEnv(cs[i].out[k], e)} = {}
       /\ \A j \in DOMAIN cs[i].out : cs[i].out[j].sc # cur.env.sc
  /\ cur' = [cur EXCEPT !.st = "early"]
  /\ UNCHANGED <<pc, phase, cs, reg, cancelled, dropped, avars>>
TRouteLate ==
  /\ Run("Hk") /\ E.k = "proxy.route"
  /\ cur.st = "early" /\ E.msg = cur.env.id /\ E.x = cur.target /\ E.n <= Cap
  /\ cur' = [cur EXCEPT !.st = "done"]
  /\ UNCHANGED <<pc, phase, cs, reg, cancelled, dropped, avars>>

TPWFail ==   \* the proxy's write on connection n returned an (injected) error
  /\ Run("PWFail") /\ Has(E.n) /\ cs[Idx(E.n)].wfail
  /\ cs' = [cs EXCEPT ![Idx(E.n)].wdet = TRUE, ![Idx(E.n)].must = ~cancelled]
  /\ UNCHANGED <<pc, phase, reg, cur, cancelled, dropped, avars>>

\* dial on demand: newConnection(name) is called once per connection created by a route miss
DialCands == {i \in DOMAIN cs : cs[i].name = E.k /\ cs[i].st = "dialing" /\ cs[i].hn = 0}
TDial ==
  /\ Run("Dial") /\ DialCands # {} /\ ~Has(E.n)
  /\ cs' = [cs EXCEPT ![Min(DialCands)].hn = E.n]
  /\ UNCHANGED <<pc, phase, reg, cur, cancelled, dropped, avars>>
\* connect() runs concurrently with the rest of forwardRpc: newConnection may be called
\* before the route hook of the envelope whose lookup missed
TDialEarly ==
  /\ Run("Dial") /\ DialCands = {} /\ ~Has(E.n)
  /\ cur.st = "route" /\ cur.target = E.k /\ cur.dconn = 0
  /\ (E.k \notin DOMAIN reg \/ cur.race) = TRUE     \* (race: the name an overlapping AddClient has registered meanwhile)
  /\ cs' = Append(cs, NewConn(E.k, E.n, "dialing"))
  /\ reg' = IF E.k \notin DOMAIN reg THEN Put(reg, E.k, Len(cs) + 1) ELSE reg
  /\ cur' = [cur EXCEPT !.dconn = Len(cs) + 1]
  /\ UNCHANGED <<pc, phase, cancelled, dropped, avars>>
TDialRet ==
  /\ Run("DialRet") /\ Has(E.n) /\ cs[Idx(E.n)].st = "dialing"
  /\ cs' = IF E.res = "ok" THEN [cs EXCEPT ![Idx(E.n)].st = "live"]
           ELSE [cs EXCEPT ![Idx(E.n)].st = "dead", ![Idx(E.n)].derr = TRUE, ![Idx(E.n)].must = ~cancelled]
  /\ UNCHANGED <<pc, phase, reg, cur, cancelled, dropped, avars>>

TFault ==
  /\ Run("Fault") /\ Has(E.n)
  /\ LET i == Idx(E.n) IN
       cs' = CASE E.k = "stuck" -> [cs EXCEPT ![i].stuck = TRUE]
               [] E.k = "unstick" -> [cs EXCEPT ![i].stuck = FALSE]
               [] E.k = "rfail" -> [cs EXCEPT ![i].rfail = TRUE, ![i].must = (@ \/ ~cancelled)]
               [] E.k = "wfail" -> [cs EXCEPT ![i].wfail = TRUE]
               [] E.k = "pass" -> cs      \* (a stuck peer takes one more envelope: still behind)
  /\ UNCHANGED <<pc, phase, reg, cur, cancelled, dropped, avars>>

\* the disconnect callback: before Cancel it must name a connection that failed
DiscCands == {i \in DOMAIN cs : cs[i].name = E.k /\ Failed(cs[i])}
TDisconnect ==
  /\ Run("Disconnect")
  /\ IF cancelled THEN UNCHANGED cs
     ELSE /\ DiscCands # {}
          /\ LET fresh == {i \in DiscCands : cs[i].rep = 0}
                 i == IF fresh # {} THEN Min(fresh) ELSE Min(DiscCands) IN
               cs' = [cs EXCEPT ![i].rep = @ + 1]
  /\ UNCHANGED <<pc, phase, reg, cur, cancelled, dropped, avars>>

TCancel == /\ Run("Cancel") /\ cancelled' = TRUE
           /\ UNCHANGED <<pc, phase, cs, reg, cur, dropped, avars>>

\* goroutines with goat frames; after Cancel every process of the proxy must be gone
TCensus == /\ Run("Census") /\ (cancelled => E.n = 0)
           /\ UNCHANGED vars

-----------------------------------------------------------------------------
(* API level (RPC workloads through the proxy)                             *)

Excuse(c) == dropped \cap {calls[c].cli, calls[c].srv} # {}
NewCall == [kind |-> E.k, cli |-> E.x, srv |-> E.msg, req |-> "", sent |-> <<>>, closed |-> FALSE, ri |-> 0, term |-> ""]
NewH == [c |-> E.c, kind |-> E.k, sent |-> <<>>, hi |-> 0, ret |-> FALSE, code |-> -1, pay |-> ""]

\* position of the next message in s after index i: exactly i+1, or - only when a
\* proxy.drop event explains the gap - the first later occurrence
NextPos(s, i, pay, exc) ==
  IF i < Len(s) /\ s[i + 1] = pay THEN i + 1
  ELSE IF exc /\ \E j \in (i + 2)..Len(s) : s[j] = pay THEN Min({j \in (i + 2)..Len(s) : s[j] = pay})
  ELSE 0

TRCall == /\ Run("RCall") /\ E.c \notin DOMAIN calls
          /\ calls' = Put(calls, E.c, NewCall)
          /\ UNCHANGED <<pc, phase, rvars, hs, hOfC, pend>>
TUCall == /\ Run("UCall") /\ E.c \in DOMAIN calls
          /\ calls' = [calls EXCEPT ![E.c].req = E.pay]
          /\ UNCHANGED <<pc, phase, rvars, hs, hOfC, pend>>
\* the request reaches its handler once, with its own data
THStart == /\ Run("HStart") /\ E.c \in DOMAIN calls /\ E.c \notin DOMAIN hOfC /\ E.h \notin DOMAIN hs
           /\ calls[E.c].kind = E.k
           /\ (E.k = "unary" => E.pay = calls[E.c].req)
           /\ hs' = Put(hs, E.h, NewH) /\ hOfC' = Put(hOfC, E.c, E.h)
           /\ UNCHANGED <<pc, phase, rvars, calls, pend>>
THRecvRet ==
  /\ Run("HRecvRet") /\ E.h \in DOMAIN hs
  /\ LET c == hs[E.h].c IN
     CASE E.res = "msg" ->
            LET p == NextPos(calls[c].sent, hs[E.h].hi, E.pay, Excuse(c)) IN
              /\ p > 0
              /\ (p # hs[E.h].hi + 1 => Deviation("ProxyDropFullStream"))
              /\ hs' = [hs EXCEPT ![E.h].hi = p]
       [] E.res = "eof" ->
              /\ calls[c].closed
              /\ (hs[E.h].hi = Len(calls[c].sent) \/ (Excuse(c) /\ Deviation("ProxyDropFullStream"))) = TRUE
              /\ UNCHANGED hs
       [] OTHER -> Excuse(c) /\ UNCHANGED hs
  /\ UNCHANGED <<pc, phase, rvars, calls, hOfC, pend>>
THSend == /\ Run("HSend") /\ E.h \in DOMAIN hs
          /\ hs' = [hs EXCEPT ![E.h].sent = Append(@, E.pay)]
          /\ UNCHANGED <<pc, phase, rvars, calls, hOfC, pend>>
THSendRet == /\ Run("HSendRet") /\ E.h \in DOMAIN hs
             /\ (E.res = "ok" \/ Excuse(hs[E.h].c)) = TRUE
             /\ UNCHANGED vars
THRet == /\ Run("HRet") /\ E.h \in DOMAIN hs /\ ~hs[E.h].ret
         /\ hs' = [hs EXCEPT ![E.h].ret = TRUE, ![E.h].code = E.code, ![E.h].pay = E.pay]
         /\ UNCHANGED <<pc, phase, rvars, calls, hOfC, pend>>
\* a unary call completes with exactly what its own handler returned
CodeOk(want, got) == IF want = -2 THEN got # 0 ELSE got = want
TURet == /\ Run("URet") /\ E.c \in DOMAIN hOfC
         /\ LET h == hs[hOfC[E.c]] IN
              /\ h.ret
              /\ IF E.res = "ok" THEN h.code = 0 /\ E.pay = h.pay ELSE h.code # 0 /\ CodeOk(h.code, E.code)
         /\ calls' = [calls EXCEPT ![E.c].term = E.res]
         /\ UNCHANGED <<pc, phase, rvars, hs, hOfC, pend>>
TSOpenRet == /\ Run("SOpenRet") /\ E.c \in DOMAIN calls /\ E.res = "ok" /\ UNCHANGED vars
TSSend == /\ Run("SSend") /\ E.c \in DOMAIN calls
          /\ calls' = [calls EXCEPT ![E.c].sent = Append(@, E.pay)]
          /\ UNCHANGED <<pc, phase, rvars, hs, hOfC, pend>>
TSClose == /\ Run("SClose") /\ E.c \in DOMAIN calls
           /\ calls' = [calls EXCEPT ![E.c].closed = TRUE]
           /\ UNCHANGED <<pc, phase, rvars, hs, hOfC, pend>>
\* a stream delivers the handler's messages in order; it is reported complete
\* (io.EOF) only after an OK return and with every message received - or a drop explains it
TSRecvRet ==
  /\ Run("SRecvRet") /\ E.c \in DOMAIN calls
  /\ CASE calls[E.c].term # "" ->        \* a finished stream stays finished
            /\ E.res # "msg" /\ (calls[E.c].term = "eof" => E.res = "eof")
            /\ UNCHANGED calls
       [] E.res = "msg" ->
            /\ E.c \in DOMAIN hOfC
            /\ LET h == hs[hOfC[E.c]]
                   p == NextPos(h.sent, calls[E.c].ri, E.pay, Excuse(E.c)) IN
                 /\ p > 0
                 /\ (p # calls[E.c].ri + 1 => Deviation("ProxyDropFullStream"))
                 /\ calls' = [calls EXCEPT ![E.c].ri = p]
       [] E.res = "eof" ->
            /\ E.c \in DOMAIN hOfC
            /\ LET h == hs[hOfC[E.c]] IN
                 /\ h.ret /\ h.code = 0
                 /\ (calls[E.c].ri = Len(h.sent) \/ (Excuse(E.c) /\ Deviation("ProxyDropFullStream"))) = TRUE
            /\ calls' = [calls EXCEPT ![E.c].term = "eof"]
       [] OTHER ->
            /\ (Excuse(E.c) \/ (E.c \in DOMAIN hOfC /\ hs[hOfC[E.c]].ret /\ hs[hOfC[E.c]].code # 0
                                 /\ CodeOk(hs[hOfC[E.c]].code, E.code))) = TRUE
            /\ calls' = [calls EXCEPT ![E.c].term = "err"]
  /\ UNCHANGED <<pc, phase, rvars, hs, hOfC, pend>>
\* lines that only announce an operation whose outcome is judged at its return; GatePark /
\* GatePass: the scenario holds / releases the dispatcher (enqueue window, interceptor, callback)
TNote == /\ phase = "run" /\ l <= Len(Trace) /\ l' = l + 1
         /\ E.ev \in {"SOpen", "SRecv", "HRecv", "SSendRet", "SCloseRet", "Tick", "GatePark", "GatePass",
                     \* (metadata calls of handlers and callers: what they put on the wire is judged envelope by envelope)
                     "HSendHdr", "HSendHdrRet", "HSetHdr", "HSetTrl", "SHdr", "SHdrRet", "STrl"}
         /\ UNCHANGED vars
TPend == /\ Run("Pend") /\ E.c \in DOMAIN calls
         /\ pend' = pend \cup {E.c}
         /\ UNCHANGED <<pc, phase, rvars, calls, hs, hOfC>>

-----------------------------------------------------------------------------
\* Everything is durably blocked.  What is still pending must be explained.
OutExcused(c) == c.stuck \/ c.rfail \/ c.wfail \/ c.derr \/ (c.st = "dialing" /\ c.hn # 0) \/ cancelled
TQuiesce ==
  /\ Run("Quiesce")
  /\ cur.st \notin {"route", "early"}                          \* accepted => routed or dropped
  /\ \A i \in DOMAIN cs :
       /\ (Len(cs[i].out) > 0 => OutExcused(cs[i]))           \* delivered unless the destination is stuck / failed
       /\ (cs[i].st = "dialing" /\ cs[i].hn = 0 => cancelled) \* dialled on demand
       /\ (~cancelled /\ cs[i].must => cs[i].rep > 0)         \* every failure reported
       \* traffic to a healthy registered peer was not delayed: its reader has consumed everything
       /\ (~cancelled /\ ~cs[i].rfail /\ ~cs[i].wdet /\ cs[i].st = "live" => Len(cs[i].in) = 0)
  /\ \A c \in pend : Excuse(c)                                \* calls complete as on a direct connection
  /\ pend' = {}
  /\ UNCHANGED <<pc, phase, rvars, calls, hs, hOfC>>

TUnwind == /\ Run("Unwind") /\ phase' = "unwind" /\ UNCHANGED <<pc, rvars, avars>>
\* harness teardown is not judged - but the process must survive it and leave nothing behind
TTeardown == /\ phase = "unwind" /\ l <= Len(Trace) /\ l' = l + 1
             /\ E.ev \notin {"Begin", "End", "Crash", "Wedged", "Leak"}
             /\ UNCHANGED vars
TEnd == /\ Is("End") /\ phase = "unwind" /\ phase' = "end" /\ UNCHANGED <<pc, rvars, avars>>

\* Crash, Wedged and Leak lines have no action: a trace containing one is rejected.

TraceNext ==
  \/ TBegin \/ TAttach \/ TAttachRet \/ TPeerWrite \/ TAccept \/ TRoute \/ TRouteRace \/ TDrop \/ TRemove \/ TPeerRead \/ TPeerReadEarly \/ TRouteLate \/ TPWFail
  \/ TDial \/ TDialEarly \/ TDialRet \/ TFault \/ TDisconnect \/ TCancel \/ TCensus
  \/ TRCall \/ TUCall \/ THStart \/ THRecvRet \/ THSend \/ THSendRet \/ THRet \/ TURet
  \/ TSOpenRet \/ TSSend \/ TSClose \/ TSRecvRet \/ TNote \/ TPend
  \/ TQuiesce \/ TUnwind \/ TTeardown \/ TEnd

NextBegin == IF \E j \in (l + 1)..Len(Trace) : Trace[j].ev = "Begin"
               THEN CHOOSE j \in (l + 1)..Len(Trace) :
                      Trace[j].ev = "Begin" /\ \A i \in (l + 1)..(j - 1) : Trace[i].ev # "Begin"
               ELSE Len(Trace) + 1
TSkip == /\ l <= Len(Trace)
         /\ ~ENABLED TraceNext
         /\ PrintT(<<"TRACE_REJECTED_AT_LINE", l, "of", Len(Trace)>>)
         /\ l' = NextBegin
         /\ UNCHANGED vars

\* A scenario is accepted iff SOME branch of the specification consumes it up to its End line (where logged
\* arguments leave a choice the branches that guessed wrong die on the way and are reported by TSkip, too):
SegOk == (l <= Len(Trace) /\ Trace[l].ev = "End") => PrintT(<<"TRACE_SEGMENT_OK", l>>)
TraceSpec == TraceInit /\ [][(TraceNext /\ SegOk) \/ TSkip]_<<vars, l>>
=============================================================================
