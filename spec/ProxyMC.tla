------------------------------- MODULE ProxyMC -------------------------------
(***************************************************************************)
(* Model-checking closure of Proxy.tla: values for the constants that a    *)
(* TLC configuration file cannot spell (tuples, records, sets of tuples).  *)
(* Peers: a, b attached; d dialable; u unknown (its dial fails).           *)
(***************************************************************************)
EXTENDS Proxy

MC_Attached == <<"a", "b">>
MC_IcptNil == [kind |-> "nil", from |-> "", to |-> ""]
MC_IcptRw == [kind |-> "rw", from |-> "u", to |-> "d"]     \* address rewriting u -> d
MC_IcptRej == [kind |-> "rej", from |-> "u", to |-> ""]    \* envelopes for u are refused
MC_NoRoute == {<<>>}
MC_Routes == {<<>>, <<"b", "a">>}                          \* with a return route: last hop a, b remains
=============================================================================
