------------------------------ MODULE GoatImpl ------------------------------
(***************************************************************************)
(* Layer I of the GOAT specification: what the code does.                  *)
(*                                                                         *)
(* One client connection (internal/client/multiplexer.go,                  *)
(* internal/client/stream.go) and the server connection serving it         *)
(* (server.go, internal/server/stream.go), at the granularity of the       *)
(* code's critical sections and channel operations:                        *)
(*   - a Go mutex is a holder variable, so "blocks while holding the lock" *)
(*     is visible;                                                         *)
(*   - a buffered channel is a bounded sequence, an unbuffered channel a   *)
(*     rendezvous (one joint action of sender and receiver);               *)
(*   - a select with several ready cases is a nondeterministic choice;     *)
(*   - contexts are flags;  closing a channel is a flag.                   *)
(*                                                                         *)
(* Processes: per unary call a caller; per streaming call a user goroutine *)
(* and the stream's read loop; the multiplexer's read loop; the server's   *)
(* read loop, its writer, its unary workers; per stream a handler.         *)
(* The environment delivers envelopes in order, may cancel a caller, fail  *)
(* the client's reads and stop the server.                                 *)
(*                                                                         *)
(* The constant Fixes names the defects that are repaired in the modelled  *)
(* tree (D1 D4 D5 D6 D7s D7c D10 ...): with the full set the model is the  *)
(* code as it is now and must satisfy every property; removing one element *)
(* models the tree before that repair and TLC must find the violation      *)
(* (cfg files GoatImpl_Bug_*.cfg) - the evidence that the properties are   *)
(* not vacuous, and the source of the directed schedules replayed on the   *)
(* real code.                                                              *)
(***************************************************************************)
EXTENDS Integers, Sequences, FiniteSets, TLC

CONSTANTS
  Unaries,      \* set of unary call names
  Streams,      \* set of streaming call names
  NWorkers,     \* size of the server's unary worker pool (8 in the code)
  MaxC, MaxS,   \* messages a stream's caller / handler may send
  Fixes,        \* repaired defects present in the modelled tree
  EnvCancel,    \* the environment may cancel streaming callers
  EnvReadFail,  \* the environment may fail the client's transport read
  EnvStop,      \* the environment may stop the server
  EnvSendFail,  \* the transport may refuse one write of a stream's SendMsg while the connection stays up
  EarlyReturn,  \* handlers may return before consuming what the caller sent
  HandlerWaits, \* a handler may stop receiving and wait for its context, once its caller has cancelled
  AdvClient,    \* number of arbitrary envelopes an adversarial peer may send to the server (C12)
  AdvServer,    \* number of arbitrary envelopes an adversarial peer may send to the client (C13);
                \* when > 0 there is no real server
  AdvIds,       \* the stream ids the adversarial peer uses
  Cap           \* transport capacity per direction: a Write blocks while Cap envelopes are unread (0 = no back-pressure;
                \* goat's own channel transport is a rendezvous, its HTTP transport one POST at a time)

Calls == Unaries \cup Streams
Workers == 1..NWorkers
Fixed(d) == d \in Fixes
NoId == 0

VARIABLES
  \* ---- wires (ordered, reliable) -------------------------------------------
  c2s, s2c,         \* sequences of envelopes [id, k] k in open body close rst req / hdr body ok err rst resp
  \* ---- client multiplexer ---------------------------------------------------
  nextId,           \* streamCounter
  idOf,             \* call -> id (NoId before registration)
  muxLock,          \* holder of rm.mutex ("" = free)
  reg,              \* registered ids
  respCh,           \* id -> sequence (capacity 1) of envelopes handed to the call
  respDone,         \* ids whose done channel is closed
  rErr,             \* sticky read error of the connection
  mpc, mcur,        \* multiplexer read loop: pc and the envelope in hand
  cReadFailed,      \* the client's transport read fails from now on
  \* ---- unary callers ---------------------------------------------------------
  upc, ures, ucan,  \* pc, result ("" | "ok" | "err"), caller's context cancelled
  \* ---- streaming calls: user goroutine ----------------------------------------
  spc, sop,         \* pc and current operation
  nsent, closed, cancelled, sres, \* messages sent, half-closed, caller cancelled, sequence of Recv results
  \* ---- streaming calls: read loop --------------------------------------------
  rpc, rcur,        \* pc and envelope in hand
  sctx,             \* stream context done
  rdone, rterm, rChClosed, prot, \* protected.done, terminal result, rCh closed, holder of cs.protected
  gotTrailer,
  \* ---- server connection ------------------------------------------------------
  srpc, srcur,      \* read loop
  srvLock,          \* holder of h.mu
  sreg,             \* registered stream ids
  sch,              \* id -> sequence (capacity 1): the stream's inbound queue
  hctx,             \* ids whose handler context is done
  hdoneSig,         \* ids whose done signal has been sent (unregisterStream)
  connCtx,          \* h.ctx done
  wpc, wcur,        \* workers
  wrpc, wrcur,      \* writer
  hpc, hrecv, hsentN, hres, hsawEOF, \* handlers (per id): pc, received count, sent count, return status
  waitFor,          \* cancelAndWaitForStreams: id being waited for
  sReadFailed, stopped, serveRet,
  advN              \* envelopes injected by the adversarial peer so far

vars == <<c2s, s2c, nextId, idOf, muxLock, reg, respCh, respDone, rErr, mpc, mcur, cReadFailed,
          upc, ures, ucan, spc, sop, nsent, closed, cancelled, sres, rpc, rcur, sctx, rdone, rterm, rChClosed, prot,
          gotTrailer, srpc, srcur, srvLock, sreg, sch, hctx, hdoneSig, connCtx, wpc, wcur, wrpc, wrcur,
          hpc, hrecv, hsentN, hres, hsawEOF, waitFor, sReadFailed, stopped, serveRet, advN>>

Ids == 1..(IF Cardinality(Calls) < 2 THEN 2 ELSE Cardinality(Calls))
CallOf(id) == CHOOSE c \in Calls : idOf[c] = id
IsStreamId(id) == \E c \in Streams : idOf[c] = id
Env(id, k) == [id |-> id, k |-> k]
Free == ""
Room(wire) == Cap = 0 \/ Len(wire) < Cap

-----------------------------------------------------------------------------
Init ==
  /\ c2s = <<>> /\ s2c = <<>>
  /\ nextId = 1 /\ idOf = [c \in Calls |-> NoId]
  /\ muxLock = Free /\ reg = {} /\ respCh = [i \in Ids |-> <<>>] /\ respDone = {} /\ rErr = FALSE
  /\ mpc = "read" /\ mcur = Env(0, "") /\ cReadFailed = FALSE
  /\ upc = [c \in Unaries |-> "check"] /\ ures = [c \in Unaries |-> ""] /\ ucan = [c \in Unaries |-> FALSE]
  /\ spc = [c \in Streams |-> "check"] /\ sop = [c \in Streams |-> ""]
  /\ nsent = [c \in Streams |-> 0] /\ closed = [c \in Streams |-> FALSE] /\ cancelled = [c \in Streams |-> FALSE]
  /\ sres = [c \in Streams |-> <<>>]
  /\ rpc = [c \in Streams |-> "off"] /\ rcur = [c \in Streams |-> Env(0, "")]
  /\ sctx = [c \in Streams |-> FALSE] /\ rdone = [c \in Streams |-> FALSE] /\ rterm = [c \in Streams |-> ""]
  /\ rChClosed = [c \in Streams |-> FALSE] /\ prot = [c \in Streams |-> Free] /\ gotTrailer = [c \in Streams |-> FALSE]
  /\ srpc = (IF AdvServer > 0 THEN "end" ELSE "read") /\ srcur = Env(0, "") /\ srvLock = Free /\ sreg = {}
  /\ sch = [i \in Ids |-> <<>>] /\ hctx = {} /\ hdoneSig = {} /\ connCtx = FALSE
  /\ wpc = [w \in Workers |-> "take"] /\ wcur = [w \in Workers |-> Env(0, "")]
  /\ wrpc = "take" /\ wrcur = Env(0, "")
  /\ hpc = [i \in Ids |-> "off"] /\ hrecv = [i \in Ids |-> 0] /\ hsentN = [i \in Ids |-> 0]
  /\ hres = [i \in Ids |-> ""] /\ hsawEOF = [i \in Ids |-> FALSE]
  /\ waitFor = NoId /\ sReadFailed = FALSE /\ stopped = FALSE /\ serveRet = FALSE /\ advN = 0

-----------------------------------------------------------------------------
(* Helpers: the single writer of the server connection.  A process that     *)
(* wants to write offers an envelope; the offer completes in one joint step *)
(* with the writer when it is at "take" (unbuffered writeChan).             *)

WriterTakes(e) == wrpc = "take" /\ ~connCtx /\ wrpc' = "write" /\ wrcur' = e

-----------------------------------------------------------------------------
(* Unary caller (multiplexer.go CallUnaryMethod)                             *)

UCheck(c) ==
  /\ upc[c] = "check" /\ muxLock = Free
  /\ IF rErr THEN upc' = [upc EXCEPT ![c] = "done"] /\ ures' = [ures EXCEPT ![c] = "err"]
            ELSE upc' = [upc EXCEPT ![c] = "reg"] /\ UNCHANGED ures
  /\ UNCHANGED <<c2s, s2c, nextId, idOf, muxLock, reg, respCh, respDone, rErr, mpc, mcur, cReadFailed, ucan,
                 spc, sop, nsent, closed, cancelled, sres, rpc, rcur, sctx, rdone, rterm, rChClosed, prot,
                 gotTrailer, srpc, srcur, srvLock, sreg, sch, hctx, hdoneSig, connCtx, wpc, wcur, wrpc, wrcur,
                 hpc, hrecv, hsentN, hres, hsawEOF, waitFor, sReadFailed, stopped, serveRet, advN>>

\* allocate the id and register, in one critical section; D5: re-check the sticky error inside it
URegister(c) ==
  /\ upc[c] = "reg" /\ muxLock = Free
  /\ IF Fixed("D5") /\ rErr
       THEN /\ upc' = [upc EXCEPT ![c] = "done"] /\ ures' = [ures EXCEPT ![c] = "err"]
            /\ UNCHANGED <<nextId, idOf, reg, advN>>
       ELSE /\ idOf' = [idOf EXCEPT ![c] = nextId] /\ nextId' = nextId + 1
            /\ reg' = reg \cup {nextId}
            /\ upc' = [upc EXCEPT ![c] = "write"] /\ UNCHANGED ures
  /\ UNCHANGED <<c2s, s2c, muxLock, respCh, respDone, rErr, mpc, mcur, cReadFailed, ucan,
                 spc, sop, nsent, closed, cancelled, sres, rpc, rcur, sctx, rdone, rterm, rChClosed, prot,
                 gotTrailer, srpc, srcur, srvLock, sreg, sch, hctx, hdoneSig, connCtx, wpc, wcur, wrpc, wrcur,
                 hpc, hrecv, hsentN, hres, hsawEOF, waitFor, sReadFailed, stopped, serveRet, advN>>

\* rm.rw.Write(ctx, request): blocks while the transport has no room; gives up with the caller's context
UWrite(c) ==
  /\ upc[c] = "write"
  /\ IF ucan[c]
       THEN /\ ures' = [ures EXCEPT ![c] = "err"] /\ upc' = [upc EXCEPT ![c] = "unreg"] /\ UNCHANGED c2s
       ELSE /\ Room(c2s)
            /\ c2s' = Append(c2s, Env(idOf[c], "req"))
            /\ upc' = [upc EXCEPT ![c] = "await"] /\ UNCHANGED ures
  /\ UNCHANGED <<s2c, nextId, idOf, muxLock, reg, respCh, respDone, rErr, mpc, mcur, cReadFailed, ucan,
                 spc, sop, nsent, closed, cancelled, sres, rpc, rcur, sctx, rdone, rterm, rChClosed, prot,
                 gotTrailer, srpc, srcur, srvLock, sreg, sch, hctx, hdoneSig, connCtx, wpc, wcur, wrpc, wrcur,
                 hpc, hrecv, hsentN, hres, hsawEOF, waitFor, sReadFailed, stopped, serveRet, advN>>

\* select { response; done closed; ctx.Done }
UAwait(c) ==
  /\ upc[c] = "await"
  /\ LET id == idOf[c] IN
     \/ /\ respCh[id] # <<>>
        /\ ures' = [ures EXCEPT ![c] = IF Head(respCh[id]).k = "resp" THEN "ok" ELSE "err"]
        /\ respCh' = [respCh EXCEPT ![id] = Tail(@)]
     \/ /\ id \in respDone
        /\ ures' = [ures EXCEPT ![c] = "err"] /\ UNCHANGED respCh
     \/ /\ ucan[c]                                  \* case <-ctx.Done()
        /\ ures' = [ures EXCEPT ![c] = "err"] /\ UNCHANGED respCh
  /\ upc' = [upc EXCEPT ![c] = "unreg"]
  /\ UNCHANGED <<c2s, s2c, nextId, idOf, muxLock, reg, respDone, rErr, mpc, mcur, cReadFailed, ucan,
                 spc, sop, nsent, closed, cancelled, sres, rpc, rcur, sctx, rdone, rterm, rChClosed, prot,
                 gotTrailer, srpc, srcur, srvLock, sreg, sch, hctx, hdoneSig, connCtx, wpc, wcur, wrpc, wrcur,
                 hpc, hrecv, hsentN, hres, hsawEOF, waitFor, sReadFailed, stopped, serveRet, advN>>

UUnregister(c) ==
  /\ upc[c] = "unreg" /\ muxLock = Free
  /\ reg' = reg \ {idOf[c]}
  /\ respDone' = IF idOf[c] \in reg THEN respDone \cup {idOf[c]} ELSE respDone
  /\ upc' = [upc EXCEPT ![c] = "done"]
  /\ UNCHANGED <<c2s, s2c, nextId, idOf, muxLock, respCh, rErr, mpc, mcur, cReadFailed, ures, ucan,
                 spc, sop, nsent, closed, cancelled, sres, rpc, rcur, sctx, rdone, rterm, rChClosed, prot,
                 gotTrailer, srpc, srcur, srvLock, sreg, sch, hctx, hdoneSig, connCtx, wpc, wcur, wrpc, wrcur,
                 hpc, hrecv, hsentN, hres, hsawEOF, waitFor, sReadFailed, stopped, serveRet, advN>>

-----------------------------------------------------------------------------
(* Multiplexer read loop (multiplexer.go readLoop / handleResponse / closeError) *)

MuxRead ==
  /\ mpc = "read"
  /\ IF cReadFailed
       THEN mpc' = "fail" /\ UNCHANGED <<s2c, mcur, ucan, advN>>
       ELSE s2c # <<>> /\ mcur' = Head(s2c) /\ s2c' = Tail(s2c) /\ mpc' = "lookup"
  /\ UNCHANGED <<c2s, nextId, idOf, muxLock, reg, respCh, respDone, rErr, cReadFailed, upc, ures, ucan,
                 spc, sop, nsent, closed, cancelled, sres, rpc, rcur, sctx, rdone, rterm, rChClosed, prot,
                 gotTrailer, srpc, srcur, srvLock, sreg, sch, hctx, hdoneSig, connCtx, wpc, wcur, wrpc, wrcur,
                 hpc, hrecv, hsentN, hres, hsawEOF, waitFor, sReadFailed, stopped, serveRet, advN>>

\* look the call up under the lock; D7c: release it before the hand-off
MuxLookup ==
  /\ mpc = "lookup" /\ muxLock = Free
  /\ IF mcur.id \in reg
       THEN IF Fixed("D7c") THEN mpc' = "handoff" /\ UNCHANGED muxLock
                            ELSE mpc' = "handoff" /\ muxLock' = "mux"
       ELSE mpc' = "read" /\ UNCHANGED muxLock      \* unknown id: logged and dropped
  /\ UNCHANGED <<c2s, s2c, nextId, idOf, reg, respCh, respDone, rErr, mcur, cReadFailed, upc, ures, ucan,
                 spc, sop, nsent, closed, cancelled, sres, rpc, rcur, sctx, rdone, rterm, rChClosed, prot,
                 gotTrailer, srpc, srcur, srvLock, sreg, sch, hctx, hdoneSig, connCtx, wpc, wcur, wrpc, wrcur,
                 hpc, hrecv, hsentN, hres, hsawEOF, waitFor, sReadFailed, stopped, serveRet, advN>>

\* select { ch <- rpc ; <-done }   (before D7c: ch <- rpc only, holding the lock)
MuxHandoff ==
  /\ mpc = "handoff"
  /\ \/ /\ Len(respCh[mcur.id]) < 1
        /\ respCh' = [respCh EXCEPT ![mcur.id] = Append(@, mcur)]
     \/ /\ Fixed("D7c") /\ mcur.id \in respDone
        /\ UNCHANGED respCh
  /\ muxLock' = IF muxLock = "mux" THEN Free ELSE muxLock
  /\ mpc' = "read"
  /\ UNCHANGED <<c2s, s2c, nextId, idOf, reg, respDone, rErr, mcur, cReadFailed, upc, ures, ucan,
                 spc, sop, nsent, closed, cancelled, sres, rpc, rcur, sctx, rdone, rterm, rChClosed, prot,
                 gotTrailer, srpc, srcur, srvLock, sreg, sch, hctx, hdoneSig, connCtx, wpc, wcur, wrpc, wrcur,
                 hpc, hrecv, hsentN, hres, hsawEOF, waitFor, sReadFailed, stopped, serveRet, advN>>

\* closeError: record the error, wake and drop every registered call
MuxFail ==
  /\ mpc = "fail" /\ muxLock = Free
  /\ rErr' = TRUE /\ respDone' = respDone \cup reg /\ reg' = {}
  /\ mpc' = "end"
  /\ UNCHANGED <<c2s, s2c, nextId, idOf, muxLock, respCh, mcur, cReadFailed, upc, ures, ucan,
                 spc, sop, nsent, closed, cancelled, sres, rpc, rcur, sctx, rdone, rterm, rChClosed, prot,
                 gotTrailer, srpc, srcur, srvLock, sreg, sch, hctx, hdoneSig, connCtx, wpc, wcur, wrpc, wrcur,
                 hpc, hrecv, hsentN, hres, hsawEOF, waitFor, sReadFailed, stopped, serveRet, advN>>

-----------------------------------------------------------------------------
(* Streaming call: the user's goroutine (client.go newStream, stream.go       *)
(* SendMsg / RecvMsg / CloseSend)                                             *)

SCheck(c) ==
  /\ spc[c] = "check" /\ muxLock = Free
  /\ spc' = [spc EXCEPT ![c] = IF rErr THEN "done" ELSE "reg"]
  /\ UNCHANGED <<c2s, s2c, nextId, idOf, muxLock, reg, respCh, respDone, rErr, mpc, mcur, cReadFailed, upc, ures, ucan,
                 sop, nsent, closed, cancelled, sres, rpc, rcur, sctx, rdone, rterm, rChClosed, prot,
                 gotTrailer, srpc, srcur, srvLock, sreg, sch, hctx, hdoneSig, connCtx, wpc, wcur, wrpc, wrcur,
                 hpc, hrecv, hsentN, hres, hsawEOF, waitFor, sReadFailed, stopped, serveRet, advN>>

SRegister(c) ==
  /\ spc[c] = "reg" /\ muxLock = Free
  /\ IF Fixed("D5") /\ rErr
       THEN spc' = [spc EXCEPT ![c] = "done"] /\ UNCHANGED <<nextId, idOf, reg, advN>>
       ELSE /\ idOf' = [idOf EXCEPT ![c] = nextId] /\ nextId' = nextId + 1
            /\ reg' = reg \cup {nextId}
            /\ spc' = [spc EXCEPT ![c] = "open"]
  /\ UNCHANGED <<c2s, s2c, muxLock, respCh, respDone, rErr, mpc, mcur, cReadFailed, upc, ures, ucan,
                 sop, nsent, closed, cancelled, sres, rpc, rcur, sctx, rdone, rterm, rChClosed, prot,
                 gotTrailer, srpc, srcur, srvLock, sreg, sch, hctx, hdoneSig, connCtx, wpc, wcur, wrpc, wrcur,
                 hpc, hrecv, hsentN, hres, hsawEOF, waitFor, sReadFailed, stopped, serveRet, advN>>

\* the open envelope is written and the stream's read loop starts
SOpen(c) ==
  /\ spc[c] = "open" /\ Room(c2s)
  /\ c2s' = Append(c2s, Env(idOf[c], "open"))
  /\ spc' = [spc EXCEPT ![c] = "run"] /\ rpc' = [rpc EXCEPT ![c] = "read"]
  /\ UNCHANGED <<s2c, nextId, idOf, muxLock, reg, respCh, respDone, rErr, mpc, mcur, cReadFailed, upc, ures, ucan,
                 sop, nsent, closed, cancelled, sres, rcur, sctx, rdone, rterm, rChClosed, prot,
                 gotTrailer, srpc, srcur, srvLock, sreg, sch, hctx, hdoneSig, connCtx, wpc, wcur, wrpc, wrcur,
                 hpc, hrecv, hsentN, hres, hsawEOF, waitFor, sReadFailed, stopped, serveRet, advN>>

Terminal(c) == sres[c] # <<>> /\ sres[c][Len(sres[c])] \in {"eof", "err", "canceled"}

\* the user picks its next operation
SChoose(c) ==
  /\ spc[c] = "run"
  /\ \/ nsent[c] < MaxC /\ ~closed[c] /\ ~Terminal(c) /\ sop' = [sop EXCEPT ![c] = "send"] /\ spc' = [spc EXCEPT ![c] = "opcheck"]
     \/ EnvSendFail /\ nsent[c] < MaxC /\ ~closed[c] /\ ~Terminal(c) /\ sop' = [sop EXCEPT ![c] = "sendx"] /\ spc' = [spc EXCEPT ![c] = "opcheck"]
     \/ ~closed[c] /\ ~Terminal(c) /\ sop' = [sop EXCEPT ![c] = "close"] /\ spc' = [spc EXCEPT ![c] = "closew"]
     \* a well-behaved caller: it blocks in a receive before half-closing only if it can still give up
     \* (cancel); otherwise caller and handler could wait for each other by their own design
     \/ ~Terminal(c) /\ (closed[c] \/ EnvCancel) /\ sop' = [sop EXCEPT ![c] = "recv"] /\ spc' = [spc EXCEPT ![c] = "opcheck"]
     \/ Terminal(c) /\ sop' = [sop EXCEPT ![c] = ""] /\ spc' = [spc EXCEPT ![c] = "done"]
  /\ UNCHANGED <<c2s, s2c, nextId, idOf, muxLock, reg, respCh, respDone, rErr, mpc, mcur, cReadFailed, upc, ures, ucan,
                 nsent, closed, cancelled, sres, rpc, rcur, sctx, rdone, rterm, rChClosed, prot,
                 gotTrailer, srpc, srcur, srvLock, sreg, sch, hctx, hdoneSig, connCtx, wpc, wcur, wrpc, wrcur,
                 hpc, hrecv, hsentN, hres, hsawEOF, waitFor, sReadFailed, stopped, serveRet, advN>>

\* readErrorIfDone (needs cs.protected)
SOpCheck(c) ==
  /\ spc[c] = "opcheck" /\ prot[c] = Free
  /\ IF rdone[c]
       THEN /\ sres' = [sres EXCEPT ![c] = IF sop[c] = "recv" THEN Append(@, rterm[c]) ELSE @]
            /\ nsent' = [nsent EXCEPT ![c] = IF sop[c] \in {"send", "sendx"} THEN MaxC ELSE @]   \* a failed send ends sending
            /\ spc' = [spc EXCEPT ![c] = "run"]
       ELSE /\ spc' = [spc EXCEPT ![c] = IF sop[c] = "recv" THEN "recvsel" ELSE IF sop[c] = "sendx" THEN "sendxw" ELSE "sendw"]
            /\ UNCHANGED <<sres, nsent, advN>>
  /\ UNCHANGED <<c2s, s2c, nextId, idOf, muxLock, reg, respCh, respDone, rErr, mpc, mcur, cReadFailed, upc, ures, ucan,
                 sop, closed, cancelled, rpc, rcur, sctx, rdone, rterm, rChClosed, prot,
                 gotTrailer, srpc, srcur, srvLock, sreg, sch, hctx, hdoneSig, connCtx, wpc, wcur, wrpc, wrcur,
                 hpc, hrecv, hsentN, hres, hsawEOF, waitFor, sReadFailed, stopped, serveRet, advN>>

\* rw.Write(cs.ctx, body): blocks while the transport has no room and fails when the stream context is done - then
\* SendMsg calls cs.teardown(false) like after a refused write: cancel and unregister, in two steps
SSendWrite(c) ==
  /\ spc[c] = "sendw"
  /\ IF sctx[c]
       THEN /\ nsent' = [nsent EXCEPT ![c] = MaxC] /\ UNCHANGED c2s
            /\ spc' = [spc EXCEPT ![c] = "td1"]
       ELSE /\ Room(c2s)
            /\ c2s' = Append(c2s, Env(idOf[c], "body")) /\ nsent' = [nsent EXCEPT ![c] = @ + 1]
            /\ spc' = [spc EXCEPT ![c] = "run"]
  /\ UNCHANGED <<s2c, nextId, idOf, muxLock, reg, respCh, respDone, rErr, mpc, mcur, cReadFailed, upc, ures, ucan,
                 sop, closed, cancelled, sres, rpc, rcur, sctx, rdone, rterm, rChClosed, prot,
                 gotTrailer, srpc, srcur, srvLock, sreg, sch, hctx, hdoneSig, connCtx, wpc, wcur, wrpc, wrcur,
                 hpc, hrecv, hsentN, hres, hsawEOF, waitFor, sReadFailed, stopped, serveRet, advN>>

\* rw.Write refused by the transport (the connection stays up): SendMsg calls cs.teardown(false), which
\* unregisters the stream and cancels its context - two steps, so the read loop can run in between.
\* D22: the context is cancelled FIRST (the read loop decides about RST_STREAM by looking at it).
SSendRefused(c) ==
  /\ spc[c] = "sendxw"
  /\ nsent' = [nsent EXCEPT ![c] = MaxC + 1]     \* MaxC + 1 marks "a Send of this stream was refused" 
  /\ spc' = [spc EXCEPT ![c] = "td1"]
  /\ UNCHANGED <<c2s, s2c, nextId, idOf, muxLock, reg, respCh, respDone, rErr, mpc, mcur, cReadFailed, upc, ures, ucan,
                 sop, closed, cancelled, sres, rpc, rcur, sctx, rdone, rterm, rChClosed, prot, gotTrailer, srpc,
                 srcur, srvLock, sreg, sch, hctx, hdoneSig, connCtx, wpc, wcur, wrpc, wrcur, hpc, hrecv, hsentN,
                 hres, hsawEOF, waitFor, sReadFailed, stopped, serveRet, advN>>

TdUnregister(c) ==
  /\ muxLock = Free
  /\ reg' = reg \ {idOf[c]}
  /\ respDone' = IF idOf[c] \in reg THEN respDone \cup {idOf[c]} ELSE respDone
  /\ UNCHANGED sctx
TdCancel(c) == sctx' = [sctx EXCEPT ![c] = TRUE] /\ UNCHANGED <<reg, respDone>>

STeardown1(c) ==
  /\ spc[c] = "td1"
  /\ IF Fixed("D22") THEN TdCancel(c) ELSE TdUnregister(c)
  /\ spc' = [spc EXCEPT ![c] = "td2"]
  /\ UNCHANGED <<c2s, s2c, nextId, idOf, muxLock, respCh, rErr, mpc, mcur, cReadFailed, upc, ures, ucan, sop, nsent,
                 closed, cancelled, sres, rpc, rcur, rdone, rterm, rChClosed, prot, gotTrailer, srpc, srcur,
                 srvLock, sreg, sch, hctx, hdoneSig, connCtx, wpc, wcur, wrpc, wrcur, hpc, hrecv, hsentN, hres,
                 hsawEOF, waitFor, sReadFailed, stopped, serveRet, advN>>

STeardown2(c) ==
  /\ spc[c] = "td2"
  /\ IF Fixed("D22") THEN TdUnregister(c) ELSE TdCancel(c)
  /\ spc' = [spc EXCEPT ![c] = "run"]
  /\ UNCHANGED <<c2s, s2c, nextId, idOf, muxLock, respCh, rErr, mpc, mcur, cReadFailed, upc, ures, ucan, sop, nsent,
                 closed, cancelled, sres, rpc, rcur, rdone, rterm, rChClosed, prot, gotTrailer, srpc, srcur,
                 srvLock, sreg, sch, hctx, hdoneSig, connCtx, wpc, wcur, wrpc, wrcur, hpc, hrecv, hsentN, hres,
                 hsawEOF, waitFor, sReadFailed, stopped, serveRet, advN>>

SCloseWrite(c) ==
  /\ spc[c] = "closew" /\ (sctx[c] \/ Room(c2s))
  /\ c2s' = IF sctx[c] THEN c2s ELSE Append(c2s, Env(idOf[c], "close"))
  /\ closed' = [closed EXCEPT ![c] = TRUE]
  /\ spc' = [spc EXCEPT ![c] = "run"]
  /\ UNCHANGED <<s2c, nextId, idOf, muxLock, reg, respCh, respDone, rErr, mpc, mcur, cReadFailed, upc, ures, ucan,
                 sop, nsent, cancelled, sres, rpc, rcur, sctx, rdone, rterm, rChClosed, prot,
                 gotTrailer, srpc, srcur, srvLock, sreg, sch, hctx, hdoneSig, connCtx, wpc, wcur, wrpc, wrcur,
                 hpc, hrecv, hsentN, hres, hsawEOF, waitFor, sReadFailed, stopped, serveRet, advN>>

\* RecvMsg's select { ctx.Done ; rCh }.  The rCh hand-off is the joint action RlHandoff below.
\* D1: in the ctx branch re-check the terminal state (needs cs.protected) before reporting the context.
SRecvCtx(c) ==
  /\ spc[c] = "recvsel" /\ sctx[c]
  /\ IF Fixed("D1")
       THEN /\ prot[c] = Free
            /\ sres' = [sres EXCEPT ![c] = Append(@, IF rdone[c] THEN rterm[c] ELSE "canceled")]
       ELSE sres' = [sres EXCEPT ![c] = Append(@, "canceled")]
  /\ spc' = [spc EXCEPT ![c] = "run"]
  /\ UNCHANGED <<c2s, s2c, nextId, idOf, muxLock, reg, respCh, respDone, rErr, mpc, mcur, cReadFailed, upc, ures, ucan,
                 sop, nsent, closed, cancelled, rpc, rcur, sctx, rdone, rterm, rChClosed, prot,
                 gotTrailer, srpc, srcur, srvLock, sreg, sch, hctx, hdoneSig, connCtx, wpc, wcur, wrpc, wrcur,
                 hpc, hrecv, hsentN, hres, hsawEOF, waitFor, sReadFailed, stopped, serveRet, advN>>

\* rCh closed: report the terminal result (readErrorIfDone needs cs.protected)
SRecvClosed(c) ==
  /\ spc[c] = "recvsel" /\ rChClosed[c] /\ prot[c] = Free
  /\ sres' = [sres EXCEPT ![c] = Append(@, rterm[c])]
  /\ spc' = [spc EXCEPT ![c] = "run"]
  /\ UNCHANGED <<c2s, s2c, nextId, idOf, muxLock, reg, respCh, respDone, rErr, mpc, mcur, cReadFailed, upc, ures, ucan,
                 sop, nsent, closed, cancelled, rpc, rcur, sctx, rdone, rterm, rChClosed, prot,
                 gotTrailer, srpc, srcur, srvLock, sreg, sch, hctx, hdoneSig, connCtx, wpc, wcur, wrpc, wrcur,
                 hpc, hrecv, hsentN, hres, hsawEOF, waitFor, sReadFailed, stopped, serveRet, advN>>

-----------------------------------------------------------------------------
(* Streaming call: the stream's read loop (stream.go readLoop and its defer)  *)

\* rw.Read(cs.ctx): select { respCh ; done ; ctx }
RlRead(c) ==
  /\ rpc[c] = "read"
  /\ LET id == idOf[c] IN
     \/ /\ respCh[id] # <<>>
        /\ rcur' = [rcur EXCEPT ![c] = Head(respCh[id])] /\ respCh' = [respCh EXCEPT ![id] = Tail(@)]
        /\ rpc' = [rpc EXCEPT ![c] = "classify"] /\ UNCHANGED rterm
     \* D24: the registration is gone AND the context is done - the context's error is what the caller is told
     \/ /\ id \in respDone /\ UNCHANGED <<rcur, respCh, advN>>
        /\ rterm' = [rterm EXCEPT ![c] = IF Fixed("D24") /\ sctx[c] /\ ~rErr THEN "canceled" ELSE "err"]
        /\ rpc' = [rpc EXCEPT ![c] = "xlock"]
     \/ /\ sctx[c] /\ UNCHANGED <<rcur, respCh, advN>>
        /\ rterm' = [rterm EXCEPT ![c] = "canceled"] /\ rpc' = [rpc EXCEPT ![c] = "xlock"]
  /\ UNCHANGED <<c2s, s2c, nextId, idOf, muxLock, reg, respDone, rErr, mpc, mcur, cReadFailed, upc, ures, ucan,
                 spc, sop, nsent, closed, cancelled, sres, sctx, rdone, rChClosed, prot,
                 gotTrailer, srpc, srcur, srvLock, sreg, sch, hctx, hdoneSig, connCtx, wpc, wcur, wrpc, wrcur,
                 hpc, hrecv, hsentN, hres, hsawEOF, waitFor, sReadFailed, stopped, serveRet, advN>>

RlClassify(c) ==
  /\ rpc[c] = "classify"
  /\ LET k == rcur[c].k IN
     IF k \in {"ok", "err", "rst"}
       THEN /\ rterm' = [rterm EXCEPT ![c] = IF k = "ok" THEN "eof" ELSE "err"]
            /\ gotTrailer' = [gotTrailer EXCEPT ![c] = TRUE]
            /\ rpc' = [rpc EXCEPT ![c] = "xlock"]
       ELSE /\ rpc' = [rpc EXCEPT ![c] = IF k = "body" THEN "handoff" ELSE "read"]
            /\ UNCHANGED <<rterm, gotTrailer, advN>>
  /\ UNCHANGED <<c2s, s2c, nextId, idOf, muxLock, reg, respCh, respDone, rErr, mpc, mcur, cReadFailed, upc, ures, ucan,
                 spc, sop, nsent, closed, cancelled, sres, rcur, sctx, rdone, rChClosed, prot,
                 srpc, srcur, srvLock, sreg, sch, hctx, hdoneSig, connCtx, wpc, wcur, wrpc, wrcur,
                 hpc, hrecv, hsentN, hres, hsawEOF, waitFor, sReadFailed, stopped, serveRet, advN>>

\* select { cs.rCh <- body (rendezvous with a RecvMsg in its select) ; ctx }
RlHandoff(c) ==
  /\ rpc[c] = "handoff"
  /\ \/ /\ spc[c] = "recvsel"
        /\ sres' = [sres EXCEPT ![c] = Append(@, "msg")]
        /\ spc' = [spc EXCEPT ![c] = "run"]
        /\ rpc' = [rpc EXCEPT ![c] = "read"] /\ UNCHANGED rterm
     \/ /\ sctx[c]
        /\ rterm' = [rterm EXCEPT ![c] = "canceled"] /\ rpc' = [rpc EXCEPT ![c] = "xlock"]
        /\ UNCHANGED <<sres, spc, advN>>
  /\ UNCHANGED <<c2s, s2c, nextId, idOf, muxLock, reg, respCh, respDone, rErr, mpc, mcur, cReadFailed, upc, ures, ucan,
                 sop, nsent, closed, cancelled, rcur, sctx, rdone, rChClosed, prot,
                 gotTrailer, srpc, srcur, srvLock, sreg, sch, hctx, hdoneSig, connCtx, wpc, wcur, wrpc, wrcur,
                 hpc, hrecv, hsentN, hres, hsawEOF, waitFor, sReadFailed, stopped, serveRet, advN>>

\* the deferred block: lock cs.protected; close(rCh); [RST]; unregister; cancel; done = true; unlock
RlExitLock(c) ==
  /\ rpc[c] = "xlock" /\ prot[c] = Free
  /\ prot' = [prot EXCEPT ![c] = "rl"] /\ rChClosed' = [rChClosed EXCEPT ![c] = TRUE]
  /\ rpc' = [rpc EXCEPT ![c] = "xrst"]
  /\ UNCHANGED <<c2s, s2c, nextId, idOf, muxLock, reg, respCh, respDone, rErr, mpc, mcur, cReadFailed, upc, ures, ucan,
                 spc, sop, nsent, closed, cancelled, sres, rcur, sctx, rdone, rterm,
                 gotTrailer, srpc, srcur, srvLock, sreg, sch, hctx, hdoneSig, connCtx, wpc, wcur, wrpc, wrcur,
                 hpc, hrecv, hsentN, hres, hsawEOF, waitFor, sReadFailed, stopped, serveRet, advN>>

RlExitRst(c) ==
  /\ rpc[c] = "xrst"
  \* (the reset is written with a deadline of 30 s of its own: it waits for room; RlExitRstTimeout below gives it up)
  /\ (~gotTrailer[c] /\ sctx[c]) => Room(c2s)
  /\ c2s' = IF ~gotTrailer[c] /\ sctx[c] THEN Append(c2s, Env(idOf[c], "rst")) ELSE c2s
  /\ rpc' = [rpc EXCEPT ![c] = "xunreg"]
  /\ UNCHANGED <<s2c, nextId, idOf, muxLock, reg, respCh, respDone, rErr, mpc, mcur, cReadFailed, upc, ures, ucan,
                 spc, sop, nsent, closed, cancelled, sres, rcur, sctx, rdone, rterm, rChClosed, prot,
                 gotTrailer, srpc, srcur, srvLock, sreg, sch, hctx, hdoneSig, connCtx, wpc, wcur, wrpc, wrcur,
                 hpc, hrecv, hsentN, hres, hsawEOF, waitFor, sReadFailed, stopped, serveRet, advN>>

RlExitUnreg(c) ==
  /\ rpc[c] = "xunreg" /\ muxLock = Free
  /\ reg' = reg \ {idOf[c]}
  /\ respDone' = IF idOf[c] \in reg THEN respDone \cup {idOf[c]} ELSE respDone
  /\ sctx' = [sctx EXCEPT ![c] = TRUE]            \* cancel()
  /\ rpc' = [rpc EXCEPT ![c] = "xdone"]
  /\ UNCHANGED <<c2s, s2c, nextId, idOf, muxLock, respCh, rErr, mpc, mcur, cReadFailed, upc, ures, ucan,
                 spc, sop, nsent, closed, cancelled, sres, rcur, rdone, rterm, rChClosed, prot,
                 gotTrailer, srpc, srcur, srvLock, sreg, sch, hctx, hdoneSig, connCtx, wpc, wcur, wrpc, wrcur,
                 hpc, hrecv, hsentN, hres, hsawEOF, waitFor, sReadFailed, stopped, serveRet, advN>>

RlExitDone(c) ==
  /\ rpc[c] = "xdone"
  /\ rdone' = [rdone EXCEPT ![c] = TRUE] /\ prot' = [prot EXCEPT ![c] = Free]
  /\ rpc' = [rpc EXCEPT ![c] = "end"]
  /\ UNCHANGED <<c2s, s2c, nextId, idOf, muxLock, reg, respCh, respDone, rErr, mpc, mcur, cReadFailed, upc, ures, ucan,
                 spc, sop, nsent, closed, cancelled, sres, rcur, sctx, rterm, rChClosed,
                 gotTrailer, srpc, srcur, srvLock, sreg, sch, hctx, hdoneSig, connCtx, wpc, wcur, wrpc, wrcur,
                 hpc, hrecv, hsentN, hres, hsawEOF, waitFor, sReadFailed, stopped, serveRet, advN>>

-----------------------------------------------------------------------------
(* Server read loop (server.go serve / processStreamingRpc / resetStream)     *)

SrvRead ==
  /\ srpc = "read"
  /\ IF sReadFailed \/ connCtx
       THEN srpc' = "exit" /\ UNCHANGED <<c2s, srcur, advN>>
       ELSE c2s # <<>> /\ srcur' = Head(c2s) /\ c2s' = Tail(c2s)
            /\ srpc' = IF Head(c2s).k = "req" THEN "toworker" ELSE "lock"
  /\ UNCHANGED <<s2c, nextId, idOf, muxLock, reg, respCh, respDone, rErr, mpc, mcur, cReadFailed, upc, ures, ucan,
                 spc, sop, nsent, closed, cancelled, sres, rpc, rcur, sctx, rdone, rterm, rChClosed, prot,
                 gotTrailer, srvLock, sreg, sch, hctx, hdoneSig, connCtx, wpc, wcur, wrpc, wrcur,
                 hpc, hrecv, hsentN, hres, hsawEOF, waitFor, sReadFailed, stopped, serveRet, advN>>

\* select { unaryRpcChan <- args (rendezvous with an idle worker) ; h.ctx }
SrvToWorker ==
  /\ srpc = "toworker"
  /\ \/ \E w \in Workers : /\ wpc[w] = "take" /\ ~connCtx
                          /\ wpc' = [wpc EXCEPT ![w] = "run"] /\ wcur' = [wcur EXCEPT ![w] = srcur]
                          /\ srpc' = "read"
     \/ connCtx /\ srpc' = "exit" /\ UNCHANGED <<wpc, wcur, advN>>
  /\ UNCHANGED <<c2s, s2c, nextId, idOf, muxLock, reg, respCh, respDone, rErr, mpc, mcur, cReadFailed, upc, ures, ucan,
                 spc, sop, nsent, closed, cancelled, sres, rpc, rcur, sctx, rdone, rterm, rChClosed, prot,
                 gotTrailer, srcur, srvLock, sreg, sch, hctx, hdoneSig, connCtx, wrpc, wrcur,
                 hpc, hrecv, hsentN, hres, hsawEOF, waitFor, sReadFailed, stopped, serveRet, advN>>

\* processStreamingRpc: take h.mu and classify
SrvLockClassify ==
  /\ srpc = "lock" /\ srvLock = Free
  /\ LET id == srcur.id
         k == srcur.k
         same == UNCHANGED <<hrecv, hsentN, hres, hsawEOF, hdoneSig>> IN
     IF id \in sreg
       THEN IF k = "rst"
              THEN hctx' = hctx \cup {id} /\ srpc' = "read" /\ UNCHANGED <<srvLock, sreg, hpc>> /\ same
              ELSE srvLock' = "sr" /\ srpc' = "forward" /\ UNCHANGED <<hctx, sreg, hpc>> /\ same
       ELSE IF k = "body"
              THEN srvLock' = "sr" /\ srpc' = "reset" /\ UNCHANGED <<hctx, sreg, hpc>> /\ same
            ELSE IF k = "open" /\ id \in Ids
              THEN \* a fresh handler incarnation for this id
                   /\ sreg' = sreg \cup {id} /\ hpc' = [hpc EXCEPT ![id] = "run"]
                   /\ hctx' = hctx \ {id} /\ hdoneSig' = hdoneSig \ {id}
                   /\ hrecv' = [hrecv EXCEPT ![id] = 0] /\ hsentN' = [hsentN EXCEPT ![id] = 0]
                   /\ hres' = [hres EXCEPT ![id] = ""] /\ hsawEOF' = [hsawEOF EXCEPT ![id] = FALSE]
                   /\ srpc' = "read" /\ UNCHANGED srvLock
            ELSE srpc' = "read" /\ UNCHANGED <<srvLock, hctx, sreg, hpc>> /\ same  \* close / reset for an unknown stream
  /\ UNCHANGED <<c2s, s2c, nextId, idOf, muxLock, reg, respCh, respDone, rErr, mpc, mcur, cReadFailed, upc, ures, ucan,
                 spc, sop, nsent, closed, cancelled, sres, rpc, rcur, sctx, rdone, rterm, rChClosed, prot,
                 gotTrailer, srcur, sch, connCtx, wpc, wcur, wrpc, wrcur,
                 waitFor, sReadFailed, stopped, serveRet, advN>>

\* select { handler.ch <- rpc ; handler ctx (D7s) ; h.ctx }  - holding h.mu
SrvForward ==
  /\ srpc = "forward"
  /\ LET id == srcur.id IN
     \/ Len(sch[id]) < 1 /\ sch' = [sch EXCEPT ![id] = Append(@, srcur)] /\ srpc' = "read"
     \/ Fixed("D7s") /\ id \in hctx /\ UNCHANGED sch /\ srpc' = "read"
     \/ connCtx /\ UNCHANGED sch /\ srpc' = "exit"
  /\ srvLock' = Free
  /\ UNCHANGED <<c2s, s2c, nextId, idOf, muxLock, reg, respCh, respDone, rErr, mpc, mcur, cReadFailed, upc, ures, ucan,
                 spc, sop, nsent, closed, cancelled, sres, rpc, rcur, sctx, rdone, rterm, rChClosed, prot,
                 gotTrailer, srcur, sreg, hctx, hdoneSig, connCtx, wpc, wcur, wrpc, wrcur,
                 hpc, hrecv, hsentN, hres, hsawEOF, waitFor, sReadFailed, stopped, serveRet, advN>>

\* resetStream - holding h.mu.  D4: through the writer; before: written directly by the read loop
SrvReset ==
  /\ srpc = "reset"
  /\ IF Fixed("D4")
       THEN \/ WriterTakes(Env(srcur.id, "rst")) /\ srpc' = "read" /\ UNCHANGED s2c
            \/ connCtx /\ srpc' = "exit" /\ UNCHANGED <<s2c, wrpc, wrcur, advN>>
       ELSE s2c' = Append(s2c, Env(srcur.id, "rst")) /\ srpc' = "read" /\ UNCHANGED <<wrpc, wrcur, advN>>
  /\ srvLock' = Free
  /\ UNCHANGED <<c2s, nextId, idOf, muxLock, reg, respCh, respDone, rErr, mpc, mcur, cReadFailed, upc, ures, ucan,
                 spc, sop, nsent, closed, cancelled, sres, rpc, rcur, sctx, rdone, rterm, rChClosed, prot,
                 gotTrailer, srcur, sreg, sch, hctx, hdoneSig, connCtx, wpc, wcur,
                 hpc, hrecv, hsentN, hres, hsawEOF, waitFor, sReadFailed, stopped, serveRet, advN>>

\* serve returns: cancel the connection context, then cancelAndWaitForStreams
SrvExit ==
  /\ srpc = "exit"
  /\ connCtx' = TRUE /\ srpc' = "cwlock"
  /\ UNCHANGED <<c2s, s2c, nextId, idOf, muxLock, reg, respCh, respDone, rErr, mpc, mcur, cReadFailed, upc, ures, ucan,
                 spc, sop, nsent, closed, cancelled, sres, rpc, rcur, sctx, rdone, rterm, rChClosed, prot,
                 gotTrailer, srcur, srvLock, sreg, sch, hctx, hdoneSig, wpc, wcur, wrpc, wrcur,
                 hpc, hrecv, hsentN, hres, hsawEOF, waitFor, sReadFailed, stopped, serveRet, advN>>

SrvCancelAndWait ==
  /\ srpc = "cwlock" /\ srvLock = Free
  /\ IF sreg = {}
       THEN srpc' = "end" /\ serveRet' = TRUE /\ UNCHANGED <<hctx, waitFor, advN>>
       ELSE \E id \in sreg : hctx' = hctx \cup {id} /\ waitFor' = id /\ srpc' = "cwwait" /\ UNCHANGED serveRet
  /\ UNCHANGED <<c2s, s2c, nextId, idOf, muxLock, reg, respCh, respDone, rErr, mpc, mcur, cReadFailed, upc, ures, ucan,
                 spc, sop, nsent, closed, cancelled, sres, rpc, rcur, sctx, rdone, rterm, rChClosed, prot,
                 gotTrailer, srcur, srvLock, sreg, sch, hdoneSig, connCtx, wpc, wcur, wrpc, wrcur,
                 hpc, hrecv, hsentN, hres, hsawEOF, sReadFailed, stopped, advN>>

SrvWaitDone ==
  /\ srpc = "cwwait" /\ waitFor \in hdoneSig
  /\ srpc' = "cwlock"
  /\ UNCHANGED <<c2s, s2c, nextId, idOf, muxLock, reg, respCh, respDone, rErr, mpc, mcur, cReadFailed, upc, ures, ucan,
                 spc, sop, nsent, closed, cancelled, sres, rpc, rcur, sctx, rdone, rterm, rChClosed, prot,
                 gotTrailer, srcur, srvLock, sreg, sch, hctx, hdoneSig, connCtx, wpc, wcur, wrpc, wrcur,
                 hpc, hrecv, hsentN, hres, hsawEOF, waitFor, sReadFailed, stopped, serveRet, advN>>

-----------------------------------------------------------------------------
(* Unary workers and the writer                                              *)

WkRun(w) ==
  /\ wpc[w] = "run"
  /\ \E ok \in BOOLEAN : wcur' = [wcur EXCEPT ![w] = Env(wcur[w].id, IF ok THEN "resp" ELSE "uerr")]
  /\ wpc' = [wpc EXCEPT ![w] = "handoff"]
  /\ UNCHANGED <<c2s, s2c, nextId, idOf, muxLock, reg, respCh, respDone, rErr, mpc, mcur, cReadFailed, upc, ures, ucan,
                 spc, sop, nsent, closed, cancelled, sres, rpc, rcur, sctx, rdone, rterm, rChClosed, prot,
                 gotTrailer, srpc, srcur, srvLock, sreg, sch, hctx, hdoneSig, connCtx, wrpc, wrcur,
                 hpc, hrecv, hsentN, hres, hsawEOF, waitFor, sReadFailed, stopped, serveRet, advN>>

\* h.writeChan <- resp ; D6: select with the connection context
WkHandoff(w) ==
  /\ wpc[w] = "handoff"
  /\ \/ WriterTakes(wcur[w]) /\ wpc' = [wpc EXCEPT ![w] = "take"]
     \/ Fixed("D6") /\ connCtx /\ wpc' = [wpc EXCEPT ![w] = "end"] /\ UNCHANGED <<wrpc, wrcur, advN>>
  /\ UNCHANGED <<c2s, s2c, nextId, idOf, muxLock, reg, respCh, respDone, rErr, mpc, mcur, cReadFailed, upc, ures, ucan,
                 spc, sop, nsent, closed, cancelled, sres, rpc, rcur, sctx, rdone, rterm, rChClosed, prot,
                 gotTrailer, srpc, srcur, srvLock, sreg, sch, hctx, hdoneSig, connCtx, wcur,
                 hpc, hrecv, hsentN, hres, hsawEOF, waitFor, sReadFailed, stopped, serveRet, advN>>

WkExit(w) ==
  /\ wpc[w] = "take" /\ connCtx
  /\ wpc' = [wpc EXCEPT ![w] = "end"]
  /\ UNCHANGED <<c2s, s2c, nextId, idOf, muxLock, reg, respCh, respDone, rErr, mpc, mcur, cReadFailed, upc, ures, ucan,
                 spc, sop, nsent, closed, cancelled, sres, rpc, rcur, sctx, rdone, rterm, rChClosed, prot,
                 gotTrailer, srpc, srcur, srvLock, sreg, sch, hctx, hdoneSig, connCtx, wcur, wrpc, wrcur,
                 hpc, hrecv, hsentN, hres, hsawEOF, waitFor, sReadFailed, stopped, serveRet, advN>>

\* rw.Write(h.ctx, rpc): blocks while the transport has no room; gives up (and ends) with the connection context
WrWrite ==
  /\ wrpc = "write"
  /\ \/ Room(s2c) /\ s2c' = Append(s2c, wrcur) /\ wrpc' = "take"
     \/ ~Room(s2c) /\ connCtx /\ UNCHANGED s2c /\ wrpc' = "end"
  /\ UNCHANGED <<c2s, nextId, idOf, muxLock, reg, respCh, respDone, rErr, mpc, mcur, cReadFailed, upc, ures, ucan,
                 spc, sop, nsent, closed, cancelled, sres, rpc, rcur, sctx, rdone, rterm, rChClosed, prot,
                 gotTrailer, srpc, srcur, srvLock, sreg, sch, hctx, hdoneSig, connCtx, wpc, wcur, wrcur,
                 hpc, hrecv, hsentN, hres, hsawEOF, waitFor, sReadFailed, stopped, serveRet, advN>>

WrExit ==
  /\ wrpc = "take" /\ connCtx
  /\ wrpc' = "end"
  /\ UNCHANGED <<c2s, s2c, nextId, idOf, muxLock, reg, respCh, respDone, rErr, mpc, mcur, cReadFailed, upc, ures, ucan,
                 spc, sop, nsent, closed, cancelled, sres, rpc, rcur, sctx, rdone, rterm, rChClosed, prot,
                 gotTrailer, srpc, srcur, srvLock, sreg, sch, hctx, hdoneSig, connCtx, wpc, wcur, wrcur,
                 hpc, hrecv, hsentN, hres, hsawEOF, waitFor, sReadFailed, stopped, serveRet, advN>>

-----------------------------------------------------------------------------
(* Stream handlers (server.go runStream, internal/server/stream.go)           *)

HChoose(id) ==
  /\ hpc[id] = "run"
  /\ \/ ~hsawEOF[id] /\ hpc' = [hpc EXCEPT ![id] = "recv"] /\ UNCHANGED hres
     \/ hsentN[id] < MaxS /\ hpc' = [hpc EXCEPT ![id] = "send"] /\ UNCHANGED hres
     \* <-ctx.Done() without receiving: legitimate, the caller HAS cancelled and goat is to deliver that (C07)
     \/ /\ HandlerWaits /\ \E c \in Streams : idOf[c] = id /\ cancelled[c]
        /\ hpc' = [hpc EXCEPT ![id] = "ctxwait"] /\ UNCHANGED hres
     \/ /\ EarlyReturn \/ hsawEOF[id] \/ id \in hctx
        /\ \E ok \in BOOLEAN : hres' = [hres EXCEPT ![id] = IF ok THEN "ok" ELSE "err"]
        /\ hpc' = [hpc EXCEPT ![id] = "trailer"]
  /\ UNCHANGED <<c2s, s2c, nextId, idOf, muxLock, reg, respCh, respDone, rErr, mpc, mcur, cReadFailed, upc, ures, ucan,
                 spc, sop, nsent, closed, cancelled, sres, rpc, rcur, sctx, rdone, rterm, rChClosed, prot,
                 gotTrailer, srpc, srcur, srvLock, sreg, sch, hctx, hdoneSig, connCtx, wpc, wcur, wrpc, wrcur,
                 hrecv, hsentN, hsawEOF, waitFor, sReadFailed, stopped, serveRet, advN>>

HCtxWait(id) ==
  /\ hpc[id] = "ctxwait" /\ id \in hctx
  /\ hpc' = [hpc EXCEPT ![id] = "run"]
  /\ UNCHANGED <<c2s, s2c, nextId, idOf, muxLock, reg, respCh, respDone, rErr, mpc, mcur, cReadFailed, upc, ures, ucan,
                 spc, sop, nsent, closed, cancelled, sres, rpc, rcur, sctx, rdone, rterm, rChClosed, prot,
                 gotTrailer, srpc, srcur, srvLock, sreg, sch, hctx, hdoneSig, connCtx, wpc, wcur, wrpc, wrcur,
                 hrecv, hsentN, hres, hsawEOF, waitFor, sReadFailed, stopped, serveRet, advN>>

\* select { <-handler.ch ; <-ctx.Done }
HRecv(id) ==
  /\ hpc[id] = "recv"
  /\ \/ /\ sch[id] # <<>>
        /\ hsawEOF' = [hsawEOF EXCEPT ![id] = Head(sch[id]).k = "close"]
        /\ hrecv' = [hrecv EXCEPT ![id] = IF Head(sch[id]).k = "body" THEN @ + 1 ELSE @]
        /\ sch' = [sch EXCEPT ![id] = Tail(@)]
     \/ /\ id \in hctx /\ hsawEOF' = [hsawEOF EXCEPT ![id] = TRUE] /\ UNCHANGED <<hrecv, sch, advN>>
  /\ hpc' = [hpc EXCEPT ![id] = "run"]
  /\ UNCHANGED <<c2s, s2c, nextId, idOf, muxLock, reg, respCh, respDone, rErr, mpc, mcur, cReadFailed, upc, ures, ucan,
                 spc, sop, nsent, closed, cancelled, sres, rpc, rcur, sctx, rdone, rterm, rChClosed, prot,
                 gotTrailer, srpc, srcur, srvLock, sreg, hctx, hdoneSig, connCtx, wpc, wcur, wrpc, wrcur,
                 hsentN, hres, waitFor, sReadFailed, stopped, serveRet, advN>>

\* select { <-ctx.Done ; h.writeChan <- r }
HSend(id) ==
  /\ hpc[id] = "send"
  /\ \/ WriterTakes(Env(id, "body")) /\ hsentN' = [hsentN EXCEPT ![id] = @ + 1]
     \/ id \in hctx /\ hsentN' = [hsentN EXCEPT ![id] = MaxS] /\ UNCHANGED <<wrpc, wrcur, advN>>
  /\ hpc' = [hpc EXCEPT ![id] = "run"]
  /\ UNCHANGED <<c2s, s2c, nextId, idOf, muxLock, reg, respCh, respDone, rErr, mpc, mcur, cReadFailed, upc, ures, ucan,
                 spc, sop, nsent, closed, cancelled, sres, rpc, rcur, sctx, rdone, rterm, rChClosed, prot,
                 gotTrailer, srpc, srcur, srvLock, sreg, sch, hctx, hdoneSig, connCtx, wpc, wcur,
                 hrecv, hres, hsawEOF, waitFor, sReadFailed, stopped, serveRet, advN>>

HTrailer(id) ==
  /\ hpc[id] = "trailer"
  /\ \/ WriterTakes(Env(id, hres[id]))
     \/ id \in hctx /\ UNCHANGED <<wrpc, wrcur, advN>>
  /\ hpc' = [hpc EXCEPT ![id] = "cancel"]
  /\ UNCHANGED <<c2s, s2c, nextId, idOf, muxLock, reg, respCh, respDone, rErr, mpc, mcur, cReadFailed, upc, ures, ucan,
                 spc, sop, nsent, closed, cancelled, sres, rpc, rcur, sctx, rdone, rterm, rChClosed, prot,
                 gotTrailer, srpc, srcur, srvLock, sreg, sch, hctx, hdoneSig, connCtx, wpc, wcur,
                 hrecv, hsentN, hres, hsawEOF, waitFor, sReadFailed, stopped, serveRet, advN>>

\* the deferred handler.cancel() runs before the deferred unregisterStream
HCancel(id) ==
  /\ hpc[id] = "cancel"
  /\ hctx' = hctx \cup {id} /\ hpc' = [hpc EXCEPT ![id] = "unreg"]
  /\ UNCHANGED <<c2s, s2c, nextId, idOf, muxLock, reg, respCh, respDone, rErr, mpc, mcur, cReadFailed, upc, ures, ucan,
                 spc, sop, nsent, closed, cancelled, sres, rpc, rcur, sctx, rdone, rterm, rChClosed, prot,
                 gotTrailer, srpc, srcur, srvLock, sreg, sch, hdoneSig, connCtx, wpc, wcur, wrpc, wrcur,
                 hrecv, hsentN, hres, hsawEOF, waitFor, sReadFailed, stopped, serveRet, advN>>

HUnregister(id) ==
  /\ hpc[id] = "unreg" /\ srvLock = Free
  /\ sreg' = sreg \ {id} /\ hdoneSig' = hdoneSig \cup {id}
  /\ hpc' = [hpc EXCEPT ![id] = "end"]
  /\ UNCHANGED <<c2s, s2c, nextId, idOf, muxLock, reg, respCh, respDone, rErr, mpc, mcur, cReadFailed, upc, ures, ucan,
                 spc, sop, nsent, closed, cancelled, sres, rpc, rcur, sctx, rdone, rterm, rChClosed, prot,
                 gotTrailer, srpc, srcur, srvLock, sch, hctx, connCtx, wpc, wcur, wrpc, wrcur,
                 hrecv, hsentN, hres, hsawEOF, waitFor, sReadFailed, stopped, serveRet, advN>>

-----------------------------------------------------------------------------
(* Environment                                                               *)

CallerCancel(c) ==
  /\ EnvCancel /\ spc[c] \in {"run", "opcheck", "recvsel", "sendw", "closew"} /\ ~cancelled[c] /\ ~sctx[c]
  /\ cancelled' = [cancelled EXCEPT ![c] = TRUE] /\ sctx' = [sctx EXCEPT ![c] = TRUE]
  /\ UNCHANGED <<c2s, s2c, nextId, idOf, muxLock, reg, respCh, respDone, rErr, mpc, mcur, cReadFailed, upc, ures, ucan,
                 spc, sop, nsent, closed, sres, rpc, rcur, rdone, rterm, rChClosed, prot,
                 gotTrailer, srpc, srcur, srvLock, sreg, sch, hctx, hdoneSig, connCtx, wpc, wcur, wrpc, wrcur,
                 hpc, hrecv, hsentN, hres, hsawEOF, waitFor, sReadFailed, stopped, serveRet, advN>>

UnaryCallerCancel(c) ==
  /\ EnvCancel /\ upc[c] \in {"write", "await"} /\ ~ucan[c]
  /\ ucan' = [ucan EXCEPT ![c] = TRUE]
  /\ UNCHANGED <<c2s, s2c, nextId, idOf, muxLock, reg, respCh, respDone, rErr, mpc, mcur, cReadFailed, upc, ures,
                 spc, sop, nsent, closed, cancelled, sres, rpc, rcur, sctx, rdone, rterm, rChClosed, prot,
                 gotTrailer, srpc, srcur, srvLock, sreg, sch, hctx, hdoneSig, connCtx, wpc, wcur, wrpc, wrcur,
                 hpc, hrecv, hsentN, hres, hsawEOF, waitFor, sReadFailed, stopped, serveRet, advN>>

ClientReadFail ==
  /\ EnvReadFail /\ ~cReadFailed
  /\ cReadFailed' = TRUE
  /\ UNCHANGED <<c2s, s2c, nextId, idOf, muxLock, reg, respCh, respDone, rErr, mpc, mcur, upc, ures, ucan,
                 spc, sop, nsent, closed, cancelled, sres, rpc, rcur, sctx, rdone, rterm, rChClosed, prot,
                 gotTrailer, srpc, srcur, srvLock, sreg, sch, hctx, hdoneSig, connCtx, wpc, wcur, wrpc, wrcur,
                 hpc, hrecv, hsentN, hres, hsawEOF, waitFor, sReadFailed, stopped, serveRet, advN>>

Stop ==
  /\ EnvStop /\ ~stopped
  /\ stopped' = TRUE /\ connCtx' = TRUE
  /\ UNCHANGED <<c2s, s2c, nextId, idOf, muxLock, reg, respCh, respDone, rErr, mpc, mcur, cReadFailed, upc, ures, ucan,
                 spc, sop, nsent, closed, cancelled, sres, rpc, rcur, sctx, rdone, rterm, rChClosed, prot,
                 gotTrailer, srpc, srcur, srvLock, sreg, sch, hctx, hdoneSig, wpc, wcur, wrpc, wrcur,
                 hpc, hrecv, hsentN, hres, hsawEOF, waitFor, sReadFailed, serveRet, advN>>

\* A connection is closed as a whole: once Serve has returned the transport's owner closes it, so
\* the client's reads fail; and once the client's reads have failed the server's will too.
PeerClosesAfterServe ==
  /\ serveRet /\ ~cReadFailed
  /\ cReadFailed' = TRUE
  /\ UNCHANGED <<c2s, s2c, nextId, idOf, muxLock, reg, respCh, respDone, rErr, mpc, mcur, upc, ures, ucan,
                 spc, sop, nsent, closed, cancelled, sres, rpc, rcur, sctx, rdone, rterm, rChClosed, prot,
                 gotTrailer, srpc, srcur, srvLock, sreg, sch, hctx, hdoneSig, connCtx, wpc, wcur, wrpc, wrcur,
                 hpc, hrecv, hsentN, hres, hsawEOF, waitFor, sReadFailed, stopped, serveRet, advN>>
ServerSeesClose ==
  /\ cReadFailed /\ ~sReadFailed
  /\ sReadFailed' = TRUE
  /\ UNCHANGED <<c2s, s2c, nextId, idOf, muxLock, reg, respCh, respDone, rErr, mpc, mcur, cReadFailed, upc, ures, ucan,
                 spc, sop, nsent, closed, cancelled, sres, rpc, rcur, sctx, rdone, rterm, rChClosed, prot,
                 gotTrailer, srpc, srcur, srvLock, sreg, sch, hctx, hdoneSig, connCtx, wpc, wcur, wrpc, wrcur,
                 hpc, hrecv, hsentN, hres, hsawEOF, waitFor, stopped, serveRet, advN>>

\* An adversarial peer: any envelope shape, for any small id, at any time.
AdvSendsToServer ==
  /\ advN < AdvClient
  /\ \E id \in AdvIds, k \in {"open", "body", "close", "rst", "req"} : c2s' = Append(c2s, Env(id, k))
  /\ advN' = advN + 1
  /\ UNCHANGED <<s2c, nextId, idOf, muxLock, reg, respCh, respDone, rErr, mpc, mcur, cReadFailed, upc, ures, ucan,
                 spc, sop, nsent, closed, cancelled, sres, rpc, rcur, sctx, rdone, rterm, rChClosed, prot,
                 gotTrailer, srpc, srcur, srvLock, sreg, sch, hctx, hdoneSig, connCtx, wpc, wcur, wrpc, wrcur,
                 hpc, hrecv, hsentN, hres, hsawEOF, waitFor, sReadFailed, stopped, serveRet>>
AdvSendsToClient ==
  /\ advN < AdvServer
  /\ \E id \in AdvIds, k \in {"hdr", "body", "ok", "err", "rst", "resp", "uerr"} : s2c' = Append(s2c, Env(id, k))
  /\ advN' = advN + 1
  /\ UNCHANGED <<c2s, nextId, idOf, muxLock, reg, respCh, respDone, rErr, mpc, mcur, cReadFailed, upc, ures, ucan,
                 spc, sop, nsent, closed, cancelled, sres, rpc, rcur, sctx, rdone, rterm, rChClosed, prot,
                 gotTrailer, srpc, srcur, srvLock, sreg, sch, hctx, hdoneSig, connCtx, wpc, wcur, wrpc, wrcur,
                 hpc, hrecv, hsentN, hres, hsawEOF, waitFor, sReadFailed, stopped, serveRet>>

\* ... and having said all it wanted, the adversarial peer closes the connection
AdvCloses ==
  /\ \/ AdvClient > 0 /\ advN = AdvClient /\ ~sReadFailed /\ sReadFailed' = TRUE /\ UNCHANGED cReadFailed
     \/ AdvServer > 0 /\ advN = AdvServer /\ ~cReadFailed /\ cReadFailed' = TRUE /\ UNCHANGED sReadFailed
  /\ UNCHANGED <<c2s, s2c, nextId, idOf, muxLock, reg, respCh, respDone, rErr, mpc, mcur, upc, ures, ucan,
                 spc, sop, nsent, closed, cancelled, sres, rpc, rcur, sctx, rdone, rterm, rChClosed, prot,
                 gotTrailer, srpc, srcur, srvLock, sreg, sch, hctx, hdoneSig, connCtx, wpc, wcur, wrpc, wrcur,
                 hpc, hrecv, hsentN, hres, hsawEOF, waitFor, stopped, serveRet, advN>>

-----------------------------------------------------------------------------
AllCallersDone == /\ \A c \in Unaries : upc[c] = "done"
                  /\ \A c \in Streams : spc[c] = "done" /\ rpc[c] \in {"off", "end"}
AllHandlersDone == \A i \in Ids : hpc[i] \in {"off", "end"}
Finished == AllCallersDone /\ AllHandlersDone /\ wrpc \in {"take", "end"} /\ \A w \in Workers : wpc[w] \in {"take", "end"}

\* the only step of a finished system; any other state without a successor is a deadlock
Terminated == Finished /\ UNCHANGED vars

NextButTimeouts ==
  \/ \E c \in Unaries : UCheck(c) \/ URegister(c) \/ UWrite(c) \/ UAwait(c) \/ UUnregister(c) \/ UnaryCallerCancel(c)
  \/ MuxRead \/ MuxLookup \/ MuxHandoff \/ MuxFail
  \/ \E c \in Streams : \/ SCheck(c) \/ SRegister(c) \/ SOpen(c) \/ SChoose(c) \/ SOpCheck(c) \/ SSendWrite(c) \/ SSendRefused(c) \/ STeardown1(c) \/ STeardown2(c)
                        \/ SCloseWrite(c) \/ SRecvCtx(c) \/ SRecvClosed(c)
                        \/ RlRead(c) \/ RlClassify(c) \/ RlHandoff(c) \/ RlExitLock(c) \/ RlExitRst(c)
                        \/ RlExitUnreg(c) \/ RlExitDone(c) \/ CallerCancel(c)
  \/ SrvRead \/ SrvToWorker \/ SrvLockClassify \/ SrvForward \/ SrvReset \/ SrvExit \/ SrvCancelAndWait \/ SrvWaitDone
  \/ \E w \in Workers : WkRun(w) \/ WkHandoff(w) \/ WkExit(w)
  \/ WrWrite \/ WrExit
  \/ \E i \in Ids : HChoose(i) \/ HCtxWait(i) \/ HRecv(i) \/ HSend(i) \/ HTrailer(i) \/ HCancel(i) \/ HUnregister(i)
  \/ ClientReadFail \/ Stop \/ PeerClosesAfterServe \/ ServerSeesClose
  \/ AdvSendsToServer \/ AdvSendsToClient \/ AdvCloses

\* The 30 s deadline of the reset write.  Time is not modelled: the timer is taken to fire only when nothing else in
\* the system can move any more (the usual reading of a timeout in an untimed model: 30 s are long against every
\* other step) - then the reset is given up and the teardown goes on.
RlExitRstTimeout(c) ==
  /\ rpc[c] = "xrst" /\ ~gotTrailer[c] /\ sctx[c] /\ ~Room(c2s)
  /\ ~ENABLED NextButTimeouts
  /\ rpc' = [rpc EXCEPT ![c] = "xunreg"]
  /\ UNCHANGED <<c2s, s2c, nextId, idOf, muxLock, reg, respCh, respDone, rErr, mpc, mcur, cReadFailed, upc, ures, ucan,
                 spc, sop, nsent, closed, cancelled, sres, rcur, sctx, rdone, rterm, rChClosed, prot,
                 gotTrailer, srpc, srcur, srvLock, sreg, sch, hctx, hdoneSig, connCtx, wpc, wcur, wrpc, wrcur,
                 hpc, hrecv, hsentN, hres, hsawEOF, waitFor, sReadFailed, stopped, serveRet, advN>>

Next == NextButTimeouts \/ (\E c \in Streams : RlExitRstTimeout(c)) \/ Terminated

Spec == Init /\ [][Next]_vars
FairSpec == Spec /\ WF_vars(Next)

-----------------------------------------------------------------------------
(* Properties                                                                *)

\* C05: ids are pairwise distinct
UniqueIds == \A a, b \in Calls : a # b /\ idOf[a] # NoId => idOf[a] # idOf[b]

\* C02: a stream the handler finished successfully is never reported as cancelled or failed to a caller
\* that did not cancel, on a live connection - and io.EOF is reported only then
EofOnlyOnOk == AdvServer = 0 => \A c \in Streams : \A i \in DOMAIN sres[c] :
                  sres[c][i] = "eof" => idOf[c] # NoId /\ hres[idOf[c]] = "ok"
\* (a stream torn down by its own refused Send reports that teardown's cancellation)
SendRefused(c) == nsent[c] = MaxC + 1
NoCancelAfterSuccess == \A c \in Streams : \A i \in DOMAIN sres[c] :
                  sres[c][i] = "canceled" => cancelled[c] \/ SendRefused(c)

\* C07: a stream ended by nothing but its caller's cancellation reports Canceled - whatever else its teardown made
\* true at the same time (D24)
CancelReportsCanceled == \A c \in Streams :
  (rdone[c] /\ cancelled[c] /\ ~gotTrailer[c] /\ ~rErr /\ ~SendRefused(c)) => rterm[c] = "canceled"

\* C06: the server's reset for a late message never precedes that stream's trailer on the wire
ResetNotBeforeTrailer == (AdvServer = 0 /\ AdvClient = 0) =>
  \A i \in DOMAIN s2c : s2c[i].k = "rst" =>
     ~\E j \in DOMAIN s2c : j > i /\ s2c[j].id = s2c[i].id /\ s2c[j].k \in {"ok", "err"}
ResetNotBeforeTrailerPending == (AdvServer = 0 /\ AdvClient = 0) =>
  \A i \in DOMAIN s2c : s2c[i].k = "rst" => ~(wrpc = "write" /\ wrcur.id = s2c[i].id /\ wrcur.k \in {"ok", "err"})

\* C09: nothing succeeds out of thin air
UnaryOkOnlyWithResp == \A c \in Unaries : ures[c] = "ok" => idOf[c] # NoId

\* C14: a finished system holds no registration
RegistriesEmptyWhenFinished == Finished => reg = {} /\ sreg = {}

\* C10: when Serve has returned every stream handler has finished
ServeRetMeansHandlersDone == serveRet => \A i \in Ids : hpc[i] \in {"off", "end"}

\* C01 / C09 / C11 (as liveness, under FairSpec): every call eventually returns
EveryCallReturns == <>[]AllCallersDone
=============================================================================
