---------------------------- MODULE TimeoutTrace ----------------------------
(***************************************************************************)
(* Trace validation for property C08 (runner "timeout",                    *)
(* harness/driver/x_timeout.go).  Every line recorded from the real        *)
(* library must be explained by Timeout.tla with the recorded arguments;   *)
(* the harness classifies nothing, it only spells what went in and what    *)
(* came out:                                                               *)
(*                                                                         *)
(*  Parse  msg = "hook": VerifParseGrpcTimeout(in);  msg = unary | bidi |  *)
(*         cs | ss: a raw request with header <key>: <in> reached a        *)
(*         handler of that kind.  md.key, md.in: the header key and value  *)
(*         byte by byte (k is only a label, msg#<step>);                   *)
(*         res = "dl"/"nodl": a duration / a deadline came out or not;     *)
(*         code, h, t, n: its sign (1 = negative), hours, seconds within   *)
(*         the hour, nanoseconds within the second.                        *)
(*  PCall  a caller issues a call of kind msg; res, code, h, t, n: the     *)
(*         time left on its context (as above); c: virtual time in         *)
(*         microseconds                                                    *)
(*  PWire  the request is written: n = number of timeout headers, md.key / *)
(*         md.in the first one                                             *)
(*  Prop   the handler starts: res, code, h, t, n: the time left on its    *)
(*         context; c: virtual time in microseconds                        *)
(*                                                                         *)
(* Rule groups (CONSTANT Off switches a group off):                        *)
(*   "parse"  header values mean what the grammar says (Parse lines, and   *)
(*            on Prop lines: the handler sees what the header on the wire  *)
(*            says, nothing if it is absent or malformed)                  *)
(*   "e2e"    the handler's deadline is within the bounds of the property  *)
(*            for the caller's deadline                                    *)
(*   "coarse" the allowance for timeouts that eight digits cannot express  *)
(*            in milliseconds (off = the property's millisecond literally) *)
(***************************************************************************)
EXTENDS Timeout, Json, IOUtils

CONSTANT Off

VARIABLES l, t0      \* position in the trace; virtual time of the pending call

Trace == ndJsonDeserialize(IOEnv.VERIF_TRACE)

Is(name) == l <= Len(Trace) /\ Trace[l].ev = name /\ l' = l + 1
E == Trace[l]

\* the characters logged under key k ("md":[{"k":..,"v":[..]},..]); <<>> if absent
Field(k) == LET S == {i \in 1..Len(E.md) : E.md[i].k = k}
            IN IF S = {} THEN <<>> ELSE E.md[CHOOSE i \in S : TRUE].v

\* the observation of the line
Seen == Obs(E.res = "dl", E.code = 1, Dur(E.h, E.t, E.n))

Reset == /\ mode' = "trace" /\ vec' = NoVec /\ pc' = "idle" /\ ticks' = 0 /\ R' = NoObs
         /\ transit' = Zero /\ wire' = <<>> /\ hd' = NoObs /\ t0' = 0

TraceInit == /\ mode = "trace" /\ vec = NoVec /\ pc = "idle" /\ ticks = 0 /\ R = NoObs
             /\ transit = Zero /\ wire = <<>> /\ hd = NoObs /\ t0 = 0 /\ l = 1

TBegin == Is("Begin") /\ Reset
TEnd == Is("End") /\ pc = "idle" /\ UNCHANGED <<vars, t0>>

\* A parser vector: through the hook the value alone decides; end to end the
\* header counts only if its key is grpc-timeout in any letter case.
TParse ==
  /\ Is("Parse") /\ pc = "idle"
  /\ E.res \in {"dl", "nodl"}
  /\ LET cs == Field("in")
         e == IF E.msg = "hook" \/ KeyMatches(Field("key")) THEN Expected(cs) ELSE Ignored
     IN ("parse" \in Off \/ ObsRight(e, Seen)) = TRUE
  /\ UNCHANGED <<vars, t0>>

\* A propagation run: call, request on the wire, handler start.
TPCall ==
  /\ Is("PCall") /\ pc = "idle"
  /\ E.res \in {"dl", "nodl"}
  /\ R' = Seen /\ t0' = E.c /\ pc' = "called"
  /\ UNCHANGED <<mode, vec, ticks, transit, wire, hd>>

TPWire ==
  /\ Is("PWire") /\ pc = "called"
  /\ wire' = IF E.n = 0 THEN <<>> ELSE Field("in")
  /\ pc' = "sent"
  /\ UNCHANGED <<mode, vec, ticks, R, transit, hd, t0>>

TProp ==
  /\ Is("Prop") /\ pc = "sent"
  /\ E.res \in {"dl", "nodl"} /\ E.c >= t0
  /\ ("parse" \in Off \/ ObsRight(Expected(wire), Seen)) = TRUE
  /\ ("e2e" \in Off \/ PropRight(R, OfMicros(E.c - t0), Seen, "coarse" \in Off)) = TRUE
  /\ hd' = Seen /\ transit' = OfMicros(E.c - t0) /\ pc' = "idle"
  /\ UNCHANGED <<mode, vec, ticks, R, wire, t0>>

\* Crash, Wedged and Leak lines have no action: a trace containing one is rejected.
TraceNext == TBegin \/ TEnd \/ TParse \/ TPCall \/ TPWire \/ TProp

\* A line that no action explains is reported and the rest of its scenario is
\* skipped, so that the remaining scenarios of the batch are still checked.
NextBegin == IF \E j \in (l + 1)..Len(Trace) : Trace[j].ev = "Begin"
               THEN CHOOSE j \in (l + 1)..Len(Trace) :
                      Trace[j].ev = "Begin" /\ \A i \in (l + 1)..(j - 1) : Trace[i].ev # "Begin"
               ELSE Len(Trace) + 1
TSkip == /\ l <= Len(Trace)
         /\ ~ENABLED TraceNext
         /\ PrintT(<<"TRACE_REJECTED_AT_LINE", l, "of", Len(Trace)>>)
         /\ l' = NextBegin
         /\ UNCHANGED <<vars, t0>>

\* A scenario is accepted iff SOME branch of the specification consumes it up to its End line (where logged
\* arguments leave a choice the branches that guessed wrong die on the way and are reported by TSkip, too):
SegOk == (l <= Len(Trace) /\ Trace[l].ev = "End") => PrintT(<<"TRACE_SEGMENT_OK", l>>)
TraceSpec == TraceInit /\ [][(TraceNext /\ SegOk) \/ TSkip]_<<vars, t0, l>>

\* diagnosis variant: only the unexplained line is skipped (Parse lines do not
\* depend on each other, a rejected Prop line ends its run), so that one run
\* lists every offending input:  SPECIFICATION EachSpec
TSkipOne == /\ l <= Len(Trace)
            /\ ~ENABLED TraceNext
            /\ PrintT(<<"TRACE_REJECTED_AT_LINE", l, "of", Len(Trace)>>)
            /\ l' = l + 1 /\ pc' = "idle"
            /\ UNCHANGED <<mode, vec, ticks, R, transit, wire, hd, t0>>
EachSpec == TraceInit /\ [][TraceNext \/ TSkipOne]_<<vars, t0, l>>

\* strict variant (no skipping): one state per consumed line plus the initial one
StrictSpec == TraceInit /\ [][TraceNext]_<<vars, t0, l>>
TraceAccepted ==
  LET d == TLCGet("stats").diameter IN
  IF d - 1 = Len(Trace) THEN TRUE
  ELSE Print(<<"TRACE_REJECTED_AT_LINE", d, "of", Len(Trace)>>, FALSE)
=============================================================================
