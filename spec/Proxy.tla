-------------------------------- MODULE Proxy --------------------------------
(***************************************************************************)
(* Implementation-shaped model of goat's Proxy (proxy.go), properties C16  *)
(* and C17.                                                                *)
(*                                                                         *)
(* Processes, as in the code:                                              *)
(*   server        serveClients: one goroutine; receives commands from the *)
(*                 UNBUFFERED `commands` channel (a rendezvous with the    *)
(*                 sending loop) or sees ctx.Done.  forwardRpc is one      *)
(*                 action per real step:                                   *)
(*                   check  -> icpt -> record -> pop -> lookup -> enq      *)
(*                 (source check / interceptor / proxy_record append /     *)
(*                 proxy_next pop / lookup-or-dial under the mutex /       *)
(*                 NON-BLOCKING enqueue into the destination's buffer of   *)
(*                 capacity Cap, with the explicit deviation DropFull).    *)
(*                 An error command: del (under the mutex) -> cb           *)
(*                 (the disconnect callback).                              *)
(*   reader(c)     readLoop of connection c:  read -> send -> read ...,    *)
(*                 on a read error  report -> done                         *)
(*   writer(c)     writeLoop: sel -> write -> sel ..., on a write error    *)
(*                 report -> done; on ctx.Done  done                       *)
(*   connector(c)  connect (dial on demand): dial -> (loops start) | report*)
(* reader and writer of a connection share an errgroup context (gcan): the *)
(* first loop that returns an error cancels the other.                     *)
(*                                                                         *)
(* Environment: peers write envelopes (valid, spoofed source, no header),  *)
(* get stuck (writes to them never complete), fail (reads / writes on      *)
(* their connection return errors), re-attach under their old name; the    *)
(* proxy's context is cancelled.                                           *)
(*                                                                         *)
(* The constants Bug_D12 / Bug_D13 / Bug_D14 switch the model back to the  *)
(* code as found (log.Panic on a bad envelope / bare `c.toServer <-` when  *)
(* reporting an error / delete(clients, id) whatever is registered).       *)
(* With all three FALSE the model is the code after the fixes.             *)
(*                                                                         *)
(* Configurations (constants, bounds, measured state counts): ProxyMC.tla  *)
(* and lib/vcheck/x_proxy.py (MODELS_C16, MODELS_C17).                     *)
(***************************************************************************)
EXTENDS ProxyRoute, FiniteSets, TLC

CONSTANTS
  Px,            \* the proxy's own name
  Names,         \* peer names
  Attached,      \* sequence of (distinct) names attached (AddClient) before the traffic starts: connections 1..Len
  Dialable,      \* names for which newConnection succeeds (others: dial error)
  Icpt,          \* interceptor [kind, from, to]
  Cap,           \* capacity of the per-destination buffer (16 in the code)
  MaxEnv,        \* envelopes written by peers in a behaviour
  SrcKinds,      \* subset of {"own", "other", "none"}: claimed source of written envelopes
  SpoofNames,    \* names a peer may falsely claim (kind "other")
  Dsts,          \* destinations peers may address
  Nxts,          \* return routes (proxy_next) peers may attach
  Writers,       \* names whose peers write envelopes
  FaultKinds,    \* subset of {"stuck", "rfail", "wfail"}
  FaultNames,    \* names whose connections may get stuck / fail
  ReattachNames, \* names that may be re-attached (AddClient again) while their old connection lives
  Fine,          \* TRUE: forwardRpc's local steps (check, icpt, record, pop) are separate actions;
                 \* FALSE: they are one action (they only touch the envelope in the server's hand)
  MaxFaults, MaxReattach, AllowCancel,
  LateAttach,    \* names that may be attached (AddClient) for the first time while traffic is flowing
  Bug_D12, Bug_D13, Bug_D14,
  Bug_SplitLookup \* the lookup and the on-demand registration of forwardRpc are two critical sections (seeded C16-r4m1)

\* connection records: the attached ones, one per re-attachment, and at most one dial
\* on demand per envelope (so that the lookup never runs out of records)
Conns == 1..(Len(Attached) + MaxReattach + MaxEnv)
None == [id |-> 0]

VARIABLES
  name, st,        \* per connection: peer name; "free" | "dialing" | "live" | "dead" (dial failed)
  rpc, wpc, cpc,   \* program counters of reader, writer, connector
  rh, wh,          \* envelope held by the reader / writer
  inq,             \* transport peer -> proxy
  buf,             \* fromServer channel of the connection (capacity Cap)
  wire,            \* envelopes written to the peer, in order
  gcan,            \* errgroup context of the connection cancelled
  flt,             \* faults of the peer: subset of FaultKinds
  clients,         \* the proxy's map: name -> connection (0 = absent); guarded by the mutex
  srv,             \* the server: [pc, c, env, dst, tgt]
  cancelled, crashed,
  \* history
  written,         \* id -> the envelope as written by its peer (+ sc = source connection)
  dropped,         \* ids thrown away by DropFull
  quiet,           \* ids legitimately not forwarded (bad source / no header / interceptor reject)
  reported,        \* connections whose failure reached the disconnect callback
  detected,        \* connections whose failure was noticed by one of their loops
  latest,          \* name -> latest connection attached (AddClient) under it
  nflt, nreatt

pvars == <<name, st, rpc, wpc, cpc, rh, wh, inq, buf, wire, gcan, flt, clients, srv, cancelled, crashed>>
hvars == <<written, dropped, quiet, reported, detected, latest, nflt, nreatt>>
vars == <<pvars, hvars>>

\* VIEW for the safety configurations: the bookkeeping counters are hidden.  Both are
\* functions of what stays visible (nflt = sum of |flt[c]|; nreatt = live connections beyond
\* the initial ones that were never dialled, i.e. cpc = "idle"), so no behaviour is lost.
View == <<pvars, written, dropped, quiet, reported, detected, latest>>

Free == {c \in Conns : st[c] = "free"}
NewC == CHOOSE c \in Free : \A d \in Free : c <= d
CtxDone(c) == gcan[c] \/ cancelled

Init ==
  /\ name = [c \in Conns |-> IF c <= Len(Attached) THEN Attached[c] ELSE ""]
  /\ clients = [n \in Names |-> IF \E c \in DOMAIN Attached : Attached[c] = n
                                 THEN CHOOSE c \in DOMAIN Attached : Attached[c] = n ELSE 0]
  /\ latest = clients
  /\ st = [c \in Conns |-> IF name[c] # "" THEN "live" ELSE "free"]
  /\ rpc = [c \in Conns |-> IF name[c] # "" THEN "read" ELSE "idle"]
  /\ wpc = [c \in Conns |-> IF name[c] # "" THEN "sel" ELSE "idle"]
  /\ cpc = [c \in Conns |-> "idle"]
  /\ rh = [c \in Conns |-> None] /\ wh = [c \in Conns |-> None]
  /\ inq = [c \in Conns |-> <<>>] /\ buf = [c \in Conns |-> <<>>] /\ wire = [c \in Conns |-> <<>>]
  /\ gcan = [c \in Conns |-> FALSE] /\ flt = [c \in Conns |-> {}]
  /\ srv = [pc |-> "recv", c |-> 0, env |-> None, dst |-> "", tgt |-> 0]
  /\ cancelled = FALSE /\ crashed = FALSE
  /\ written = <<>> /\ dropped = {} /\ quiet = {} /\ reported = {} /\ detected = {}
  /\ nflt = 0 /\ nreatt = 0

-----------------------------------------------------------------------------
(* Environment                                                             *)

Shapes(c) ==
  {[h |-> k # "none", src |-> s, dst |-> d, rec |-> <<>>, nxt |-> x] :
     k \in SrcKinds, s \in {name[c], ""} \cup SpoofNames, d \in Dsts, x \in Nxts}
Shape(c, k) == {e \in Shapes(c) : CASE k = "own" -> e.h /\ e.src = name[c]
                                    [] k = "other" -> e.h /\ e.src # name[c] /\ e.src # ""
                                    [] k = "none" -> ~e.h /\ e.src = ""}

PeerWrite(c) ==
  /\ st[c] = "live" /\ name[c] \in Writers /\ Len(written) < MaxEnv
  /\ \E k \in SrcKinds : \E e \in Shape(c, k) :
       LET env == [id |-> Len(written) + 1, sc |-> c, h |-> e.h, src |-> e.src, dst |-> e.dst,
                   rec |-> e.rec, nxt |-> e.nxt] IN
         /\ written' = Append(written, env)
         /\ inq' = [inq EXCEPT ![c] = Append(@, env)]
  /\ UNCHANGED <<name, st, rpc, wpc, cpc, rh, wh, buf, wire, gcan, flt, clients, srv, cancelled, crashed,
                 dropped, quiet, reported, detected, latest, nflt, nreatt>>

PeerFault(c) ==
  /\ st[c] = "live" /\ name[c] \in FaultNames /\ nflt < MaxFaults
  /\ \E k \in FaultKinds \ flt[c] : flt' = [flt EXCEPT ![c] = @ \cup {k}]
  /\ nflt' = nflt + 1
  /\ UNCHANGED <<name, st, rpc, wpc, cpc, rh, wh, inq, buf, wire, gcan, clients, srv, cancelled, crashed,
                 written, dropped, quiet, reported, detected, latest, nreatt>>

\* Proxy.AddClient(n, conn) by a peer that is already known under n: takes the mutex,
\* replaces the registration, starts the loops.  The old connection lives on.
Reattach(n) ==
  /\ nreatt < MaxReattach /\ Free # {}
  /\ (n \in ReattachNames /\ latest[n] # 0) \/ (n \in LateAttach /\ latest[n] = 0)
  /\ LET c == NewC IN
       /\ name' = [name EXCEPT ![c] = n] /\ st' = [st EXCEPT ![c] = "live"]
       /\ rpc' = [rpc EXCEPT ![c] = "read"] /\ wpc' = [wpc EXCEPT ![c] = "sel"]
       /\ clients' = [clients EXCEPT ![n] = c] /\ latest' = [latest EXCEPT ![n] = c]
  /\ nreatt' = nreatt + 1
  /\ UNCHANGED <<cpc, rh, wh, inq, buf, wire, gcan, flt, srv, cancelled, crashed,
                 written, dropped, quiet, reported, detected, nflt>>

CtxCancel ==
  /\ AllowCancel /\ ~cancelled /\ cancelled' = TRUE
  /\ UNCHANGED <<name, st, rpc, wpc, cpc, rh, wh, inq, buf, wire, gcan, flt, clients, srv, crashed, hvars>>

-----------------------------------------------------------------------------
(* readLoop                                                                *)

ReadOk(c) ==      \* conn.Read returns an envelope
  /\ rpc[c] = "read" /\ "rfail" \notin flt[c] /\ Len(inq[c]) > 0
  /\ rh' = [rh EXCEPT ![c] = Head(inq[c])] /\ inq' = [inq EXCEPT ![c] = Tail(@)]
  /\ rpc' = [rpc EXCEPT ![c] = "send"]
  /\ UNCHANGED <<name, st, wpc, cpc, wh, buf, wire, gcan, flt, clients, srv, cancelled, crashed, hvars>>

ReadErr(c) ==     \* conn.Read returns an error: the connection failed or the context is done
  /\ rpc[c] = "read" /\ ("rfail" \in flt[c] \/ CtxDone(c))
  /\ rpc' = [rpc EXCEPT ![c] = "report"]
  /\ detected' = IF "rfail" \in flt[c] THEN detected \cup {c} ELSE detected
  /\ UNCHANGED <<name, st, wpc, cpc, rh, wh, inq, buf, wire, gcan, flt, clients, srv, cancelled, crashed,
                 written, dropped, quiet, reported, latest, nflt, nreatt>>

ReadSendCtx(c) == \* select { case c.toServer <- cmd: ... case <-ctx.Done(): return }
  /\ rpc[c] = "send" /\ CtxDone(c)
  /\ rpc' = [rpc EXCEPT ![c] = "done"] /\ gcan' = [gcan EXCEPT ![c] = TRUE]
  /\ UNCHANGED <<name, st, wpc, cpc, rh, wh, inq, buf, wire, flt, clients, srv, cancelled, crashed, hvars>>

\* after the fix of D13 the error report is a select with ctx.Done as well
ReportCtx(c) ==
  /\ ~Bug_D13 /\ CtxDone(c)
  /\ \/ /\ rpc[c] = "report" /\ rpc' = [rpc EXCEPT ![c] = "done"] /\ UNCHANGED <<wpc, cpc>>
     \/ /\ wpc[c] = "report" /\ wpc' = [wpc EXCEPT ![c] = "done"] /\ UNCHANGED <<rpc, cpc>>
  /\ gcan' = [gcan EXCEPT ![c] = TRUE]
  /\ UNCHANGED <<name, st, rh, wh, inq, buf, wire, flt, clients, srv, cancelled, crashed, hvars>>
ConnReportCtx(c) ==   \* connect() has only the proxy's context
  /\ ~Bug_D13 /\ cancelled /\ cpc[c] = "report" /\ cpc' = [cpc EXCEPT ![c] = "done"]
  /\ UNCHANGED <<name, st, rpc, wpc, rh, wh, inq, buf, wire, gcan, flt, clients, srv, cancelled, crashed, hvars>>

-----------------------------------------------------------------------------
(* writeLoop                                                               *)

WriteTake(c) ==
  /\ wpc[c] = "sel" /\ Len(buf[c]) > 0
  /\ wh' = [wh EXCEPT ![c] = Head(buf[c])] /\ buf' = [buf EXCEPT ![c] = Tail(@)]
  /\ wpc' = [wpc EXCEPT ![c] = "write"]
  /\ UNCHANGED <<name, st, rpc, cpc, rh, inq, wire, gcan, flt, clients, srv, cancelled, crashed, hvars>>

WriteSelCtx(c) ==
  /\ wpc[c] = "sel" /\ CtxDone(c)
  /\ wpc' = [wpc EXCEPT ![c] = "done"] /\ gcan' = [gcan EXCEPT ![c] = TRUE]
  /\ UNCHANGED <<name, st, rpc, cpc, rh, wh, inq, buf, wire, flt, clients, srv, cancelled, crashed, hvars>>

WriteOk(c) ==     \* conn.Write completes: never while the peer is stuck
  /\ wpc[c] = "write" /\ flt[c] \cap {"stuck", "wfail"} = {}
  /\ wire' = [wire EXCEPT ![c] = Append(@, wh[c])] /\ wh' = [wh EXCEPT ![c] = None]
  /\ wpc' = [wpc EXCEPT ![c] = "sel"]
  /\ UNCHANGED <<name, st, rpc, cpc, rh, inq, buf, gcan, flt, clients, srv, cancelled, crashed, hvars>>

WriteErr(c) ==    \* conn.Write fails, or is unblocked by its context
  /\ wpc[c] = "write" /\ ("wfail" \in flt[c] \/ CtxDone(c))
  /\ wpc' = [wpc EXCEPT ![c] = "report"]
  /\ detected' = IF "wfail" \in flt[c] THEN detected \cup {c} ELSE detected
  /\ UNCHANGED <<name, st, rpc, cpc, rh, wh, inq, buf, wire, gcan, flt, clients, srv, cancelled, crashed,
                 written, dropped, quiet, reported, latest, nflt, nreatt>>

-----------------------------------------------------------------------------
(* connect: dial on demand ("slow dial" = this action is taken late)       *)

DialOk(c) ==
  /\ cpc[c] = "dial" /\ name[c] \in Dialable
  /\ st' = [st EXCEPT ![c] = "live"] /\ cpc' = [cpc EXCEPT ![c] = "done"]
  /\ rpc' = [rpc EXCEPT ![c] = "read"] /\ wpc' = [wpc EXCEPT ![c] = "sel"]
  /\ UNCHANGED <<name, rh, wh, inq, buf, wire, gcan, flt, clients, srv, cancelled, crashed, hvars>>

DialErr(c) ==
  /\ cpc[c] = "dial" /\ name[c] \notin Dialable
  /\ st' = [st EXCEPT ![c] = "dead"] /\ cpc' = [cpc EXCEPT ![c] = "report"]
  /\ detected' = detected \cup {c}
  /\ UNCHANGED <<name, rpc, wpc, rh, wh, inq, buf, wire, gcan, flt, clients, srv, cancelled, crashed,
                 written, dropped, quiet, reported, latest, nflt, nreatt>>

-----------------------------------------------------------------------------
(* serveClients                                                            *)

SrvIdle == [pc |-> "recv", c |-> 0, env |-> None, dst |-> "", tgt |-> 0]

\* the rendezvous on the unbuffered `commands` channel
RecvRpc(c) ==
  /\ srv.pc = "recv" /\ rpc[c] = "send"
  /\ srv' = [pc |-> "check", c |-> c, env |-> rh[c], dst |-> "", tgt |-> 0]
  /\ rh' = [rh EXCEPT ![c] = None] /\ rpc' = [rpc EXCEPT ![c] = "read"]
  /\ UNCHANGED <<name, st, wpc, cpc, wh, inq, buf, wire, gcan, flt, clients, cancelled, crashed, hvars>>

RecvErr(c) ==
  /\ srv.pc = "recv"
  /\ \/ /\ rpc[c] = "report" /\ rpc' = [rpc EXCEPT ![c] = "done"] /\ UNCHANGED <<wpc, cpc>>
        /\ gcan' = [gcan EXCEPT ![c] = TRUE]
     \/ /\ wpc[c] = "report" /\ wpc' = [wpc EXCEPT ![c] = "done"] /\ UNCHANGED <<rpc, cpc>>
        /\ gcan' = [gcan EXCEPT ![c] = TRUE]
     \/ /\ cpc[c] = "report" /\ cpc' = [cpc EXCEPT ![c] = "done"] /\ UNCHANGED <<rpc, wpc, gcan>>
  /\ srv' = [SrvIdle EXCEPT !.pc = "del", !.c = c]
  /\ UNCHANGED <<name, st, rh, wh, inq, buf, wire, flt, clients, cancelled, crashed, hvars>>

SrvCtx ==
  /\ srv.pc = "recv" /\ cancelled /\ srv' = [SrvIdle EXCEPT !.pc = "done"]
  /\ UNCHANGED <<name, st, rpc, wpc, cpc, rh, wh, inq, buf, wire, gcan, flt, clients, cancelled, crashed, hvars>>

SrvOnly(next) == /\ srv' = next
                 /\ UNCHANGED <<name, st, rpc, wpc, cpc, rh, wh, inq, buf, wire, gcan, flt, clients, cancelled,
                                written, dropped, reported, detected, latest, nflt, nreatt>>

\* forwardRpc step 1: the claimed source must be the sender's name
FwdCheck ==
  /\ srv.pc = "check"
  /\ IF SourceOk(name[srv.c], srv.env)
       THEN IF Fine THEN SrvOnly([srv EXCEPT !.pc = "icpt"]) /\ UNCHANGED <<crashed, quiet>>
            ELSE IF IcptOk(Icpt, srv.env)
                   THEN /\ SrvOnly([srv EXCEPT !.pc = "lookup", !.env = Forwarded(Px, Icpt, srv.env),
                                                !.dst = Target(Icpt, srv.env)])
                        /\ UNCHANGED <<crashed, quiet>>
                   ELSE SrvOnly(SrvIdle) /\ quiet' = quiet \cup {srv.env.id} /\ UNCHANGED crashed
       ELSE IF Bug_D12
              THEN crashed' = TRUE /\ SrvOnly(srv) /\ UNCHANGED quiet       \* log.Panic
              ELSE SrvOnly(SrvIdle) /\ quiet' = quiet \cup {srv.env.id} /\ UNCHANGED crashed
\* step 2: the interceptor may rewrite the destination or refuse the envelope
FwdIcpt ==
  /\ srv.pc = "icpt" /\ UNCHANGED crashed
  /\ IF IcptOk(Icpt, srv.env)
       THEN SrvOnly([srv EXCEPT !.pc = "record", !.env.dst = IcptDst(Icpt, srv.env)]) /\ UNCHANGED quiet
       ELSE SrvOnly(SrvIdle) /\ quiet' = quiet \cup {srv.env.id}
\* step 3: own name appended to the route record
FwdRecord ==
  /\ srv.pc = "record" /\ UNCHANGED <<crashed, quiet>>
  /\ SrvOnly([srv EXCEPT !.pc = "pop", !.env.rec = Append(@, Px), !.dst = srv.env.dst])
\* step 4: a return route overrides the destination; its last hop is popped
FwdPop ==
  /\ srv.pc = "pop" /\ UNCHANGED <<crashed, quiet>>
  /\ IF Len(srv.env.nxt) > 0
       THEN SrvOnly([srv EXCEPT !.pc = "lookup", !.dst = srv.env.nxt[Len(srv.env.nxt)], !.env.nxt = Front(@)])
       ELSE SrvOnly([srv EXCEPT !.pc = "lookup"])
FwdRegisterNow ==
  /\ Free # {}
  /\ LET c == NewC IN
       /\ name' = [name EXCEPT ![c] = srv.dst] /\ st' = [st EXCEPT ![c] = "dialing"]
       /\ cpc' = [cpc EXCEPT ![c] = "dial"] /\ clients' = [clients EXCEPT ![srv.dst] = c]
       /\ srv' = [srv EXCEPT !.pc = "enq", !.tgt = c]
\* step 5 (under the mutex): the registered connection, or a new one that is dialled on demand
FwdLookup ==
  /\ srv.pc = "lookup"
  /\ IF clients[srv.dst] # 0
       THEN /\ srv' = [srv EXCEPT !.pc = "enq", !.tgt = clients[srv.dst]]
            /\ UNCHANGED <<name, st, cpc, clients>>
       ELSE IF Bug_SplitLookup
              THEN srv' = [srv EXCEPT !.pc = "register"] /\ UNCHANGED <<name, st, cpc, clients>>   \* the mutex is released here
              ELSE FwdRegisterNow
  /\ UNCHANGED <<rpc, wpc, rh, wh, inq, buf, wire, gcan, flt, cancelled, crashed, hvars>>
\* (only with Bug_SplitLookup) the registration of the connection to dial, in a critical section of its own:
\* it overwrites whatever AddClient registered in between
FwdRegister ==
  /\ srv.pc = "register" /\ FwdRegisterNow
  /\ UNCHANGED <<rpc, wpc, rh, wh, inq, buf, wire, gcan, flt, cancelled, crashed, hvars>>
\* step 6: select { case client.fromServer <- rpc: default: drop }
FwdEnqueue ==
  /\ srv.pc = "enq" /\ Len(buf[srv.tgt]) < Cap
  /\ buf' = [buf EXCEPT ![srv.tgt] = Append(@, srv.env)] /\ srv' = SrvIdle
  /\ UNCHANGED <<name, st, rpc, wpc, cpc, rh, wh, inq, wire, gcan, flt, clients, cancelled, crashed, hvars>>
\* DEVIATION (known finding D11): the buffer is full, the envelope is thrown away
DropFull ==
  /\ srv.pc = "enq" /\ Len(buf[srv.tgt]) >= Cap
  /\ dropped' = dropped \cup {srv.env.id} /\ srv' = SrvIdle
  /\ UNCHANGED <<name, st, rpc, wpc, cpc, rh, wh, inq, buf, wire, gcan, flt, clients, cancelled, crashed,
                 written, quiet, reported, detected, latest, nflt, nreatt>>

\* an error command: forget the connection (under the mutex), then the callback
SrvDel ==
  /\ srv.pc = "del"
  /\ clients' = IF Bug_D14 \/ clients[name[srv.c]] = srv.c
                  THEN [clients EXCEPT ![name[srv.c]] = 0] ELSE clients
  /\ srv' = [srv EXCEPT !.pc = "cb"]
  /\ UNCHANGED <<name, st, rpc, wpc, cpc, rh, wh, inq, buf, wire, gcan, flt, cancelled, crashed, hvars>>
SrvCallback ==
  /\ srv.pc = "cb" /\ reported' = reported \cup {srv.c} /\ srv' = SrvIdle
  /\ UNCHANGED <<name, st, rpc, wpc, cpc, rh, wh, inq, buf, wire, gcan, flt, clients, cancelled, crashed,
                 written, dropped, quiet, detected, latest, nflt, nreatt>>

-----------------------------------------------------------------------------
Server == \/ \E c \in Conns : RecvRpc(c) \/ RecvErr(c)
          \/ SrvCtx \/ FwdCheck \/ FwdIcpt \/ FwdRecord \/ FwdPop \/ FwdLookup \/ FwdRegister \/ FwdEnqueue \/ DropFull
          \/ SrvDel \/ SrvCallback
Reader(c) == ReadOk(c) \/ ReadErr(c) \/ ReadSendCtx(c) \/ (rpc[c] = "report" /\ ReportCtx(c))
Writer(c) == WriteTake(c) \/ WriteSelCtx(c) \/ WriteOk(c) \/ WriteErr(c) \/ (wpc[c] = "report" /\ ReportCtx(c))
Connector(c) == DialOk(c) \/ DialErr(c) \/ ConnReportCtx(c)
Env == \/ \E c \in Conns : PeerWrite(c) \/ PeerFault(c)
       \/ \E n \in Names : Reattach(n)
       \/ CtxCancel

Next == ~crashed /\ (Server \/ Env \/ \E c \in Conns : Reader(c) \/ Writer(c) \/ Connector(c))

Spec == Init /\ [][Next]_vars
\* every goroutine of the proxy keeps running; the environment owes nothing
Fair == /\ WF_vars(Server)
        /\ \A c \in Conns : WF_vars(Reader(c)) /\ WF_vars(Writer(c)) /\ WF_vars(Connector(c))
FairSpec == Spec /\ Fair

-----------------------------------------------------------------------------
(* Properties                                                              *)

Ids == 1..Len(written)
Orig(id) == written[id]
Valid(id) == SourceOk(name[Orig(id).sc], Orig(id)) /\ IcptOk(Icpt, Orig(id))
SeqIds(s) == {s[i].id : i \in DOMAIN s}
Occ(s, id) == Cardinality({i \in DOMAIN s : s[i].id = id})
\* where a forwarded envelope can be once the server has let go of it
Places(id) == LET F(S) == IF S = {} THEN 0 ELSE 1 IN
  F({d \in Conns : Occ(buf[d], id) > 0}) + F({d \in Conns : wh[d].id = id}) + F({d \in Conns : Occ(wire[d], id) > 0})
  + (IF id \in dropped THEN 1 ELSE 0)
Multi(id) == \E c \in Conns : Occ(buf[c], id) > 1 \/ Occ(wire[c], id) > 1
             \/ Cardinality({d \in Conns : Occ(buf[d], id) > 0}) > 1
             \/ Cardinality({d \in Conns : Occ(wire[d], id) > 0}) > 1
             \/ Cardinality({d \in Conns : wh[d].id = id}) > 1
Upstream(id) == \E c \in Conns : Occ(inq[c], id) > 0 \/ rh[c].id = id
InServer(id) == srv.env.id = id

\* C16: an accepted envelope is in exactly one place - queued, being written, written
\* to ONE peer, or thrown away by the named deviation DropFull
ExactlyOnceOrDropped ==
  \A id \in Ids :
    /\ ~Multi(id)
    /\ (Upstream(id) \/ InServer(id) \/ id \in quiet) => Places(id) = 0
    /\ ~(Upstream(id) \/ InServer(id) \/ id \in quiet) => Places(id) = 1
\* ... and the peer is the one named by the rewritten destination / return route, the
\* envelope is the forwarded image of what was written (record appended exactly once)
RightPeerUnchanged ==
  \A c \in Conns : \A i \in DOMAIN wire[c] :
    LET e == wire[c][i] o == Orig(e.id) IN
      /\ name[c] = Target(Icpt, o)
      /\ [e EXCEPT !.sc = o.sc] = Forwarded(Px, Icpt, o)
RecordAppendedOnce ==
  \A c \in Conns : \A i \in DOMAIN wire[c] :
    LET e == wire[c][i] IN e.rec = Append(Orig(e.id).rec, Px)
\* order per source-destination pair (ids grow with the order of writing)
PairOrder ==
  \A c \in Conns : \A i, j \in DOMAIN wire[c] :
    (i < j /\ wire[c][i].sc = wire[c][j].sc) => wire[c][i].id < wire[c][j].id
\* a peer is dialled only when nothing is registered under its name (FwdLookup): there are
\* never two dials in progress for a name (unless AddClient replaced a dialling connection)
DialOnce ==
  \A c, d \in Conns :
    (c # d /\ name[c] = name[d] /\ cpc[c] = "dial" /\ cpc[d] = "dial") => nreatt > 0

\* C17
NoSpoofForwarded ==
  \A c \in Conns : \A e \in {buf[c][i] : i \in DOMAIN buf[c]} \cup {wire[c][i] : i \in DOMAIN wire[c]} :
    SourceOk(name[Orig(e.id).sc], Orig(e.id))
NoCrash == ~crashed
\* the latest connection attached under a name stays registered until ITS failure is noticed
NewerConnectionSurvives ==
  \A n \in Names :
    LET c == latest[n] IN
      (c # 0 /\ c \notin detected /\ ~gcan[c] /\ rpc[c] # "report" /\ wpc[c] # "report") => clients[n] = c

TypeOK == /\ \A c \in Conns : Len(buf[c]) <= Cap
          /\ srv.pc \in {"recv", "check", "icpt", "record", "pop", "lookup", "register", "enq", "del", "cb", "done"}

Safety == TypeOK /\ ExactlyOnceOrDropped /\ RightPeerUnchanged /\ RecordAppendedOnce /\ PairOrder /\ DialOnce
          /\ NoSpoofForwarded /\ NoCrash /\ NewerConnectionSurvives

\* Liveness (under Fair)
Healthy(c) == flt[c] = {} /\ ~gcan[c] /\ st[c] \in {"live", "dialing"} /\ (st[c] = "dialing" => name[c] \in Dialable)
\* every connection that exists for the target of id is healthy (and the target can be reached at all)
TargetHealthy(id) ==
  LET t == Target(Icpt, Orig(id)) IN
    /\ t \in Dialable \cup {Attached[i] : i \in DOMAIN Attached}
    /\ \A c \in Conns : name[c] = t => Healthy(c)
Resolved(id) == id \in quiet \/ id \in dropped \/ \E c \in Conns : Occ(wire[c], id) > 0
\* traffic between healthy peers progresses whatever a third peer does
HealthyProgress ==
  \A id \in 1..MaxEnv :
    (id \in Ids) ~> (id \in Ids /\ (Resolved(id) \/ cancelled \/ crashed \/ ~Healthy(Orig(id).sc) \/ ~TargetHealthy(id)))
\* a failure that one of the connection's loops noticed reaches the disconnect callback
DisconnectReported ==
  \A c \in Conns : (c \in detected) ~> (c \in reported \/ cancelled \/ crashed)
\* after CtxCancel every goroutine of the proxy terminates
Terminated == /\ srv.pc = "done"
              /\ \A c \in Conns : rpc[c] \in {"idle", "done"} /\ wpc[c] \in {"idle", "done"} /\ cpc[c] \in {"idle", "done"}
CancelTerminates == cancelled ~> (Terminated \/ crashed)
=============================================================================
