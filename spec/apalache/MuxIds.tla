------------------------------- MODULE MuxIds -------------------------------
(***************************************************************************)
(* Unbounded argument for the id discipline of one client connection       *)
(* (C05: all stream ids a connection puts on the wire are pairwise         *)
(* distinct; C14: the registry only ever holds ids of calls in flight).    *)
(*                                                                         *)
(* State: the atomic stream counter, the set of ids ever handed out, the   *)
(* registry, and the sticky failure flag.  Actions are the registry's      *)
(* critical sections of internal/client/multiplexer.go.  IndInv is         *)
(* inductive (Apalache: Init => IndInv with --length=0, and                *)
(* IndInv /\ Next => IndInv' with --init=IndInv --length=1), so Fresh -    *)
(* "the id a new call receives was never used before" - holds after any    *)
(* number of calls, not only within the bounds TLC explores.               *)
(***************************************************************************)
EXTENDS Integers, FiniteSets, Apalache

VARIABLES
  \* @type: Int;
  counter,   \* streamCounter (last id handed out)
  \* @type: Set(Int);
  used,      \* ids ever handed out
  \* @type: Set(Int);
  reg,       \* registered ids
  \* @type: Bool;
  failed,    \* rErr set by closeError
  \* @type: Int;
  last       \* the id handed out by the latest Register (0 = none), for the property

Init == counter = 0 /\ used = {} /\ reg = {} /\ failed = FALSE /\ last = 0

\* atomic.AddUint64 + registerHandler (refused once the connection has failed)
Register ==
  /\ ~failed
  /\ counter' = counter + 1
  /\ used' = used \union {counter + 1}
  /\ reg' = reg \union {counter + 1}
  /\ last' = counter + 1
  /\ UNCHANGED failed

\* the id is allocated but the registration is refused (closeError came first)
RegisterRefused ==
  /\ failed
  /\ counter' = counter + 1
  /\ used' = used \union {counter + 1}
  /\ last' = counter + 1
  /\ UNCHANGED <<reg, failed>>

Unregister == \E id \in reg : reg' = reg \ {id} /\ UNCHANGED <<counter, used, failed, last>>

CloseError == failed' = TRUE /\ reg' = {} /\ UNCHANGED <<counter, used, last>>

Next == Register \/ RegisterRefused \/ Unregister \/ CloseError

\* @type: () => Bool;
IndInv ==
  /\ counter >= 0
  /\ \A id \in used : id >= 1 /\ id <= counter
  /\ reg \subseteq used
  /\ failed => reg = {}
  /\ last >= 0 /\ last <= counter

\* an arbitrary state satisfying IndInv (Apalache: Gen(n) is any set of at most n elements)
IndInit ==
  /\ counter \in Int
  /\ used = Gen(6)
  /\ reg = Gen(6)
  /\ failed \in BOOLEAN
  /\ last \in Int
  /\ IndInv

\* what C05 needs: the id of a new call was never used before (checked as an action property:
\* in every step that hands out an id, that id is not in the old `used`)
Fresh == (last' # last) => last' \notin used
=============================================================================
