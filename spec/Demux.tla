------------------------------- MODULE Demux -------------------------------
(***************************************************************************)
(* C18 - implementation-shaped model of goat's Demux (demux.go) and of the *)
(* logical connections it hands out (channel.go, NewGoatOverChannel).      *)
(*                                                                         *)
(*   Run():   for { rpc := shared.Read(ctx)              -- RunRead        *)
(*                  lock; id := demuxOn(rpc)                               *)
(*                  conn := value[id] or create+announce  -- RunLookup     *)
(*                  unlock                                                 *)
(*                  <gate demux.run.window>               -- pc = "window" *)
(*                  conn.r <- rpc }                       -- RunHandoff    *)
(*   Cancel(id): lock; close(r); close(w); delete(value, id); unlock       *)
(*   per-key writer goroutine: for { select { ctx.Done -> return           *)
(*                  rpc, ok := <-w; !ok -> return; shared.Write(rpc) } }   *)
(*   logical Read : select { ctx.Done; rpc, ok := <-r (!ok -> error) }     *)
(*   logical Write: select { ctx.Done; w <- rpc }                          *)
(*                                                                         *)
(* The critical sections contain no blocking operation, so each is one     *)
(* atomic action (the mutex itself is not a variable).  The unbuffered     *)
(* channels r and w are rendezvous: a hand-off is ONE action that needs    *)
(* both parties (Run at "window" + a waiting logical reader; a sending     *)
(* logical writer + the writer goroutine at "recv").  A send on a closed   *)
(* channel - by a goroutine already blocked in the send or arriving later  *)
(* - is a Go panic that kills the process: crashed = TRUE.                 *)
(*                                                                         *)
(* Fixes selects which repairs are in the code:                            *)
(*   "DoneR"   Cancel no longer closes r (a per-connection done channel    *)
(*             fails readers and lets Run drop the envelope in flight)     *)
(*   "DoneW"   Cancel no longer closes w (done channel fails writers and   *)
(*             stops the writer goroutine)                                 *)
(*   "StopSel" the hand-off selects on the demux context                   *)
(* Fixes = {} is the code as found.                                        *)
(*                                                                         *)
(* Configurations (lib/vcheck/props.py PROPS['C18'].models; copies in      *)
(* spec/Demux_*.cfg), measured with TLC -workers 8, distinct states:       *)
(*   fixed, safety, 3 symmetric keys, Cancel/Stop anywhere                 *)
(*     MaxEnv 3, MaxWrites 1, MaxCancel 1        56 943   (8 s, quick)    *)
(*     MaxEnv 4, MaxWrites 2, MaxCancel 1     5 054 329   (4.7 min)       *)
(*     MaxEnv 3, MaxWrites 0, MaxCancel 2        19 029   (5 s, quick)    *)
(*     MaxEnv 5, MaxWrites 0, MaxCancel 2     2 031 349   (2.7 min)       *)
(*   fixed, liveness (StopEndsRun, CancelledOpsFail), 2 keys               *)
(*     MaxEnv 2, MaxWrites 1, MaxCancel 1         9 047   (8 s, quick)    *)
(*     MaxEnv 3, MaxWrites 1, MaxCancel 1        73 395   (35 s)          *)
(*   Bug_CloseR  Fixes = {DoneW, StopSel}  -> NoCrash violated             *)
(*       RunRead, RunLookup, Cancel, RunSendOnClosed                       *)
(*   Bug_CloseW  Fixes = {DoneR, StopSel}  -> NoCrash violated             *)
(*       RunRead, RunLookup, Cancel, LWriteStart, LWriteOnClosed           *)
(*   Bug_StopIgnored Fixes = {DoneR, DoneW} -> StopEndsRun violated        *)
(*       (Run sits in "window" with no reader; 7 735 states)               *)
(*   Bug_AsFound Fixes = {}                -> NoCrash violated             *)
(***************************************************************************)
EXTENDS Naturals, Sequences, FiniteSets, TLC

CONSTANTS Keys,       \* demux keys
          MaxEnv,     \* envelopes arriving on the shared transport (keys chosen freely)
          MaxWrites,  \* logical writes (connection chosen freely)
          MaxCancel,  \* Cancel(key) calls that hit a live key
          Fixes

ASSUME Fixes \subseteq {"DoneR", "DoneW", "StopSel"}

Incs  == 1..(MaxCancel + 1)        \* incarnations of a key (a cancelled key may be used again)
Conns == Keys \X Incs              \* a logical connection = <<key, incarnation>>
None  == <<>>

VARIABLES
  pc,        \* Run loop: "read" | "lookup" | "window" | "ret"
  cur,       \* the envelope Run holds: [k |-> key, n |-> arrival number] (None when pc = "read")
  target,    \* the connection Run looked up / created for cur
  nread,     \* envelopes read from the shared transport so far
  cmap,      \* conns.value: key -> current incarnation (0 = absent)
  ninc,      \* key -> incarnations created so far
  st,        \* connection -> "none" | "open" | "cancelled"
  rd,        \* connection -> "idle" | "waiting"   (a logical reader blocked in Read)
  wr,        \* connection -> 0 | token            (a logical writer blocked in Write with that token)
  wpc,       \* connection -> "none" | "recv" | "write" | "exit"   (the per-key writer goroutine)
  wbuf,      \* connection -> token the writer goroutine is writing to the shared transport
  nwrite, ncancel, stopped, crashed,
  \* history variables (never read by the actions' guards)
  arr,       \* sequence of envelopes in arrival order
  assigned,  \* connection -> arrival numbers Run selected it for
  delivered, \* connection -> arrival numbers its readers received
  dropped,   \* connection -> TRUE once Run gave up the envelope in flight for it
  ann,       \* connection -> number of onNewConnection announcements
  accepted,  \* connection -> tokens the writer goroutine took from w
  shout      \* the shared transport's output: sequence of <<connection, token>>

vars == <<pc, cur, target, nread, cmap, ninc, st, rd, wr, wpc, wbuf, nwrite, ncancel, stopped,
          crashed, arr, assigned, delivered, dropped, ann, accepted, shout>>

ClosedR(c) == st[c] = "cancelled" /\ "DoneR" \notin Fixes
ClosedW(c) == st[c] = "cancelled" /\ "DoneW" \notin Fixes

Init ==
  /\ pc = "read" /\ cur = None /\ target = None /\ nread = 0
  /\ cmap = [k \in Keys |-> 0] /\ ninc = [k \in Keys |-> 0]
  /\ st = [c \in Conns |-> "none"] /\ rd = [c \in Conns |-> "idle"] /\ wr = [c \in Conns |-> 0]
  /\ wpc = [c \in Conns |-> "none"] /\ wbuf = [c \in Conns |-> 0]
  /\ nwrite = 0 /\ ncancel = 0 /\ stopped = FALSE /\ crashed = FALSE
  /\ arr = <<>> /\ assigned = [c \in Conns |-> <<>>] /\ delivered = [c \in Conns |-> <<>>]
  /\ dropped = [c \in Conns |-> FALSE] /\ ann = [c \in Conns |-> 0]
  /\ accepted = [c \in Conns |-> <<>>] /\ shout = <<>>

(* ------------------------------ the run loop --------------------------- *)

\* shared.Read(ctx) returns the next envelope; its key is the environment's choice
\* (= every interleaving of the per-key sequences).  With ctx cancelled and an
\* envelope available Go's select may still return the envelope.
RunRead(k) ==
  /\ ~crashed
  /\ pc = "read" /\ nread < MaxEnv
  /\ nread' = nread + 1
  /\ cur' = [k |-> k, n |-> nread + 1]
  /\ arr' = Append(arr, cur')
  /\ pc' = "lookup"
  /\ UNCHANGED <<target, cmap, ninc, st, rd, wr, wpc, wbuf, nwrite, ncancel, stopped, crashed,
                 assigned, delivered, dropped, ann, accepted, shout>>

RunReadErr ==      \* ctx cancelled: Read fails, Run returns
  /\ ~crashed
  /\ pc = "read" /\ stopped
  /\ pc' = "ret"
  /\ UNCHANGED <<cur, target, nread, cmap, ninc, st, rd, wr, wpc, wbuf, nwrite, ncancel, stopped,
                 crashed, arr, assigned, delivered, dropped, ann, accepted, shout>>

\* lock; lookup or create (spawn writer goroutine, register, `go onNewConnection`); unlock
RunLookup ==
  /\ ~crashed
  /\ pc = "lookup"
  /\ LET k == cur.k IN
     IF cmap[k] # 0
       THEN /\ target' = <<k, cmap[k]>>
            /\ UNCHANGED <<cmap, ninc, st, wpc, ann>>
       ELSE LET c == <<k, ninc[k] + 1>> IN
            /\ target' = c
            /\ ninc' = [ninc EXCEPT ![k] = @ + 1]
            /\ cmap' = [cmap EXCEPT ![k] = ninc[k] + 1]
            /\ st' = [st EXCEPT ![c] = "open"]
            /\ wpc' = [wpc EXCEPT ![c] = "recv"]
            /\ ann' = [ann EXCEPT ![c] = @ + 1]
  /\ assigned' = [assigned EXCEPT ![target'] = Append(@, cur.n)]
  /\ pc' = "window"
  /\ UNCHANGED <<cur, nread, rd, wr, wbuf, nwrite, ncancel, stopped, crashed, arr, delivered,
                 dropped, accepted, shout>>

\* conn.r <- rpc meets a logical reader blocked in <-r
RunHandoff ==
  /\ ~crashed
  /\ pc = "window" /\ rd[target] = "waiting" /\ ~ClosedR(target)
  /\ delivered' = [delivered EXCEPT ![target] = Append(@, cur.n)]
  /\ rd' = [rd EXCEPT ![target] = "idle"]
  /\ pc' = "read" /\ cur' = None /\ target' = None
  /\ UNCHANGED <<nread, cmap, ninc, st, wr, wpc, wbuf, nwrite, ncancel, stopped, crashed, arr,
                 assigned, dropped, ann, accepted, shout>>

\* conn.r <- rpc on a channel Cancel has closed (before or while Run blocks in the send)
RunSendOnClosed ==
  /\ ~crashed
  /\ pc = "window" /\ ClosedR(target)
  /\ crashed' = TRUE
  /\ UNCHANGED <<pc, cur, target, nread, cmap, ninc, st, rd, wr, wpc, wbuf, nwrite, ncancel, stopped,
                 arr, assigned, delivered, dropped, ann, accepted, shout>>

\* fixed hand-off: `case <-conn.done:` the connection was cancelled, the envelope is discarded
RunDropCancelled ==
  /\ ~crashed
  /\ pc = "window" /\ "DoneR" \in Fixes /\ st[target] = "cancelled"
  /\ dropped' = [dropped EXCEPT ![target] = TRUE]
  /\ pc' = "read" /\ cur' = None /\ target' = None
  /\ UNCHANGED <<nread, cmap, ninc, st, rd, wr, wpc, wbuf, nwrite, ncancel, stopped, crashed, arr,
                 assigned, delivered, ann, accepted, shout>>

\* fixed hand-off: `case <-gsd.ctx.Done(): return`
RunDropStopped ==
  /\ ~crashed
  /\ pc = "window" /\ "StopSel" \in Fixes /\ stopped
  /\ dropped' = [dropped EXCEPT ![target] = TRUE]
  /\ pc' = "ret" /\ cur' = None /\ target' = None
  /\ UNCHANGED <<nread, cmap, ninc, st, rd, wr, wpc, wbuf, nwrite, ncancel, stopped, crashed, arr,
                 assigned, delivered, ann, accepted, shout>>

RunNext == (\E k \in Keys : RunRead(k)) \/ RunReadErr \/ RunLookup \/ RunHandoff \/ RunSendOnClosed
           \/ RunDropCancelled \/ RunDropStopped

(* --------------------- logical readers (environment) ------------------- *)

LReadStart(c) ==       \* somebody calls Read on an announced connection (live or cancelled)
  /\ ~crashed
  /\ st[c] # "none" /\ rd[c] = "idle"
  /\ rd' = [rd EXCEPT ![c] = "waiting"]
  /\ UNCHANGED <<pc, cur, target, nread, cmap, ninc, st, wr, wpc, wbuf, nwrite, ncancel, stopped,
                 crashed, arr, assigned, delivered, dropped, ann, accepted, shout>>

LReadFail(c) ==        \* r closed (as found) or done closed (fixed): Read returns an error
  /\ ~crashed
  /\ rd[c] = "waiting" /\ st[c] = "cancelled"
  /\ rd' = [rd EXCEPT ![c] = "idle"]
  /\ UNCHANGED <<pc, cur, target, nread, cmap, ninc, st, wr, wpc, wbuf, nwrite, ncancel, stopped,
                 crashed, arr, assigned, delivered, dropped, ann, accepted, shout>>

(* --------------------- logical writers (environment) ------------------- *)

LWriteStart(c) ==
  /\ ~crashed
  /\ st[c] # "none" /\ wr[c] = 0 /\ nwrite < MaxWrites
  /\ nwrite' = nwrite + 1
  /\ wr' = [wr EXCEPT ![c] = nwrite + 1]
  /\ UNCHANGED <<pc, cur, target, nread, cmap, ninc, st, rd, wpc, wbuf, ncancel, stopped, crashed,
                 arr, assigned, delivered, dropped, ann, accepted, shout>>

LWriteOnClosed(c) ==   \* w <- rpc on a channel Cancel has closed
  /\ ~crashed
  /\ wr[c] # 0 /\ ClosedW(c)
  /\ crashed' = TRUE
  /\ UNCHANGED <<pc, cur, target, nread, cmap, ninc, st, rd, wr, wpc, wbuf, nwrite, ncancel, stopped,
                 arr, assigned, delivered, dropped, ann, accepted, shout>>

LWriteFail(c) ==       \* fixed: `case <-done:` Write returns an error
  /\ ~crashed
  /\ wr[c] # 0 /\ st[c] = "cancelled" /\ "DoneW" \in Fixes
  /\ wr' = [wr EXCEPT ![c] = 0]
  /\ UNCHANGED <<pc, cur, target, nread, cmap, ninc, st, rd, wpc, wbuf, nwrite, ncancel, stopped,
                 crashed, arr, assigned, delivered, dropped, ann, accepted, shout>>

(* --------------------------- per-key writer ---------------------------- *)

WTake(c) ==            \* rendezvous on w
  /\ ~crashed
  /\ wpc[c] = "recv" /\ wr[c] # 0 /\ ~ClosedW(c)
  /\ wbuf' = [wbuf EXCEPT ![c] = wr[c]]
  /\ accepted' = [accepted EXCEPT ![c] = Append(@, wr[c])]
  /\ wr' = [wr EXCEPT ![c] = 0]
  /\ wpc' = [wpc EXCEPT ![c] = "write"]
  /\ UNCHANGED <<pc, cur, target, nread, cmap, ninc, st, rd, nwrite, ncancel, stopped, crashed, arr,
                 assigned, delivered, dropped, ann, shout>>

WExit(c) ==            \* ctx.Done, or w closed / done closed
  /\ ~crashed
  /\ wpc[c] = "recv" /\ (stopped \/ st[c] = "cancelled")
  /\ wpc' = [wpc EXCEPT ![c] = "exit"]
  /\ UNCHANGED <<pc, cur, target, nread, cmap, ninc, st, rd, wr, wbuf, nwrite, ncancel, stopped,
                 crashed, arr, assigned, delivered, dropped, ann, accepted, shout>>

WWrite(c) ==           \* shared.Write(rpc) succeeds (it may take arbitrarily long)
  /\ ~crashed
  /\ wpc[c] = "write"
  /\ shout' = Append(shout, <<c, wbuf[c]>>)
  /\ wpc' = [wpc EXCEPT ![c] = "recv"]
  /\ UNCHANGED <<pc, cur, target, nread, cmap, ninc, st, rd, wr, wbuf, nwrite, ncancel, stopped,
                 crashed, arr, assigned, delivered, dropped, ann, accepted>>

WWriteErr(c) ==        \* shared.Write(ctx, rpc) with the demux context cancelled
  /\ ~crashed
  /\ wpc[c] = "write" /\ stopped
  /\ wpc' = [wpc EXCEPT ![c] = "exit"]
  /\ UNCHANGED <<pc, cur, target, nread, cmap, ninc, st, rd, wr, wbuf, nwrite, ncancel, stopped,
                 crashed, arr, assigned, delivered, dropped, ann, accepted, shout>>

(* ---------------------------- Cancel and Stop -------------------------- *)

Cancel(k) ==           \* on an absent key Cancel is a no-op (not modelled)
  /\ ~crashed
  /\ cmap[k] # 0 /\ ncancel < MaxCancel
  /\ ncancel' = ncancel + 1
  /\ st' = [st EXCEPT ![<<k, cmap[k]>>] = "cancelled"]
  /\ cmap' = [cmap EXCEPT ![k] = 0]
  /\ UNCHANGED <<pc, cur, target, nread, ninc, rd, wr, wpc, wbuf, nwrite, stopped, crashed, arr,
                 assigned, delivered, dropped, ann, accepted, shout>>

Stop ==
  /\ ~crashed
  /\ ~stopped
  /\ stopped' = TRUE
  /\ UNCHANGED <<pc, cur, target, nread, cmap, ninc, st, rd, wr, wpc, wbuf, nwrite, ncancel, crashed,
                 arr, assigned, delivered, dropped, ann, accepted, shout>>

\* every action has the guard ~crashed: a panic ends the process
Next ==
  \/ RunNext
  \/ \E c \in Conns : LReadStart(c) \/ LReadFail(c) \/ LWriteStart(c) \/ LWriteOnClosed(c)
                       \/ LWriteFail(c) \/ WTake(c) \/ WExit(c) \/ WWrite(c) \/ WWriteErr(c)
  \/ \E k \in Keys : Cancel(k)
  \/ Stop

\* Fairness: the goroutines of the library run when they can; the environment's
\* readers and writers that can only fail do fail (Go's select with one ready case).
Spec == /\ Init /\ [][Next]_vars
        /\ WF_vars(RunNext)
        /\ \A c \in Conns : WF_vars(LReadFail(c)) /\ WF_vars(LWriteFail(c))

(* ------------------------------ properties ----------------------------- *)

TypeOK ==
  /\ pc \in {"read", "lookup", "window", "ret"}
  /\ nread \in 0..MaxEnv /\ nwrite \in 0..MaxWrites /\ ncancel \in 0..MaxCancel
  /\ \A k \in Keys : cmap[k] \in 0..(MaxCancel + 1) /\ ninc[k] \in 0..(MaxCancel + 1)
  /\ \A c \in Conns : st[c] \in {"none", "open", "cancelled"} /\ rd[c] \in {"idle", "waiting"}
                      /\ wpc[c] \in {"none", "recv", "write", "exit"}
  /\ (pc \in {"window"}) => target \in Conns

Front(s) == SubSeq(s, 1, Len(s) - 1)
IsPrefix(s, t) == Len(s) <= Len(t) /\ SubSeq(t, 1, Len(s)) = s
RECURSIVE Cat(_, _, _)
Cat(f, k, i) == IF i = 0 THEN <<>> ELSE Cat(f, k, i - 1) \o f[<<k, i>>]
Nums(s) == [i \in 1..Len(s) |-> s[i].n]
OfKey(k) == Nums(SelectSeq(arr, LAMBDA e : e.k = k))
InFlight(c) == pc = "window" /\ target = c

\* Every envelope read from the shared transport is selected for exactly one
\* incarnation of its key (arrival order kept across and within incarnations) and
\* a connection's readers received exactly what was selected for it, in order, once:
\* all of it, except the one envelope Run still holds or gave up because the
\* connection was cancelled / the demux stopped meanwhile.
DeliveredOncePerKeyInOrder ==
  /\ \A k \in Keys :
       OfKey(k) = Cat(assigned, k, MaxCancel + 1) \o (IF pc = "lookup" /\ cur.k = k THEN <<cur.n>> ELSE <<>>)
  /\ \A c \in Conns :
       /\ delivered[c] = (IF InFlight(c) \/ dropped[c] THEN Front(assigned[c]) ELSE assigned[c])
       /\ dropped[c] => (st[c] = "cancelled" \/ stopped)
       /\ ~(InFlight(c) /\ dropped[c])

\* A connection exists iff it was announced, exactly once; a key has at most one
\* live incarnation, the one in the map; a connection is created by a first use.
AnnouncedOncePerIncarnation ==
  /\ \A c \in Conns : ann[c] = (IF st[c] = "none" THEN 0 ELSE 1)
  /\ \A c \in Conns : st[c] # "none" => assigned[c] # <<>>
  /\ \A k \in Keys : \A i \in Incs : (st[<<k, i>>] = "open") <=> (cmap[k] = i)
  /\ \A k \in Keys : \A i \in Incs : (st[<<k, i>>] # "none") <=> (i <= ninc[k])

OutOf(c) == LET s == SelectSeq(shout, LAMBDA e : e[1] = c) IN [i \in 1..Len(s) |-> s[i][2]]

\* What reaches the shared transport is exactly what the logical writers handed
\* over, unchanged, once, in per-connection order; nothing accepted is withheld
\* except the one envelope in the writer's hand (or lost to Stop).
WritesPassThrough ==
  \A c \in Conns :
    /\ IsPrefix(OutOf(c), accepted[c])
    /\ Len(accepted[c]) - Len(OutOf(c)) <= 1
    /\ (Len(accepted[c]) - Len(OutOf(c)) = 1) => (wpc[c] = "write" \/ stopped)
    /\ wpc[c] = "write" => accepted[c] = Append(OutOf(c), wbuf[c])

NoCrash == ~crashed

\* liveness
StopEndsRun == stopped ~> (pc = "ret")
CancelledOpsFail ==
  \A c \in Conns : /\ (st[c] = "cancelled" /\ rd[c] = "waiting") ~> (rd[c] = "idle")
                   /\ (st[c] = "cancelled" /\ wr[c] # 0) ~> (wr[c] = 0)

Perms == Permutations(Keys)
=============================================================================
