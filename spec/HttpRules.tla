------------------------------ MODULE HttpRules ------------------------------
(***************************************************************************)
(* Pure operators shared by HttpTransport (the implementation-shaped       *)
(* design model of GoatOverHttp, http.go) and TransportTrace (validation   *)
(* of traces recorded from the real code).  No variables, no constants.    *)
(***************************************************************************)
EXTENDS Integers

\* Request shapes in the order of ServeHTTP's validation ladder (http.go):
\*   r.Body == nil, io.ReadAll fails, proto.Unmarshal fails, rpc.Header == nil,
\*   Header.Source == "", sourceToAddress fails, otherwise accepted.
Shapes == {"nobody", "unreadable", "undecodable", "nohdr", "nosrc", "maperr", "ok"}

WellFormed(shape) == shape = "ok"

\* what ServeHTTP must answer when it is not interrupted
LadderStatus(shape) == IF WellFormed(shape) THEN 200 ELSE 400

\* The cleaner's notion of an idle connection.  lastActivity is 0 (the epoch)
\* until the first completed Read / started Write, so such a connection counts
\* as idle at any cleaner run: last = -1 stands for "never active".
Idle(now, last, timeout) == (last < 0) \/ (now - last >= timeout)

\* The ticker (clockwork fake ticker: a one-slot channel, expiries every
\* `interval`): does advancing the clock to `now` fire it, and when is the
\* next expiry afterwards.
Fires(now, nextTick) == now >= nextTick
NextTick(now, nextTick, interval) ==
  IF Fires(now, nextTick) THEN nextTick + interval * (((now - nextTick) \div interval) + 1)
  ELSE nextTick
=============================================================================
