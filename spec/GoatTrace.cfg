SPECIFICATION TraceSpec
CHECK_DEADLOCK FALSE
CONSTANT Off = {}
