---------------------------- MODULE GoatRegistry ----------------------------
(***************************************************************************)
(* The slim registry view of one connection, for call histories far longer *)
(* than the full Layer-P state can follow (C14 bounded state, C05 unique    *)
(* ids over a connection's lifetime).  State: which ids have ever been      *)
(* registered by the client (as an interval plus gaps, so that 10^6 calls   *)
(* stay cheap), the ghost contents of the client and server registries and  *)
(* the goroutine baseline.  Actions are the registry events emitted under   *)
(* the registry locks and the census taken at quiescent points.             *)
(***************************************************************************)
EXTENDS Integers, FiniteSets, TLC

CONSTANT Off
G(g, cond) == IF g \in Off THEN TRUE ELSE cond = TRUE

VARIABLES hi, gaps,   \* ids ever registered: every id <= hi except those in gaps
          creg, sreg, \* ghost registries
          base,       \* idle goroutine level
          cregN,      \* registry size reported by the accessor since the last census
          stuck       \* the driver reported RPCs that never finished

rvars == <<hi, gaps, creg, sreg, base, cregN, stuck>>

RInit == hi = 0 /\ gaps = {} /\ creg = {} /\ sreg = {} /\ base = 0 /\ cregN = -1 /\ stuck = FALSE

FreshId(n) == n > hi \/ n \in gaps
UseId(n) == IF n > hi THEN hi' = n /\ gaps' = gaps \cup ((hi + 1)..(n - 1))
                      ELSE hi' = hi /\ gaps' = gaps \ {n}

\* the client registers a call: its id was never used before on this connection (C05)
MuxReg(id, n) == /\ G("ids", FreshId(id)) /\ UseId(id)
                 /\ creg' = creg \cup {id}
                 /\ G("reg", n = Cardinality(creg \cup {id}))
                 /\ UNCHANGED <<sreg, base, cregN, stuck>>
MuxUnreg(id, n) == /\ creg' = creg \ {id}
                   /\ G("reg", n = Cardinality(creg \ {id}))
                   /\ UNCHANGED <<hi, gaps, sreg, base, cregN, stuck>>
MuxFail(n) == /\ creg' = IF n = 0 THEN {} ELSE creg
              /\ UNCHANGED <<hi, gaps, sreg, base, cregN, stuck>>
\* the server registers a stream: only one handler per id at a time
SrvReg(id, n) == /\ G("reg", id \notin sreg)
                 /\ sreg' = sreg \cup {id}
                 /\ G("reg", n = Cardinality(sreg \cup {id}))
                 /\ UNCHANGED <<hi, gaps, creg, base, cregN, stuck>>
SrvUnreg(id, n) == /\ sreg' = sreg \ {id}
                   /\ G("reg", n = Cardinality(sreg \ {id}))
                   /\ UNCHANGED <<hi, gaps, creg, base, cregN, stuck>>
SetBase(n) == base' = n /\ UNCHANGED <<hi, gaps, creg, sreg, cregN, stuck>>
CRegN(n) == cregN' = n /\ UNCHANGED <<hi, gaps, creg, sreg, base, stuck>>
Stuck == stuck' = TRUE /\ G("pend", FALSE) /\ UNCHANGED <<hi, gaps, creg, sreg, base, cregN>>

\* census at a quiescent point; idle = no RPC in flight on either side (C14)
Census(idle, ngor) ==
  /\ G("reg", cregN >= 0 => cregN = Cardinality(creg))
  /\ G("reg", idle => creg = {} /\ sreg = {} /\ ngor <= base)
  /\ cregN' = -1
  /\ UNCHANGED <<hi, gaps, creg, sreg, base, stuck>>
=============================================================================
