--------------------------- MODULE ObserversTrace ---------------------------
(***************************************************************************)
(* Trace validation for C20: every line recorded by the "observers" runner *)
(* (harness/driver/x_observers.go) from the real goat client and server    *)
(* must be accepted by the automata of Observers.tla with the recorded     *)
(* arguments.  The lines carry all arguments, so the search is linear.     *)
(*                                                                         *)
(* Lines:  Cfg(c=client chain, h=server chain, n=client handlers,          *)
(*   code=server handlers); Call(c, res=kind, msg=metadata, pay=request,   *)
(*   x="dl" if the caller set a deadline, "pc" if it had cancelled the     *)
(*   context beforehand); Cancel(c); Fault/Unfault;                        *)
(*   IcptEnter/IcptCall/IcptBack/IcptExit(k=side, n=stage, c, msg, pay):   *)
(*   what stage n sees on entry, hands on, sees coming back, returns;      *)
(*   HandlerRun/HandlerRet(c, msg, pay); Wrap(k, res=in|out, n, c,         *)
(*   msg=seen, pay=passed on) for stream messages; CSend/HRecv/HSend/CRecv;*)
(*   Opened(c, msg=error class); RpcDone(c, msg=error class, pay=reply);   *)
(*   Tag(k, n=handler, h=tag, c); Stat(k, n, h=tag found or 0,             *)
(*   res=event kind, code=1 iff End.Error=nil); ConnStat(k, n, res);       *)
(*   Settled(c) per RPC and Quiesce once the connection is down.           *)
(*   Hung (a caller still blocked after its outcome was forced), Crash     *)
(*   and Wedged have no action: such a trace is rejected.                  *)
(***************************************************************************)
EXTENDS Observers, Json, IOUtils

CONSTANT Off      \* rule groups to switch off (unused: one property, one group)

VARIABLE l

Trace == ndJsonDeserialize(IOEnv.VERIF_TRACE)
E == Trace[l]
Is(name) == l <= Len(Trace) /\ Trace[l].ev = name /\ l' = l + 1

TraceInit == AInit /\ prog = <<>> /\ pc = 0 /\ l = 1

\* a Begin line starts a new scenario: every variable is re-initialised
TBegin ==
  /\ Is("Begin")
  /\ cf' = [cn |-> 0, sn |-> 0, ch |-> 0, sh |-> 0]
  /\ flt' = FALSE /\ rp' = <<>> /\ tg' = <<>> /\ cs' = <<>> /\ ph' = "run"
  /\ UNCHANGED <<prog, pc>>

\* lines that are not this property's business
TOther ==
  /\ l <= Len(Trace) /\ Trace[l].ev \in {"End", "Leak"} /\ l' = l + 1
  /\ UNCHANGED vars

TEvent ==
  /\ l <= Len(Trace) /\ Trace[l].ev \notin {"Begin", "End", "Leak"} /\ l' = l + 1
  /\ Step(E)
  /\ UNCHANGED <<prog, pc>>

TraceNext == TBegin \/ TOther \/ TEvent

\* A line that no action explains is reported and the rest of its scenario is
\* skipped, so that the remaining scenarios of the batch are still checked.
NextBegin == IF \E j \in (l + 1)..Len(Trace) : Trace[j].ev = "Begin"
               THEN CHOOSE j \in (l + 1)..Len(Trace) :
                      Trace[j].ev = "Begin" /\ \A i \in (l + 1)..(j - 1) : Trace[i].ev # "Begin"
               ELSE Len(Trace) + 1
TSkip == /\ l <= Len(Trace)
         /\ ~ENABLED TraceNext
         /\ PrintT(<<"TRACE_REJECTED_AT_LINE", l, "of", Len(Trace)>>)
         /\ l' = NextBegin
         /\ UNCHANGED vars

\* A scenario is accepted iff SOME branch of the specification consumes it up to its End line (where logged
\* arguments leave a choice the branches that guessed wrong die on the way and are reported by TSkip, too):
SegOk == (l <= Len(Trace) /\ Trace[l].ev = "End") => PrintT(<<"TRACE_SEGMENT_OK", l>>)
TraceSpec == TraceInit /\ [][(TraceNext /\ SegOk) \/ TSkip]_<<vars, l>>

\* strict variant (no skipping): one state per consumed line plus the initial one
StrictSpec == TraceInit /\ [][TraceNext]_<<vars, l>>
TraceAccepted ==
  LET d == TLCGet("stats").diameter IN
  IF d - 1 = Len(Trace) THEN TRUE
  ELSE Print(<<"TRACE_REJECTED_AT_LINE", d, "of", Len(Trace)>>, FALSE)
=============================================================================
