----------------------------- MODULE DemuxTrace -----------------------------
(***************************************************************************)
(* C18 - trace specification at the observable level: every line recorded  *)
(* by harness/driver/x_demux.go from the real goat.Demux must be enabled   *)
(* by the property                                                          *)
(*                                                                         *)
(*   "Every envelope read from the shared transport is handed exactly      *)
(*    once, in arrival order, to the logical connection selected by the    *)
(*    caller-supplied key function, and that connection is created and     *)
(*    announced exactly once, on first use of the key; every envelope      *)
(*    written on a logical connection is written unchanged to the shared   *)
(*    transport.  After a key is cancelled, reads and writes on its        *)
(*    logical connection fail instead of blocking forever or crashing the  *)
(*    process, and stopping the demultiplexer ends its run loop."          *)
(*                                                                         *)
(* A logical connection is <<key, incarnation>>: Cancel(key) forgets the   *)
(* key, its next use creates (and announces) the next incarnation.         *)
(* Design model: Demux.tla (this module is independent of it: the design   *)
(* model has the library's internal steps, this one only what is seen).    *)
(*                                                                         *)
(* Safety rules are the enabling conditions of the events; "eventually"    *)
(* is judged at Quiesce lines (synctest: every goroutine durably blocked). *)
(* Crash, Wedged and Leak lines have no action.                            *)
(* Rule groups (CONSTANT Off switches a group off):                        *)
(*   "once"   delivery exactly once, per-connection order, right key       *)
(*   "ann"    announced once per incarnation, on first use                 *)
(*   "pass"   writes pass through unchanged, once                          *)
(*   "cancel" operations on a cancelled connection fail, never hang;       *)
(*            operations on a live connection do not fail                  *)
(*   "stop"   Stop ends Run (and only Stop does)                           *)
(*   "rpc"    API-level results of the RPC workload (echo)                 *)
(***************************************************************************)
EXTENDS Naturals, Sequences, FiniteSets, TLC, Json, IOUtils

CONSTANT Off

VARIABLES l,   \* next trace line
          s    \* the observable state, one record (see S0)
vars == <<s>>

Trace == ndJsonDeserialize(IOEnv.VERIF_TRACE)
E == Trace[l]
On(g) == g \notin Off

Get(f, k, d) == IF k \in DOMAIN f THEN f[k] ELSE d
Put(f, k, v) == [x \in (DOMAIN f) \cup {k} |-> IF x = k THEN v ELSE f[x]]

EmptyF == [x \in {} |-> 0]     \* the empty map (its DOMAIN is an enumerated set, so any key may be looked up)
S0 == [ phase   |-> "run",   \* run | unwind | end
        inq     |-> <<>>,    \* envelopes that entered the shared input: [k, x]
        nIn     |-> 0,       \* how many of them Run has read
        nOut    |-> 0,       \* writes that reached the shared transport
        cur     |-> EmptyF,    \* key -> live incarnation (0 / absent = none)
        ninc    |-> EmptyF,    \* key -> incarnations created (by first uses)
        nann    |-> EmptyF,    \* key -> incarnations announced
        dead    |-> {},      \* cancelled connections
        pend    |-> EmptyF,    \* connection -> digests read from the shared transport, not yet handed to a reader
        ops     |-> EmptyF,    \* op id -> [kind r/w, conn, x, st pend/ok/err]
        wrq     |-> {},      \* write ops whose envelope has not reached the shared transport
        broken  |-> {},      \* connections whose writer goroutine has gone (the shared transport refused one of its writes)
        stopped |-> FALSE, runret |-> FALSE,
        stuck   |-> FALSE,   \* harness: the shared transport blocks writers
        hold    |-> FALSE,   \* harness: the shared transport withholds input
        parked  |-> 0,       \* goroutines the harness holds in demux.run.window
        calls   |-> EmptyF ]   \* rpc workload: call -> [k, hurt, req, sent, nrecv, closed, p]

Is(name)  == l <= Len(Trace) /\ Trace[l].ev = name /\ l' = l + 1
IsR(name) == Is(name) /\ s.phase = "run"

TraceInit == l = 1 /\ s = S0

TBegin == Is("Begin") /\ s' = S0

(* ------------------------- shared transport, input --------------------- *)

TIn == /\ IsR("In") /\ E.n = Len(s.inq) + 1
       /\ s' = [s EXCEPT !.inq = Append(@, [k |-> E.k, x |-> E.x])]

\* Run read envelope n: arrival order is the queue's order; the key function's
\* value selects the connection; a key without live incarnation gets a new one.
TSharedIn ==
  /\ IsR("SharedIn")
  /\ E.n = s.nIn + 1 /\ E.n <= Len(s.inq) /\ s.inq[E.n] = [k |-> E.k, x |-> E.x]
  /\ On("stop") => ~s.runret
  /\ LET k == E.k
         c0 == Get(s.cur, k, 0)
         i == IF c0 = 0 THEN Get(s.ninc, k, 0) + 1 ELSE c0
         conn == <<k, i>>
     IN s' = [s EXCEPT !.nIn = @ + 1, !.cur = Put(@, k, i), !.ninc = Put(@, k, IF c0 = 0 THEN i ELSE Get(@, k, 0)),
                       !.pend = Put(@, conn, Append(Get(@, conn, <<>>), E.x))]

\* onNewConnection: the n-th announcement for key k needs an n-th creation
TNewConn ==
  /\ IsR("NewConn")
  /\ E.n = Get(s.nann, E.k, 0) + 1
  /\ On("ann") => E.n <= Get(s.ninc, E.k, 0)
  /\ s' = [s EXCEPT !.nann = Put(@, E.k, E.n)]

(* ----------------------------- logical reads --------------------------- *)

Conn == <<E.k, E.n>>
Announced == E.n >= 1 /\ E.n <= Get(s.nann, E.k, 0)
NewOp(kind, x) == [kind |-> kind, conn |-> Conn, x |-> x, st |-> "pend"]
MyOp(kind) == E.c \in DOMAIN s.ops /\ s.ops[E.c].kind = kind /\ s.ops[E.c].st = "pend" /\ s.ops[E.c].conn = Conn

TLRead == /\ IsR("LRead") /\ E.c \notin DOMAIN s.ops /\ Announced
          /\ s' = [s EXCEPT !.ops = Put(@, E.c, NewOp("r", ""))]

\* A successful read returns the oldest envelope selected for this connection and
\* not yet handed over (also when the connection was cancelled meanwhile: the
\* hand-off may have won the race). With m reads outstanding on the connection
\* the first m envelopes may already have been handed over and the order in
\* which those readers are seen to return is not the library's: any of the first
\* m is accepted (m = 1, one consumer per connection: exactly the oldest).
\* A failing read needs a cancelled connection.
Min(a, b) == IF a <= b THEN a ELSE b
Without(q, j) == SubSeq(q, 1, j - 1) \o SubSeq(q, j + 1, Len(q))
TLReadRet ==
  /\ IsR("LReadRet") /\ MyOp("r")
  /\ LET q == Get(s.pend, Conn, <<>>)
         m == Cardinality({c \in DOMAIN s.ops : s.ops[c].kind = "r" /\ s.ops[c].st = "pend" /\ s.ops[c].conn = Conn})
         js == {j \in 1..Min(m, Len(q)) : q[j] = E.x}
     IN
     IF E.res = "ok"
       THEN IF On("once")
              THEN /\ js # {}
                   /\ LET j == CHOOSE j \in js : \A i \in js : j <= i
                      IN s' = [s EXCEPT !.pend = Put(@, Conn, Without(q, j)), !.ops[E.c].st = "ok"]
              ELSE s' = [s EXCEPT !.ops[E.c].st = "ok"]
       ELSE /\ On("cancel") => ((Conn \in s.dead \/ s.stopped) = TRUE)
            /\ s' = [s EXCEPT !.ops[E.c].st = "err"]

(* ----------------------------- logical writes -------------------------- *)

TLWrite == /\ IsR("LWrite") /\ E.c \notin DOMAIN s.ops /\ Announced
           /\ s' = [s EXCEPT !.ops = Put(@, E.c, NewOp("w", E.x)), !.wrq = @ \cup {E.c}]

TLWriteRet ==
  /\ IsR("LWriteRet") /\ MyOp("w")
  /\ IF E.res = "ok"
       THEN s' = [s EXCEPT !.ops[E.c].st = "ok"]
       ELSE /\ On("cancel") => ((Conn \in s.dead \/ s.stopped) = TRUE)
            /\ s' = [s EXCEPT !.ops[E.c].st = "err"]

\* what reaches the shared transport is an envelope some logical writer handed
\* over (same digest), and each of them at most once
TSharedOut ==
  /\ IsR("SharedOut") /\ E.n = s.nOut + 1
  /\ LET cand == {c \in s.wrq : s.ops[c].x = E.x} IN
     IF On("pass")
       THEN /\ cand # {}
            /\ LET c == CHOOSE c \in cand : \A d \in cand : c <= d
               IN s' = [s EXCEPT !.nOut = @ + 1, !.wrq = @ \ {c}]
       ELSE s' = [s EXCEPT !.nOut = @ + 1]

\* the shared transport refuses one write (a transient error): that envelope is lost, the writer goroutine of the
\* connection it came from is gone for good (demux.go: `if err != nil { return }`) - and that is all: neither the
\* key's current incarnation nor any other connection is touched
TRefused ==
  /\ IsR("Refused")
  /\ LET cand == {c \in s.wrq : s.ops[c].x = E.x} IN
     /\ cand # {}
     /\ LET c == CHOOSE c \in cand : \A d \in cand : c <= d
        IN s' = [s EXCEPT !.wrq = @ \ {c}, !.broken = @ \cup {s.ops[c].conn}]

(* ------------------------------ Cancel, Stop --------------------------- *)

TCancel ==
  /\ IsR("Cancel")
  /\ LET k == E.k
         i == Get(s.cur, k, 0)
         cs == s.calls
     IN s' = [s EXCEPT !.dead = IF i = 0 THEN @ ELSE @ \cup {<<k, i>>},
                       !.cur = Put(@, k, 0),
                       \* calls of that logical client in flight may fail or hang from now on
                       !.calls = [c \in DOMAIN cs |-> IF cs[c].k = k THEN [cs[c] EXCEPT !.hurt = TRUE] ELSE cs[c]]]
TCancelRet == IsR("CancelRet") /\ UNCHANGED s
TStop == IsR("Stop") /\ s' = [s EXCEPT !.stopped = TRUE]
TRunRet == /\ IsR("RunRet") /\ ~s.runret
           /\ On("stop") => s.stopped
           /\ s' = [s EXCEPT !.runret = TRUE]

TStuck == IsR("Stuck") /\ s' = [s EXCEPT !.stuck = (E.res = "on")]
THold == IsR("Hold") /\ s' = [s EXCEPT !.hold = (E.res = "on")]
TGatePark == IsR("GatePark") /\ s' = [s EXCEPT !.parked = @ + 1]
TGatePass == IsR("GatePass") /\ s.parked > 0 /\ s' = [s EXCEPT !.parked = @ - 1]

(* ------------------------- RPC workload (API level) -------------------- *)
\* Several real goat clients share the transport, one goat.Server serves every
\* logical connection with echo handlers. A call whose logical client was
\* cancelled while it was in flight, or any call once the demux is stopped, may
\* fail or never complete (its peer is gone); every other call must echo.

Call == s.calls[E.c]
Hurt(c) == s.calls[c].hurt \/ s.stopped
Known == E.c \in DOMAIN s.calls
Free == ~On("rpc")

TCallOf == /\ IsR("CallOf") /\ ~Known
           /\ s' = [s EXCEPT !.calls = Put(@, E.c, [k |-> E.k, hurt |-> FALSE, req |-> "", sent |-> <<>>,
                                                   nrecv |-> 0, closed |-> FALSE, p |-> {}])]
Begun(op) == s' = [s EXCEPT !.calls[E.c].p = @ \cup {op}]
Ended(op) == s' = [s EXCEPT !.calls[E.c].p = @ \ {op}]

TUCall == /\ IsR("UCall") /\ Known
          /\ s' = [s EXCEPT !.calls[E.c].p = @ \cup {"unary"}, !.calls[E.c].req = E.pay]
TURet == /\ IsR("URet") /\ Known /\ "unary" \in Call.p
         /\ (Free \/ (IF E.res = "ok" THEN E.pay = Call.req ELSE Hurt(E.c))) = TRUE
         /\ Ended("unary")
TSOpen == IsR("SOpen") /\ Known /\ Begun("open")
TSOpenRet == /\ IsR("SOpenRet") /\ Known /\ "open" \in Call.p
             /\ (Free \/ E.res = "ok" \/ Hurt(E.c)) = TRUE
             /\ Ended("open")
TSSend == /\ IsR("SSend") /\ Known
          /\ s' = [s EXCEPT !.calls[E.c].p = @ \cup {"send"}, !.calls[E.c].sent = Append(@, E.pay)]
TSSendRet == /\ IsR("SSendRet") /\ Known /\ "send" \in Call.p
             /\ (Free \/ E.res = "ok" \/ Hurt(E.c)) = TRUE
             /\ Ended("send")
TSClose == /\ IsR("SClose") /\ Known
           /\ s' = [s EXCEPT !.calls[E.c].p = @ \cup {"close"}, !.calls[E.c].closed = TRUE]
TSCloseRet == /\ IsR("SCloseRet") /\ Known /\ "close" \in Call.p
              /\ (Free \/ E.res = "ok" \/ Hurt(E.c)) = TRUE
              /\ Ended("close")
TSRecv == IsR("SRecv") /\ Known /\ Begun("recv")
TSRecvRet ==
  /\ IsR("SRecvRet") /\ Known /\ "recv" \in Call.p
  /\ (\/ Free \/ Hurt(E.c)
      \/ (E.res = "msg" /\ Call.nrecv < Len(Call.sent) /\ Call.sent[Call.nrecv + 1] = E.pay)   \* echo, in order
      \/ (E.res = "eof" /\ Call.closed /\ Call.nrecv = Len(Call.sent))) = TRUE
  /\ s' = [s EXCEPT !.calls[E.c].p = @ \ {"recv"}, !.calls[E.c].nrecv = IF E.res = "msg" THEN @ + 1 ELSE @]

(* -------------------------------- Quiesce ------------------------------ *)
\* Every goroutine is durably blocked: what has not happened now never will
\* (unless the harness itself holds things up: gate, stuck writer, withheld input).

PendOps == {c \in DOMAIN s.ops : s.ops[c].st = "pend"}
AcceptedNotOut(conn) == \E c \in s.wrq : s.ops[c].conn = conn /\ s.ops[c].st = "ok"

QAnnounced == \A k \in DOMAIN s.ninc : Get(s.nann, k, 0) = s.ninc[k]
\* a blocked read: never on a cancelled connection; on a live one only while
\* nothing that was read from the shared transport for it is undelivered
QReads == \A c \in PendOps : s.ops[c].kind = "r" =>
            /\ On("cancel") => s.ops[c].conn \notin s.dead
            /\ On("once") => (s.ops[c].conn \in s.dead \/ Get(s.pend, s.ops[c].conn, <<>>) = <<>>
                              \/ s.parked > 0 \/ s.stopped)
\* a blocked write: never on a cancelled connection; on a live one only behind
\* a write that the (stuck) shared transport has not taken yet, or after Stop
QWrites == \A c \in PendOps : s.ops[c].kind = "w" =>
             /\ On("cancel") => s.ops[c].conn \notin s.dead
             /\ On("pass") => (s.ops[c].conn \in s.dead \/ s.stopped \/ (s.stuck /\ AcceptedNotOut(s.ops[c].conn))
                               \/ s.ops[c].conn \in s.broken)
\* an accepted write has reached the shared transport
QPassed == \A c \in s.wrq : s.ops[c].st = "ok" => (s.stuck \/ s.stopped)
QStopped == s.stopped => (s.runret \/ s.parked > 0)
Obstructed == s.parked > 0 \/ s.stuck \/ s.hold
QCalls == \A c \in DOMAIN s.calls :
            LET k == s.calls[c] IN
            \/ k.p = {} \/ Hurt(c) \/ Obstructed
            \/ (k.p = {"recv"} /\ ~k.closed /\ k.nrecv = Len(k.sent))    \* nothing to receive yet

TQuiesce ==
  /\ IsR("Quiesce")
  /\ (On("ann") => QAnnounced) = TRUE
  /\ QReads = TRUE
  /\ QWrites = TRUE
  /\ (On("pass") => QPassed) = TRUE
  /\ (On("stop") => QStopped) = TRUE
  /\ (On("rpc") => QCalls) = TRUE
  /\ UNCHANGED s

(* ------------------------------- unwinding ----------------------------- *)
\* The harness tears everything down (contexts cancelled, transports failed):
\* nothing is demanded any more except that the process survives.
TUnwind == IsR("Unwind") /\ s' = [s EXCEPT !.phase = "unwind"]
TUw == /\ l <= Len(Trace) /\ s.phase = "unwind"
       /\ E.ev \notin {"Begin", "End", "Crash", "Leak", "Wedged"}
       /\ l' = l + 1 /\ UNCHANGED s
TEnd == Is("End") /\ s.phase = "unwind" /\ s' = [s EXCEPT !.phase = "end"]

TraceNext ==
  \/ TBegin \/ TIn \/ TSharedIn \/ TNewConn \/ TLRead \/ TLReadRet \/ TLWrite \/ TLWriteRet \/ TSharedOut \/ TRefused
  \/ TCancel \/ TCancelRet \/ TStop \/ TRunRet \/ TStuck \/ THold \/ TGatePark \/ TGatePass
  \/ TCallOf \/ TUCall \/ TURet \/ TSOpen \/ TSOpenRet \/ TSSend \/ TSSendRet \/ TSClose \/ TSCloseRet
  \/ TSRecv \/ TSRecvRet
  \/ TQuiesce \/ TUnwind \/ TUw \/ TEnd

\* A line that no action explains is reported and the rest of its scenario is
\* skipped, so that the remaining scenarios of the batch are still checked.
NextBegin == IF \E j \in (l + 1)..Len(Trace) : Trace[j].ev = "Begin"
               THEN CHOOSE j \in (l + 1)..Len(Trace) :
                      Trace[j].ev = "Begin" /\ \A i \in (l + 1)..(j - 1) : Trace[i].ev # "Begin"
               ELSE Len(Trace) + 1
TSkip == /\ l <= Len(Trace)
         /\ ~ENABLED TraceNext
         /\ PrintT(<<"TRACE_REJECTED_AT_LINE", l, "of", Len(Trace)>>)
         /\ l' = NextBegin
         /\ UNCHANGED vars

\* A scenario is accepted iff SOME branch of the specification consumes it up to its End line (where logged
\* arguments leave a choice the branches that guessed wrong die on the way and are reported by TSkip, too):
SegOk == (l <= Len(Trace) /\ Trace[l].ev = "End") => PrintT(<<"TRACE_SEGMENT_OK", l>>)
TraceSpec == TraceInit /\ [][(TraceNext /\ SegOk) \/ TSkip]_<<vars, l>>
=============================================================================
