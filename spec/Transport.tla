------------------------------ MODULE Transport ------------------------------
(***************************************************************************)
(* C19: a transport (goat.RpcReadWriter pair) carries every envelope       *)
(* unchanged, in write order, exactly once; a blocked Read / Write returns *)
(* once its context is done; raw input that is not a well-formed envelope  *)
(* is reported as an error and never delivered.                            *)
(*                                                                         *)
(* The model is at the level of what can be OBSERVED at the two ends "a"   *)
(* and "b" of one connection: operations start (WStart / RStart), their    *)
(* contexts become done (CtxDone), they return (WOk / WErr / ROk / RErr);  *)
(* a raw peer may inject bytes below the envelope layer (RawIn).  Every    *)
(* action carries its arguments, so the same actions serve                 *)
(*   - the design model  (MCNext: TLC enumerates all arguments), and       *)
(*   - trace validation  (TransportTrace binds them to recorded events).   *)
(* An envelope value is represented by its digest (SHA-256 of the          *)
(* deterministic encoding, computed by the harness): the model decides     *)
(* order / exactly-once / error-not-delivered / ctx, not encoding.         *)
(*                                                                         *)
(* Linearization: an event is logged after the call returned, so for a     *)
(* rendezvous the reader's ROk may be logged before the writer's WOk.  A   *)
(* started write is therefore "in flight": a read may take it (taken) or   *)
(* the WOk puts it into the queue, whichever is logged first.              *)
(***************************************************************************)
EXTENDS Integers, Sequences, FiniteSets, TLC

CONSTANT Off            \* rule groups switched off (diagnosis only); {} in every check

G(g, cond) == IF g \in Off THEN TRUE ELSE cond = TRUE

\* ---- parameters of the design model: plain definitions, a cfg overrides ----
\* ---- them (`CONSTANT Bug <- Bug_ReadIgnoresCtx`)                         ----
Bug == {}
Bug_ReadIgnoresCtx   == {"ReadIgnoresCtx"}    \* http.go httpReadWriter.Read before the fix
Bug_WriteIgnoresCtx  == {"WriteIgnoresCtx"}   \* http.go httpReadWriter.Write before the fix
Bug_DeliverMalformed == {"DeliverMalformed"}  \* e.g. websocket Read accepting text frames
Bug_Duplicate        == {"Duplicate"}         \* a read that does not consume
Bug_Reorder          == {"Reorder"}           \* a read that takes the second queued item
MCVals   == {"v1", "v2"}      \* digests of well-formed values
MCBad    == {"x1"}            \* "digests" of malformed raw inputs
MCMaxOps == 3                 \* operations per behaviour (with 4 the liveness check takes more than 10 minutes)
MCMaxRaw == 1                 \* raw injections per behaviour
MCBreaks == FALSE             \* does a done ctx break the connection (websocket)
MCBreaksYes == TRUE

VARIABLES
  cfg,      \* [kind, cap, mayBreak]: transport kind, queue capacity per direction
            \*   (0 rendezvous, -1 unknown), may a done ctx break the connection
  ops,      \* op id -> [typ "R"/"W", end, conn, ctx "live"/"done", st "pend"/"ret", dg, taken, cls]
  q,        \* end -> items written by that end and not yet read by the other: <<[dg, wf]>>
  sent,     \* ghost: end -> digests accepted for delivery, in order
  got,      \* ghost: end -> digests its reads returned, in order
  broken,   \* the connection may have been torn down (after a done ctx on a mayBreak transport)
  nW, nR,   \* end -> number of successful writes / reads (the seqno of the events)
  nraw      \* number of raw injections so far

tvars == <<cfg, ops, q, sent, got, broken, nW, nR, nraw>>

Ends == {"a", "b"}
Other(e) == IF e = "a" THEN "b" ELSE "a"

Pending(id) == id \in DOMAIN ops /\ ops[id].st = "pend"
PendAt(e, typ) == {id \in DOMAIN ops : ops[id].st = "pend" /\ ops[id].typ = typ /\ ops[id].end = e /\ ops[id].conn = 0}
InFlight(e) == {id \in PendAt(e, "W") : ~ops[id].taken}

NewOp(typ, e, c, dg, cls) ==
  [typ |-> typ, end |-> e, conn |-> c, ctx |-> "live", st |-> "pend", dg |-> dg, taken |-> FALSE, cls |-> cls,
   lane |-> 0, s |-> 0, rlost |-> FALSE]

\* A logical clock per end: it advances with every completed write and every raw injection of that end.  A write
\* is stamped with the clock at its start (s); an item accepted for delivery with the clock after its completion
\* (o).  Item y PRECEDES write x iff y was complete before x began (y.o <= x.s): only then does "write order"
\* say anything about the two.  Writes of one sequential writer are totally ordered; writes of concurrent
\* writers (goat's client multiplexer writes from every calling goroutine) overlap and may arrive either way.
Clock(e) == nW[e] + nraw
TMin(S) == CHOOSE x \in S : \A y \in S : x <= y
TRemoveAt(sq, i) == SubSeq(sq, 1, i - 1) \o SubSeq(sq, i + 1, Len(sq))

EmptyQ == [e \in Ends |-> <<>>]
ZeroN == [e \in Ends |-> 0]

TInit ==
  /\ cfg = [kind |-> "channel", cap |-> 0, mayBreak |-> MCBreaks]
  /\ ops = <<>> /\ q = EmptyQ /\ sent = EmptyQ /\ got = EmptyQ
  /\ broken = FALSE /\ nW = ZeroN /\ nR = ZeroN /\ nraw = 0

\* ---------------------------------------------------------------- writes ----
\* One write at a time per writer ("lane") of an end: the writes of a lane are in program order; writes of
\* different lanes of the same end may overlap.  Lane 0 is the single sequential writer of most scenarios.
WStartL(id, e, dg, lane) ==
  /\ id \notin DOMAIN ops /\ e \in Ends
  /\ {w \in PendAt(e, "W") : ops[w].lane = lane} = {}
  /\ ops' = ops @@ (id :> [NewOp("W", e, 0, dg, "wf") EXCEPT !.lane = lane, !.s = Clock(e)])
  /\ UNCHANGED <<cfg, q, sent, got, broken, nW, nR, nraw>>
WStart(id, e, dg) == WStartL(id, e, dg, 0)

WOk(id, n) ==
  /\ Pending(id) /\ ops[id].typ = "W" /\ ops[id].conn = 0
  /\ LET e == ops[id].end IN
       /\ n = nW[e] + 1
       /\ nW' = [nW EXCEPT ![e] = n]
       /\ IF ops[id].taken
            THEN UNCHANGED <<q, sent>>
            ELSE /\ q' = [q EXCEPT ![e] = Append(@, [dg |-> ops[id].dg, wf |-> TRUE, s |-> ops[id].s, o |-> Clock(e) + 1])]
                 /\ sent' = [sent EXCEPT ![e] = Append(@, ops[id].dg)]
  /\ ops' = [ops EXCEPT ![id].st = "ret"]
  /\ UNCHANGED <<cfg, got, broken, nR, nraw>>

\* A write may fail only because its context is done or the connection is gone.
WErr(id) ==
  /\ Pending(id) /\ ops[id].typ = "W" /\ ops[id].conn = 0
  /\ G("err", (ops[id].ctx = "done" /\ "WriteIgnoresCtx" \notin Bug) \/ broken)
  /\ ops' = [ops EXCEPT ![id].st = "ret"]
  /\ UNCHANGED <<cfg, q, sent, got, broken, nW, nR, nraw>>

\* ----------------------------------------------------------------- reads ----
RStart(id, e) ==
  /\ id \notin DOMAIN ops /\ e \in Ends
  /\ PendAt(e, "R") = {}
  /\ ops' = ops @@ (id :> NewOp("R", e, 0, "", "wf"))
  /\ UNCHANGED <<cfg, q, sent, got, broken, nW, nR, nraw>>

\* once the connection may be broken, malformed items at the head may have been lost with it
RECURSIVE DropBad(_)
DropBad(s) == IF s # <<>> /\ ~Head(s).wf THEN DropBad(Tail(s)) ELSE s
Vis(o) == IF broken THEN DropBad(q[o]) ELSE q[o]

\* A read returns an undelivered item of the other end that NO other undelivered item precedes - for a single
\* writer: the oldest one - ordered, exactly once (the item leaves the queue), equal (same digest).
ROk(id, dg, n) ==
  /\ Pending(id) /\ ops[id].typ = "R" /\ ops[id].conn = 0
  /\ LET e == ops[id].end
         o == Other(ops[id].end)
         v == Vis(Other(ops[id].end))
         \* queued items with that digest which nothing still queued precedes (later entries completed later)
         cq == {i \in 1..Len(v) : v[i].dg = dg /\ \A j \in 1..(i - 1) : v[j].o > v[i].s}
         \* writes in flight with that digest which nothing queued precedes
         cf == {w \in InFlight(o) : ops[w].dg = dg /\ \A j \in 1..Len(v) : v[j].o > ops[w].s}
         reorder == "Reorder" \in Bug /\ Len(v) > 1 IN
       /\ n = nR[e] + 1
       /\ nR' = [nR EXCEPT ![e] = n]
       /\ got' = [got EXCEPT ![e] = Append(@, dg)]
       /\ CASE reorder ->
                 /\ v[2].dg = dg
                 /\ q' = [q EXCEPT ![o] = <<v[1]>> \o SubSeq(v, 3, Len(v))]
                 /\ ops' = [ops EXCEPT ![id].st = "ret"]
                 /\ UNCHANGED sent
            [] ~reorder /\ cq # {} ->
                 LET i == TMin(cq) IN
                 /\ G("deliver", v[i].wf \/ "DeliverMalformed" \in Bug)
                 /\ q' = [q EXCEPT ![o] = IF "Duplicate" \in Bug THEN v ELSE TRemoveAt(v, i)]
                 /\ ops' = [ops EXCEPT ![id].st = "ret"]
                 /\ UNCHANGED sent
            [] ~reorder /\ cq = {} /\ cf # {} ->
                 \* the value of a write in flight at the other end (its WOk is logged later)
                 /\ \E w \in cf : ops' = [ops EXCEPT ![w].taken = TRUE, ![id].st = "ret"]
                 /\ sent' = [sent EXCEPT ![o] = Append(@, dg)]
                 /\ q' = [q EXCEPT ![o] = v]
            [] OTHER ->
                 \* nothing that may be delivered next has this value: out of order, duplicated, altered or invented
                 /\ "order" \in Off
                 /\ IF v # <<>>
                      THEN /\ G("deliver", Head(v).wf \/ "DeliverMalformed" \in Bug)
                           /\ q' = [q EXCEPT ![o] = Tail(v)]
                           /\ ops' = [ops EXCEPT ![id].st = "ret"]
                           /\ UNCHANGED sent
                      ELSE /\ \E w \in InFlight(o) : ops' = [ops EXCEPT ![w].taken = TRUE, ![id].st = "ret"]
                           /\ sent' = [sent EXCEPT ![o] = Append(@, dg)]
                           /\ q' = [q EXCEPT ![o] = v]
  /\ UNCHANGED <<cfg, broken, nW, nraw>>

\* A read fails because the next input is malformed (which consumes it: it is
\* never delivered), because its context is done, or because the connection is
\* gone.  Nothing else may make it fail, and a failure never consumes a
\* well-formed item.
RErr(id) ==
  /\ Pending(id) /\ ops[id].typ = "R" /\ ops[id].conn = 0
  /\ LET o == Other(ops[id].end) IN
       IF q[o] # <<>> /\ ~Head(q[o]).wf /\ "DeliverMalformed" \notin Bug
         THEN q' = [q EXCEPT ![o] = Tail(@)]
         ELSE /\ G("err", (ops[id].ctx = "done" /\ "ReadIgnoresCtx" \notin Bug) \/ broken)
              /\ UNCHANGED q
  /\ ops' = [ops EXCEPT ![id].st = "ret"]
  /\ UNCHANGED <<cfg, sent, got, broken, nW, nR, nraw>>

\* ---------------------------------------------------- environment steps ----
CtxDone(id) ==
  /\ id \in DOMAIN ops
  /\ IF Pending(id) /\ ops[id].ctx = "live"
       THEN /\ ops' = [ops EXCEPT ![id].ctx = "done"]
            /\ broken' = (broken \/ (cfg.mayBreak /\ ops[id].conn = 0))
       ELSE UNCHANGED <<ops, broken>>
  /\ UNCHANGED <<cfg, q, sent, got, nW, nR, nraw>>

\* A raw peer at end e writes bytes below the envelope layer: cls = "wf" if they
\* decode to an envelope with digest dg, anything else ("bad", "text") if not.
RawIn(e, cls, dg) ==
  /\ e \in Ends /\ PendAt(e, "W") = {}
  /\ q' = [q EXCEPT ![e] = Append(@, [dg |-> dg, wf |-> (cls = "wf"), s |-> Clock(e), o |-> Clock(e) + 1])]
  /\ sent' = IF cls = "wf" THEN [sent EXCEPT ![e] = Append(@, dg)] ELSE sent
  /\ nraw' = nraw + 1
  /\ UNCHANGED <<cfg, ops, got, broken, nW, nR>>

\* -------------------------------------------------------- legit pending ----
\* When the implementation is quiescent, an operation may still be pending only
\* if its context is live and nothing it could complete with exists.
NothingToRead(e) == q[Other(e)] = <<>> /\ InFlight(Other(e)) = {}
LegitStream(id) ==
  LET e == ops[id].end IN
  /\ ops[id].ctx = "live"
  /\ \/ broken
     \/ IF ops[id].typ = "R"
          THEN NothingToRead(e)
          ELSE /\ ~ops[id].taken
               /\ PendAt(Other(e), "R") = {}
               /\ (cfg.cap < 0 \/ Len(q[e]) >= cfg.cap)

\* ======================= design model (TLC, tiny constants) ================
FreshId == Cardinality(DOMAIN ops) + 1

\* The implementation side of a write: it can complete only if the transport has
\* room (or, for a rendezvous, a reader is waiting; its ROk may be logged later).
Room(id) ==
  LET e == ops[id].end IN
  \/ ops[id].taken \/ cfg.cap < 0 \/ Len(q[e]) < cfg.cap
  \/ (PendAt(Other(e), "R") # {} /\ Len(q[e]) <= cfg.cap)
MCWOk(id) == Pending(id) /\ ops[id].typ = "W" /\ Room(id) /\ WOk(id, nW[ops[id].end] + 1)

MCNext ==
  \/ \E e \in Ends, v \in MCVals : FreshId <= MCMaxOps /\ WStart(FreshId, e, v)
  \/ \E e \in Ends : FreshId <= MCMaxOps /\ RStart(FreshId, e)
  \/ \E id \in DOMAIN ops :
       \/ MCWOk(id)
       \/ WErr(id)
       \/ RErr(id)
       \/ CtxDone(id) /\ Pending(id) /\ ops[id].ctx = "live"
       \/ \E dg \in MCVals \cup MCBad : ROk(id, dg, nR[ops[id].end] + 1)
  \/ \E e \in Ends, x \in MCBad : nraw < MCMaxRaw /\ RawIn(e, "bad", x)
  \/ \E e \in Ends, v \in MCVals : nraw < MCMaxRaw /\ RawIn(e, "wf", v)

\* every operation that can return does so eventually
MCFair == \A id \in 1..MCMaxOps : WF_tvars(RErr(id) \/ WErr(id) \/ MCWOk(id))
MCSpec == TInit /\ [][MCNext]_tvars /\ MCFair

IsPrefix(s, t) == Len(s) <= Len(t) /\ \A i \in 1..Len(s) : s[i] = t[i]

\* ordered + exactly once + equal: what an end has read is a prefix of what the
\* other end's transport accepted
InOrderExactlyOnce == \A e \in Ends : IsPrefix(got[e], sent[Other(e)])
MalformedNeverDelivered == \A e \in Ends : \A i \in 1..Len(got[e]) : got[e][i] \notin MCBad
\* a failed read never swallows a well-formed item: everything accepted is read or still queued / in flight
NothingLost ==
  \A e \in Ends : broken \/
    Len(sent[e]) = Len(got[Other(e)]) + Cardinality({i \in 1..Len(q[e]) : q[e][i].wf})
\* a pending operation whose context is done returns
CtxUnblocks == \A id \in 1..MCMaxOps : (Pending(id) /\ ops[id].ctx = "done") ~> ~Pending(id)
=============================================================================
