------------------------------ MODULE Timeout ------------------------------
(***************************************************************************)
(* Property C08: "caller deadlines reach the handler; timeout header       *)
(* values mean what they say".                                             *)
(*                                                                         *)
(* Part 1 is a transcription of the gRPC timeout grammar                   *)
(*     TimeoutValue TimeoutUnit,  1..8 ASCII digits,  unit in H M S m u n  *)
(* over header values given character by character (TLC cannot index       *)
(* strings), and of what an admitted value means.                          *)
(* Part 2 is the propagation rule: which deadline a handler must see for a *)
(* given caller deadline and transit time.                                 *)
(* Part 3 is a small design model TLC checks exhaustively: every value     *)
(* class of the grammar, and a client encoder / transit / server decoder   *)
(* run over a discrete clock.                                              *)
(*                                                                         *)
(* TLC integers are 32 bit.  A duration is therefore a record              *)
(*     [h: hours, s: seconds within the hour, n: nanoseconds within the s] *)
(* and all arithmetic below stays under 2^31 (the largest Go duration,     *)
(* 2^63-1 ns, is 2562047 h 2836 s 854775807 ns).                           *)
(***************************************************************************)
EXTENDS Integers, Sequences, FiniteSets, TLC

---------------------------------------------------------------------------
(* Durations                                                               *)

G == 1000000000                       \* nanoseconds per second
Dur(h, s, n) == [h |-> h, s |-> s, n |-> n]
Zero   == Dur(0, 0, 0)
Ms1    == Dur(0, 0, 1000000)
Sec1   == Dur(0, 1, 0)
Min1   == Dur(0, 60, 0)
Hour1  == Dur(1, 0, 0)
MaxDur == Dur(2562047, 2836, 854775807)      \* 2^63-1 ns
MaxHours == 2562047                          \* the largest hour count below MaxDur

WellFormed(d) == d.h >= 0 /\ d.s \in 0..3599 /\ d.n \in 0..(G - 1)

DLe(a, b) == \/ a.h < b.h
             \/ a.h = b.h /\ a.s < b.s
             \/ a.h = b.h /\ a.s = b.s /\ a.n <= b.n
DLt(a, b) == DLe(a, b) /\ a # b

DAdd(a, b) ==
  LET n == a.n + b.n
      s == a.s + b.s + (n \div G)
  IN  Dur(a.h + b.h + (s \div 3600), s % 3600, n % G)

\* seconds (below 2^31) to a duration
OfSec(sec) == Dur(sec \div 3600, sec % 3600, 0)
\* microseconds (below 2^31) to a duration
OfMicros(us) == LET sec == us \div 1000000 IN Dur(sec \div 3600, sec % 3600, (us % 1000000) * 1000)

---------------------------------------------------------------------------
(* Part 1: the grammar                                                     *)

Units == {"H", "M", "S", "m", "u", "n"}
DigitVal == ("0" :> 0) @@ ("1" :> 1) @@ ("2" :> 2) @@ ("3" :> 3) @@ ("4" :> 4) @@
            ("5" :> 5) @@ ("6" :> 6) @@ ("7" :> 7) @@ ("8" :> 8) @@ ("9" :> 9)
DigitChar == <<"0", "1", "2", "3", "4", "5", "6", "7", "8", "9">>      \* DigitChar[d + 1]
IsDigit(c) == c \in DOMAIN DigitVal
MaxDigits == 8
MaxValue == 99999999

\* cs is a sequence of characters (one-character strings; any other token is
\* neither a digit nor a unit)
Admitted(cs) ==
  /\ Len(cs) \in 2..(MaxDigits + 1)
  /\ cs[Len(cs)] \in Units
  /\ \A i \in 1..(Len(cs) - 1) : IsDigit(cs[i])

RECURSIVE Val(_, _)
Val(cs, k) == IF k = 0 THEN 0 ELSE 10 * Val(cs, k - 1) + DigitVal[cs[k]]
ValueOf(cs) == Val(cs, Len(cs) - 1)        \* only for admitted cs: at most 99999999
UnitOf(cs) == cs[Len(cs)]

\* Only hours can exceed the largest duration with eight digits: minutes
\* would need more than 153722867, seconds more than 9223372036.
Saturates(v, u) == u = "H" /\ v > MaxHours

\* what v units are, for v in 0..MaxValue
DurOf(v, u) ==
  CASE u = "H" -> IF v > MaxHours THEN MaxDur ELSE Dur(v, 0, 0)
    [] u = "M" -> Dur(v \div 60, (v % 60) * 60, 0)
    [] u = "S" -> OfSec(v)
    [] u = "m" -> LET d == OfSec(v \div 1000) IN Dur(d.h, d.s, (v % 1000) * 1000000)
    [] u = "u" -> Dur(0, v \div 1000000, (v % 1000000) * 1000)
    [] u = "n" -> Dur(0, 0, v)

\* the meaning of a header value: ignored, or a duration
Expected(cs) ==
  IF Admitted(cs)
    THEN [ok |-> TRUE, d |-> DurOf(ValueOf(cs), UnitOf(cs)), sat |-> Saturates(ValueOf(cs), UnitOf(cs))]
    ELSE [ok |-> FALSE, d |-> Zero, sat |-> FALSE]
Ignored == [ok |-> FALSE, d |-> Zero, sat |-> FALSE]

\* The header key is matched case-insensitively.
KeyChars == <<"g", "r", "p", "c", "-", "t", "i", "m", "e", "o", "u", "t">>
UpLow == ("G" :> "g") @@ ("R" :> "r") @@ ("P" :> "p") @@ ("C" :> "c") @@ ("T" :> "t") @@
         ("I" :> "i") @@ ("M" :> "m") @@ ("E" :> "e") @@ ("O" :> "o") @@ ("U" :> "u")
Lower(c) == IF c \in DOMAIN UpLow THEN UpLow[c] ELSE c
KeyMatches(ks) == Len(ks) = Len(KeyChars) /\ \A i \in 1..Len(KeyChars) : Lower(ks[i]) = KeyChars[i]

\* An observation is [dl: a duration was produced, neg: it is negative, d: its
\* magnitude].  It is right for the expectation e when the value is ignored
\* exactly if e says so and the duration is the exact one; a saturated value may
\* be any duration from the largest hour count up to the largest duration.
Obs(dl, neg, d) == [dl |-> dl, neg |-> neg, d |-> d]
ObsRight(e, o) ==
  /\ o.dl = e.ok
  /\ e.ok => /\ ~o.neg
             /\ WellFormed(o.d)
             /\ IF e.sat THEN DLe(Dur(MaxHours, 0, 0), o.d) /\ DLe(o.d, MaxDur)
                         ELSE o.d = e.d

---------------------------------------------------------------------------
(* Part 2: propagation                                                     *)
(* R is the time the caller has left when it issues the call (an           *)
(* observation record, dl = FALSE: no deadline); transit is the time from  *)
(* there to the start of the handler; o is what the handler has left when  *)
(* it starts.  With D = call + R and D' = start + o:                       *)
(*     D' <= D + transit   <=>   o <= R                                    *)
(*     D - slack <= D'     <=>   R <= o + transit + slack                  *)

\* "a deadline already expired or closer than one millisecond"
Short(R) == R.neg \/ DLt(R.d, Ms1)

\* The slack is the property's one millisecond.  A timeout of 10^8 ms or more
\* cannot be written in milliseconds with eight digits, so no implementation
\* of the grammar can convey it to the millisecond: there the slack is one
\* unit of the finest unit that can (literal = TRUE switches this off).
Limit(unit) == CASE unit = "m" -> Dur(27, 2800, 0)          \* 10^8 ms
                 [] unit = "S" -> Dur(27777, 2800, 0)       \* 10^8 s
                 [] unit = "M" -> Dur(1666666, 2400, 0)     \* 10^8 min
FinestUnit(d) == IF DLt(d, Limit("m")) THEN "m" ELSE IF DLt(d, Limit("S")) THEN "S"
                 ELSE IF DLt(d, Limit("M")) THEN "M" ELSE "H"
Slack(d, literal) == IF literal THEN Ms1
                     ELSE CASE FinestUnit(d) = "m" -> Ms1 [] FinestUnit(d) = "S" -> Sec1
                            [] FinestUnit(d) = "M" -> Min1 [] OTHER -> Hour1

PropRight(R, transit, o, literal) ==
  IF ~R.dl THEN ~o.dl
  ELSE /\ o.dl /\ ~o.neg /\ WellFormed(o.d)
       /\ IF Short(R) THEN o.d = Ms1                       \* conveyed as one millisecond
          ELSE /\ DLe(o.d, R.d)
               /\ DLe(R.d, DAdd(DAdd(o.d, transit), Slack(R.d, literal)))

---------------------------------------------------------------------------
(* Part 3: design model                                                    *)

\* A client encoder in the style of the library: round down, at least one
\* millisecond, in the finest unit that needs at most eight digits.
\* msOnly = TRUE is the encoder that always writes milliseconds.
RECURSIVE NatChars(_)
NatChars(v) == IF v < 10 THEN <<DigitChar[v + 1]>> ELSE Append(NatChars(v \div 10), DigitChar[(v % 10) + 1])
RECURSIVE Strip(_)
Strip(cs) == IF Len(cs) > 1 /\ cs[1] = "0" THEN Strip(Tail(cs)) ELSE cs

Eff(R) == IF Short(R) THEN Ms1 ELSE R.d
InUnit(d, u) == CASE u = "m" -> (d.h * 3600 + d.s) * 1000 + (d.n \div 1000000)
                  [] u = "S" -> d.h * 3600 + d.s
                  [] u = "M" -> d.h * 60 + (d.s \div 60)
                  [] u = "H" -> d.h
\* milliseconds of a duration below 10^4 h as digit characters without 32-bit overflow
MsChars(d) == LET sec == d.h * 3600 + d.s
                  msd == d.n \div 1000000
              IN Strip(NatChars(sec) \o <<DigitChar[(msd \div 100) + 1], DigitChar[((msd \div 10) % 10) + 1], DigitChar[(msd % 10) + 1]>>)
Encode(R, msOnly) ==
  IF ~R.dl THEN <<>>
  ELSE LET d == Eff(R)
           u == FinestUnit(d)
       IN IF msOnly THEN Append(MsChars(d), "m") ELSE Append(NatChars(InUnit(d, u)), u)

\* design model: does the client always write milliseconds?  (The configuration
\* of the "legacy client" model overrides this with Yes.)
MsOnlyClient == FALSE
Yes == TRUE

VARIABLES
  mode,       \* "parse": one grammar vector | "prop": one propagation run | "trace"
  vec,        \* parse: [pre, nd, pat, suf] the class of the vector and cs, its characters
  pc,         \* prop: "idle" -> "sent" -> "recv"
  ticks,      \* prop: clock steps taken while the request is in transit
  R,          \* prop: the caller's remaining time at the call
  transit,    \* prop: time since the call
  wire,       \* prop: the header value written (<<>> = no header)
  hd          \* prop: what the handler sees

vars == <<mode, vec, pc, ticks, R, transit, wire, hd>>

NoObs == Obs(FALSE, FALSE, Zero)
NoVec == [pre |-> <<>>, nd |-> 0, pat |-> "zeros", suf |-> <<>>, cs |-> <<>>]

\* ---- grammar vectors: prefix x digit count x digit pattern x suffix ----
Pres == {<<>>, <<"+">>, <<"-">>, <<" ">>}
NDs == 0..10
Pats == {"zeros", "one", "nines", "thr-1", "thr", "thr+1", "mixed"}
Sufs == {<<u>> : u \in Units} \cup {<<>>, <<"x">>, <<"h">>, <<"s">>, <<"U">>, <<"m", "m">>, <<"S", " ">>}

Rep(c, k) == [i \in 1..k |-> c]
Pad(cs, k) == IF Len(cs) >= k THEN cs ELSE Rep("0", k - Len(cs)) \o cs     \* leading zeros
Digits(nd, pat) ==
  IF nd = 0 THEN <<>>
  ELSE CASE pat = "zeros" -> Rep("0", nd)
         [] pat = "one"   -> Pad(<<"1">>, nd)
         [] pat = "nines" -> Rep("9", nd)
         [] pat = "thr-1" -> Pad(NatChars(MaxHours - 1), nd)      \* needs 7 digits: longer when nd < 7
         [] pat = "thr"   -> Pad(NatChars(MaxHours), nd)
         [] pat = "thr+1" -> Pad(NatChars(MaxHours + 1), nd)
         [] pat = "mixed" -> SubSeq(<<"1", "2", "3", "4", "5", "6", "7", "8", "9", "0">>, 1, nd)

Vec(pre, nd, pat, suf) == [pre |-> pre, nd |-> nd, pat |-> pat, suf |-> suf, cs |-> pre \o Digits(nd, pat) \o suf]

\* ---- propagation runs ----
Q == 250000                                   \* the clock ticks in quarters of a millisecond
Bases == {Zero, Ms1, Dur(0, 0, 2 * 1000000), Dur(0, 0, 999 * 1000000), Sec1, Dur(0, 3599, 0), Hour1,
          Dur(27, 2799, 999000000), Limit("m"), Dur(27, 2801, 0), Dur(10000, 0, 0),
          Dur(27777, 2799, 0), Limit("S"), Dur(27777, 2860, 0), Dur(1666666, 2340, 0), Limit("M"),
          Dur(1666667, 0, 0), Dur(MaxHours, 0, 0)}
Offsets == {0, Q, 2 * Q, 3 * Q, G - Q}
AllRemaining == {Obs(TRUE, FALSE, DAdd(b, Dur(0, 0, o))) : b \in Bases, o \in Offsets}
                \cup {Obs(TRUE, TRUE, d) : d \in {Dur(0, 0, Q), Dur(0, 0, 5000000), Hour1}}
                \cup {NoObs}
\* (the milliseconds-only encoder is modelled up to the 10^4 hours of the property)
Remaining == {r \in AllRemaining : MsOnlyClient => r.d.h <= 10000}
Steps == {Dur(0, 0, Q), Ms1, Sec1}
MaxSteps == 3

Init ==
  \/ /\ mode = "parse"
     /\ vec \in {Vec(p, nd, pat, s) : p \in Pres, nd \in NDs, pat \in Pats, s \in Sufs}
     /\ pc = "idle" /\ ticks = 0 /\ R = NoObs /\ transit = Zero /\ wire = <<>> /\ hd = NoObs
  \/ /\ mode = "prop" /\ vec = NoVec
     /\ pc = "idle" /\ ticks = 0 /\ R \in Remaining /\ transit = Zero /\ wire = <<>> /\ hd = NoObs

Send == /\ mode = "prop" /\ pc = "idle"
        /\ wire' = Encode(R, MsOnlyClient)
        /\ pc' = "sent"
        /\ UNCHANGED <<mode, vec, ticks, R, transit, hd>>

Tick(d) == /\ mode = "prop" /\ pc = "sent" /\ ticks < MaxSteps
           /\ ticks' = ticks + 1
           /\ transit' = DAdd(transit, d)
           /\ UNCHANGED <<mode, vec, pc, R, wire, hd>>

\* the server: a deadline exactly if the header is admitted, as far away as it says
Deliver == /\ mode = "prop" /\ pc = "sent"
           /\ LET e == Expected(wire) IN hd' = Obs(e.ok, FALSE, e.d)
           /\ pc' = "recv"
           /\ UNCHANGED <<mode, vec, ticks, R, transit, wire>>

Next == Send \/ (\E d \in Steps : Tick(d)) \/ Deliver

Spec == Init /\ [][Next]_vars

\* Configurations (lib/vcheck/props.py, PROPS['C08'].models):
\*   SPECIFICATION Spec
\*   INVARIANT TypeOK GrammarInv RangeInv LadderInv MonotoneInv WireInv PropInv PropLiteralInv
\*   CHECK_DEADLOCK FALSE
\* and, expected to violate PropInv (10^8 ms is written with nine digits and
\* ignored by a conformant parser, so the handler has no deadline):
\*   SPECIFICATION Spec
\*   INVARIANT PropInv
\*   CONSTANT MsOnlyClient <- Yes
\*   CHECK_DEADLOCK FALSE

\* ---- invariants ----
TypeOK == /\ mode \in {"parse", "prop"} /\ WellFormed(transit) /\ WellFormed(R.d) /\ WellFormed(hd.d)

\* accepted <=> no prefix, one to eight digits, one known unit (the class
\* decides, independently of the character-level definition)
NDigitsOf(v) == IF v.nd = 0 THEN 0 ELSE IF v.pat \in {"thr-1", "thr", "thr+1"} /\ v.nd < 7 THEN 7 ELSE v.nd
ClassAdmitted(v) == v.pre = <<>> /\ NDigitsOf(v) \in 1..MaxDigits /\ v.suf \in {<<u>> : u \in Units}
GrammarInv == mode = "parse" =>
  /\ Expected(vec.cs).ok = ClassAdmitted(vec)
  /\ Expected(vec.cs).ok => Len(vec.cs) \in 2..9 /\ UnitOf(vec.cs) \in Units /\ ValueOf(vec.cs) \in 0..MaxValue

\* an accepted value is a well-formed duration, never beyond the largest one
\* ("never negative" is built into the representation), saturated exactly
\* for hour counts above the largest one
RangeInv == mode = "parse" /\ Expected(vec.cs).ok =>
  LET e == Expected(vec.cs) IN
  /\ WellFormed(e.d) /\ DLe(e.d, MaxDur)
  /\ e.sat <=> (UnitOf(vec.cs) = "H" /\ ValueOf(vec.cs) > MaxHours)
  /\ e.sat => e.d = MaxDur
  /\ Strip(NatChars(ValueOf(vec.cs))) = Strip(SubSeq(vec.cs, 1, Len(vec.cs) - 1))

\* exactness: the units agree with each other wherever the finer count still
\* has eight digits, and nanoseconds are what they are
Finer(u) == CASE u = "H" -> <<"M", 60>> [] u = "M" -> <<"S", 60>> [] u = "S" -> <<"m", 1000>>
              [] u = "m" -> <<"u", 1000>> [] u = "u" -> <<"n", 1000>>
LadderInv == mode = "parse" /\ Expected(vec.cs).ok =>
  LET v == ValueOf(vec.cs)
      u == UnitOf(vec.cs)
  IN IF u = "n" THEN Expected(vec.cs).d = Dur(0, 0, v)
     ELSE (v <= MaxValue \div Finer(u)[2] /\ ~Saturates(v, u)) => DurOf(v, u) = DurOf(v * Finer(u)[2], Finer(u)[1])

\* monotone in the value: one more never means less, and strictly more unless saturated
MonotoneInv == mode = "parse" /\ Expected(vec.cs).ok /\ ValueOf(vec.cs) < MaxValue =>
  LET v == ValueOf(vec.cs)
      u == UnitOf(vec.cs)
  IN /\ DLe(DurOf(v, u), DurOf(v + 1, u))
     /\ ~Saturates(v, u) => DLt(DurOf(v, u), DurOf(v + 1, u))

\* the header the client writes is always admitted, and the handler's
\* deadline is within the bounds of the property
WireInv == mode = "prop" /\ pc # "idle" /\ R.dl => Admitted(wire)
PropInv == mode = "prop" /\ pc = "recv" => PropRight(R, transit, hd, FALSE)
\* ... literally (one millisecond) wherever milliseconds can be written
PropLiteralInv == mode = "prop" /\ pc = "recv" /\ R.dl /\ FinestUnit(Eff(R)) = "m" => PropRight(R, transit, hd, TRUE)
=============================================================================
