----------------------------- MODULE ProxyRoute -----------------------------
(***************************************************************************)
(* The routing decision of a proxy as pure operators, shared by the design *)
(* model (Proxy.tla) and the trace specification (ProxyTrace.tla), so that *)
(* what TLC proves about the design is stated about the very function the  *)
(* recorded traces of the implementation are checked against.              *)
(*                                                                         *)
(* A header is a record  [h: BOOLEAN (header present), src, dst,           *)
(* rec: Seq(name) (proxy_record), nxt: Seq(name) (proxy_next)].            *)
(* An interceptor is  [kind: "nil"|"id"|"rw"|"rej", from, to]:             *)
(*   rw  rewrites destination `from` to `to` (NAT / DNS style),            *)
(*   rej refuses envelopes addressed to `from` (they are dropped),         *)
(*   nil / id leave the header alone.                                      *)
(***************************************************************************)
EXTENDS Integers, Sequences

Front(s) == SubSeq(s, 1, Len(s) - 1)

\* step 1: the claimed source must be the name the sending connection is attached under
SourceOk(name, hd) == hd.h /\ hd.src = name

\* step 2: the configured address rewriting
IcptOk(ic, hd) == ~(ic.kind = "rej" /\ hd.dst = ic.from)
IcptDst(ic, hd) == IF ic.kind = "rw" /\ hd.dst = ic.from THEN ic.to ELSE hd.dst

\* steps 3+4: own name appended to the route record once; the last hop of a
\* return route, if any, is popped and overrides the destination
Target(ic, hd) == IF Len(hd.nxt) > 0 THEN hd.nxt[Len(hd.nxt)] ELSE IcptDst(ic, hd)
Forwarded(px, ic, hd) ==
  [hd EXCEPT !.dst = IcptDst(ic, hd),
             !.rec = Append(hd.rec, px),
             !.nxt = IF Len(hd.nxt) > 0 THEN Front(hd.nxt) ELSE hd.nxt]

\* what a server echoes as the return route of its replies (server.go): all
\* but the last hop of the request's route record, when there is more than one
ReturnRoute(rec) == IF Len(rec) > 1 THEN Front(rec) ELSE <<>>
=============================================================================
