"""Orchestration shared by all checks: build the driver from /repo's working
tree, run scenario shards in disposable worker processes, validate the recorded
traces against the TLA+ specification with TLC, attribute rejections to rule
groups, honour the known-findings file, write evidence."""
import concurrent.futures as cf
import hashlib
import json
import os
import re
import shutil
import subprocess
import sys
import time

VERIF = os.environ.get('VERIF_HOME') or os.path.dirname(os.path.dirname(os.path.dirname(os.path.abspath(__file__))))
REPO = os.environ.get('VERIF_REPO', '/repo')
OUT = os.path.join(VERIF, 'out')
SPEC = os.path.join(VERIF, 'spec')
TLA_CP = '/opt/veriftools/tla/tla2tools.jar:/opt/veriftools/tla/CommunityModules-deps.jar'
GOENV = dict(GOFLAGS='-mod=mod', GOPROXY='off', GOSUMDB='off', GOTOOLCHAIN='local',
             CGO_ENABLED='0')
NCPU = os.cpu_count() or 4


class Inconclusive(Exception):
    """machinery failure: exit 2, never a verdict"""


def log(*a):
    print(*a, file=sys.stderr, flush=True)


def sh(cmd, cwd=None, env=None, timeout=None, check=True):
    e = dict(os.environ)
    if env:
        e.update(env)
    p = subprocess.run(cmd, cwd=cwd, env=e, capture_output=True, text=True, timeout=timeout)
    if check and p.returncode != 0:
        raise Inconclusive('command failed (%d): %s\n%s\n%s' % (p.returncode, ' '.join(cmd), p.stdout[-3000:], p.stderr[-3000:]))
    return p


# ---------------------------------------------------------------- build ------

def go_bin():
    for g in ('go1.26', '/opt/veriftools/go1.26.8/bin/go'):
        if shutil.which(g):
            return shutil.which(g)
    raise Inconclusive('go1.26 not found')


def build_driver(workdir, race=False):
    """Builds the test driver against the repository's current working tree (REPO, normally /repo)
    with hooks on. The harness module is copied into the private work directory first, so that
    concurrent invocations (and development runs against a scratch worktree, $VERIF_REPO) never
    share a go.mod / go.sum."""
    os.makedirs(workdir, exist_ok=True)
    h = os.path.join(workdir, 'harness')
    shutil.rmtree(h, ignore_errors=True)
    shutil.copytree(os.path.join(VERIF, 'harness'), h)
    shutil.copyfile(os.path.join(REPO, 'go.sum'), os.path.join(h, 'go.sum'))
    sh([go_bin(), 'mod', 'edit', '-replace', 'github.com/avos-io/goat=' + REPO], cwd=h, env=GOENV)
    out = os.path.join(workdir, 'driver.test')
    cmd = [go_bin(), 'test', '-c', '-tags', 'verif', '-o', out]
    if os.environ.get('VERIF_COVER'):     # development aid: statement coverage of the library under the scenarios
        cmd[3:3] = ['-cover', '-coverpkg', 'github.com/avos-io/goat/...']
    env = dict(GOENV)
    if race:
        cmd.insert(2, '-race')
        env['CGO_ENABLED'] = '1'
    cmd.append('./driver')
    t0 = time.time()
    sh(cmd, cwd=h, env=env, timeout=900)
    log('[build] driver built in %.1fs' % (time.time() - t0))
    return out


# -------------------------------------------------------------- workers ------

def _last_open_scenario(trace_path):
    """returns (sc, ended) of the last scenario in the trace file"""
    sc, ended = None, True
    try:
        with open(trace_path, 'rb') as f:
            f.seek(0, 2)
            size = f.tell()
            back = 2_000_000
            while True:       # a slim trace of a long history can be far larger than the first window
                f.seek(max(0, size - back))
                data = f.read()
                if b'"ev":"Begin"' in data or back >= size:
                    break
                back *= 8
            tail = data.decode('utf-8', 'replace').split('\n')
    except FileNotFoundError:
        return None, True
    for ln in tail:
        if '"ev":"Begin"' in ln:
            try:
                sc = json.loads(ln)['sc']
                ended = False
            except Exception:
                pass
        elif '"ev":"End"' in ln:
            ended = True
    return sc, ended


def _mk_event(sc, ev, x=''):
    return {"seq": 0, "sc": sc, "conn": 0, "ev": ev, "c": 0, "h": 0, "k": "", "res": "", "code": -1,
            "msg": "", "pay": "", "md": [], "n": 0, "t": 0, "x": x}


def run_shard(driver, scens, workdir, name, watchdog_s=4):
    """Runs a list of scenarios in worker processes, restarting after a crash,
    wedge or leak. Returns (trace_path, notes)."""
    scen_path = os.path.join(workdir, name + '.scen.ndjson')
    trace_path = os.path.join(workdir, name + '.trace.ndjson')
    with open(scen_path, 'w') as f:
        for s in scens:
            f.write(json.dumps(s, separators=(',', ':')) + '\n')
    if os.path.exists(trace_path):
        os.remove(trace_path)
    idx_of = {s['sc']: i for i, s in enumerate(scens)}
    frm, notes, restarts = 0, [], 0
    while frm < len(scens):
        env = dict(os.environ, VERIF_SCEN=scen_path, VERIF_OUT=trace_path, VERIF_FROM=str(frm),
                   VERIF_WATCHDOG_S=str(watchdog_s))
        cov = []
        if os.environ.get('VERIF_COVER'):
            os.makedirs(os.environ['VERIF_COVER'], exist_ok=True)
            cov = ['-test.coverprofile', os.path.join(os.environ['VERIF_COVER'], '%s_%d_%d.cov' % (name, os.getpid(), frm))]
        try:
            p = subprocess.run([driver, '-test.run', '^TestDriver$', '-test.timeout', '0'] + cov, env=env,
                               capture_output=True, text=True, timeout=3600)
        except subprocess.TimeoutExpired:
            raise Inconclusive('worker timeout on shard ' + name)
        if p.returncode == 0:
            break
        sc, ended = _last_open_scenario(trace_path)
        err = (p.stderr or '') + (p.stdout or '')
        if 'verif-harness:' in err:
            raise Inconclusive('harness failure in shard %s: %s' % (name, err[-3000:]))
        if sc is None or sc not in idx_of:
            raise Inconclusive('worker died before any scenario (rc=%d): %s' % (p.returncode, err[-3000:]))
        if p.returncode == 5:
            raise Inconclusive('worker made no progress for 2 minutes (no mutex deadlock) in shard %s: %s' % (name, err[-2000:]))
        if p.returncode in (3, 4):
            kind = 'wedged' if p.returncode == 3 else 'leak'
        else:
            kind = 'crash'
            # the panicking goroutine's stack is printed first: a panic with no
            # goat frame in it is a failure of the harness, not of the library
            pm = re.search(r'^panic: ', err, re.M)
            first = err[pm.start():].split('\n\n')[0:2] if pm else []
            if pm and 'github.com/avos-io/goat' not in '\n'.join(first):
                raise Inconclusive('harness panic in shard %s: %s' % (name, err[pm.start():pm.start() + 3000]))
            m = re.search(r'^panic: (.*)$', err, re.M)
            what = m.group(1)[:200] if m else 'exit %d' % p.returncode
            if not ended:
                with open(trace_path, 'a') as f:
                    f.write(json.dumps(_mk_event(sc, 'Crash', what), separators=(',', ':')) + '\n')
                    f.write(json.dumps(_mk_event(sc, 'End'), separators=(',', ':')) + '\n')
            else:
                raise Inconclusive('worker died between scenarios (rc=%d): %s' % (p.returncode, err[-3000:]))
        notes.append(dict(sc=sc, kind=kind, stderr=err[-6000:]))
        frm = idx_of[sc] + 1
        restarts += 1
        if restarts > 200:
            raise Inconclusive('too many worker restarts in shard ' + name)
    return trace_path, notes


# ------------------------------------------------------------ validation ------

def split_connections(trace_path, out_path):
    """Rewrites a raw trace into per-(scenario, connection) segments (the
    specification describes one client connection). Scenario-wide lines
    (conn 0) are copied into every segment. Returns the list mapping each
    output line to (sc, conn)."""
    linemap = []
    with open(trace_path) as f, open(out_path, 'w') as o:
        cur, lines, ncli = None, [], 1

        def flush():
            if cur is None:
                return
            for k in range(1, ncli + 1):
                for ln, conn in lines:
                    if conn in (0, k):
                        if ncli > 1 and '"ev":"Begin"' in ln:
                            d = json.loads(ln)
                            d['pay'] = 'cli%d' % k
                            ln = json.dumps(d, separators=(',', ':'))
                        o.write(ln + '\n')
                        linemap.append((cur, k))
        for ln in f:
            ln = ln.rstrip('\n')
            if not ln:
                continue
            m = re.match(r'\{"seq":\d+,"sc":(-?\d+),"conn":(\d+),"ev":"(\w+)"', ln)
            if not m:
                raise Inconclusive('unparseable trace line: ' + ln[:200])
            sc, conn, evn = int(m.group(1)), int(m.group(2)), m.group(3)
            if evn == 'Begin':
                flush()
                cur, lines = sc, []
                ncli = max(1, json.loads(ln).get('n', 1))
            lines.append((ln, conn))
        flush()
    return linemap


_tlc_seq = [0]


def tlc(spec, cfg_text, workdir, env=None, workers=1, extra=(), timeout=3600, heap='3g', tag='tlc'):
    """Runs TLC in a scratch copy of the spec directory; returns (rc, stdout)."""
    _tlc_seq[0] += 1
    d = os.path.join(workdir, '%s_%d_%d' % (tag, os.getpid(), _tlc_seq[0]))
    os.makedirs(d, exist_ok=True)
    for fn in os.listdir(SPEC):
        if fn.endswith('.tla'):
            shutil.copyfile(os.path.join(SPEC, fn), os.path.join(d, fn))
    cfg = os.path.join(d, 'run.cfg')
    with open(cfg, 'w') as f:
        f.write(cfg_text)
    os.makedirs(os.path.join(d, 'tmp'), exist_ok=True)   # TLC unpacks its standard modules into java.io.tmpdir on every run
    cmd = ['java', '-XX:+UseParallelGC', '-Xmx' + heap, '-Xss64m', '-Djava.io.tmpdir=' + os.path.join(d, 'tmp'), '-cp', TLA_CP, 'tlc2.TLC',
           '-workers', str(workers), '-metadir', os.path.join(d, 'meta'), '-noGenerateSpecTE',
           '-config', 'run.cfg'] + list(extra) + [spec]
    e = dict(os.environ)
    if env:
        e.update(env)
    try:
        p = subprocess.run(cmd, cwd=d, env=e, capture_output=True, text=True, timeout=timeout)
    except subprocess.TimeoutExpired:
        shutil.rmtree(d, ignore_errors=True)
        raise Inconclusive('TLC timeout: ' + spec)
    shutil.rmtree(d, ignore_errors=True)
    return p.returncode, p.stdout + p.stderr


def tlc_stats(out):
    m = re.search(r'(\d+) states generated, (\d+) distinct states found', out)
    if not m:
        return None
    return dict(generated=int(m.group(1)), distinct=int(m.group(2)))


def trace_cfg(off=(), strict=False):
    if strict:
        return ('SPECIFICATION StrictSpec\nPOSTCONDITION TraceAccepted\nCHECK_DEADLOCK FALSE\n'
                'CONSTANT Off = {%s}\n' % ', '.join('"%s"' % g for g in off))
    return ('SPECIFICATION TraceSpec\nCHECK_DEADLOCK FALSE\n'
            'CONSTANT Off = {%s}\n' % ', '.join('"%s"' % g for g in off))


# Named deviation actions of a trace specification announce each use with
# PrintT(<<"TRACE_DEVIATION", name, line>>): the trace is accepted through them and
# the orchestrator reports the matching known finding (match key "deviation_re").
DEVIATIONS = {}   # name -> (validated trace file, line) of the first use seen


def validate_file(spec, path, workdir, off=()):
    """Validates a batch of scenarios. Returns (rejected_lines, states): the
    specification skips to the next scenario after a line it cannot explain."""
    rc, out = tlc(spec, trace_cfg(off), workdir, env={'VERIF_TRACE': path}, tag='tv')
    st = tlc_stats(out)
    if 'Model checking completed. No error has been found' not in out or not st:
        raise Inconclusive('TLC trace validation failed to run:\n' + out[-4000:])
    for m in re.finditer(r'TRACE_DEVIATION", "(\w+)", (\d+)', out):
        DEVIATIONS.setdefault(m.group(1), (path, int(m.group(2))))
    dead = sorted({int(m.group(1)) for m in re.finditer(r'TRACE_REJECTED_AT_LINE", (\d+), "of"', out)})
    ok = {int(m.group(1)) for m in re.finditer(r'TRACE_SEGMENT_OK", (\d+)', out)}
    if not dead:
        return [], st['distinct']
    # a scenario (Begin .. line before the next Begin) is rejected iff NO branch consumed its End line; the
    # line reported is the furthest one any branch got stuck at
    begins = []
    with open(path) as f:
        for i, ln in enumerate(f, 1):
            if '"ev":"Begin"' in ln:
                begins.append(i)
        nlines = i if begins or True else 0
    rej = []
    for k, b in enumerate(begins):
        e = (begins[k + 1] - 1) if k + 1 < len(begins) else nlines
        d = [x for x in dead if b <= x <= e]
        if d and not any(b <= x <= e for x in ok):
            rej.append(max(d))
    if not begins:
        rej = dead
    return rej, st['distinct']


GROUPS = ['md', 'status', 'pay', 'ids', 'wire', 'ctx', 'fault', 'serve', 'pend', 'reg', 'letgo', 'robust', 'route']
# which rule groups can be responsible for the rejection of which event
EV_GROUPS = {
    'CW': ['ids', 'wire', 'md', 'pay', 'ctx', 'route'], 'SR': ['route'], 'CR': ['route'], 'SW': ['wire', 'status', 'md', 'pay', 'route'],
    'HStart': ['pay', 'md'], 'HRecvRet': ['pay', 'ctx'], 'HSendRet': ['ctx'], 'HSendBad': ['pay'], 'HSetHdr': ['md'],
    'HSendHdrRet': ['md'], 'HCtxDone': ['ctx'], 'URet': ['status', 'pay'], 'SOpenRet': ['fault'],
    'SSendRet': ['ctx', 'fault'], 'SSendBadRet': ['fault'], 'SCloseRet': ['fault'], 'SRecvRet': ['pay', 'status', 'ctx'],
    'SHdrRet': ['md'], 'STrl': ['md'], 'ServeRet': ['serve'], 'Hk': ['reg'],
    'Quiesce': ['pend', 'ctx', 'robust', 'wire', 'serve', 'reg', 'letgo'],
}


def diagnose(spec, lines, workdir):
    """lines: the trace lines of one rejected scenario segment. Returns the list
    of findings [(line, event, groups)]: the first unexplainable line with the
    rule groups whose disabling lets validation get past it, then - with those
    groups off - the next one, so that the rest of the trace is still judged."""
    p = os.path.join(workdir, 'diag_%d_%s.ndjson' % (os.getpid(), hashlib.sha1('\n'.join(lines).encode()).hexdigest()[:10]))
    with open(p, 'w') as f:
        f.write('\n'.join(lines) + '\n')
    found, off = [], []
    for _ in range(4):
        rej, _ = validate_file(spec, p, workdir, tuple(off))
        if not rej:
            break
        ln = rej[0]
        evn = json.loads(lines[ln - 1])
        groups = []
        cand = [g for g in EV_GROUPS.get(evn.get('ev'), []) if g not in off]
        if cand:
            with cf.ThreadPoolExecutor(max_workers=len(cand)) as ex:
                futs = {g: ex.submit(validate_file, spec, p, workdir, tuple(off + [g])) for g in cand}
                for g, fu in futs.items():
                    rej2, _ = fu.result()
                    if not rej2 or rej2[0] > ln:
                        groups.append(g)
        if not groups and len(cand) > 1:
            # no single rule group explains it: several rules of different groups fail at once
            rej2, _ = validate_file(spec, p, workdir, tuple(off + cand))
            if not rej2 or rej2[0] > ln:
                groups = list(cand)
        found.append((ln, evn, groups))
        if not groups:
            break
        off.extend(groups)
    os.remove(p)
    return found


def validate_traces(spec, shard_traces, workdir):
    """Validates every shard; returns (n_segments_accepted, total_states, rejections)
    where each rejection is a dict(sc, conn, line, event, groups, lines)."""

    def one(tp):
        vp = tp.replace('.trace.ndjson', '.valid.ndjson')
        linemap = split_connections(tp, vp)
        with open(vp) as f:
            all_lines = f.read().split('\n')
        if all_lines and all_lines[-1] == '':
            all_lines.pop()
        segs = {}
        for i, key in enumerate(linemap):
            segs.setdefault(key, []).append(i)
        rej_lines, states = validate_file(spec, vp, workdir)
        rej = []
        for ln in rej_lines:
            key = linemap[ln - 1]
            idxs = segs[key]
            rej.append(dict(sc=key[0], conn=key[1], line=ln - idxs[0], event=json.loads(all_lines[ln - 1]),
                            groups=None, lines=[all_lines[i] for i in idxs]))
        return len(segs) - len(rej), states, rej

    results = []
    with cf.ThreadPoolExecutor(max_workers=NCPU) as ex:
        for r in ex.map(one, shard_traces):
            results.append(r)
    acc = sum(r[0] for r in results)
    states = sum(r[1] for r in results)
    rej = [x for r in results for x in r[2]]
    # attribute rejections to rule groups; identical signatures are diagnosed once
    memo = {}
    for r in rej:
        e = r['event']
        sig = (spec, e.get('ev'), e.get('res'), e.get('k'), e.get('code'), e.get('x') if e.get('ev') in ('Leak', 'Wedged') else '',
               len(r['lines']) if e.get('ev') in ('SW', 'CW', 'Quiesce') else 0)
        if sig not in memo:
            found = diagnose(spec, r['lines'], workdir)
            if not found:
                raise Inconclusive('segment rejected in batch but accepted alone: sc=%r' % r['sc'])
            memo[sig] = found
        r['findings'] = [dict(line=ln, event=evn, groups=g) for ln, evn, g in memo[sig]]
        r['groups'] = memo[sig][0][2]
    return acc, states, rej


# ------------------------------------------------------ running scenarios ----

def run_scenarios(driver, scens, workdir, shard_size=None):
    n = len(scens)
    if n == 0:
        return [], []
    nshards = min(NCPU, max(1, n // 8)) if shard_size is None else max(1, (n + shard_size - 1) // shard_size)
    shards = [scens[i::nshards] for i in range(nshards)]
    traces, notes = [], []
    with cf.ThreadPoolExecutor(max_workers=NCPU) as ex:
        futs = [ex.submit(run_shard, driver, sh_, workdir, 'shard%03d' % i) for i, sh_ in enumerate(shards) if sh_]
        for fu in futs:
            tp, nt = fu.result()
            traces.append(tp)
            notes.extend(nt)
    return traces, notes


# ---------------------------------------------------------- known findings ----

def load_known():
    p = os.path.join(VERIF, 'known_findings.json')
    if not os.path.exists(p):
        return []
    return json.load(open(p)).get('findings', [])


def match_known(known, prop, scen, rej):
    """A known finding matches on property, scenario tag pattern, rejected event kind."""
    for k in known:
        if k.get('status') != 'known' or k.get('property') != prop:
            continue
        m = k.get('match', {})
        if 'ev' in m and rej['event'].get('ev') != m['ev']:
            continue
        if 'tag_re' in m and not re.search(m['tag_re'], scen.get('tag', '')):
            continue
        if 'k' in m and rej['event'].get('k') != m['k']:
            continue
        if 'x_re' in m and not re.search(m['x_re'], rej['event'].get('x', '')):
            continue
        if 'groups' in m and sorted(m['groups']) != sorted(rej.get('groups') or []):
            continue
        if 'h_min' in m and rej['event'].get('h', 0) < m['h_min']:
            continue
        return k
    return None


# ---------------------------------------------------------------- evidence ----

def write_evidence(prop, tier, seed, level, coverage, wall_s, violations, assumptions):
    os.makedirs(os.path.join(VERIF, 'evidence'), exist_ok=True)
    ev = dict(property_id=prop, tier=tier, seed=seed, level=level, coverage=coverage,
              assumptions=assumptions, wall_s=round(wall_s, 2), violations=violations)
    p = os.path.join(VERIF, 'evidence', prop + '.json')
    if os.path.realpath(REPO) != '/repo':
        # a development run against a scratch worktree ($VERIF_REPO, e.g. a seeded change): evidence describes /repo only
        p = os.path.join(OUT, 'evidence_scratch_%s.json' % prop)
    with open(p + '.tmp', 'w') as f:
        json.dump(ev, f, indent=1)
    os.replace(p + '.tmp', p)
    return p
