"""bin/check <property> [--tier quick|thorough] [--seed N] | replay <file> | revalidate <file>"""
import argparse
import hashlib
import json
import os
import re
import shutil
import sys
import time

from . import core, gen, props
from .core import Inconclusive, log


def run_check(prop, tier, seed):
    t0 = time.time()
    P = props.PROPS[prop]
    work = os.path.join(core.OUT, '%s_%d' % (prop, os.getpid()))   # private to this invocation
    shutil.rmtree(work, ignore_errors=True)
    os.makedirs(work, exist_ok=True)
    known = core.load_known()

    # 1. design-level model checking of the specification
    models = []
    for m in P.get('models', []):
        r = props.run_model(m, tier, work)
        if r is None:
            continue
        models.append(r)
        log('[model] %s: %d distinct / %d generated states in %.1fs' % (m['name'], r['distinct'], r['generated'], r['wall_s']))

    # 2. conformance: scenarios -> real code -> traces -> TLC
    driver = core.build_driver(work)
    violations, known_hits, foreign = [], [], []
    parts = P.get('parts') or [dict(gen=None, trace_spec=P.get('trace_spec', 'GoatTrace.tla'))]
    scens, traces, notes, rej = [], [], [], []
    accepted = tstates = 0
    for pi, part in enumerate(parts):
        ps = gen.generate(prop, tier, seed, part.get('gen'), first=len(scens) + 1)
        log('[gen] part %d (%s): %d scenarios' % (pi, part['trace_spec'], len(ps)))
        pwork = os.path.join(work, 'part%d' % pi)
        os.makedirs(pwork, exist_ok=True)
        ptr, pnotes = core.run_scenarios(driver, ps, pwork, shard_size=part.get('shard_size'))
        log('[run] %d shards, %d worker restarts, %.1fs' % (len(ptr), len(pnotes), time.time() - t0))
        acc, st, prej = core.validate_traces(part['trace_spec'], ptr, pwork)
        log('[tlc] %d segments accepted, %d rejected, %d trace states, %.1fs' % (acc, len(prej), st, time.time() - t0))
        scens += ps
        traces += ptr
        notes += pnotes
        rej += prej
        accepted += acc
        tstates += st
    by_sc = {s['sc']: s for s in scens}
    notes_by_sc = {}
    for n in notes:
        notes_by_sc.setdefault(n['sc'], []).append(n)

    for r in rej:
        sc = by_sc[r['sc']]
        hit = None
        attributed_all = set()
        for fnd in r['findings']:
            att = props.attribute(prop, sc, dict(event=fnd['event'], groups=fnd['groups']))
            attributed_all |= att
            if prop in att and hit is None:
                hit = fnd
        rec = dict(property=prop, scenario=sc, conn=r['conn'], findings=r['findings'],
                   rejected_line=(hit or r['findings'][0])['line'], rejected_event=(hit or r['findings'][0])['event'],
                   rule_groups=(hit or r['findings'][0])['groups'], attributed_to=sorted(attributed_all), trace=r['lines'],
                   worker_notes=notes_by_sc.get(r['sc'], []))
        if hit is None:
            # a known finding of the property it is attributed to is not news either
            f0 = r['findings'][0]
            if not any(core.match_known(known, q, sc, dict(event=f0['event'], groups=f0['groups'])) for q in attributed_all):
                foreign.append(rec)
            continue
        k = core.match_known(known, prop, sc, dict(event=hit['event'], groups=hit['groups']))
        if k:
            known_hits.append((k, rec))
            continue
        violations.append(rec)

    # deviation actions used by accepted traces: a listed known finding, else a violation
    for name, (vpath, vline) in sorted(core.DEVIATIONS.items()):
        k = next((k for k in known if k.get('status') == 'known' and k.get('property') == prop and
                  'deviation_re' in k.get('match', {}) and re.search(k['match']['deviation_re'], name)), None)
        try:
            with open(vpath) as f:
                first = json.loads(f.read().split('\n')[vline - 1])
        except Exception:
            continue
        if first.get('sc') not in by_sc:
            continue
        rec = dict(property=prop, scenario=by_sc[first['sc']], conn=first.get('conn', 0), findings=[],
                   rejected_line=0, rejected_event=first, rule_groups=[], attributed_to=[prop], deviation=name,
                   trace=[], worker_notes=[])
        if k:
            known_hits.append((k, rec))
        elif any(q.get('status') == 'known' and q.get('property') != prop and 'deviation_re' in q.get('match', {}) and
                 re.search(q['match']['deviation_re'], name) for q in known):
            pass    # the known finding of another property (this property says nothing about that behaviour)
        else:
            violations.append(rec)

    # 3. report
    vdir = os.path.join(core.OUT, 'violations', prop)
    shutil.rmtree(vdir, ignore_errors=True)
    seen_known = set()
    for k, rec in known_hits:
        if k['id'] not in seen_known:
            seen_known.add(k['id'])
            print('KNOWN-FINDING: property=%s %s' % (prop, k['what']))
    for rec in violations:
        os.makedirs(vdir, exist_ok=True)
        h = hashlib.sha1(json.dumps(rec['scenario'], sort_keys=True).encode()).hexdigest()[:12]
        path = os.path.join(vdir, h + '.json')
        with open(path, 'w') as f:
            json.dump(rec, f, indent=1)
        ev = rec['rejected_event']
        log('[violation] scenario "%s": event %s (line %d) not explainable; rule groups %s' %
            (rec['scenario'].get('tag'), ev.get('ev'), rec['rejected_line'], rec['rule_groups']))
        print('VIOLATION property=%s replay=%s' % (prop, path))
    fdir = os.path.join(core.OUT, 'foreign', prop)
    shutil.rmtree(fdir, ignore_errors=True)
    for rec in foreign[:10]:
        os.makedirs(fdir, exist_ok=True)
        h = hashlib.sha1(json.dumps(rec['scenario'], sort_keys=True).encode()).hexdigest()[:12]
        with open(os.path.join(fdir, h + '.json'), 'w') as f:
            json.dump(rec, f, indent=1)
        log('[other-property] scenario "%s": event %s rejected, attributed to %s (not reported by this check)' %
            (rec['scenario'].get('tag'), rec['rejected_event'].get('ev'), rec['attributed_to']))

    # 4. evidence
    nontrivial = props.count_nontrivial(P, scens, traces)
    samples = []
    for s in scens[:: max(1, len(scens) // 4)][:4]:
        samples.append(dict(tag=s.get('tag'), steps=s['steps'][:12]))
    for m in models[:2]:
        samples.append(dict(model=m['name'], constants=m.get('constants'), distinct_states=m['distinct']))
    cov = dict(
        states=max(1, sum(m['distinct'] for m in models)) if models else max(1, tstates),
        transitions=max(1, sum(m['generated'] for m in models)) if models else max(1, tstates),
        traces_validated_against_impl=accepted,
        trace_states=tstates,
        evaluations=len(scens),
        distinct_nontrivial=nontrivial,
        rule=P['rule'],
        samples=samples,
        exhaustive=bool(models) and all(m.get('exhaustive', True) for m in models),
        models=[{k: v for k, v in m.items() if k != 'out'} for m in models],
        rejected_segments=len(rej), foreign_rejections=len(foreign), known_finding_hits=len(known_hits),
        worker_restarts=len(notes),
    )
    core.write_evidence(prop, tier, seed, 'model_checking', cov, time.time() - t0, len(violations), P['assumptions'])
    if os.environ.get('VERIF_KEEP') != '1':
        shutil.rmtree(work, ignore_errors=True)
    log('[done] %s %s: %d scenarios, %d violations%s, %.1fs' % (prop, tier, len(scens), len(violations),
        (', %d rejections attributed to other properties' % len(foreign)) if foreign else '', time.time() - t0))
    return 1 if violations else 0


def replay(path):
    rec = json.load(open(path))
    prop = rec['property']
    work = os.path.join(core.OUT, 'replay_%d' % os.getpid())
    shutil.rmtree(work, ignore_errors=True)
    os.makedirs(work)
    driver = core.build_driver(work)
    sc = rec['scenario']
    traces, notes = core.run_scenarios(driver, [sc], work)
    spec = props.PROPS[prop].get('trace_spec', 'GoatTrace.tla')
    acc, st, rej = core.validate_traces(spec, traces, work)
    for r in rej:
        for fnd in r['findings']:
            print('rejected at line %d: %s groups=%s' % (fnd['line'], json.dumps(fnd['event']), fnd['groups']))
            for ln in r['lines'][max(0, fnd['line'] - 8):fnd['line']]:
                print('   ', ln[:300])
    print('VIOLATION property=%s replay=%s' % (prop, path) if rej else 'replay: trace accepted')
    return 1 if rej else 0


def one(prop, tagsub, tier='quick', seed=1):
    """development aid: run the scenarios of a property whose tag contains tagsub and print the diagnosis"""
    P = props.PROPS[prop]
    spec = P.get('trace_spec', 'GoatTrace.tla')
    scens = []
    for part in P.get('parts') or [dict(gen=None)]:
        got = [s for s in gen.generate(prop, tier, seed, genfn=part.get('gen')) if tagsub in s.get('tag', '')][:int(os.environ.get('VERIF_ONE_N', '3'))]
        if got:
            scens, spec = got, part.get('trace_spec', spec)
            break
    work = os.path.join(core.OUT, 'one_%d' % os.getpid())
    shutil.rmtree(work, ignore_errors=True)
    os.makedirs(work)
    driver = core.build_driver(work)
    traces, notes = core.run_scenarios(driver, scens, work)
    acc, st, rej = core.validate_traces(spec, traces, work)
    print('%d scenarios, %d accepted, %d rejected' % (len(scens), acc, len(rej)))
    for r in rej:
        for fnd in r['findings']:
            print('rejected at line %d groups=%s' % (fnd['line'], fnd['groups']))
            for ln in r['lines'][max(0, fnd["line"] - int(os.environ.get("VERIF_CTX", "14"))):fnd['line']]:
                d = json.loads(ln)
                e = d.get('env') or {}
                print('  ', {k: v for k, v in d.items() if v not in ('', 0, -1, []) and k not in ('seq', 'sc', 'conn', 'env')},
                      ('id=%s %s code=%s pay=%s md=%s tmd=%s' % (e.get('id'), ''.join(str(e.get(x, '')) for x in 'hbstr'), e.get('code'), e.get('pay'), e.get('md'), e.get('tmd'))) if e else '')
    if os.environ.get('VERIF_KEEP') != '1':
        shutil.rmtree(work, ignore_errors=True)
    return 0


def main(argv):
    if argv and argv[0] == 'replay':
        return replay(argv[1])
    if argv and argv[0] == 'revalidate':
        # the RECORDED trace of a violation file against the current specification (no re-run of the code)
        rec = json.load(open(argv[1]))
        work = os.path.join(core.OUT, 'reval_%d' % os.getpid())
        os.makedirs(work, exist_ok=True)
        tp = os.path.join(work, 't.valid.ndjson')
        open(tp, 'w').write('\n'.join(rec['trace']) + '\n')
        rej, states = core.validate_file(props.PROPS[rec['property']].get('trace_spec', 'GoatTrace.tla'), tp, work)
        shutil.rmtree(work, ignore_errors=True)
        print('revalidate: rejected at lines %s' % rej if rej else 'revalidate: recorded trace accepted (%d states)' % states)
        return 1 if rej else 0
    if argv and argv[0] == 'one':
        return one(argv[1], argv[2], os.environ.get('VERIF_TIER', 'quick'), int(os.environ.get('VERIF_SEED', '1')))
    ap = argparse.ArgumentParser()
    ap.add_argument('prop')
    ap.add_argument('--tier', default=os.environ.get('VERIF_TIER', 'quick'))
    ap.add_argument('--seed', type=int, default=int(os.environ.get('VERIF_SEED', '1')))
    a = ap.parse_args(argv)
    try:
        return run_check(a.prop, a.tier, a.seed)
    except Inconclusive as e:
        log('INCONCLUSIVE: %s' % e)
        return 2
