#!/usr/bin/env python3
"""Model-to-model trace validation: every behaviour of the design model GoatImpl (Layer I), projected to
observable events by GoatImplObs.tla, must be accepted by GoatProtocol (Layer P, through GoatTrace.tla);
behaviours of GoatImpl with a repaired defect re-opened (Fixes minus one) must be rejected.

  implobs.py --spec-dir DIR [--work DIR] [--mode quick|thorough] [--only NAME[,NAME..]] [--runs N] [--jobs N]
             [--keep] [--show N] [--list]

For every configuration: TLC simulates GoatImplObs (one TLC process per seed, all processes in parallel), every
behaviour is written by the specification itself as NDJSON in the harness's trace format, the behaviours are
concatenated (segments separated by their Begin lines) and validated by GoatTrace exactly like traces of the real
code (SPECIFICATION TraceSpec, Off = {}, TRACE_REJECTED_AT_LINE / TRACE_SEGMENT_OK).  Exit status 0 iff every
configuration meets its expectation (accept: no segment rejected; reject: at least one segment rejected).

Nothing outside --work is written; the spec directory is only read (its modules are copied into scratch directories).
"""
import argparse
import concurrent.futures as cf
import glob
import hashlib
import json
import os
import re
import shutil
import subprocess
import sys
import time

TLA_CP = os.environ.get('TLA_CP', '/opt/veriftools/tla/tla2tools.jar:/opt/veriftools/tla/CommunityModules-deps.jar')
ALL_FIXES = ['D1', 'D4', 'D5', 'D6', 'D7s', 'D7c', 'D22', 'D24']
NCPU = os.cpu_count() or 4


def log(*a):
    print(*a, file=sys.stderr, flush=True)


# ------------------------------------------------------------------ configurations ------

def conf(name, unaries=(), streams=(), workers=1, maxc=1, maxs=1, without=None, cancel=False, readfail=False, stop=False,
         early=True, sendfail=False, hwaits=False, cap=0, hooks=True, census=True,
         expect='accept', runs=None, depth=400, tier='quick', note='', exhaustive=False, target=None):
    """the constants are those of props.impl() in lib/vcheck/props.py (same cfg text); runs = (quick, thorough)"""
    runs = runs or ((1000, 10000) if expect == 'accept' else (3000, 30000))
    return dict(name=name, unaries=list(unaries), streams=list(streams), workers=workers, maxc=maxc, maxs=maxs,
                without=without, cancel=cancel, readfail=readfail, stop=stop, early=early, sendfail=sendfail,
                hwaits=hwaits, cap=cap, hooks=hooks, census=census, expect=expect, runs=runs,
                depth=depth, tier=tier, note=note, exhaustive=exhaustive, target=target)


def cfg_text(c, obs=True):
    fixes = [f for f in ALL_FIXES if f != c['without']]
    sset = lambda xs: '{' + ', '.join('"%s"' % x for x in xs) + '}'
    b = lambda v: 'TRUE' if v else 'FALSE'
    t = ('SPECIFICATION %s\nCONSTANTS\n  Unaries = %s\n  Streams = %s\n  NWorkers = %d\n  MaxC = %d\n  MaxS = %d\n'
         '  Fixes = %s\n  EnvCancel = %s\n  EnvReadFail = %s\n  EnvStop = %s\n  EnvSendFail = %s\n  EarlyReturn = %s\n'
         '  HandlerWaits = %s\n  AdvClient = 0\n  AdvServer = 0\n  AdvIds = {1}\n  Cap = %d\n'
         % ('ObsSpec' if obs else 'Spec', sset(c['unaries']), sset(c['streams']), c['workers'], c['maxc'], c['maxs'], sset(fixes),
            b(c['cancel']), b(c['readfail']), b(c['stop']), b(c['sendfail']), b(c['early']), b(c['hwaits']), c['cap']))
    return t + ('  Hooks = %s\n  Census = %s\n' % (b(c['hooks']), b(c['census'])) if obs else 'INVARIANT ImplobsNotTarget\n')


CONFIGS = [
    # ---- the design as it is (all repaired defects present): every behaviour must be accepted
    conf('S1plain', streams=['s1'], note='one stream, one message each way'),
    conf('S1', streams=['s1'], cancel=True, note='one stream, caller may cancel'),
    conf('S1m2', streams=['s1'], maxc=2, maxs=2, cancel=True, note='two messages each way'),
    conf('S1U1', unaries=['u1'], streams=['s1'], workers=2, cancel=True, note='a stream + a unary call, 2 workers'),
    conf('U2', unaries=['u1', 'u2'], workers=2, early=False, note='two unary calls, 2 workers'),
    conf('U2w1', unaries=['u1', 'u2'], workers=1, early=False, cancel=True, note='two unary calls, 1 worker, callers may give up'),
    conf('U2rf', unaries=['u1', 'u2'], workers=2, readfail=True, early=False, note='two unary calls, client read failure anywhere'),
    conf('S1rf', streams=['s1'], cancel=True, readfail=True, note='one stream, cancel and client read failure anywhere'),
    conf('S1stop', streams=['s1'], stop=True, note='one stream, Stop anywhere'),
    conf('U2stop', unaries=['u1', 'u2'], stop=True, early=False, note='two unary calls, one worker, Stop anywhere'),
    conf('S1sf', streams=['s1'], cancel=True, sendfail=True, note='a Send may be refused by the transport'),
    conf('S1sf2', streams=['s1'], maxc=2, maxs=1, cancel=True, sendfail=True, tier='thorough', note='the same, two client messages'),
    conf('S1hw', streams=['s1'], maxc=0, maxs=1, cancel=True, hwaits=True, note='handler may wait for the cancellation'),
    conf('S2', streams=['s1', 's2'], cancel=True, tier='thorough', note='two streams'),
    # ---- the smallest configurations, exhaustively: ALL behaviours (breadth-first search instead of simulation)
    conf('X_U1', unaries=['u1'], cancel=True, readfail=True, early=False, exhaustive=True, tier='thorough',
         note='ALL behaviours: one unary call, caller may give up, client read failure anywhere'),
    conf('X_U1stop', unaries=['u1'], cancel=True, stop=True, early=False, exhaustive=True,
         note='ALL behaviours: one unary call, caller may give up, Stop anywhere'),
    conf('X_S1min', streams=['s1'], maxc=1, maxs=0, early=False, exhaustive=True, tier='thorough',
         note='ALL behaviours: one stream, one client message, handler receives to the end (810 k states)'),
    conf('X_Bug_D5', unaries=['u1'], readfail=True, early=False, without='D5', expect='reject', exhaustive=True,
         note='ALL behaviours of the design before D5'),
    conf('X_Bug_D6', unaries=['u1'], stop=True, early=False, without='D6', expect='reject', exhaustive=True,
         note='ALL behaviours of the design before D6'),
    # ---- transport with back-pressure (capacity 1 per direction)
    conf('U2c', unaries=['u1', 'u2'], workers=2, early=False, cancel=True, cap=1, note='two unary calls, capacity 1'),
    conf('S1cap3', streams=['s1'], maxc=3, maxs=1, cap=1, note='capacity 1, 3 client messages'),
    conf('S1capc', streams=['s1'], maxc=2, maxs=1, cap=1, cancel=True, note='capacity 1, caller may cancel'),
    conf('S1m2cap', streams=['s1'], maxc=2, maxs=2, cap=1, cancel=True, note='capacity 1, two messages each way; reset-write timeout'),
    conf('S1U1cap', unaries=['u1'], streams=['s1'], workers=1, cap=1, cancel=True, tier='thorough', note='stream + unary, capacity 1'),
    # ---- directed: TLC first finds the shortest way to a state random simulation practically never reaches (none in 40 000
    # runs), every behaviour then starts with it and continues at random
    conf('D_rsttmo', streams=['s1'], maxc=2, maxs=2, cap=1, cancel=True, runs=(250, 2500),
         target='\\E c \\in Streams : ENABLED RlExitRstTimeout(c)',
         note='capacity 1: the write of the reset waits for room until its 30 s deadline gives it up'),
    # ---- a repaired defect re-opened: some behaviour must be rejected
    conf('Bug_D1', streams=['s1'], early=False, without='D1', expect='reject'),
    conf('Bug_D4', streams=['s1'], maxc=2, maxs=0, without='D4', expect='reject'),
    conf('Bug_D5', unaries=['u1'], readfail=True, early=False, without='D5', expect='reject'),
    conf('Bug_D6', unaries=['u1'], stop=True, early=False, without='D6', expect='reject'),
    conf('Bug_D7s', streams=['s1'], maxc=2, maxs=0, without='D7s', expect='reject'),
    conf('Bug_D7c', streams=['s1'], maxc=1, maxs=2, cancel=True, without='D7c', expect='reject'),
    conf('Bug_D22', streams=['s1'], maxc=1, maxs=0, sendfail=True, early=False, without='D22', expect='reject'),
    conf('Bug_D24', streams=['s1'], maxc=1, maxs=1, cancel=True, without='D24', expect='reject'),
    # ---- known findings (not repaired): the design model deadlocks; what does Layer P say?
    conf('Known_D23', streams=['s1'], maxc=1, maxs=0, cancel=True, early=False, hwaits=True, expect='reject', runs=(6000, 40000),
         note='known finding D23 (not repaired): Layer P must flag it'),
    conf('Known_D25', streams=['s1'], maxc=6, maxs=1, cap=1, expect='deviation', runs=(6000, 40000),
         note='known finding D25 (not repaired): Layer P accepts it only through its named deviation SenderHol'),
]
# ------------------------------------------------------------------ TLC ------

def scratch_spec(spec_dir, d):
    os.makedirs(d, exist_ok=True)
    for fn in os.listdir(spec_dir):
        if fn.endswith('.tla'):
            shutil.copyfile(os.path.join(spec_dir, fn), os.path.join(d, fn))
    os.makedirs(os.path.join(d, 'tmp'), exist_ok=True)


def java(d, args, env=None, timeout=600, heap='2g'):
    # (many short TLC runs: the serial collector and the C1 compiler alone cost a third of the CPU time of the defaults)
    cmd = ['java', '-XX:+UseSerialGC', '-XX:TieredStopAtLevel=1', '-Xmx' + heap, '-Xss64m', '-Djava.io.tmpdir=' + os.path.join(d, 'tmp'),
           '-cp', TLA_CP, 'tlc2.TLC', '-metadir', os.path.join(d, 'meta'), '-noGenerateSpecTE'] + args
    e = dict(os.environ)
    if env:
        e.update(env)
    try:
        p = subprocess.run(cmd, cwd=d, env=e, capture_output=True, text=True, timeout=timeout)
    except subprocess.TimeoutExpired as x:
        return 124, ((x.stdout or b'').decode(errors='replace') if isinstance(x.stdout, bytes) else (x.stdout or '')) + '\nTIMEOUT'
    return p.returncode, p.stdout + p.stderr


SET_VARS = ('reg', 'respDone', 'sreg', 'hctx', 'hdoneSig')     # JSON has no sets: these are not compared


def make_guide(spec_dir, work, c):
    """directed behaviours: TLC searches GoatImpl (breadth first, no history) for the shortest behaviour that reaches a
    state satisfying c['target'] and its states become the guide the first steps of every simulated behaviour follow"""
    with open(os.path.join(spec_dir, 'GoatImpl.tla')) as f:
        impl = f.read()
    cfg = cfg_text(c, obs=False)
    key = hashlib.sha1((impl + cfg + c['target']).encode()).hexdigest()[:12]
    path = os.path.join(work, 'guide_%s_%s.json' % (c['name'], key))
    if os.path.exists(path):
        return path, None
    d = os.path.join(work, 'guide_%s' % c['name'])
    shutil.rmtree(d, ignore_errors=True)
    scratch_spec(spec_dir, d)
    end = '=' * 77 + '\n'
    assert impl.rstrip().endswith('=' * 20)
    i = impl.rstrip().rfind('\n') + 1
    with open(os.path.join(d, 'GoatImpl.tla'), 'w') as f:
        f.write(impl[:i] + 'ImplobsNotTarget == ~(%s)\n' % c['target'] + end)
    with open(os.path.join(d, 'run.cfg'), 'w') as f:
        f.write(cfg)
    dump = os.path.join(d, 'cex.json')
    rc, txt = java(d, ['-workers', '4', '-deadlock', '-dumpTrace', 'json', dump, '-config', 'run.cfg', 'GoatImpl'], timeout=3000, heap='8g')
    if 'Invariant ImplobsNotTarget is violated' not in txt or not os.path.exists(dump):
        shutil.rmtree(d, ignore_errors=True)
        return None, 'the target is not reachable (or TLC failed):\n' + txt[-1500:]
    with open(dump) as f:
        states = [st[1] for st in json.load(f)['counterexample']['state']]
    guide = [{k: v for k, v in st.items() if k not in SET_VARS and v not in ([], {})} for st in states[1:]]
    with open(path, 'w') as f:
        json.dump(guide, f)
    shutil.rmtree(d, ignore_errors=True)
    return path, None


def guide_file(work, c):
    p = c.get('guide') or os.path.join(work, 'noguide.json')
    if not os.path.exists(p):
        with open(p, 'w') as f:
            f.write('[]\n')
    return p


def simulate(spec_dir, work, c, seed, num):
    """one TLC process: num random behaviours of configuration c (or, num = 0, ALL its behaviours: breadth-first search
    of GoatImplObs, whose state includes the history); returns (list of behaviours, tlc output if it failed)"""
    d = os.path.join(work, 'sim_%s_%d' % (c['name'], seed))
    shutil.rmtree(d, ignore_errors=True)
    scratch_spec(spec_dir, d)
    with open(os.path.join(d, 'run.cfg'), 'w') as f:
        f.write(cfg_text(c))
    out = os.path.join(d, 'out')
    os.makedirs(out)
    mode = ['-simulate', 'num=%d' % num, '-depth', str(c['depth']), '-seed', str(seed)] if num else []
    # (one worker: the specification numbers the files it writes with a per-worker register)
    rc, txt = java(d, ['-workers', '1', '-deadlock'] + mode + ['-config', 'run.cfg', 'GoatImplObs'],
                   env={'IMPLOBS_OUT': os.path.join(out, 'b_'), 'IMPLOBS_GUIDE': guide_file(work, c)}, timeout=3600, heap='2g' if num else '8g')
    behs = []
    for fn in sorted(glob.glob(os.path.join(out, 'b_*.ndjson')), key=lambda p: int(re.search(r'b_(\d+)', p).group(1))):
        with open(fn) as f:
            behs.append([json.loads(ln) for ln in f if ln.strip()])
    ok = rc == 0 and 'Error' not in txt
    shutil.rmtree(d, ignore_errors=True)
    return behs, (None if ok else txt[-3000:])


KEYS = ['seq', 'sc', 'conn', 'ev', 'c', 'h', 'k', 'res', 'code', 'msg', 'pay', 'md', 'n', 't', 'x']
EKEYS = ['id', 'idn', 'h', 'b', 's', 't', 'r', 'code', 'msg', 'ndet', 'pay', 'md', 'tmd', 'meth', 'src', 'dst', 'to', 'c',
         'badmd', 'badtmd', 'rtype', 'rec', 'nxt', 'rs', 'ns', 'rret']


def line(e, seq, sc):
    """one event in the field order of the harness"""
    d = {k: e[k] for k in KEYS}
    d['seq'], d['sc'] = seq, sc
    if 'env' in e:
        d['env'] = {k: e['env'][k] for k in EKEYS}
    return json.dumps(d, separators=(',', ':'))


def write_trace(behs, path):
    """concatenates behaviours; returns [(first line, last line)] per behaviour (1-based)"""
    spans, n = [], 0
    with open(path, 'w') as f:
        for sc, b in enumerate(behs, 1):
            first = n + 1
            for e in b:
                n += 1
                f.write(line(e, n - first + 1, sc) + '\n')
            spans.append((first, n))
    return spans


def validate(spec_dir, work, path, tag, off=()):
    """GoatTrace on one file; returns (set of rejected-at lines, set of End lines accepted, states) like core.validate_file"""
    d = os.path.join(work, 'tv_%s' % tag)
    shutil.rmtree(d, ignore_errors=True)
    scratch_spec(spec_dir, d)
    with open(os.path.join(d, 'run.cfg'), 'w') as f:
        f.write('SPECIFICATION TraceSpec\nCHECK_DEADLOCK FALSE\nCONSTANT Off = {%s}\n' % ', '.join('"%s"' % g for g in off))
    rc, txt = java(d, ['-workers', '1', '-config', 'run.cfg', 'GoatTrace'], env={'VERIF_TRACE': path}, heap='3g', timeout=1800)
    shutil.rmtree(d, ignore_errors=True)
    if 'Model checking completed. No error has been found' not in txt:
        raise RuntimeError('TLC trace validation failed to run:\n' + txt[-4000:])
    dead = {int(m.group(1)) for m in re.finditer(r'TRACE_REJECTED_AT_LINE", (\d+), "of"', txt)}
    ok = {int(m.group(1)) for m in re.finditer(r'TRACE_SEGMENT_OK", (\d+)', txt)}
    dev = sorted({(m.group(1), int(m.group(2))) for m in re.finditer(r'TRACE_DEVIATION", "(\w+)", (\d+)', txt)})
    m = re.search(r'(\d+) states generated, (\d+) distinct states found', txt)
    return dead, ok, dev, int(m.group(2)) if m else 0


def short(e):
    s = '%-9s' % e['ev']
    for k in ('c', 'h'):
        if e[k]:
            s += ' %s=%s' % (k, e[k])
    for k in ('k', 'res', 'pay', 'x', 'msg'):
        if e[k] != '':
            s += ' %s=%s' % (k, e[k])
    if e['code'] != -1:
        s += ' code=%d' % e['code']
    if e['n']:
        s += ' n=%d' % e['n']
    if 'env' in e:
        v = e['env']
        s += '  [id=%s %s%s%s%s%s%s%s]' % (v['id'], 'H' if v['h'] else '', 'B' if v['b'] else '', 'S' if v['s'] else '',
                                          'T' if v['t'] else '', 'R' if v['r'] else '',
                                          ' pay=' + v['pay'] if v['pay'] else '', ' code=%d' % v['code'] if v['code'] != -1 else '')
    return s


GROUPS = ['md', 'status', 'pay', 'ids', 'wire', 'ctx', 'fault', 'serve', 'pend', 'reg', 'letgo', 'robust', 'route']
# which rule groups can be responsible for the rejection of which event (as in lib/vcheck/core.py)
EV_GROUPS = {
    'CW': ['ids', 'wire', 'md', 'pay', 'ctx', 'route'], 'SR': ['route'], 'CR': ['route'], 'SW': ['wire', 'status', 'md', 'pay', 'route'],
    'HStart': ['pay', 'md'], 'HRecvRet': ['pay', 'ctx'], 'HSendRet': ['ctx'], 'HCtxDone': ['ctx'], 'URet': ['status', 'pay'],
    'SOpenRet': ['fault'], 'SSendRet': ['ctx', 'fault'], 'SCloseRet': ['fault'], 'SRecvRet': ['pay', 'status', 'ctx'],
    'ServeRet': ['serve'], 'Hk': ['reg'], 'Quiesce': ['pend', 'ctx', 'robust', 'wire', 'serve', 'reg', 'letgo'],
}


def diagnose(spec_dir, work, b, ln, tag, pool):
    """which rule groups of Layer P, switched off one at a time, let validation get past line ln of behaviour b"""
    p = os.path.join(work, 'diag_%s.ndjson' % tag)
    write_trace([b], p)
    futs = {g: pool.submit(validate, spec_dir, work, p, 'diag_%s_%s' % (tag, g), (g,)) for g in EV_GROUPS.get(b[ln - 1]['ev'], GROUPS)}
    groups = []
    for g, fu in futs.items():
        dead, ok, dev, st = fu.result()
        if not dead or max(dead) > ln:
            groups.append(g)
    os.remove(p)
    return groups


def klass(b):
    u = b[-2]
    return u['x'] + ('+bad' if u['res'] == 'bad' else '')


def run_config(spec_dir, work, c, runs, jobs, pool, show=1, chunk=300, diag=True, max_clean=150, max_flagged=300):
    t0 = time.time()
    nproc = max(1, min(jobs, (runs + 249) // 250))
    per = (runs + nproc - 1) // nproc
    if c['exhaustive']:
        nproc, per = 1, 0
    if c['target']:
        g, err = make_guide(spec_dir, work, c)
        if err:
            return dict(name=c['name'], error=err)
        c = dict(c, guide=g)
    futs = [pool.submit(simulate, spec_dir, work, c, 1000 + 17 * i, per) for i in range(nproc)]
    behs, errs = [], []
    for fu in futs:
        b, err = fu.result()
        behs += b
        if err:
            errs.append(err)
    t1 = time.time()
    if errs:
        return dict(name=c['name'], error='TLC simulation failed:\n' + errs[0])
    # distinct behaviours only
    seen, uniq = set(), []
    for b in behs:
        h = hashlib.sha1(json.dumps(b, sort_keys=True).encode()).hexdigest()
        if h not in seen:
            seen.add(h)
            uniq.append(b)
    classes = {}
    for b in uniq:
        classes[klass(b)] = classes.get(klass(b), 0) + 1
    # a defect configuration: validate every behaviour GoatImpl itself flags (invariant violated, deadlock) and a sample of the others
    sel = uniq
    if c['expect'] != 'accept' and not c['exhaustive']:
        flagged = [b for b in uniq if klass(b) != 'finished']
        sel = flagged[:max_flagged] + [b for b in uniq if klass(b) == 'finished'][:max_clean]
    chunks = [sel[i:i + chunk] for i in range(0, len(sel), chunk)]
    vf = []
    for i, ch in enumerate(chunks):
        p = os.path.join(work, 'trace_%s_%d.ndjson' % (c['name'], i))
        spans = write_trace(ch, p)
        vf.append((ch, p, spans, pool.submit(validate, spec_dir, work, p, '%s_%d' % (c['name'], i))))
    rejected, devs, states, val = [], {}, 0, {}
    for ch, p, spans, fu in vf:
        dead, ok, dev, st = fu.result()
        states += st
        for name, ln in dev:
            devs[name] = devs.get(name, 0) + 1
        for b, (a, z) in zip(ch, spans):
            d = [x for x in dead if a <= x <= z]
            k = klass(b)
            val.setdefault(k, [0, 0])[0] += 1
            if d and not any(a <= x <= z for x in ok):
                rejected.append((b, max(d) - a + 1))
                val[k][1] += 1
            elif not d and z not in ok:
                rejected.append((b, 0))        # neither rejected nor accepted: should not happen
                val[k][1] += 1
    t2 = time.time()
    res = dict(name=c['name'], generated=len(behs), distinct=len(uniq), validated=len(sel), events=sum(len(b) for b in sel),
               classes=classes, val=val, rejected=len(rejected), accepted=len(sel) - len(rejected), deviations=devs,
               t_sim=t1 - t0, t_val=t2 - t1, expect=c['expect'], states=states, samples=[], note=c['note'], exhaustive=c['exhaustive'])
    if c['expect'] == 'accept':
        res['ok'] = len(rejected) == 0 and not any('bad' in k or 'deadlock' in k for k in classes)
    elif c['expect'] == 'deviation':      # accepted, but only through a named deviation action (a known finding)
        res['ok'] = len(rejected) == 0 and bool(devs)
    else:
        res['ok'] = len(rejected) > 0
    # the rejected lines by event kind, one sample (the shortest behaviour) per kind
    kinds = {}
    for b, ln in rejected:
        k = (b[ln - 1]['ev'] if ln else '?', klass(b))
        kinds.setdefault(k, []).append((b, ln))
    res['rejected_at'] = {'%s/%s' % k: len(v) for k, v in kinds.items()}
    for k, v in sorted(kinds.items()):
        b, ln = min(v, key=lambda r: len(r[0]))
        groups = diagnose(spec_dir, work, b, ln, '%s_%s_%s' % (c['name'], k[0], k[1].replace('+', '')), pool) if diag and ln else []
        res['samples'].append((ln, b, groups, k))
    res['t_diag'] = time.time() - t2
    res['evstats'] = {}
    for b in sel:
        for e in b:
            k = e['ev'] + (':' + e['k'] if e['ev'] in ('Hk', 'Fault', 'WFail', 'Pend', 'HLive') and e['k'] else '') + ('/' + e['res'] if e['res'] else '')
            res['evstats'][k] = res['evstats'].get(k, 0) + 1
    res['samples'] = res['samples'][:show] if c['expect'] == 'reject' else res['samples']
    return res


def report(r, fh=sys.stdout):
    if 'error' in r:
        print('%-10s ERROR\n%s' % (r['name'], r['error']), file=fh)
        return
    print(('%-10s %s expect=%s | ' + ('ALL behaviours: %d' if r['exhaustive'] else 'simulated %d') + ', distinct %d %s | validated %d (%d events): accepted %d rejected %d %s%s| sim %.0fs val %.0fs')
          % (r['name'], 'OK  ' if r['ok'] else 'FAIL', r['expect'], r['generated'], r['distinct'],
             ' '.join('%s=%d' % kv for kv in sorted(r['classes'].items())), r['validated'], r['events'], r['accepted'], r['rejected'],
             ' '.join('%s:%d/%d' % (k, v[1], v[0]) for k, v in sorted(r['val'].items()) if v[1]) + ' ' if r['rejected'] else '',
             ('deviations %s ' % r['deviations']) if r['deviations'] else '', r['t_sim'], r['t_val']), file=fh)
    if r['rejected']:
        print('   rejected at (event/behaviour class): %s' % r['rejected_at'], file=fh)
    for ln, b, groups, k in r['samples']:
        print('   --- a rejected behaviour of class %s (%d lines), rejected at line %d (%s); rule groups that explain it: %s'
              % (k[1], len(b), ln, k[0], ' '.join(groups) or '-'), file=fh)
        for i, e in enumerate(b[:ln], 1):
            print('   %s%3d %s' % ('>>' if i == ln else '  ', i, short(e)), file=fh)


def main():
    ap = argparse.ArgumentParser()
    ap.add_argument('--spec-dir', required=True)
    ap.add_argument('--work', default='/tmp/implobs')
    ap.add_argument('--mode', default='quick', choices=['quick', 'thorough'])
    ap.add_argument('--only', default='')
    ap.add_argument('--runs', type=int, default=0)
    ap.add_argument('--jobs', type=int, default=NCPU)
    ap.add_argument('--show', type=int, default=1)
    ap.add_argument('--no-diag', action='store_true')
    ap.add_argument('--stats', action='store_true', help='print the number of event lines by kind')
    ap.add_argument('--no-hooks', action='store_true', help='leave the registry hook lines (Hk) out')
    ap.add_argument('--no-census', action='store_true', help='leave the closing census (Pend, HLive, CReg, Quiesce) out')
    ap.add_argument('--keep', action='store_true')
    ap.add_argument('--list', action='store_true')
    a = ap.parse_args()
    spec_dir = os.path.abspath(a.spec_dir)
    cs = [c for c in CONFIGS if (not a.only or c['name'] in a.only.split(',')) and (a.mode == 'thorough' or c['tier'] == 'quick' or a.only)]
    cs = [dict(c, hooks=c['hooks'] and not a.no_hooks, census=c['census'] and not a.no_census) for c in cs]
    if a.list:
        for c in cs:
            print(c['name'], c['expect'], c['note'])
        return 0
    work = os.path.abspath(a.work)
    os.makedirs(work, exist_ok=True)
    t0 = time.time()
    allok = True
    thorough = a.mode == 'thorough'
    tot, evstats = dict(generated=0, distinct=0, validated=0, events=0, accepted=0, rejected=0), {}
    with cf.ThreadPoolExecutor(max_workers=a.jobs) as pool:
        with cf.ThreadPoolExecutor(max_workers=max(1, len(cs))) as outer:
            futs = [outer.submit(run_config, spec_dir, work, c, a.runs or c['runs'][1 if thorough else 0], a.jobs, pool, a.show, 300,
                                 not a.no_diag, 1500 if thorough else 150, 3000 if thorough else 300) for c in cs]
            for fu in futs:
                r = fu.result()
                report(r)
                allok = allok and r.get('ok', False)
                for k in tot:
                    tot[k] += r.get(k, 0)
                for k, v in r.get('evstats', {}).items():
                    evstats[k] = evstats.get(k, 0) + v
    print('behaviours simulated %(generated)d, distinct %(distinct)d, validated %(validated)d (%(events)d events): accepted %(accepted)d, rejected %(rejected)d' % tot)
    if a.stats:
        print('event lines by kind: ' + ' '.join('%s=%d' % kv for kv in sorted(evstats.items())))
    print('total %.1fs  %s' % (time.time() - t0, 'ALL AS EXPECTED' if allok else 'SOMETHING UNEXPECTED'))
    if not a.keep:
        for p in glob.glob(os.path.join(work, 'trace_*.ndjson')):
            os.remove(p)
        try:
            os.rmdir(work)
        except OSError:
            pass
    return 0 if allok else 1


if __name__ == '__main__':
    sys.exit(main())
