"""Scenario generators for the proxy properties C16 (delivery) and C17
(robustness); executed by the plug-in runner harness/driver/x_proxy.go and
validated against spec/ProxyTrace.tla.

A scenario is a dict with
  fam, tag, runner='proxy', mode ('env': raw peers | 'rpc': real clients - proxy -
  Demux by source - one Serve per client), px (proxy name),
  icpt {kind: nil|id|rw|rej, from, to}, dial {name: ok|err|slow|slowerr}
  (names absent from it are unknown: their dial fails),
  clients / servers (rpc mode), steps.
Connection numbers: attached peers 1..99 (assigned here), dialled ones 101.. (by the harness).
"""

ICPTS = [dict(kind='nil'), dict(kind='id'), dict(kind='rw', **{'from': 'svc', 'to': 's1'}),
         dict(kind='rw', **{'from': 'c1', 'to': 'c2'}), dict(kind='rej', **{'from': 's1'}),
         dict(kind='rej', **{'from': 'nobody'})]


def scen(fam, tag, steps, mode='env', icpt=None, dial=None, **kw):
    s = dict(fam=fam, tag=tag, runner='proxy', mode=mode, px='px', icpt=icpt or dict(kind='nil'),
             dial=dial or {}, steps=steps)
    s.update(kw)
    return s


class Ids:
    """scenario-unique envelope ids / payloads"""

    def __init__(self):
        self.n = 0

    def take(self, k=1):
        v = self.n + 1
        self.n += k
        return v


def w(ids, conn, src, dst, rep=1, nxt=None, rec=None, noh=False, dialed=None, trailer=False, big=0):
    e = dict(id=ids.take(rep), src=src, dst=dst, b='p%d' % (ids.n,), m='/verif.Svc/Unary')
    if big:          # a body of `big` bytes
        e['b'] = '@%d:%d' % (big, ids.n + 1)
    if trailer:      # a final envelope: status + trailer, no body
        del e['b']
        e['st'] = dict(code=0, msg='OK')
        e['t'] = []
    if nxt or nxt == []:       # [] = a route field that is present but empty (only a by-reference link keeps it that way)
        e['nxt'] = nxt
    if rec or rec == []:
        e['rec'] = rec
    if noh:
        e['noh'] = True
    st = dict(op='w', env=e)
    if dialed:
        st['dialed'] = dialed
    else:
        st['conn'] = conn
    if rep > 1:
        st['rep'] = rep
    return st


def attach(name, conn):
    return dict(op='attach', name=name, conn=conn)


def fault(what, conn=None, dialed=None):
    st = dict(op='fault', what=what)
    if dialed:
        st['dialed'] = dialed
    else:
        st['conn'] = conn
    return st


Q = dict(op='q')


# ------------------------------------------------------------------ C16: envelopes

def topo(rng, nc, ns):
    """nc clients attached; ns servers, each pre-attached or dialable"""
    peers, steps, dial = {}, [], {}
    n = 0
    for i in range(1, nc + 1):
        n += 1
        peers['c%d' % i] = n
        steps.append(attach('c%d' % i, n))
    for i in range(1, ns + 1):
        name = 's%d' % i
        if rng.random() < 0.5:
            n += 1
            peers[name] = n
            steps.append(attach(name, n))
        else:
            dial[name] = 'ok'
    return peers, steps, dial


def sender_step(ids, peers, dial, name, dst, **kw):
    if name in peers:
        return w(ids, peers[name], name, dst, **kw)
    return w(ids, 0, name, dst, dialed=name, **kw)


def c16_single(rng, limit):
    """one envelope: interceptor x sender x destination class x return route / incoming record"""
    out = []
    for ic in ICPTS:
        for sender in ('c1', 's1', 's2'):
            for dst in ('c1', 'c2', 's1', 's2', 'svc', 'nobody'):
                for route in (None, ['c2'], ['s2', 'c1'], ['nobody']):
                    for rec in (None, ['q0']):
                        ids = Ids()
                        steps = [attach('c1', 1), attach('c2', 2), attach('s1', 3)]
                        dial = {'s2': 'ok'}
                        if sender == 's2':   # make the dialled peer exist first
                            steps.append(w(ids, 1, 'c1', 's2'))
                            st = w(ids, 0, 's2', dst, nxt=route, rec=rec, dialed='s2')
                        else:
                            st = w(ids, {'c1': 1, 's1': 3}[sender], sender, dst, nxt=route, rec=rec)
                        steps += [st, Q]
                        out.append(scen('C16', 'single icpt=%s/%s %s->%s nxt=%s rec=%s' % (
                            ic['kind'], ic.get('from', ''), sender, dst, route, rec), steps, icpt=ic, dial=dial))
    rng.shuffle(out)
    return out[:limit]


def c16_seq(rng, count, maxc, maxs, maxlen):
    out = []
    for k in range(count):
        nc, ns = rng.randint(1, maxc), rng.randint(1, maxs)
        peers, steps, dial = topo(rng, nc, ns)
        if rng.random() < 0.3:
            dial['s%d' % (ns + 1)] = rng.choice(['err', 'ok'])
        ic = rng.choice(ICPTS)
        ids = Ids()
        names = list(peers) + list(dial) + ['nobody', 'svc']
        dialled = set()
        load = {}
        for _ in range(rng.randint(2, maxlen)):
            cands = list(peers) + sorted(dialled)
            snd = rng.choice(cands)
            dst = rng.choice(names)
            rep = rng.choice([1, 1, 1, 2, 3, 5])
            route = None
            r = rng.random()
            if r < 0.15:
                route = [rng.choice(names)]
            elif r < 0.25:
                route = [rng.choice(names), rng.choice(names)]
            tgt = route[-1] if route else (ic.get('to') if ic['kind'] == 'rw' and dst == ic.get('from') else dst)
            if load.get(tgt, 0) + rep > 12 and tgt not in peers:
                continue    # at most 12 envelopes towards a peer that may never drain (failed / unknown dial)
            load[tgt] = load.get(tgt, 0) + rep
            steps.append(sender_step(ids, peers, dial, snd, dst, rep=rep, nxt=route,
                                     rec=['q0'] if rng.random() < 0.1 else None))
            if dial.get(tgt) == 'ok' and not (ic['kind'] == 'rej' and dst == ic.get('from')):
                dialled.add(tgt)
            if rng.random() < 0.2:
                steps.append(Q)
        steps.append(Q)
        out.append(scen('C16', 'seq %dc%ds icpt=%s #%d' % (nc, ns, ic['kind'], k), steps, icpt=ic, dial=dial))
    return out


def c16_pairorder(rng, count):
    """two or three senders into one destination that is stuck for a while (<= 12 outstanding)"""
    out = []
    for k in range(count):
        ids = Ids()
        steps = [attach('c1', 1), attach('c2', 2), attach('c3', 3), attach('s1', 4), fault('stuck', 4)]
        left = 12
        big = 600 * 1024 if k % 4 == 3 else 0        # a few large messages: well below 16 envelopes, several MiB in all
        while left > 0:
            rep = min(left, rng.randint(1, 4))
            snd = rng.randint(1, 3)
            steps.append(w(ids, snd, 'c%d' % snd, 's1', rep=rep, big=big))
            left -= rep
        steps += [Q, fault('unstick', 4), Q]
        out.append(scen('C16', 'pair-order stuck-then-drain%s #%d' % (' (600 KiB bodies)' if big else '', k), steps))
    return out


def c16_dial(rng, count):
    out = []
    plans = ['ok', 'err', 'slow', 'slowerr', None]
    for k in range(count):
        plan = plans[k % len(plans)]
        ids = Ids()
        dial = {'s1': plan} if plan else {}
        steps = [attach('c1', 1), attach('c2', 2)]
        n = rng.randint(1, 6)
        steps.append(w(ids, 1, 'c1', 's1', rep=n))
        steps.append(w(ids, 2, 'c2', 's1', rep=rng.randint(1, 6)))
        steps.append(w(ids, 1, 'c1', 'c2'))
        steps.append(Q)
        if plan in ('slow', 'slowerr'):
            steps += [dict(op='reldial', name='s1'), Q]
        # the dialled peer answers; after a dial error the next envelope dials again
        steps.append(w(ids, 0, 's1', 'c1', rep=2, dialed='s1'))
        steps.append(w(ids, 2, 'c2', 's1', rep=2))
        if plan in ('slow', 'slowerr'):
            steps += [Q, dict(op='reldial', name='s1')]
        steps.append(Q)
        out.append(scen('C16', 'dial-on-demand %s #%d' % (plan or 'unknown', k), steps, dial=dial))
    return out


def c16_attach_race(rng, count, rounds=40):
    """a peer attaches (AddClient in a goroutine of its own) at the moment the first envelope addressed to it is on
    its way through the dispatcher: that envelope may go to the attached connection or to one dialled on demand,
    every envelope accepted after AddClient has returned goes to the attached connection"""
    out = []
    for k in range(count):
        ids = Ids()
        steps = [attach('a', 1)]
        dial = {}
        for r in range(rounds):
            x = 'x%d' % r
            dial[x] = 'ok' if (k + r) % 3 else 'err'
            steps.append(dict(op='attach_on_route', name=x, conn=10 + r))
            steps.append(w(ids, 1, 'a', x))
            steps.append(Q)
            steps.append(w(ids, 1, 'a', x, rep=2))
            steps.append(Q)
        out.append(scen('C16', 'attach racing the first route, %d fresh names #%d' % (rounds, k), steps, icpt=dict(kind='id'), dial=dial))
    return out


def c16_redial(rng, count):
    """a peer dialled on demand whose connection starts failing its writes (the read side stays open and silent, and -
    half of the time - sits in a Read that ignores its context): the envelope in hand is lost with the connection, the
    next one dials again and is delivered"""
    out = []
    for k in range(count):
        ids = Ids()
        deaf = k % 2 == 0
        dial = {'s1': 'okdeaf' if deaf else 'ok'}
        steps = [attach('a', 1), w(ids, 1, 'a', 's1', rep=rng.randint(1, 3)), Q,
                 fault('wfail', dialed='s1'), w(ids, 1, 'a', 's1'), Q,
                 w(ids, 1, 'a', 's1', rep=rng.randint(1, 3)), Q,
                 w(ids, 0, 's1', 'a', rep=2, dialed='s1'), Q]
        out.append(scen('C16', 'redial after a write failure (deaf reader: %s) #%d' % (deaf, k), steps, dial=dial))
    return out


def c16_burst(rng, count):
    """above the 16-slot buffer: the destination does not drain (stuck peer / slow dial)"""
    out = []
    for k in range(count):
        ids = Ids()
        if k % 3 == 2:
            steps = [attach('c1', 1), attach('c2', 2)]
            n1, n2 = rng.randint(10, 30), rng.randint(8, 20)
            steps += [w(ids, 1, 'c1', 's1', rep=n1), w(ids, 2, 'c2', 's1', rep=n2), w(ids, 1, 'c1', 'c2', rep=3), Q,
                      dict(op='reldial', name='s1'), Q, w(ids, 1, 'c1', 's1', rep=2), Q]
            out.append(scen('C16', 'burst slow-dial %d+%d #%d' % (n1, n2, k), steps, dial={'s1': 'slow'}))
            continue
        steps = [attach('c1', 1), attach('c2', 2), attach('s1', 3), fault('stuck', 3)]
        n1, n2 = rng.randint(17, 40), rng.randint(0, 10)
        steps.append(w(ids, 1, 'c1', 's1', rep=n1))
        if n2:
            steps.append(w(ids, 2, 'c2', 's1', rep=n2))
        steps += [w(ids, 2, 'c2', 'c1', rep=2), Q, fault('unstick', 3), Q, w(ids, 1, 'c1', 's1', rep=3), Q]
        out.append(scen('C16', 'burst stuck-destination %d+%d #%d' % (n1, n2, k), steps))
    return out


def c16_patient_writer(rng):
    """a destination that does not take anything for a while (6 s ... 3 min of virtual time: ordinary back-pressure - a
    busy handler, a full worker pool, a slow reader behind it) and then goes on: nothing was given up, nobody was
    disconnected, everything arrives in order"""
    out = []
    for k, ms in enumerate((6000, 12000, 45000, 180000)):
        for n in (1, 5, 12):
            ids = Ids()
            steps = [attach('c1', 1), attach('c2', 2), attach('s1', 3), w(ids, 1, 'c1', 's1', rep=2), Q,
                     fault('stuck', 3), w(ids, 1, 'c1', 's1', rep=n), w(ids, 2, 'c2', 'c1', rep=2), Q,
                     dict(op='adv', n=ms), Q, fault('unstick', 3), Q, w(ids, 1, 'c1', 's1', rep=2), w(ids, 3, 's1', 'c1'), Q]
            out.append(scen('C16', 'patient writer: destination silent for %d ms with %d waiting' % (ms, n), steps))
    return out


def c16_slow_consumer(rng, count):
    """a destination that falls behind and then takes envelopes one at a time while its sender goes on sending: whatever
    reaches it (the full queue may cost envelopes: known finding D11) reaches it in the order sent"""
    out = []
    for k in range(count):
        ids = Ids()
        steps = [attach('c1', 1), attach('s1', 2), fault('stuck', 2)]
        steps += [w(ids, 1, 'c1', 's1', rep=rng.choice([16, 17, 18, 20])), Q]
        for _ in range(rng.randint(3, 8)):
            # the destination takes one (room for one in its queue), the sender sends one or two more
            steps += [fault('pass', 2), Q, w(ids, 1, 'c1', 's1', rep=rng.choice([1, 1, 2])), Q]
        steps += [fault('unstick', 2), Q, w(ids, 1, 'c1', 's1', rep=2), Q]
        out.append(scen('C16', 'slow consumer: one out, some in #%d' % k, steps))
    return out


# ------------------------------------------------------------------ C16: RPC workloads

def rpc_call(rng, c, cli, srv, kind, n, code=0):
    """steps of one complete call; n = number of stream messages"""
    base = dict(c=c, cli=cli, name=srv)
    if kind == 'unary':
        ret = dict(o='ret', pay='r%d' % c) if code == 0 else dict(o='ret', code=code, msg='e%d' % c)
        return [dict(op='ucall', pay='q%d' % c, hp=[ret], **base)]
    if kind == 'ss':
        hp = [dict(o='recv'), dict(o='burst', pay='m%d' % c, n=n),
              dict(o='ret') if code == 0 else dict(o='ret', code=code, msg='e%d' % c)]
        return [dict(op='sopen', kind='ss', hp=hp, **base), dict(op='send', c=c, pay='q%d' % c),
                dict(op='close', c=c), dict(op='recv', c=c, n=n + 1)]
    if kind == 'cs':
        hp = [dict(o='drain'), dict(o='send', pay='r%d' % c), dict(o='ret')]
        st = [dict(op='sopen', kind='cs', hp=hp, **base)]
        st += [dict(op='send', c=c, pay='u%d.%d' % (c, i)) for i in range(n)]
        return st + [dict(op='close', c=c), dict(op='recv', c=c, n=2)]
    st = [dict(op='sopen', kind='bidi', hp=[dict(o='echo')], **base)]
    for i in range(n):
        st += [dict(op='send', c=c, pay='b%d.%d' % (c, i))]
        if rng.random() < 0.5:
            st += [dict(op='recv', c=c)]
    nrecv = sum(1 for x in st if x['op'] == 'recv')
    return st + [dict(op='recv', c=c, n=n - nrecv)] * (1 if n > nrecv else 0) + [dict(op='close', c=c), dict(op='recv', c=c)]


def rpc_topo(rng, nc, ns):
    rewrite = rng.random() < 0.4
    icpt = dict(kind='rw', **{'from': 'svc', 'to': 's1'}) if rewrite else rng.choice([dict(kind='nil'), dict(kind='id'),
                                                                                      dict(kind='rej', **{'from': 'nobody'})])
    servers = [dict(name='s%d' % i, pre=rng.random() < 0.5) for i in range(1, ns + 1)]
    dial = {s['name']: 'ok' for s in servers if not s['pre']}
    clients = []
    for i in range(1, nc + 1):
        srv = 's%d' % rng.randint(1, ns)
        dst = 'svc' if (rewrite and srv == 's1' and rng.random() < 0.7) else srv
        clients.append(dict(name='c%d' % i, dst=dst, srv=srv))
    return icpt, servers, dial, clients


def c16_rpc(rng, count, maxc, maxs):
    out = []
    for k in range(count):
        nc, ns = rng.randint(1, maxc), rng.randint(1, maxs)
        icpt, servers, dial, clients = rpc_topo(rng, nc, ns)
        progs, c = [], 0
        for cl in clients:
            for _ in range(rng.randint(1, 3)):
                c += 1
                kind = rng.choice(['unary', 'unary', 'ss', 'cs', 'bidi'])
                code = rng.choice([0, 0, 0, 5, 13]) if kind in ('unary', 'ss') else 0
                progs.append(rpc_call(rng, c, cl['name'], cl['srv'], kind, rng.randint(0, 10), code))
        # interleave the calls (each call's own steps stay in order)
        steps = []
        while progs:
            p = rng.choice(progs)
            steps.append(p.pop(0))
            if not p:
                progs.remove(p)
        steps.append(Q)
        out.append(scen('C16', 'rpc %dc%ds icpt=%s #%d' % (nc, ns, icpt['kind'], k), steps, mode='rpc', icpt=icpt, dial=dial,
                        clients=[dict(name=x['name'], dst=x['dst']) for x in clients], servers=servers))
    return out


def c16_rpc_burst(rng, count):
    """sustained bursts above the proxy's buffer: a 50-message server stream into a client
    that does not read for a while; 40 client messages towards a server that does not; an
    unhindered 50-message stream (whatever happens must be explained)"""
    out = []
    for k in range(count):
        v = k % 3
        servers = [dict(name='s1', pre=True)]
        clients = [dict(name='c1', dst='s1'), dict(name='c2', dst='s1')]
        # connection numbers in rpc mode: pre-attached servers first, then the clients
        base = dict(c=1, cli='c1', name='s1')
        probe = rpc_call(rng, 2, 'c2', 's1', 'unary', 0)
        n = rng.randint(30, 60)
        if v == 0:
            steps = [dict(op='sopen', kind='ss', hp=[dict(o='recv')], **base), dict(op='send', c=1, pay='q'), dict(op='close', c=1),
                     fault('stuck', 2), dict(op='hop', c=1, h=dict(o='burst', pay='m', n=n))] + probe + [
                     fault('unstick', 2), dict(op='hop', c=1, h=dict(o='ret')), dict(op='recv', c=1, n=n + 2), Q]
            tag = 'rpc burst server-stream %d into a paused client' % n
        elif v == 1:
            steps = [dict(op='sopen', kind='cs', hp=[dict(o='recv')], **base), fault('stuck', 1)]
            steps += [dict(op='send', c=1, pay='u%d' % i) for i in range(n)]
            steps += [dict(op='close', c=1), fault('unstick', 1),
                      dict(op='hops', c=1, hp=[dict(o='drain'), dict(o='send', pay='r'), dict(o='ret')]),
                      dict(op='recv', c=1, n=2)] + probe + [Q]
            tag = 'rpc burst client-stream %d into a paused server' % n
        else:
            steps = [dict(op='sopen', kind='ss', hp=[dict(o='recv'), dict(o='burst', pay='m', n=n), dict(o='ret')], **base),
                     dict(op='send', c=1, pay='q'), dict(op='close', c=1)] + probe + [dict(op='recv', c=1, n=n + 2), Q]
            tag = 'rpc burst server-stream %d unhindered' % n
        out.append(scen('C16', tag + ' #%d' % k, steps, mode='rpc', clients=clients, servers=servers))
    return out


def c16_equal_ids(rng):
    """two clients of one server behind the proxy whose overlapping streams carry the SAME id (every ClientConn counts
    from 1), handlers that send their headers explicitly (a header-only envelope, the shape of an opening one), with
    every kind of interceptor: each client gets its own stream's envelopes and nobody else's"""
    out = []
    k = 0
    for icpt in (dict(kind='nil'), dict(kind='id'), dict(kind='rw', **{'from': 'svc', 'to': 's1'})):
        for kind in ('bidi', 'ss'):
            k += 1
            dst = 'svc' if icpt['kind'] == 'rw' else 's1'
            servers = [dict(name='s1', pre=True)]
            clients = [dict(name='c1', dst=dst), dict(name='c2', dst=dst)]
            hp = lambda who: [dict(o='sendhdr', md=[['hdr-who', who]]), dict(o='recv'), dict(o='send', pay='for ' + who),
                              dict(o='settrl', md=[['trl-who', who]]), dict(o='drain'), dict(o='ret')]
            steps = [dict(op='sopen', kind=kind, c=1, cli='c1', name='s1', hp=hp('c1')), dict(op='sopen', kind=kind, c=2, cli='c2', name='s1', hp=hp('c2')), Q,
                     dict(op='send', c=2, pay='q2'), dict(op='send', c=1, pay='q1'), Q,
                     dict(op='close', c=1), dict(op='close', c=2), dict(op='recv', c=1, n=2), dict(op='recv', c=2, n=2), Q]
            out.append(scen('C16', 'rpc two clients, equal stream ids, explicit headers, %s icpt=%s #%d' % (kind, icpt['kind'], k), steps, mode='rpc', icpt=icpt,
                            clients=clients, servers=servers))
    return out


def c16_reattach(rng, count):
    """right peer across a re-attachment: envelopes for X, X attaches again under its name while the old
    connection is still open and healthy, and the NEXT envelopes through the proxy are for X again (one or
    several senders, nothing for another destination in between): they belong to the connection now attached"""
    out = []
    for k in range(count):
        ids = Ids()
        nsend = 1 + k % 3
        steps = [attach('c%d' % i, i) for i in range(1, nsend + 1)]
        dialled = k % 4 == 3            # X first exists as a dial-on-demand connection, AddClient replaces it
        dial = {'s1': 'ok'} if dialled else {}
        if not dialled:
            steps.append(attach('s1', 10))
        before = rng.randint(1, 4)
        steps.append(w(ids, 1, 'c1', 's1', rep=before))
        if rng.random() < 0.3:
            steps.append(Q)
        steps.append(attach('s1', 11))
        order = list(range(1, nsend + 1))
        rng.shuffle(order)
        for i in order:
            steps.append(w(ids, i, 'c%d' % i, 's1', rep=rng.randint(1, 3)))
        steps.append(Q)
        if k % 2:
            # the replaced connection is still alive: what its peer writes is still relayed; and once more
            old = w(ids, 0, 's1', 'c1', dialed='s1') if dialled else w(ids, 10, 's1', 'c1')
            steps += [old, w(ids, 11, 's1', 'c1'), w(ids, 1, 'c1', 's1', rep=2), attach('s1', 12), w(ids, 1, 'c1', 's1', rep=2), Q]
        out.append(scen('C16', 're-attach then same destination senders=%d %s #%d' % (nsend, 'dialled' if dialled else 'attached', k),
                        steps, dial=dial))
    return out


def c16_rpc_reattach(rng, count):
    """a server attaches again under its name (restart) while calls to it are outstanding; the next calls -
    nothing else passes through the proxy in between - must reach the new instance"""
    out = []
    for k in range(count):
        nc = 2 + k % 2
        servers = [dict(name='s1', pre=True)]                       # connection 1; clients are 2, 3, ...
        clients = [dict(name='c%d' % i, dst='s1') for i in range(1, nc + 1)]
        hung = k % 2 == 1
        if hung:
            # the old instance has stopped reading: a client stream's messages pile up (below the buffer)
            steps = [fault('stuck', 1), dict(op='sopen', kind='cs', c=1, cli='c1', name='s1', hp=[])]
            steps += [dict(op='send', c=1, pay='u%d' % i) for i in range(rng.randint(1, 4))]
        else:
            # the old instance is slow: its handler answers only after the restart
            steps = [dict(op='ucall', c=1, cli='c1', name='s1', pay='q1', hp=[])]
        steps.append(attach('s1', 20))
        c = 1
        for i in range(2, nc + 1):
            c += 1
            steps += rpc_call(rng, c, 'c%d' % i, 's1', 'unary', 0)
        if not hung:
            steps.append(dict(op='hop', c=1, h=dict(o='ret', pay='r1')))
        c += 1
        steps += rpc_call(rng, c, 'c2', 's1', rng.choice(['ss', 'bidi']), rng.randint(1, 4)) + [Q]
        out.append(scen('C16', 'rpc server %s re-attaches, next calls clients=%d #%d' % ('hung' if hung else 'slow', nc, k), steps,
                        mode='rpc', clients=clients, servers=servers))
    return out


def generate_c16(tier, rng):
    if tier == 'quick':
        s = c16_single(rng, 125) + c16_seq(rng, 145, 3, 2, 10) + c16_pairorder(rng, 30) + c16_dial(rng, 40) + c16_burst(rng, 30) + c16_slow_consumer(rng, 16) + c16_patient_writer(rng)
        s += c16_reattach(rng, 30) + c16_rpc(rng, 80, 3, 2) + c16_rpc_burst(rng, 12) + c16_equal_ids(rng) + c16_rpc_reattach(rng, 8) + c16_attach_race(rng, 60) + c16_redial(rng, 8)
    else:
        s = c16_single(rng, 100000) + c16_seq(rng, 6500, 8, 4, 24) + c16_pairorder(rng, 500) + c16_dial(rng, 800) + c16_burst(rng, 500) + c16_slow_consumer(rng, 300) + c16_patient_writer(rng)
        s += c16_reattach(rng, 600) + c16_rpc(rng, 1800, 8, 4) + c16_rpc_burst(rng, 100) + c16_equal_ids(rng) + c16_rpc_reattach(rng, 100) + c16_attach_race(rng, 600) + c16_redial(rng, 80)
    return s


# ------------------------------------------------------------------ C17

def bad_env(ids, conn, name, kind, dst, dialed=None, rec=None, nxt=None):
    """an envelope whose source is not the sender's name (optionally dressed up as a relayed one: with a route
    record and / or a return route, both of which the sender controls)"""
    if kind == 'noheader':
        return w(ids, conn, '', dst, noh=True, dialed=dialed)
    src = {'attached': 'b', 'unknown': 'nobody', 'dialable': 'd', 'empty': '', 'self': name}[kind]
    if src == name:
        src = 'a'
    return w(ids, conn, src, dst, dialed=dialed, rec=rec, nxt=nxt)


def c17_empty_routes(rng):
    """route fields that are present but empty - what the proxy itself leaves behind when it pops the last hop of a
    return route - arriving over in-memory links (by reference): an envelope like any other"""
    out = []
    for k, (nxt, rec) in enumerate((([], None), (None, []), ([], []), ([], ['x']))):
        for byref in (True, False):
            ids = Ids()
            steps = [attach('a', 1), attach('b', 2), w(ids, 1, 'a', 'b', rep=2), Q,
                     w(ids, 1, 'a', 'b', nxt=nxt, rec=rec), Q, w(ids, 2, 'b', 'a', nxt=nxt, rec=rec), Q,
                     w(ids, 1, 'a', 'b', rep=2), w(ids, 2, 'b', 'a'), Q]
            out.append(scen('C17', 'empty route fields #%d (%s)' % (k, 'by reference' if byref else 'serialising'), steps, byref=byref))
    return out


def c17_attach_during_slow_dial(rng):
    """a destination that is being dialled (slow dial) with n envelopes waiting for it attaches itself under that very
    name before the dial ends: AddClient returns, the traffic of the others goes on, what is sent afterwards reaches
    the attached connection - whatever becomes of the dial"""
    out = []
    for n in (3, 16, 17, 24, 40, 70):
        for end in ('ok', 'err', 'never'):
            ids = Ids()
            steps = [attach('a', 1), attach('b', 2), w(ids, 1, 'a', 'x', rep=n), Q,
                     attach('x', 3), Q,
                     w(ids, 1, 'a', 'b', rep=2), w(ids, 2, 'b', 'a', rep=2), Q,
                     w(ids, 1, 'a', 'x', rep=2), Q, w(ids, 3, 'x', 'a'), Q]
            if end != 'never':
                steps += [dict(op='reldial', name='x'), Q, w(ids, 1, 'a', 'x'), w(ids, 1, 'a', 'b'), Q]
            out.append(scen('C17', 'attach during a slow dial with %d waiting, dial ends %s' % (n, end), steps,
                            dial={'x': 'slow' if end != 'err' else 'slowerr'}))
    return out


def c17_spoof(rng, count):
    out = []
    kinds = ['attached', 'unknown', 'dialable', 'empty', 'noheader']
    k = 0
    for kind in kinds:
        for sender in ('a', 'b', 'd'):
            for pos in (0, 1, 2):
                for dst in ('b', 'a', 'nobody'):
                    ids = Ids()
                    steps = [attach('a', 1), attach('b', 2)]
                    good = [w(ids, 1, 'a', 'b', rep=rng.randint(1, 4)), w(ids, 2, 'b', 'a', rep=rng.randint(1, 3)), w(ids, 1, 'a', 'd')]
                    conn = {'a': 1, 'b': 2}.get(sender, 0)
                    dress = k % 6
                    bad = bad_env(ids, conn, sender, kind, dst, dialed='d' if sender == 'd' else None,
                                  rec=(['q0'] if dress == 1 else ['q0', 'q1'] if dress == 3 else [sender] if dress == 4 else ['q0', sender] if dress == 5 else None),
                                  nxt=([dst] if dress in (2, 3) and dst != 'nobody' else None))
                    if sender == 'd':
                        steps.append(w(ids, 1, 'a', 'd'))
                    seq = good[:pos] + [bad] + good[pos:]
                    steps += seq + [Q, w(ids, 2, 'b', 'a', rep=2), Q]
                    out.append(scen('C17', 'spoof %s by %s at %d dst=%s%s' % (kind, sender, pos, dst, ['', ' +record', ' +return route', ' +record+return route', ' +record ending in its own name', ' +2-hop record ending in its own name'][dress]), steps, dial={'d': 'ok'}))
                    k += 1
    rng.shuffle(out)
    return out[:count]


# (rfailctx / wfailctx / rfailtmp: the same failures reported with errors that wrap a context error or call themselves temporary)
ROLES = ['stuck', 'rfail', 'wfail', 'dialerr', 'slowdial', 'slowerr', 'unknown', 'rfailctx', 'wfailctx', 'rfailtmp', 'wfaildeaf']


def role_setup(role):
    """third peer t; returns (dial map, setup steps after attaching a, b[, t])"""
    if role == 'wfaildeaf':       # the peer's reader does not look at its context (a blocking net.Conn framing)
        return {}, [dict(attach('t', 3), what='deaf')], [fault(role, 3)]
    if role in ('stuck', 'rfail', 'wfail', 'rfailctx', 'wfailctx', 'rfailtmp'):
        return {}, [attach('t', 3)], [fault(role, 3)]
    plan = {'dialerr': 'err', 'slowdial': 'slow', 'slowerr': 'slowerr', 'unknown': None}[role]
    return ({'t': plan} if plan else {}), [], []


def c17_roles(rng, count):
    """a third peer misbehaves while a and b talk: their traffic must be delivered at Quiesce"""
    out = []
    k = 0
    while len(out) < count:
        role = ROLES[k % len(ROLES)]
        when = (k // len(ROLES)) % 3          # role applied before / in the middle of / after the first traffic
        k += 1
        ids = Ids()
        dial, att, flt = role_setup(role)
        steps = [attach('a', 1), attach('b', 2)] + att
        tt = rng.choice([0, 1, 5, 12])        # envelopes towards the third peer (<= 12: below the buffer)
        traffic1 = [w(ids, 1, 'a', 'b', rep=rng.randint(1, 5)), w(ids, 2, 'b', 'a', rep=rng.randint(1, 5))]
        to_t = [w(ids, 1, 'a', 't', rep=tt)] if tt else []
        traffic2 = [w(ids, 2, 'b', 'a', rep=rng.randint(1, 4)), w(ids, 1, 'a', 'b', rep=rng.randint(1, 4))]
        if when == 0:
            steps += flt + to_t + traffic1
        elif when == 1:
            steps += traffic1[:1] + to_t + flt + traffic1[1:]
        else:
            steps += traffic1 + flt + to_t
        steps += [Q] + traffic2 + [Q]
        if role in ('slowdial', 'slowerr') and rng.random() < 0.6:
            steps += [dict(op='reldial', name='t'), Q, w(ids, 1, 'a', 'b'), Q]
        if role == 'stuck' and rng.random() < 0.5:
            steps += [fault('unstick', 3), Q]
        out.append(scen('C17', 'role %s when=%d to_t=%d #%d' % (role, when, tt, k), steps, dial=dial))
    return out


def c17_flood(rng):
    """a stuck destination with more envelopes outstanding than its buffer holds (the surplus is dropped: known
    finding D11 of C16), THEN envelopes of every shape for it - including final ones (status + trailer): traffic
    between the other peers must not be delayed"""
    out = []
    for n in (17, 20, 30):
        for last in ('data', 'trailer', 'trailers'):
            ids = Ids()
            steps = [attach('a', 1), attach('b', 2), attach('t', 3), fault('stuck', 3),
                     w(ids, 1, 'a', 't', rep=n), Q]
            if last == 'data':
                steps += [w(ids, 2, 'b', 't', rep=2)]
            elif last == 'trailer':
                steps += [w(ids, 1, 'a', 't', trailer=True)]
            else:
                steps += [w(ids, 1, 'a', 't', trailer=True), w(ids, 2, 'b', 't', trailer=True)]
            steps += [Q, w(ids, 2, 'b', 'a', rep=2), w(ids, 1, 'a', 'b', rep=2), Q]
            out.append(scen('C17', 'stuck destination with %d outstanding, then %s for it' % (n, last), steps))
    return out


def c17_reattach(rng, count):
    """b re-attaches under its old name before / after its old connection fails"""
    out = []
    k = 0
    while len(out) < count:
        mode = ['before', 'after-step', 'after-callback'][k % 3]
        kind = ['rfail', 'wfail'][(k // 3) % 2]
        pre = (k // 6) % 2
        k += 1
        ids = Ids()
        steps = [attach('a', 1), attach('b', 2)]
        if pre:
            steps += [w(ids, 1, 'a', 'b', rep=rng.randint(1, 3)), w(ids, 2, 'b', 'a')]
        trigger = [w(ids, 1, 'a', 'b')] if kind == 'wfail' else []      # a write failure shows on the next write
        if mode == 'before':
            # the newer connection is attached first; then the OLD one fails (a write failure of the old one can
            # only show while it is still being written to: queue something behind a stuck write first)
            if kind == 'wfail':
                steps += [fault('stuck', 2), w(ids, 1, 'a', 'b'), attach('b', 3), fault('wfail', 2), fault('unstick', 2)]
            else:
                steps += [attach('b', 3), fault('rfail', 2)]
        elif mode == 'after-step':
            steps += [fault(kind, 2)] + trigger + [Q, attach('b', 3)]
        else:
            steps += [dict(op='reattach_cb', name='b', conn=3), fault(kind, 2)] + trigger
        steps += [Q, w(ids, 1, 'a', 'b', rep=rng.randint(1, 3)), w(ids, 3, 'b', 'a', rep=2), Q]
        out.append(scen('C17', 'reattach %s old-%s pre=%d #%d' % (mode, kind, pre, k), steps))
    return out


def c17_cancel(rng, count):
    """the proxy's context is cancelled after each step of base scenarios with peers in every role"""
    bases = []
    for role in ROLES + ['none']:
        if role == 'wfaildeaf':
            continue      # a Read that ignores its context outlives the cancellation by construction: not the proxy's doing
        ids = Ids()
        if role == 'none':
            dial, att, flt = {'d': 'ok'}, [], []
        else:
            dial, att, flt = role_setup(role)
        steps = [attach('a', 1), attach('b', 2)] + att + flt
        steps += [w(ids, 1, 'a', 'b', rep=rng.randint(1, 4)), w(ids, 1, 'a', 't' if role != 'none' else 'd', rep=rng.randint(1, 6)),
                  w(ids, 2, 'b', 'a', rep=rng.randint(1, 3))]
        if role == 'none':
            steps.append(w(ids, 0, 'd', 'a', dialed='d'))
        steps.append(w(ids, 1, 'a', 'b'))
        bases.append((role, dial, steps, ids.n))
    out = []
    for role, dial, steps, nid in bases:
        for cut in range(2, len(steps) + 1):
            ids = Ids()
            ids.n = nid
            tail = [dict(op='cancel'), w(ids, 1, 'a', 'b', rep=2), w(ids, 2, 'b', 'a'), dict(op='census'), Q]
            if role in ('slowdial', 'slowerr'):
                tail = tail[:3] + [dict(op='reldial', name='t')] + tail[3:]
            out.append(scen('C17', 'cancel role=%s after step %d' % (role, cut), steps[:cut] + [Q] + tail, dial=dial))
    rng.shuffle(out)
    return out[:count]


def c17_reattach_healthy(rng, count):
    """b attaches again while its old connection is healthy, right after envelopes for b and with only
    envelopes for b following; later the OLD connection fails: the newer one must stay registered"""
    out = []
    for k in range(count):
        ids = Ids()
        kind = ['rfail', 'wfail', None][k % 3]
        steps = [attach('a', 1), attach('c', 4), attach('b', 2), w(ids, 1, 'a', 'b', rep=rng.randint(1, 3)), attach('b', 3),
                 w(ids, 1, 'a', 'b', rep=rng.randint(1, 3))]
        if k % 2:
            steps.append(w(ids, 4, 'c', 'b', rep=2))
        steps.append(Q)
        if kind:
            steps += [fault(kind, 2), Q]
        steps += [w(ids, 4, 'c', 'b'), w(ids, 1, 'a', 'b', rep=2), w(ids, 3, 'b', 'a'), Q]
        out.append(scen('C17', 'reattach healthy-old then same destination, old-%s #%d' % (kind, k), steps))
    return out


HOLDS = [('proxy.enqueue.window', 'nil'), ('px.icpt', 'id'), ('px.cb', 'nil')]


def c17_held(rng, count):
    """the dispatcher (serveClients) is held - in the enqueue window, in the interceptor or in the disconnect
    callback - while k = 1..4 other peers write: their read loops are parked on the hand-off of an envelope
    the dispatcher has not taken.  Then the context is cancelled, the dispatcher released: nothing may remain.
    Without the cancellation the parked envelopes must all be delivered after the release."""
    out = []
    k = 0
    while len(out) < count:
        gate, ic = HOLDS[k % 3]
        npeers = 1 + (k // 3) % 4
        cancel = (k // 12) % 3 != 2
        k += 1
        ids = Ids()
        steps = [attach('a', 1), attach('b', 2)] + [attach('p%d' % i, 2 + i) for i in range(1, npeers + 1)]
        if gate == 'px.cb':
            steps += [attach('t', 9), dict(op='arm', gate=gate, n=1), fault('rfail', 9)]
        else:
            steps += [dict(op='arm', gate=gate, n=1), w(ids, 1, 'a', 'b')]
        for i in range(1, npeers + 1):
            steps.append(w(ids, 2 + i, 'p%d' % i, rng.choice(['a', 'b', 'p1']), rep=rng.randint(1, 2)))
        if cancel:
            steps += [dict(op='cancel'), dict(op='rel', gate=gate)]
            if rng.random() < 0.5:
                steps.append(w(ids, 1, 'a', 'b'))
            steps += [dict(op='census'), Q]
        else:
            steps += [dict(op='adv', n=1), dict(op='rel', gate=gate), Q, dict(op='cancel'), dict(op='census'), Q]
        out.append(scen('C17', 'dispatcher held in %s, %d readers parked, %s #%d' % (gate, npeers, 'cancel' if cancel else 'release', k),
                        steps, icpt=dict(kind=ic)))
    return out


def generate_c17(tier, rng):
    if tier == 'quick':
        return (c17_empty_routes(rng) + c17_attach_during_slow_dial(rng) + c17_spoof(rng, 120) + c17_roles(rng, 120) + c17_flood(rng) + c17_reattach(rng, 42) + c17_reattach_healthy(rng, 12) +
                c17_cancel(rng, 40) + c17_held(rng, 48))
    s = []
    for i in range(6):
        s += c17_spoof(rng, 135) + c17_empty_routes(rng) + c17_attach_during_slow_dial(rng)
    s += c17_roles(rng, 2100) + c17_flood(rng) + c17_reattach(rng, 600) + c17_reattach_healthy(rng, 240) + c17_held(rng, 720)
    for i in range(9):
        s += c17_cancel(rng, 1000)
    return s


# ------------------------------------------------------------------ design models (spec/Proxy.tla via ProxyMC.tla)

_BASE = dict(Px='"px"', Names='{"a","b","d","u"}', Attached='<- MC_Attached', Dialable='{"d"}', Icpt='<- MC_IcptRw',
             Cap='2', MaxEnv='3', SrcKinds='{"own"}', SpoofNames='{}', Dsts='{"a","b","d","u"}',
             Nxts='<- MC_NoRoute', Writers='{"a","b","d"}', FaultKinds='{}', FaultNames='{}', MaxFaults='0',
             ReattachNames='{}', MaxReattach='0', AllowCancel='FALSE', Fine='TRUE',
             LateAttach='{}', Bug_D12='FALSE', Bug_D13='FALSE', Bug_D14='FALSE', Bug_SplitLookup='FALSE')
_SAFE = ('TypeOK ExactlyOnceOrDropped RightPeerUnchanged RecordAppendedOnce PairOrder DialOnce '
         'NoSpoofForwarded NoCrash NewerConnectionSurvives')


def model_cfg(spec='Spec', inv=_SAFE, props='', view=True, **kw):
    """TLC configuration text for Proxy.tla; kw overrides the constants of _BASE"""
    d = dict(_BASE)
    d.update(kw)
    s = 'SPECIFICATION %s\nCHECK_DEADLOCK FALSE\n' % spec
    if inv:
        s += 'INVARIANTS ' + inv + '\n'
    if props:
        s += 'PROPERTIES ' + props + '\n'
    if view:
        s += 'VIEW View\n'
    s += 'CONSTANTS\n'
    for k, v in d.items():
        s += ' %s %s\n' % (k, v if v.startswith('<-') else '= ' + v)
    return s


def _m(name, constants, cfg=None, expect=None, **kw):
    return dict(name=name, spec='ProxyMC.tla', cfg=cfg, workers=8, constants=constants, expect_violation=expect, **kw)


_AB = dict(Names='{"a","b"}', Dialable='{}', Icpt='<- MC_IcptNil', Dsts='{"b"}', Writers='{"a"}')
_ABD = dict(Names='{"a","b","d"}', Icpt='<- MC_IcptNil', Dsts='{"b","d"}')
_REATT = dict(_ABD, Dialable='{}', Writers='{"a"}', FaultKinds='{"rfail","wfail"}', FaultNames='{"b"}', MaxFaults='1',
              ReattachNames='{"b"}', MaxReattach='1', Fine='FALSE')
_CANCEL = dict(_AB, MaxEnv='2', FaultKinds='{"stuck","wfail"}', FaultNames='{"b"}', MaxFaults='1', AllowCancel='TRUE', Fine='FALSE')
_CANCELD = dict(Names='{"a","b","d","u"}', Icpt='<- MC_IcptNil', Dsts='{"d"}', Writers='{"a"}', MaxEnv='2', AllowCancel='TRUE', Fine='FALSE')
_LIVE = dict(_ABD, Dialable='{}', Writers='{"a","b"}', FaultKinds='{"stuck","rfail","wfail"}', FaultNames='{"b"}', MaxFaults='1', Fine='FALSE')

MODELS_C16 = [
    _m('Proxy route (rewrite u->d)', 'a,b attached, d dialable, u unknown; rewrite u->d; writers a,b,d; buffer 2; fine-grained '
       'forwardRpc; quick: 3 envelopes x destinations a,b,d,u; thorough: 4 envelopes x destinations b,d,u',
       dict(quick=model_cfg(), thorough=model_cfg(MaxEnv='4', Dsts='{"b","d","u"}')), timeout=3000),
    _m('Proxy route (reject u, return routes)', 'interceptor rejects u; envelopes with return routes <<b,a>>; writers b,d; 3 envelopes',
       model_cfg(Icpt='<- MC_IcptRej', Nxts='<- MC_Routes', Writers='{"b","d"}', Dsts='{"a","u","d"}')),
    _m('Proxy burst (DropFull)', 'a writes 5 (quick) / 6 envelopes to b which may get stuck; buffer 2',
       dict(quick=model_cfg(MaxEnv='5', FaultKinds='{"stuck"}', FaultNames='{"b"}', MaxFaults='1', **_AB),
            thorough=model_cfg(MaxEnv='6', FaultKinds='{"stuck"}', FaultNames='{"b"}', MaxFaults='1', **_AB))),
]

_LATE = dict(_ABD, Dialable='{"d"}', Writers='{"a"}', Dsts='{"d"}', LateAttach='{"d"}', MaxReattach='1', Fine='FALSE')
MODELS_C16 += [
    _m('Proxy late attach', 'd attaches (AddClient) for the first time at any moment while a writes 3 envelopes to it (d is dialable too): '
       'whatever was registered last stays registered, every envelope is delivered once to a connection of d',
       model_cfg(**_LATE)),
    _m('Bug_SplitLookup (lookup and on-demand registration in two critical sections)', 'as "Proxy late attach" with the seeded change C16-r4m1',
       expect='Invariant NewerConnectionSurvives is violated', cfg=model_cfg(Bug_SplitLookup='TRUE', **_LATE), exhaustive=False),
]

MODELS_C17 = [
    _m('Proxy spoof', 'a (quick) / a,b (thorough) write envelopes with own / foreign (b,d) / absent source to b,d; 3 envelopes; buffer 2',
       dict(quick=model_cfg(Writers='{"a"}', SrcKinds='{"own","other","none"}', SpoofNames='{"b","d"}', **_ABD),
            thorough=model_cfg(Writers='{"a","b"}', SrcKinds='{"own","other","none"}', SpoofNames='{"b","d"}', **_ABD))),
    _m('Proxy re-attach', 'b fails (read/write) and re-attaches at any time; a writes 3 envelopes to b,d (d: dial error)',
       model_cfg(**_REATT)),
    _m('Proxy cancel (liveness)', 'a->b, b may get stuck / fail to write, CtxCancel at any step; weak fairness; 2 envelopes',
       model_cfg(spec='FairSpec', inv='NoCrash', props='CancelTerminates', view=False, **_CANCEL)),
    _m('Proxy cancel with dials (liveness)', 'a->d (dial on demand), CtxCancel at any step; weak fairness; 1 (quick) / 2 envelopes',
       dict(quick=model_cfg(spec='FairSpec', inv='NoCrash', props='CancelTerminates', view=False, **dict(_CANCELD, MaxEnv='1')),
            thorough=model_cfg(spec='FairSpec', inv='NoCrash', props='CancelTerminates', view=False, **_CANCELD))),
    _m('Proxy progress (liveness)', 'a,b write to b,d while b may get stuck / fail; HealthyProgress, DisconnectReported; '
       'weak fairness; 2 (quick) / 3 envelopes',
       dict(quick=model_cfg(spec='FairSpec', inv='NoCrash', props='HealthyProgress DisconnectReported', view=False, MaxEnv='2', **_LIVE),
            thorough=model_cfg(spec='FairSpec', inv='NoCrash', props='HealthyProgress DisconnectReported', view=False, **_LIVE))),
    _m('Bug_D12 (log.Panic on a bad envelope)', 'as "Proxy spoof" with the code as found', expect='Invariant NoCrash is violated',
       cfg=model_cfg(Writers='{"a","b"}', SrcKinds='{"own","other","none"}', SpoofNames='{"b","d"}', Bug_D12='TRUE', **_ABD), exhaustive=False),
    _m('Bug_D13 (bare send when reporting an error)', 'as "Proxy cancel" with the code as found',
       expect='Temporal property CancelTerminates was violated',
       cfg=model_cfg(spec='FairSpec', inv='NoCrash', props='CancelTerminates', view=False, Bug_D13='TRUE', **_CANCEL), exhaustive=False),
    _m('Bug_D14 (disconnect deletes whatever is registered)', 'as "Proxy re-attach" with the code as found',
       expect='Invariant NewerConnectionSurvives is violated', cfg=model_cfg(Bug_D14='TRUE', **_REATT), exhaustive=False),
]
