"""Scenario generator for C20 (runner "observers", harness/driver/x_observers.go).

A scenario configures one client connection and one served connection with
  cn in 0..3 client interceptors (chained by hand, by go-grpc-middleware, or the single one),
  sn in 0..6 server interceptors (goat.ChainUnaryInterceptor/ChainStreamInterceptor, or the
  single-interceptor options for sn = 1), ch / sh in 1..3 stats handlers per side,
and runs one to three RPCs one after the other, each of a kind in {unary, bidi, cs, ss} and
driven to an outcome in
  ok | herr (handler error: a status, or io.EOF) | cancel | deadline (virtual clock) |
  precancel (context cancelled before the call) | cread (the client's reads fail while the RPC is
  in flight) | cwrite (the write that opens the RPC fails) | cwmid (a later write of a stream fails;
  for a unary call the same as cwrite) | swrite (the server's writes fail: no
  answer, the caller gives up) | dead (the RPC is started on a connection whose reads have failed).
`mods` says which values every stage rewrites (m metadata, q request, r reply, e error).

quick: every kind x outcome x server chain length 0..6, every client chain length x handler
counts, plus follow-up RPCs after a failed one (~350); thorough: kind x outcome x sn x cn with
several handler counts and modes each (~4000)."""

KINDS = ['unary', 'bidi', 'cs', 'ss']
OUTS = ['ok', 'herr', 'cancel', 'precancel', 'deadline', 'cread', 'cwrite', 'cwmid', 'swrite', 'dead']      # + badreq, badreply (unary, _more)
TERMINAL = ('cread', 'dead')      # the client connection is gone afterwards
LAST = ('swrite',)                # the served connection is gone afterwards: nothing may follow
CODES = [1, 2, 3, 5, 7, 10, 13, 14, 16]


def _rpc(c, kind, out, rng, herr=None):
    if kind == 'unary' and out == 'cwmid':
        out = 'cwrite'
    if kind != 'unary' and out in ('badreq', 'badreply', 'bigreply'):      # codec refusals are judged on unary calls only
        out = 'ok'
    r = dict(c=c, kind=kind, out=out, n=rng.choice([0, 1, 1, 2, 3]) if kind != 'unary' else 0)
    if out == 'herr':
        r['herr'] = herr or ('eof' if rng.random() < 0.15 else 'status')
        r['code'] = rng.choice(CODES)
    return r


def _scen(rng, kind, out, sn, cn, ch, sh, herr=None, mods=None, extra=True, retry=0, deny=0):
    if mods is None:
        mods = 'mqre' if rng.random() < 0.7 else ''.join(x for x in 'mqre' if rng.random() < 0.5)
    cmode = 'single' if cn == 1 and rng.random() < 0.5 else rng.choice(['hand', 'mw'])
    smode = 'single' if sn == 1 and rng.random() < 0.5 else 'chain'
    rpcs, c = [], 1
    if extra and rng.random() < 0.35:        # an unrelated RPC first
        rpcs.append(_rpc(c, rng.choice(KINDS), rng.choice(['ok', 'herr', 'cancel']), rng))
        c += 1
    rpcs.append(_rpc(c, kind, out, rng, herr))
    c += 1
    if extra and out not in LAST and rng.random() < 0.45:        # and one after: every RPC is observed, also after a failed one
        nxt = 'dead' if out in TERMINAL else rng.choice(['ok', 'ok', 'herr', 'deadline'])
        rpcs.append(_rpc(c, rng.choice(KINDS), nxt, rng))
    tag = 'obs %s/%s sn=%d cn=%d ch=%d sh=%d %s/%s mods=%s rpcs=%s' % (
        kind, out if herr is None else out + ':' + herr, sn, cn, ch, sh, cmode, smode, mods or '-',
        ','.join('%s:%s' % (r['kind'], r['out']) for r in rpcs))
    eof = any(r['out'] in ('cread', 'dead') for r in rpcs) and rng.random() < 0.5      # the failing reads report io.EOF
    if eof:
        tag += ' eof'
    if retry:
        tag += ' stage %d calls its handler twice' % (retry - 1)
    if deny:
        tag += ' stage %d refuses' % (deny - 1)
    return dict(fam='C20', runner='observers', tag=tag, cn=cn, cmode=cmode, sn=sn, smode=smode, ch=ch, sh=sh,
                mods=mods, rpcs=rpcs, eof=eof, retry=retry, deny=deny,
                steps=[dict(op='rpc:' + r['out'], kind=r['kind'], n=r['n'], herr=r.get('herr', '')) for r in rpcs]
                + [dict(op='cfg', cn=cn, sn=sn, ch=ch, sh=sh, cmode=cmode, smode=smode, mods=mods)])


def _more(rng, tier):
    """what a stage is free to do besides calling on once, and messages the codec refuses"""
    out = []
    hs = [(a, b) for a in (1, 2, 3) for b in (1, 2, 3)]
    reps = 1 if tier == 'quick' else 3
    for _ in range(reps):
        # a server stage that calls its handler twice (retry / hedge): every position in chains of 1..6
        for sn in range(1, 7):
            for k in range(sn):
                for kind in (KINDS if tier != 'quick' else ['unary', rng.choice(KINDS[1:])]):
                    o = rng.choice(['ok', 'herr', 'ok', 'cancel', 'deadline'])
                    ch, sh = rng.choice(hs)
                    out.append(_scen(rng, kind, o, sn, rng.randint(0, 3), ch, sh, retry=k + 1))
        # a server stage that refuses the RPC without calling on
        for sn in range(1, 7):
            for k in range(sn):
                kind = rng.choice(KINDS)
                ch, sh = rng.choice(hs)
                out.append(_scen(rng, kind, rng.choice(['ok', 'herr']), sn, rng.randint(0, 3), ch, sh, deny=k + 1))
        # a request the codec cannot encode, a reply it cannot decode
        for o in ('badreq', 'badreply'):
            for sn in (0, 1, 3, 6):
                for cn in range(0, 4):
                    ch, sh = rng.choice(hs)
                    out.append(_scen(rng, 'unary', o, sn, cn, ch, sh))
        # more unary calls in flight than the server has workers (8) when it is stopped: whatever a stats handler was told
        # has begun, it is told has ended
        for n in (3, 8, 9, 12):
            for sn in (0, 2):
                ch, sh = rng.choice(hs)
                rpcs = [dict(c=c, kind='unary', out='cancel', n=0) for c in range(1, n + 1)]
                out.append(dict(fam='C20', runner='observers', tag='obs %d unary calls in flight when the server is stopped sn=%d ch=%d sh=%d' % (n, sn, ch, sh),
                                cn=rng.randint(0, 2), cmode='hand', sn=sn, smode='chain', ch=ch, sh=sh, mods='mqre', rpcs=rpcs, eof=False, retry=0, deny=0, par=n,
                                steps=[dict(op='rpc:cancel', kind='unary', n=0, herr='') for _ in rpcs] + [dict(op='cfg', par=n, sn=sn, ch=ch, sh=sh)]))
        # a reply of 5 MiB + 1 byte: a success like any other
        for sn, cn in ((0, 0), (2, 1)):
            ch, sh = rng.choice(hs)
            out.append(_scen(rng, 'unary', 'bigreply', sn, cn, ch, sh, mods='mqe', extra=False))
    return out


def generate(tier, rng):
    out = []
    hs = [(a, b) for a in (1, 2, 3) for b in (1, 2, 3)]
    if tier == 'quick':
        # every kind x outcome x server chain length
        for kind in KINDS:
            for o in OUTS:
                for sn in range(0, 7):
                    ch, sh = rng.choice(hs)
                    out.append(_scen(rng, kind, o, sn, rng.randint(0, 3), ch, sh))
        # every client chain length x handler counts x kind, outcome at random
        for kind in KINDS:
            for cn in range(0, 4):
                for ch, sh in hs:
                    out.append(_scen(rng, kind, rng.choice(OUTS), rng.randint(1, 6), cn, ch, sh))
        # a handler returning io.EOF, bare (no stage rewrites the error) and rewritten
        for kind in KINDS:
            for sn in (0, 1, 3):
                out.append(_scen(rng, kind, 'herr', sn, rng.randint(0, 2), rng.randint(1, 3), rng.randint(1, 3),
                                 herr='eof', mods=rng.choice(['mqr', 'mqre'])))
        out += _more(rng, tier)
    else:
        out += _more(rng, tier)
        for kind in KINDS:
            for o in OUTS:
                for sn in range(0, 7):
                    for cn in range(0, 4):
                        for ch, sh in rng.sample(hs, 4):
                            out.append(_scen(rng, kind, o, sn, cn, ch, sh))
        for kind in KINDS:
            for sn in range(0, 7):
                for cn in range(0, 4):
                    out.append(_scen(rng, kind, 'herr', sn, cn, rng.randint(1, 3), rng.randint(1, 3),
                                     herr='eof', mods=rng.choice(['mqr', 'mqre', 'm', ''])))
    return out
