"""Per-property configuration: which design models TLC checks, which trace
specification validates the implementation traces, how a rejection is
attributed to a property, what counts as a non-trivial case."""
import hashlib
import os
import re
import json
import time

from . import core, x_timeout, x_observers, x_demux, x_transport, x_proxy
from .core import Inconclusive

COMMON_ASSUMPTIONS = [
    'TLC and the TLA+ CommunityModules (Json, IOUtils) are correct',
    'the harness transport is ordered and exactly-once (it is 60 lines, see harness/driver/pipe.go)',
    'payload, message and metadata equality is decided on tokens computed by the harness '
    '(literal when short, length+SHA-256 prefix otherwise)',
    'Go testing/synctest quiescence: Wait() returns only when every goroutine of the scenario is durably blocked',
    'hook events are emitted inside the critical section that made the change (see MANIFEST.hooks)',
]

# rule group -> properties whose statement the rules of that group encode
GROUP_PROPS = {
    'C07': dict(rule='3 stream kinds x 3 programs (echo, burst, idle handler) x cancellation after every prefix of the client program x {explicit cancel, deadline expiry on the virtual clock} x bystander calls; cancellation with 0..5 responses queued unread; every scenario continues with a later Recv, a later Send and a probe call; non-trivial = contains a cancel or a deadline', nontrivial_ops=['cancel', 'adv'], assumptions=COMMON_ASSUMPTIONS, models=[]),
    'C09': dict(rule='client read failure after every prefix of the response sequence of 4 base conversations x write side {writable, failing}, followed by calls started after the failure; calls parked in the failure-check -> registration window (gate mux.call.window) while the failure lands; non-trivial = contains a client read fault', nontrivial_ops=['fault'], assumptions=COMMON_ASSUMPTIONS, models=[]),
    'C10': dict(rule='connection end by {read failure, write failure, Stop} with u unary and s streaming handlers in flight parked in {receive, context wait, blocked send}; end at every step of a mixed conversation; non-trivial = contains a server-side fault', nontrivial_ops=['fault'], assumptions=COMMON_ASSUMPTIONS, models=[]),
    'C11': dict(rule='handlers returning after k of n client messages (all 0<=k<n<=4 quick / 8 thorough) with all messages delivered before the return; callers cancelling with m responses unread; raw servers over-answering a unary call; each with bystander calls and a probe call with a one-hour virtual deadline; non-trivial = contains an abandonment (early handler return, cancel, extra reply)', nontrivial_ops=['hop', 'cancel', 'inj'], assumptions=COMMON_ASSUMPTIONS, models=[]),
    'C12': dict(rule='raw client injecting envelope sequences over an alphabet of 25 shapes x 2 ids (length 1 exhaustive, length 2 exhaustive in the thorough tier / sampled in quick, random longer sequences up to 40), each followed by a valid unary and a valid streaming probe; non-trivial = injects at least one envelope', nontrivial_ops=['inj'], assumptions=COMMON_ASSUMPTIONS, models=[]),
    'C13': dict(rule='raw server injecting response sequences over an alphabet of 18 shapes x {id of the unary call, id of the stream, unknown id} into a real client with a unary call and a stream outstanding (length 1 exhaustive, length 2 exhaustive/sampled, random longer), then closing the connection; with and without a stats handler; non-trivial = injects at least one envelope', nontrivial_ops=['inj'], assumptions=COMMON_ASSUMPTIONS, models=[]),
    'C03': dict(
        rule='all 17 codes x error kinds (status, wrapped status, plain, context errors) for unary calls; error at '
             'position 0/1/2 for the three stream kinds; OK-coded non-nil error; foreign-peer replies through a raw '
             'server (explicit OK status + body, status without trailer metadata, reset envelopes); the late-body vs '
             'trailer schedule forced through the srv.writer.window gate; non-trivial = a handler returns or a raw '
             'reply is injected',
        nontrivial_ops=['ucall', 'sopen'],
        assumptions=COMMON_ASSUMPTIONS,
        models=[],
    ),
    'md': {'C04'},
    'status': {'C03'},
    'ids': {'C05'},
    'wire': {'C06'},
    'ctx': {'C07', 'C10'},      # caller cancellation (C07) and connection end (C10) both act through handler contexts
    'fault': {'C09'},
    'serve': {'C10'},
    'reg': {'C14'},
    'letgo': {'C14', 'C07'},    # the server's side of a stream whose caller has gone is told (reset / cancellation)
    'robust': {'C12', 'C01'},
    'route': {'C16'},          # the routing fields a relay maintains
}


def attribute(prop, scen, rej):
    fam = scen.get('fam', prop)
    ofam = scen.get('ofam', fam)     # family the scenario was originally generated for
    if PROPS.get(fam, {}).get('own_attribution'):
        return {fam}       # single-property families with their own trace specification
    evn = rej['event'].get('ev')
    if evn == 'Leak':       # goroutines left behind after the connection was torn down
        return {'C10', 'C14'} | ({fam} if fam in ('C17', 'C18', 'C19') else set()) | \
            ({'C12'} if scen.get('rawcli') else set()) | ({'C13'} if scen.get('rawsrv') else set())   # ... by a peer's envelopes
    if evn == 'Wedged':     # a real lock deadlock: nothing on the connection completes any more
        return {ofam, 'C11'}
    if evn == 'Crash':
        return {ofam}
    out = set()
    for g in rej['groups']:
        if g == 'pay':
            kinds = {s.get('kind') for s in scen['steps'] if s.get('op') == 'sopen'}
            out |= {'C05', 'C16', 'C18'}
            out |= {'C02'} if kinds else {'C01'}
            if any(s.get('op') == 'ucall' for s in scen['steps']):
                out.add('C01')
        elif g == 'serve':
            out.add('C10')
            if fam == 'C11':
                out.add('C11')   # a connection that stops serving without a fault has been blocked for good
        elif g == 'status':
            out |= {'C03'}
            if fam in ('C09', 'C13'):
                out.add(fam)     # a fabricated success (io.EOF / nil) after a failure or a hostile reply
            if evn == 'SRecvRet':
                out.add('C02')      # "a stream that completed successfully is never reported as cancelled or failed"
            if evn == 'URet':
                out.add('C01')
        elif g == 'pend':
            out |= {fam, 'C11'} if fam in ('C02', 'C07') else {fam}
        elif g == 'robust':
            out |= GROUP_PROPS['robust']
            if fam == 'C11':
                out.add('C11')   # a server that has stopped reading its connection without an excuse: the connection is wedged
        elif g == 'md':
            out.add('C04')
            if fam == 'C05':
                out.add('C05')   # metadata of one call showing up in another call (shared-object family)
        else:
            out |= GROUP_PROPS.get(g, set())
    if scen.get('rawsrv'):
        out.add('C13')
    if scen.get('rawcli'):
        out.add('C12')
    if not rej['groups']:
        out.add(ofam)
    return out


def run_apalache(m, work):
    """discharges inductive-invariant obligations with Apalache (symbolic, unbounded in the number of steps)"""
    import os
    import shutil
    import subprocess
    t0 = time.time()
    d = os.path.join(work, 'apalache_%d' % os.getpid())
    os.makedirs(d, exist_ok=True)
    src = os.path.join(core.SPEC, m['spec'])
    shutil.copyfile(src, os.path.join(d, os.path.basename(src)))
    n = 0
    for (init, inv, length) in m['obligations']:
        cmd = ['apalache-mc', 'check', '--init=' + init, '--inv=' + inv, '--length=%d' % length, '--out-dir=' + os.path.join(d, 'out'),
               os.path.basename(src)]
        try:
            r = subprocess.run(cmd, cwd=d, capture_output=True, text=True, timeout=600)
        except subprocess.TimeoutExpired:
            raise Inconclusive('apalache timeout on %s %s' % (m['name'], inv))
        if 'EXITCODE: OK' not in r.stdout:
            raise Inconclusive('apalache obligation %s/%s of %s failed (machinery failure, not a verdict):\n%s' % (init, inv, m['name'], r.stdout[-1500:]))
        n += 1
    shutil.rmtree(d, ignore_errors=True)
    return dict(name=m['name'], spec=m['spec'], constants=m.get('constants', ''), distinct=n, generated=n,
                wall_s=round(time.time() - t0, 1), exhaustive=True, obligations=n, tool='apalache')


def run_model(m, tier, work):
    t0 = time.time()
    if m.get('tiers') and tier not in m['tiers']:
        return None
    if m.get('tool') == 'apalache':
        return run_apalache(m, work)
    if m.get('tool') == 'implobs':
        return run_implobs(m, tier, work)
    cfg = m['cfg'][tier] if isinstance(m['cfg'], dict) else m['cfg']
    extra = list(m.get('extra', []))
    rc, out = core.tlc(m['spec'], cfg, work, workers=m.get('workers', 8), extra=extra,
                       timeout=m.get('timeout', 1800), heap=m.get('heap', '8g'), tag='mc')
    st = core.tlc_stats(out)
    expect_violation = m.get('expect_violation')
    if expect_violation:
        if expect_violation not in out:
            raise Inconclusive('model %s was expected to violate %s but did not:\n%s' % (m['name'], expect_violation, out[-2000:]))
    elif 'No error has been found' not in out or st is None:
        raise Inconclusive('design model %s failed in TLC (machinery failure, not a verdict):\n%s' % (m['name'], out[-4000:]))
    return dict(name=m['name'], spec=m['spec'], constants=m.get('constants', ''), distinct=st['distinct'] if st else 0,
                generated=st['generated'] if st else 0, wall_s=round(time.time() - t0, 1), exhaustive=m.get('exhaustive', True))


def run_implobs(m, tier, work):
    """model-to-model trace validation (lib/vcheck/implobs.py, docs/CROSSLAYER.md): every behaviour of the design model
    GoatImpl, projected to observable events by GoatImplObs, is accepted by Layer P; with a repaired defect re-opened
    it is rejected. A failure here is an inconsistency between the two specification layers, not a verdict on the code."""
    import subprocess
    import sys
    t0 = time.time()
    w = os.path.join(work, 'implobs')
    cmd = [sys.executable, os.path.join(os.path.dirname(__file__), 'implobs.py'), '--spec-dir', core.SPEC, '--work', w,
           '--mode', 'thorough' if tier == 'thorough' else 'quick'] + (['--only', m['only']] if m.get('only') else [])
    p = subprocess.run(cmd, capture_output=True, text=True, errors='replace', timeout=m.get('timeout', 5400))
    out = p.stdout + p.stderr
    import shutil
    shutil.rmtree(w, ignore_errors=True)
    if p.returncode != 0 or 'ALL AS EXPECTED' not in out:
        raise Inconclusive('cross-layer check (GoatImpl -> GoatProtocol) did not meet its expectations:\n' + out[-4000:])
    nb = sum(int(x) for x in re.findall(r'validated (\d+)', out))
    ne = sum(int(x) for x in re.findall(r'\((\d+) events\)', out))
    return dict(name=m['name'], spec='GoatImplObs.tla', constants=m.get('constants', ''), distinct=nb, generated=ne or nb,
                wall_s=round(time.time() - t0, 1), exhaustive=False)


def count_nontrivial(P, scens, traces):
    need = set(P.get('nontrivial_ops', []))
    seen = set()
    for s in scens:
        if need and not any(st.get('op') in need for st in s['steps']):
            continue
        seen.add(hashlib.sha1(json.dumps(s['steps'], sort_keys=True).encode()).hexdigest())
    return len(seen)


NOT_APPLICABLE = {
    'C15': 'memory-access-level property; the atomic actions of a TLA+ specification cannot express it and the only oracle is the race detector, a different technique (DESIGN.md section 6)',
}

PROPS = {
    'C08': dict(
        gen=x_timeout.generate, trace_spec='TimeoutTrace.tla', own_attribution=True,
        rule='parser: 6 units x 1..8 digits x {all zeros, 1, all nines, powers of ten, carries into the next unit, the hour '
             'saturation threshold -1/0/+1, random (2 quick / 400 thorough per unit and digit count)} plus the malformed classes '
             '(empty, unit only, no unit, signed, 9..25 digits incl. the first values that overflow 63 bits, non-digit, unknown '
             'unit, white space), each through the parser hook and end to end as a raw request with a randomly-cased key into a '
             'real server (unary and the three stream kinds); keys that are not the timeout key; propagation: real client -> '
             'real server on the virtual clock, caller timeouts from -10^4 h to +10^4 h (expired, < 1 ms, millisecond edges, the '
             'eight-digit limit 10^8 ms, whole and fractional seconds beyond it, log-uniform random) x transit {0, 250 us, 1 ms, '
             '1 s, beyond the deadline} x {unary, bidi, cs, ss}; a scenario is a batch of one class; non-trivial = every batch',
        nontrivial_ops=['parse', 'prop'],
        assumptions=COMMON_ASSUMPTIONS + [
            'durations are logged as (sign, hours, seconds, nanoseconds) and header keys/values byte by byte because TLC has '
            '32-bit integers and cannot index strings; this decomposition (harness/driver/x_timeout.go setDur, chars) is trusted',
            'a saturated value (hours > 2562047) may be any duration from 2562047 h to 2^63-1 ns',
            'a caller timeout of 10^8 ms or more cannot be written in milliseconds with eight digits; for those the lower '
            'bound "minus one millisecond" is read as "minus one unit of the finest unit that expresses the timeout in eight '
            'digits" (1 s up to 10^8 s); below 10^8 ms the property is checked literally (rule group "coarse" in '
            'spec/TimeoutTrace.tla switches the allowance off)',
            'transit time = virtual time from the call to the start of the handler; the client transport of the propagation '
            'runs does not look at the caller context, so that calls with an expired deadline reach the wire',
        ],
        models=[
            dict(name='Timeout design: grammar classes + encoder/transit/decoder', spec='Timeout.tla',
                 cfg='SPECIFICATION Spec\nINVARIANT TypeOK GrammarInv RangeInv LadderInv MonotoneInv WireInv PropInv PropLiteralInv\n'
                     'CHECK_DEADLOCK FALSE\n',
                 workers=8,
                 constants='4 prefixes x 0..10 digits x 7 digit patterns x 13 suffixes; 94 caller timeouts (none, expired, '
                           '0..2562047 h at quarter-millisecond offsets) x up to 3 clock steps of {1/4 ms, 1 ms, 1 s}'),
            dict(name='Timeout design, legacy client (always milliseconds) against a conformant parser', spec='Timeout.tla',
                 cfg='SPECIFICATION Spec\nINVARIANT PropInv\nCONSTANT MsOnlyClient <- Yes\nCHECK_DEADLOCK FALSE\n',
                 workers=1, exhaustive=False,
                 constants='as above up to 10^4 h; expected counterexample: 10^8 ms is written with nine digits and ignored',
                 expect_violation='Invariant PropInv is violated'),
        ],
    ),
    'C04': dict(rule='(i) every operation sequence of the header/trailer emission machine (SetHeader, SendHeader, SendMsg, SetTrailer, Return ok/err over two metadata sets, up to 3 operations quick / 4 thorough, streams and the unary twin) is enumerated by TLC from spec/Metadata.tla and replayed on the real server with several value sets; (ii) random metadata sets (0..16 keys in mixed letter case, 1..4 values, arbitrary bytes incl. NUL/0xFF/empty under -bin keys) as request metadata, headers leaving in the three ways, and trailers, on all four kinds; non-trivial = carries at least one metadata operation', nontrivial_ops=['sopen', 'ucall'], assumptions=COMMON_ASSUMPTIONS + ['key sets that collide after lower-casing within one metadata map are not generated (Go map iteration order would make the merge order unspecified)'], gen='c04', models=[dict(name='Metadata emission machine (streams)', spec='Metadata.tla', cfg={'quick': 'SPECIFICATION Spec\nCONSTANTS Sets = {1, 2}\nMaxOps = 4\nUnary = FALSE\nPrintPaths = FALSE\nINVARIANTS MdOnlyOnFirst FirstCarriesAll HeadersFinal TrailerLast UnaryOneResponse\nCHECK_DEADLOCK FALSE\n', 'thorough': 'SPECIFICATION Spec\nCONSTANTS Sets = {1, 2, 3}\nMaxOps = 5\nUnary = FALSE\nPrintPaths = FALSE\nINVARIANTS MdOnlyOnFirst FirstCarriesAll HeadersFinal TrailerLast UnaryOneResponse\nCHECK_DEADLOCK FALSE\n'}, constants='Sets={1,2} MaxOps=4 (quick) / Sets={1,2,3} MaxOps=5 (thorough)', workers=8), dict(name='Metadata emission machine (unary)', spec='Metadata.tla', cfg='SPECIFICATION Spec\nCONSTANTS Sets = {1, 2, 3}\nMaxOps = 5\nUnary = TRUE\nPrintPaths = FALSE\nINVARIANTS MdOnlyOnFirst FirstCarriesAll HeadersFinal TrailerLast UnaryOneResponse\nCHECK_DEADLOCK FALSE\n', constants='Sets={1,2,3} MaxOps=5 Unary', workers=4)]),
    'C06': dict(rule='the wire histories of the program families of C01-C04, C07 and C11 (early returns, cancellations, errors, resets, late bodies, the srv.writer.window schedule) judged per id and direction by the wire-protocol rules of the specification (rule group wire: open shape, bodies, at most one close with status, nothing after it, single final client reset, server reset only for unknown streams and never before the trailer, constant method/source/destination, metadata only on the first response envelope, ids echoed); non-trivial = the scenario puts at least one RPC on the wire', nontrivial_ops=['ucall', 'sopen'], assumptions=COMMON_ASSUMPTIONS, models=[], gen='c06'),
    'C14': dict(rule='(a) histories of RPCs of all four kinds with outcomes {ok, handler error, cancel, deadline, early handler return (server reset), failed open} stepped through the full specification with a census after every RPC; (b) long self-driving histories (10^4 RPCs quick, 10^6 thorough, 32 at a time) validated against the slim registry specification at every quiescent point; non-trivial = every history', nontrivial_ops=['q', 'history'], assumptions=COMMON_ASSUMPTIONS + ['in the long histories the driver decides that a point is idle (every RPC goroutine of the wave returned, no handler live); the specification then demands empty registries and the idle goroutine level'], models=[], parts=[dict(gen='c14', trace_spec='GoatTrace.tla', shard_size=1), dict(gen='c14_long', trace_spec='GoatRegistryTrace.tla', shard_size=1)]),
    'C05': dict(rule='raw server answering k outstanding calls with every interleaving (multiset permutation) of their response envelopes; raw client interleaving the request envelopes of k streams into a real server; 16..64 calls started at once; long call histories (slim specification); non-trivial = at least two calls outstanding', nontrivial_ops=['inj', 'ucall', 'history'], assumptions=COMMON_ASSUMPTIONS, models=[], parts=[dict(gen='c05', trace_spec='GoatTrace.tla'), dict(gen='c05_long', trace_spec='GoatRegistryTrace.tla', shard_size=1)]),
    'C07': dict(rule='3 stream kinds x 3 programs (echo, burst, idle handler) x cancellation after every prefix of the client program x {explicit cancel, deadline expiry on the virtual clock} x bystander calls; cancellation with 0..5 responses queued unread; every scenario continues with a later Recv, a later Send and a probe call; non-trivial = contains a cancel or a deadline', nontrivial_ops=['cancel', 'adv'], assumptions=COMMON_ASSUMPTIONS, models=[]),
    'C09': dict(rule='client read failure after every prefix of the response sequence of 4 base conversations x write side {writable, failing}, followed by calls started after the failure; calls parked in the failure-check -> registration window (gate mux.call.window) while the failure lands; non-trivial = contains a client read fault', nontrivial_ops=['fault'], assumptions=COMMON_ASSUMPTIONS, models=[]),
    'C10': dict(rule='connection end by {read failure, write failure, Stop} with u unary and s streaming handlers in flight parked in {receive, context wait, blocked send}; end at every step of a mixed conversation; non-trivial = contains a server-side fault', nontrivial_ops=['fault'], assumptions=COMMON_ASSUMPTIONS, models=[]),
    'C11': dict(rule='handlers returning after k of n client messages (all 0<=k<n<=4 quick / 8 thorough) with all messages delivered before the return; callers cancelling with m responses unread; raw servers over-answering a unary call; each with bystander calls and a probe call with a one-hour virtual deadline; non-trivial = contains an abandonment (early handler return, cancel, extra reply)', nontrivial_ops=['hop', 'cancel', 'inj'], assumptions=COMMON_ASSUMPTIONS, models=[]),
    'C12': dict(rule='raw client injecting envelope sequences over an alphabet of 25 shapes x 2 ids (length 1 exhaustive, length 2 exhaustive in the thorough tier / sampled in quick, random longer sequences up to 40), each followed by a valid unary and a valid streaming probe; non-trivial = injects at least one envelope', nontrivial_ops=['inj'], assumptions=COMMON_ASSUMPTIONS, models=[]),
    'C13': dict(rule='raw server injecting response sequences over an alphabet of 18 shapes x {id of the unary call, id of the stream, unknown id} into a real client with a unary call and a stream outstanding (length 1 exhaustive, length 2 exhaustive/sampled, random longer), then closing the connection; with and without a stats handler; non-trivial = injects at least one envelope', nontrivial_ops=['inj'], assumptions=COMMON_ASSUMPTIONS, models=[]),
    'C03': dict(
        rule='all 17 codes x error kinds (status, wrapped status, plain, context errors) for unary calls; error at '
             'position 0/1/2 for the three stream kinds; OK-coded non-nil error; foreign-peer replies through a raw '
             'server (explicit OK status + body, status without trailer metadata, reset envelopes); the late-body vs '
             'trailer schedule forced through the srv.writer.window gate; non-trivial = a handler returns or a raw '
             'reply is injected',
        nontrivial_ops=['ucall', 'sopen'],
        assumptions=COMMON_ASSUMPTIONS,
        models=[],
    ),
    'C01': dict(
        rule='scenarios are generated per family (all handler-completion orders for k<=3/4 callers x delivery mode x '
             'transport encoding; staggered delivery; payload sizes 0..64KiB; wide runs up to 64 concurrent callers); '
             'distinct = distinct step list; non-trivial = contains at least one unary call',
        nontrivial_ops=['ucall', 'storm'],
        assumptions=COMMON_ASSUMPTIONS + ['in the storm part (thousands of calls released simultaneously) the driver compares each '
                                          'reply with its own request and reports a mismatch as an event the specification has no action for'],
        models=[],
        parts=[dict(gen=None, trace_spec='GoatTrace.tla'), dict(gen='c01_storm', trace_spec='GoatRegistryTrace.tla', shard_size=1)],
    ),
    'C02': dict(
        rule='3 stream kinds x client programs (send-all, ping-pong, concurrent, early half-close) x handler programs '
             '(echo, burst, reply-after-EOF) x message counts, multiplexed streams, and the done-check/select window '
             'forced through the cs.recv.window gate; distinct = distinct step list; non-trivial = opens a stream',
        nontrivial_ops=['sopen', 'storm'],
        assumptions=COMMON_ASSUMPTIONS + ['in the storm part (waves of 64 calls released simultaneously, a third of them bidirectional echo streams '
                                          'of 1-3 distinct messages) the driver compares each reply with the message it answers and reports a '
                                          'mismatch as an event the specification has no action for'],
        models=[],
        parts=[dict(gen=None, trace_spec='GoatTrace.tla'), dict(gen='c02_storm', trace_spec='GoatRegistryTrace.tla', shard_size=1)],
    ),
}

_OBS_CFG = 'SPECIFICATION Spec\nINVARIANT NotStuck Finished\n'
PROPS['C20'] = dict(
    gen=x_observers.generate, trace_spec='ObserversTrace.tla', own_attribution=True,
    rule='one client and one served connection with recording interceptors and stats handlers; every RPC kind '
         '(unary, bidi, client-stream, server-stream) x outcome (ok, handler error incl. io.EOF, caller cancel, context '
         'cancelled beforehand, deadline on the virtual clock, client read failure in flight, failed open = client '
         'write error, client write failure in mid-stream, server write failure, call on a dead connection) x server chain length 0..6 (goat.ChainXInterceptor, single-interceptor option for 1) '
         'x client chain length 0..3 (by hand / go-grpc-middleware / single) x 1..3 stats handlers per side, with '
         'unrelated RPCs before and after; every stage rewrites metadata, request, reply and error; a server stage at every '
         'position of chains of 1..6 that calls its handler a second time (retry) or not at all (refusal); unary calls whose '
         'request the codec cannot encode or whose reply it cannot decode; '
         'non-trivial = runs at least one observed RPC (all scenarios); distinct = distinct (configuration, RPC list)',
    nontrivial_ops=['rpc:ok', 'rpc:herr', 'rpc:cancel', 'rpc:precancel', 'rpc:deadline', 'rpc:cread', 'rpc:cwrite',
                    'rpc:cwmid', 'rpc:swrite', 'rpc:dead', 'rpc:badreq', 'rpc:badreply'],
    assumptions=COMMON_ASSUMPTIONS + [
        'the recording interceptors and stats handlers of harness/driver/x_observers.go log what they see at the '
        'point where they see it; an error is compared by status code and message, the way it survives the wire',
        'client interceptor chains are built by the caller (by hand or with go-grpc-middleware); goat installs one',
        'End is not required to be the last event of an RPC (the property does not say so): a reply still being '
        'consumed by the caller may be reported after End',
        'client-side ConnBegin/ConnEnd are only checked for order (the property speaks of served connections)',
    ],
    models=[
        dict(name='observers-design', spec='Observers.tla', cfg=_OBS_CFG, workers=8,
             constants='chained.go builders, processUnaryRpc/runStream, invoke/newStream, StatsStartServerRPC/'
                       'StatsEndRPC transcribed; client chain 0..3, server chain 0..6, 1..3 stats handlers per side, '
                       'unary + stream, outcomes ok/herr/cancel/cwrite, unencodable request / undecodable reply, a server '
                       'stage calling its handler twice or not at all: 2856 programs replayed through the automata; '
                       'ASSUME ChainShape for n = 1..6'),
        dict(name='observers-mutant-skiplast', spec='Observers.tla',
             cfg=_OBS_CFG + 'CONSTANT Mut <- MutSkipLast\nCONSTANT MaxC <- MaxC1\nCONSTANT MaxH <- MaxH2\n', workers=4,
             constants='seeded fault: chain builder stops one interceptor early (curr >= len-2)',
             expect_violation='Invariant NotStuck is violated'),
        dict(name='observers-mutant-tagafter', spec='Observers.tla',
             cfg=_OBS_CFG + 'CONSTANT Mut <- MutTagAfter\nCONSTANT MaxC <- MaxC1\nCONSTANT MaxS <- MaxS2\n', workers=4,
             constants='seeded fault: Begin delivered with the context from before TagRPC',
             expect_violation='Invariant NotStuck is violated'),
        dict(name='observers-mutant-dupend', spec='Observers.tla',
             cfg=_OBS_CFG + 'CONSTANT Mut <- MutDupEnd\nCONSTANT MaxC <- MaxC1\nCONSTANT MaxS <- MaxS2\nCONSTANT MaxH <- MaxH2\n', workers=4,
             constants='seeded fault: End emitted twice for a stream',
             expect_violation='Invariant NotStuck is violated'),
        dict(name='observers-mutant-cursor', spec='Observers.tla',
             cfg=_OBS_CFG + 'CONSTANT Mut <- MutCursor\nCONSTANT MaxC <- MaxC1\nCONSTANT MaxH <- MaxH2\n', workers=4,
             constants='seeded fault: the chain is walked by one closure with a forward-only cursor; a stage that calls '
                       'its handler a second time resumes at the last interceptor',
             expect_violation='Invariant NotStuck is violated'),
        dict(name='observers-mutant-shadow', spec='Observers.tla',
             cfg=_OBS_CFG + 'CONSTANT Mut <- MutShadow\nCONSTANT MaxC <- MaxC1\nCONSTANT MaxH <- MaxH2\n', workers=4,
             constants='seeded fault: End.Error is nil for a unary call whose reply could not be decoded',
             expect_violation='Invariant NotStuck is violated'),
    ])


# ---- Layer-I design models (spec/GoatImpl.tla) ---------------------------------
ALL_FIXES = ['D1', 'D4', 'D5', 'D6', 'D7s', 'D7c', 'D22', 'D24']
IMPL_INVS = ('UniqueIds EofOnlyOnOk NoCancelAfterSuccess ResetNotBeforeTrailer ResetNotBeforeTrailerPending '
             'UnaryOkOnlyWithResp RegistriesEmptyWhenFinished ServeRetMeansHandlersDone CancelReportsCanceled')


def impl(name, unaries=(), streams=(), workers=1, maxc=1, maxs=1, without=None, cancel=False, readfail=False,
         stop=False, early=True, expect=None, tiers=None, tlc_workers=8, advc=0, advs=0, sendfail=False, hwaits=False, cap=0):
    """a configuration of GoatImpl.tla; `without` names a repaired defect to re-open (the model must then fail)"""
    fixes = [f for f in ALL_FIXES if f != without]
    sset = lambda xs: '{' + ', '.join('"%s"' % x for x in xs) + '}'
    b = lambda v: 'TRUE' if v else 'FALSE'
    cfg = ('SPECIFICATION Spec\nCONSTANTS\n  Unaries = %s\n  Streams = %s\n  NWorkers = %d\n  MaxC = %d\n  MaxS = %d\n'
           '  Fixes = %s\n  EnvCancel = %s\n  EnvReadFail = %s\n  EnvStop = %s\n  EnvSendFail = %s\n  EarlyReturn = %s\n  HandlerWaits = %s\n'
           '  AdvClient = %d\n  AdvServer = %d\n  AdvIds = {1}\n  Cap = %d\nINVARIANTS %s\n'
           % (sset(unaries), sset(streams), workers, maxc, maxs, sset(fixes), b(cancel), b(readfail), b(stop), b(sendfail), b(early), b(hwaits),
              advc, advs, cap, IMPL_INVS))
    d = dict(name='GoatImpl ' + name, spec='GoatImpl.tla', cfg=cfg, workers=tlc_workers, heap='12g', timeout=3000,
             constants='unary calls %s, streams %s, %d worker(s), <=%d client / <=%d handler messages per stream, '
                       'environment: cancel=%s read-failure=%s stop=%s refused-send=%s early-return=%s handler-may-wait-for-cancel=%s adversarial envelopes to server=%d to client=%d, transport capacity %s; %s; deadlock checking on'
                       % (sset(unaries), sset(streams), workers, maxc, maxs, b(cancel), b(readfail), b(stop), b(sendfail), b(early), b(hwaits), advc, advs, cap or 'unbounded',
                          'all repaired defects present' if not without else 'defect %s re-opened' % without))
    if expect:
        d['expect_violation'] = expect
        d['exhaustive'] = False
    if tiers:
        d['tiers'] = tiers
    return d


M_S1 = impl('S1 (one stream, caller may cancel)', streams=['s1'], cancel=True)
M_S1M2 = impl('S1m2 (one stream, two messages each way)', streams=['s1'], maxc=2, maxs=2, cancel=True, tiers=['thorough'])
M_S1U1 = impl('S1U1 (one stream + one unary call, 2 workers)', unaries=['u1'], streams=['s1'], workers=2, cancel=True, tiers=['thorough'], tlc_workers=14)
M_U2 = impl('U2 (two unary calls, 2 workers)', unaries=['u1', 'u2'], workers=2, early=False)
M_U2C = impl('U2c (two unary calls, 2 workers, callers may give up, transport capacity 1)', unaries=['u1', 'u2'], workers=2, early=False, cancel=True, cap=1)
M_U2RF = impl('U2rf (two unary calls, client read failure anywhere)', unaries=['u1', 'u2'], workers=2, readfail=True, early=False)
M_S1RF = impl('S1rf (one stream, cancel and client read failure anywhere)', streams=['s1'], cancel=True, readfail=True, tiers=['thorough'])
M_S1STOP = impl('S1stop (one stream, Stop anywhere)', streams=['s1'], stop=True)
M_U2STOP = impl('U2stop (two unary calls, one worker, Stop anywhere)', unaries=['u1', 'u2'], stop=True, early=False)
M_S1SF = impl('S1sf (one stream, its Send may be refused by the transport, caller may cancel)', streams=['s1'], maxc=1, maxs=1, cancel=True, sendfail=True)
M_S1SF2 = impl('S1sf2 (one stream, two client messages, a Send may be refused by the transport, caller may cancel)', streams=['s1'], maxc=2, maxs=1, cancel=True, sendfail=True, tiers=['thorough'])
B_D22 = impl('Bug_D22', streams=['s1'], maxc=1, maxs=0, sendfail=True, early=False, without='D22', expect='Deadlock reached', tlc_workers=2)
# D23 is a known finding (not repaired): the design model exhibits it as a deadlock; with one envelope fewer it does not
K_D23 = impl('Known_D23 (handler waits for the cancellation its caller issued; 2 envelopes queued ahead of the reset)', streams=['s1'], maxc=1, maxs=0, cancel=True, early=False, hwaits=True, expect='Deadlock reached', tlc_workers=4)
M_HW0 = impl('S1hw (handler may wait for the cancellation its caller issued; at most one envelope queued ahead of the reset)', streams=['s1'], maxc=0, maxs=1, cancel=True, hwaits=True)
B_D1 = impl('Bug_D1', streams=['s1'], early=False, without='D1', expect='Invariant NoCancelAfterSuccess is violated', tlc_workers=2)
B_D4 = impl('Bug_D4', streams=['s1'], maxc=2, maxs=0, without='D4', expect='Invariant ResetNotBeforeTrailerPending is violated', tlc_workers=2)
B_D5 = impl('Bug_D5', unaries=['u1'], readfail=True, early=False, without='D5', expect='Deadlock reached', tlc_workers=2)
B_D6 = impl('Bug_D6', unaries=['u1'], stop=True, early=False, without='D6', expect='Deadlock reached', tlc_workers=2)
B_D7S = impl('Bug_D7s', streams=['s1'], maxc=2, maxs=0, without='D7s', expect='Deadlock reached', tlc_workers=2)
B_D7C = impl('Bug_D7c', streams=['s1'], maxc=1, maxs=2, cancel=True, without='D7c', expect='Deadlock reached', tlc_workers=4)

B_D24 = impl('Bug_D24', streams=['s1'], maxc=1, maxs=1, cancel=True, without='D24', expect='Invariant CancelReportsCanceled is violated', tlc_workers=4)
# D25 is a known finding (not repaired): an eager caller (sends everything, then receives) against a handler that answers and
# returns early, over a transport without slack; with fewer late messages, or a caller that may give up, nothing wedges
K_D25 = impl('Known_D25 (eager caller, early-returning handler that has answered, transport capacity 1, 6 client messages)', streams=['s1'], maxc=6, maxs=1, cap=1, expect='Deadlock reached')
M_S1CAP3 = impl('S1cap3 (the same with 3 client messages: the pipeline absorbs the resets)', streams=['s1'], maxc=3, maxs=1, cap=1)
M_S1CAPC = impl('S1capc (transport capacity 1, two messages, the caller may cancel)', streams=['s1'], maxc=2, maxs=1, cap=1, cancel=True)

M_S1M2CAP = impl('S1m2cap (transport capacity 1, two messages each way, the caller may cancel; the 30 s reset-write timeout fires at quiescence)', streams=['s1'], maxc=2, maxs=2, cap=1, cancel=True)
M_S1U1CAP = impl('S1U1cap (one stream + one unary call, capacity 1, callers may give up)', unaries=['u1'], streams=['s1'], workers=1, maxc=1, maxs=1, cap=1, cancel=True, tiers=['thorough'], tlc_workers=14)
M_ADVC3 = impl('AdvC3 (adversarial client: any 3 envelopes on one id, then it closes)', maxc=0, maxs=1, advc=3)
M_ADVC4 = impl('AdvC4 (adversarial client: any 4 envelopes)', maxc=0, maxs=1, advc=4, tiers=['thorough'], tlc_workers=14)
B_ADVC_D7S = impl('Bug_D7s under an adversarial client', maxc=0, maxs=0, advc=4, without='D7s', expect='Deadlock reached', tlc_workers=4)
M_ADVS3U = impl('AdvS3u (adversarial server: any 3 envelopes to a unary call, then it closes)', unaries=['u1'], maxc=0, maxs=0, advs=3)
M_ADVS3S = impl('AdvS3s (adversarial server: any 3 envelopes to a stream whose caller may cancel)', streams=['s1'], maxc=0, maxs=0, cancel=True, advs=3, tiers=['thorough'])
B_ADVS_D7C = impl('Bug_D7c under an adversarial server', unaries=['u1'], maxc=0, maxs=0, advs=3, without='D7c', expect='Deadlock reached', tlc_workers=4)

for _p, _ms in {'C12': [M_ADVC3, B_ADVC_D7S, M_ADVC4], 'C13': [M_ADVS3U, B_ADVS_D7C, M_ADVS3S], 'C01': [M_U2, M_U2C], 'C02': [M_S1, B_D1, M_S1M2], 'C03': [M_S1, B_D4], 'C05': [M_U2, M_S1], 'C06': [M_S1, B_D4],
                'C07': [M_S1, B_D7C, B_D24, M_HW0, K_D23, M_S1M2], 'C09': [M_U2RF, B_D5, M_S1RF], 'C10': [M_S1STOP, M_U2STOP, B_D6],
                'C11': [M_S1, B_D7S, B_D7C, K_D25, M_S1CAP3, M_S1CAPC, M_S1M2CAP, M_S1U1, M_S1U1CAP], 'C14': [M_S1, M_U2, M_U2C, M_S1SF, B_D22, M_S1SF2]}.items():
    PROPS[_p]['models'] = list(PROPS[_p].get('models', [])) + _ms


# ---- Layer-P closure (spec/GoatProtocolMC.tla): do the local rules compose to the end-to-end statements? ----
def pmc(name, maxev, off='', invs='Paired StatusAgrees ClientPrefix ClientGotNothingWithoutHandler ServerPrefix EofIffOk',
        expect=None, tiers=None):
    cfg = ('SPECIFICATION MCSpec\nCONSTANTS\n  Off = {%s}\n  Pays = {"a", "b"}\n  MaxEv = %d\n  MaxMsg = 1\n'
           'INVARIANTS %s\nCHECK_DEADLOCK FALSE\n' % (('"%s"' % off) if off else '', maxev, invs))
    d = dict(name='GoatProtocolMC ' + name, spec='GoatProtocolMC.tla', cfg=cfg, workers=8, heap='8g', timeout=3000,
             constants='one unary call and one bidi stream, payloads {a,b}, <=1 message each way, every explainable event '
                       'sequence of length <= %d%s' % (maxev, ('; rule group %s switched off: the closure must break' % off) if off else ''))
    if expect:
        d['expect_violation'] = expect
        d['exhaustive'] = False
    if tiers:
        d['tiers'] = tiers
    return d


P_Q = pmc('closure (<=12 events)', 12, tiers=['quick'])
P_T = pmc('closure (<=15 events)', 15, tiers=['thorough'])
P_NOPAY = pmc('with the payload rules off', 14, off='pay', expect='Invariant Paired is violated')
P_NOSTATUS = pmc('with the status rules off', 14, off='status', expect='Invariant EofIffOk is violated')
P_NOWIRE = pmc('with the wire rules off', 14, off='wire', expect='is violated')
for _p, _ms in {'C01': [P_Q, P_NOPAY, P_T], 'C02': [P_Q, P_NOSTATUS, P_T], 'C03': [P_Q, P_NOSTATUS, P_T], 'C05': [P_Q, P_NOPAY],
                'C06': [P_Q, P_NOWIRE]}.items():
    PROPS[_p]['models'] = list(PROPS[_p].get('models', [])) + _ms


# ---- C18 (demultiplexer) ---------------------------------------------------------
def _demux_cfg(keys, env, writes, cancels, fixes, props, symmetry=True):
    inv = ['TypeOK', 'DeliveredOncePerKeyInOrder', 'AnnouncedOncePerIncarnation', 'WritesPassThrough', 'NoCrash']
    return ('SPECIFICATION Spec\nCHECK_DEADLOCK FALSE\n'
            + ''.join('INVARIANT %s\n' % i for i in inv if i in props)
            + ''.join('PROPERTY %s\n' % p for p in props if p not in inv)
            + ('SYMMETRY Perms\n' if symmetry else '')
            + 'CONSTANT Keys = {%s}\nCONSTANT MaxEnv = %d\nCONSTANT MaxWrites = %d\nCONSTANT MaxCancel = %d\n'
              % (', '.join('abc'[:keys]), env, writes, cancels)
            + 'CONSTANT Fixes = {%s}\n' % ', '.join('"%s"' % f for f in fixes))


_DX_SAFE = ['TypeOK', 'DeliveredOncePerKeyInOrder', 'AnnouncedOncePerIncarnation', 'WritesPassThrough', 'NoCrash']
_DX_ALL = ['DoneR', 'DoneW', 'StopSel']

PROPS['C18'] = dict(
    gen=x_demux.generate, trace_spec='DemuxTrace.tla', own_attribution=True,
    rule='raw shared transport: every interleaving of per-key arrival sequences x every consumption order of the logical '
         'connections (<= 3 keys x <= 2 envelopes; exhaustive in the thorough tier, small shapes exhaustive + sample in quick), '
         'random sequences over 1..8 keys; Cancel(key) and Stop at each step of 5 base conversations, without and with the run '
         'loop parked in demux.run.window (between unlock and hand-off), each followed by reads/writes on the old connection and '
         're-use of the key; logical writers blocked behind a stuck shared writer while Cancel/Stop land; RPC workloads (unary + '
         'bidi echo) of 1..3 real goat clients multiplexed into one goat.Server with Cancel(client)/Stop at each step (plain, gate '
         'window, stuck writer); non-trivial = an envelope enters the shared transport or a call is started',
    nontrivial_ops=['in', 'ucall', 'sopen'],
    assumptions=COMMON_ASSUMPTIONS + [
        'the harness shared transport (x_demux.go dxShared, 90 lines) is ordered and exactly-once',
        'the harness attributes an onNewConnection call to the key most recently computed by the key function '
        '(the callback does not name the key; Run cannot pass the hand-off of the creating envelope before the callback ran)',
        'envelope equality is decided on a SHA-256 prefix of the deterministic protobuf encoding computed by the harness',
    ],
    models=[
        dict(name='Demux fixed, safety', spec='Demux.tla', workers=8,
             cfg=dict(quick=_demux_cfg(3, 3, 1, 1, _DX_ALL, _DX_SAFE),
                      thorough=_demux_cfg(3, 4, 2, 1, _DX_ALL, _DX_SAFE)),
             constants='Keys=3 (symmetric), MaxEnv=3|4, MaxWrites=1|2, MaxCancel=1, Fixes=all (quick|thorough)'),
        dict(name='Demux fixed, safety, read side deep', spec='Demux.tla', workers=8,
             cfg=dict(quick=_demux_cfg(3, 3, 0, 2, _DX_ALL, _DX_SAFE),
                      thorough=_demux_cfg(3, 5, 0, 2, _DX_ALL, _DX_SAFE)),
             constants='Keys=3 (symmetric), MaxEnv=3|5, MaxWrites=0, MaxCancel=2, Fixes=all'),
        dict(name='Demux fixed, liveness', spec='Demux.tla', workers=8,
             cfg=dict(quick=_demux_cfg(2, 2, 1, 1, _DX_ALL, ['NoCrash', 'StopEndsRun', 'CancelledOpsFail'], symmetry=False),
                      thorough=_demux_cfg(2, 3, 1, 1, _DX_ALL, ['NoCrash', 'StopEndsRun', 'CancelledOpsFail'], symmetry=False)),
             constants='Keys=2, MaxEnv=2|3, MaxWrites=1, MaxCancel=1, Fixes=all, weak fairness of Run and of failing ops'),
        dict(name='Bug_CloseR (Cancel closes r)', spec='Demux.tla', workers=4, exhaustive=False,
             cfg=_demux_cfg(2, 2, 1, 1, ['DoneW', 'StopSel'], ['NoCrash'], symmetry=False),
             constants='Fixes={DoneW,StopSel}', expect_violation='Invariant NoCrash is violated'),
        dict(name='Bug_CloseW (Cancel closes w)', spec='Demux.tla', workers=4, exhaustive=False,
             cfg=_demux_cfg(2, 2, 1, 1, ['DoneR', 'StopSel'], ['NoCrash'], symmetry=False),
             constants='Fixes={DoneR,StopSel}', expect_violation='Invariant NoCrash is violated'),
        dict(name='Bug_StopIgnored (hand-off ignores Stop)', spec='Demux.tla', workers=4, exhaustive=False,
             cfg=_demux_cfg(2, 2, 1, 1, ['DoneR', 'DoneW'], ['NoCrash', 'StopEndsRun'], symmetry=False),
             constants='Fixes={DoneR,DoneW}', expect_violation='Temporal property StopEndsRun was violated'),
        dict(name='Bug_AsFound (no fix)', spec='Demux.tla', workers=4, exhaustive=False,
             cfg=_demux_cfg(2, 2, 1, 1, [], ['NoCrash'], symmetry=False),
             constants='Fixes={}', expect_violation='Invariant NoCrash is violated'),
    ],
)


# ---- C19 (shipped transports) ---------------------------------------------------------
# (2) before `PROPS = {`:
_C19_T = ('SPECIFICATION MCSpec\nINVARIANT InOrderExactlyOnce\nINVARIANT MalformedNeverDelivered\nINVARIANT NothingLost\n'
          'PROPERTY CtxUnblocks\nCHECK_DEADLOCK FALSE\nCONSTANT Off = {}\n')
_C19_H = ('SPECIFICATION FairSpec\nINVARIANT NoCrash\nINVARIANT LadderSound\nINVARIANT AtMostOnce\nINVARIANT OkIffDelivered\n'
          'INVARIANT ReadersCount\nINVARIANT LegitPending\nINVARIANT LiveConnsRegistered\nPROPERTY ReadUnblocks\nPROPERTY ServeUnblocks\nCHECK_DEADLOCK FALSE\n'
          'CONSTANTS\n Addrs = {"x"}\n Reqs = {1, 2}\n Rdrs = {1}\n Timeout = 2\n Interval = 1\n MaxConns = 2\n')
_C19_LADDER = _C19_H + (' UseShapes = {"nobody", "unreadable", "undecodable", "nohdr", "nosrc", "maperr", "ok"}\n'
                        ' Advances = {}\n MaxTime = 0\n Writes = FALSE\n')
_C19_CLEAN = _C19_H + ' UseShapes = {"ok", "nosrc"}\n Advances = {1, 2}\n MaxTime = 3\n Writes = TRUE\n'


def _c19_models():
    ms = [
        dict(name='Transport (rendezvous, fixed)', spec='Transport.tla', cfg=_C19_T, workers=8,
             constants='2 ends, 2 values + 1 malformed input, 3 operations, 1 raw injection, ctx cancellation anywhere'),
        dict(name='Transport (a done ctx may break the connection: websocket)', spec='Transport.tla',
             cfg=_C19_T + 'CONSTANT MCBreaks <- MCBreaksYes\n', workers=8,
             constants='as above, mayBreak = TRUE'),
    ]
    for bug, viol in (('Bug_ReadIgnoresCtx', 'CtxUnblocks was violated'), ('Bug_WriteIgnoresCtx', 'CtxUnblocks was violated'),
                      ('Bug_Duplicate', 'Invariant NothingLost is violated'), ('Bug_Reorder', 'Invariant InOrderExactlyOnce is violated')):
        ms.append(dict(name='Transport ' + bug, spec='Transport.tla', cfg=_C19_T + 'CONSTANT Bug <- %s\n' % bug, workers=8,
                       constants=bug + ' re-enabled: TLC must report the violation (search stops at the counter-example)',
                       expect_violation=viol))
    ms.append(dict(name='Transport Bug_DeliverMalformed', spec='Transport.tla', workers=8,
                   cfg='SPECIFICATION MCSpec\nINVARIANT MalformedNeverDelivered\nCHECK_DEADLOCK FALSE\nCONSTANT Off = {}\n'
                       'CONSTANT Bug <- Bug_DeliverMalformed\n',
                   constants='Bug_DeliverMalformed re-enabled: TLC must report the violation',
                   expect_violation='Invariant MalformedNeverDelivered is violated'))
    ms.append(dict(name='HttpTransport ladder (fixed)', spec='HttpTransport.tla', cfg=_C19_LADDER + ' Bug = {}\n', workers=8,
                   constants='2 requests x 7 shapes, 1 reader, 1 address, request / reader ctx cancellation anywhere, no clock'))
    ms.append(dict(name='HttpTransport cleaner (fixed)', spec='HttpTransport.tla', cfg=_C19_CLEAN + ' Bug = {}\n', workers=8,
                   constants='2 requests x {ok, nosrc}, 1 reader, timeout 2, interval 1, clock 0..3 advanced by 1 or 2, '
                             '<= 2 connection objects, Write ok / failing'))
    for bug, viol in (('CloseReadCh', 'Invariant NoCrash is violated'), ('ReadIgnoresCtx', 'Invariant LegitPending is violated'),
                      ('ServeIgnoresCtx', 'Invariant LegitPending is violated'), ('NoSourceCheck', 'Invariant LadderSound is violated'),
                      ('RetrieveNoRecheck', 'Invariant LiveConnsRegistered is violated')):
        ms.append(dict(name='HttpTransport Bug_' + bug, spec='HttpTransport.tla', cfg=_C19_CLEAN + ' Bug = {"%s"}\n' % bug, workers=8,
                       constants='Bug = {%s} re-enabled: TLC must report the violation (search stops at the counter-example)' % bug,
                       expect_violation=viol))
    for m in ms:
        m.setdefault('heap', '2g')      # the largest model has 192 k states: no need to reserve 8 GB per run
    return ms


PROPS['C19'] = dict(
    gen=x_transport.generate, trace_spec='TransportTrace.tla', own_attribution=True,
    rule='per transport (channel cap 0/1/4 in a synctest bubble; websocket over real loopback with and without '
         'compression; two GoatOverHttp instances over loopback; one GoatOverHttp with direct ServeHTTP calls and a fake '
         'clock in a bubble): envelope values cycling through all 32 presence combinations x ids around 0 / 2^31 / 2^32 / '
         '2^53 / 2^63 / 2^64-1 x body sizes 0..1 MiB x ASCII / non-ASCII / empty / 4 KiB strings x repeated key-values, '
         'proxy_record, proxy_next, status details, in both directions with reads before / after / interleaved with the '
         'writes; Read / Write / ServeHTTP blocked, or not yet started, when their context ends; raw input (text frames, '
         'random bytes, mutated encodings) interleaved with valid envelopes; every ServeHTTP request shape; the cleaner '
         'tick placed before the request / in the retrieve->send window (gate http.serve.window) / while the sender is '
         'blocked / with a reader pending / after the delivery x 4 (timeout, interval) pairs x 8 advance amounts around '
         'interval and timeout x {never active, active}; k = 2..8 simultaneous first requests of a fresh source (every '
         'third time racing NewConnection for its address), 25 sources per scenario x 60 (quick) / 400 (thorough), every '
         'announced connection read by a loop, then the clock passes the idle timeout; '
         'non-trivial = writes, injects or serves something',
    nontrivial_ops=['w', 'raw', 'hs', 'burst'],
    assumptions=[
        'TLC and the TLA+ CommunityModules (Json, IOUtils) are correct',
        'equality of envelopes is decided on a digest computed by the harness (SHA-256 over the deterministic protobuf '
        'encoding) for the value handed to Write and for the value returned by Read; the digest is trusted, the '
        'specification contributes order, exactly-once, error-not-delivered, the 400 ladder, ctx and cleaner logic',
        'whether raw bytes are a well-formed envelope is decided by the harness with proto.Unmarshal (the property words '
        'it as "undecodable bytes")',
        'Go testing/synctest quiescence for the channel and single-instance HTTP scenarios; the websocket and HTTP '
        'loopback scenarios run in real time: an operation counts as pending after the harness has waited 10 s (ctx '
        'cases) / 60 s (deliveries) for it',
        'the websocket connection handed to NewGoatOverWebsocket has its read limit lifted (coder/websocket defaults to '
        '32 KiB per message); a context that ends during a websocket Read / Write may close that connection (documented '
        'coder/websocket behaviour), so later failures on it are accepted',
        'a GoatOverHttp connection that never completed a Read nor started a Write has lastActivity 0 and is closed by '
        'the first cleaner run; the specification follows the code here (recorded as an observation, not judged)',
        'gate http.serve.window (build tag verif) only parks the goroutine between retrieve and the channel send',
    ],
    models=_c19_models(),
)


# ---- C16 / C17 (proxy) ---------------------------------------------------------
PROPS['C16'] = dict(
    gen=x_proxy.generate_c16, trace_spec='ProxyTrace.tla', own_attribution=True,
    rule='raw-peer envelope sequences through a real goat.Proxy: single envelopes (6 interceptors x sender x 6 destination '
         'classes x return route x incoming route record), random sequences over 1..3 (quick) / 1..8 clients and 1..2 / 1..4 '
         'servers (pre-attached or dialled on demand; dial ok / error / slow / unknown name), several senders into one '
         'paused destination (<= 12 outstanding), bursts above the 16-slot buffer (stuck destination, slow dial); RPC '
         'workloads clients - proxy - Demux by source - one Serve per client (unary and the three stream kinds, OK and '
         'error returns, rewritten service name) and sustained 30..60-message streams into a paused peer; re-attachment of '
         'the destination under its name while the old connection is open, between consecutive envelopes for it (1..3 '
         'senders, attached or dialled first; RPC: a slow / hung server restarts, the next calls reach the new instance); '
         'distinct = distinct step list; non-trivial = writes an envelope or starts a call',
    nontrivial_ops=['w', 'ucall', 'sopen'],
    assumptions=COMMON_ASSUMPTIONS + [
        'hook events proxy.accept/route/drop/remove are emitted by serveClients at the decision they name',
        'the content token of an envelope is the SHA-256 prefix of its deterministic encoding with destination, '
        'proxy_record and proxy_next cleared',
        'spoofed or header-less envelopes are exercised under C17 (on the code as found they crash the process, D12)'],
    models=x_proxy.MODELS_C16,
    parts=[dict(gen=None, trace_spec='ProxyTrace.tla'), dict(gen='route_echo', trace_spec='GoatTrace.tla')])
PROPS['C17'] = dict(
    gen=x_proxy.generate_c17, trace_spec='ProxyTrace.tla', own_attribution=True,
    rule='source {another attached name, unknown name, dialable name, empty, header absent} x sender {attached, dialled} x '
         'position in live traffic; third-peer roles {stuck writer, failing reader, failing writer, dial error, slow dial, '
         'slow dial then error, unknown name} x {before, during, after} traffic between two other peers x 0..12 envelopes '
         'towards the third; re-attachment under the old name {before the old connection fails, after (next step), inside '
         'the disconnect callback} x {read, write failure}; context cancellation after every step of 8 role scenarios '
         'followed by writes and a goroutine census; the dispatcher held in {enqueue window (hook gate), interceptor, '
         'disconnect callback} with 1..4 read loops parked on the hand-off of an envelope, then cancel + release + census '
         '(or release and delivery); re-attachment while the old connection is healthy with only same-destination '
         'traffic around it; non-trivial = contains a fault, a cancellation or a bad envelope',
    nontrivial_ops=['fault', 'cancel', 'w', 'reattach_cb', 'arm'],
    assumptions=COMMON_ASSUMPTIONS + [
        'hook events proxy.accept/route/drop/remove are emitted by serveClients at the decision they name',
        'a transport honours the context passed to Read/Write (the harness links do)',
        'the census counts goroutines of the scenario with a goat frame; raw peers have none'],
    models=x_proxy.MODELS_C17)


# ---- unbounded id discipline (Apalache inductive invariant) ----------------------------------
A_MUXIDS = dict(name='MuxIds inductive invariant (Apalache): Init => IndInv, IndInv /\\ Next => IndInv\', and the id handed to a new call is fresh',
                tool='apalache', spec='apalache/MuxIds.tla',
                obligations=[('Init', 'IndInv', 0), ('IndInit', 'IndInv', 1), ('IndInit', 'Fresh', 1)],
                constants='symbolic: arbitrary counter, registries of up to 6 arbitrary ids (Gen(6)); any number of calls')
# model-to-model trace validation (GoatImplObs.tla, lib/vcheck/implobs.py, docs/CROSSLAYER.md): the behaviours of the design
# model, projected to observable events, are judged by the very trace specification the real code's traces are judged by
def _xl(name, only, what):
    return dict(name='cross-layer ' + name, tool='implobs', only=only,
                constants='TLC simulation (and breadth-first enumeration of the smallest configurations) of GoatImplObs = GoatImpl + '
                          'a history of observable events in the harness\'s trace format; every behaviour validated by GoatTrace like a '
                          'trace of the real code: ' + what + '; distinct = behaviours validated, generated = event lines')


_XL = {
    'C06': _xl('(all configurations)', '', 'every configuration of the design as it is must be accepted, every re-opened defect '
               '(D1 D4 D5 D6 D7s D7c D22 D24) and the known finding D23 rejected, D25 accepted only through its deviation'),
    'C02': _xl('(S1m2, Bug_D1)', 'S1m2,Bug_D1', 'two messages each way accepted; the design before D1 rejected (rule group status)'),
    'C03': _xl('(S1, Bug_D4)', 'S1,Bug_D4', 'one stream with cancel accepted; the design before D4 rejected (rule group wire)'),
    'C07': _xl('(S1, S1hw, Bug_D24, Known_D23)', 'S1,S1hw,Bug_D24,Known_D23', 'cancellation anywhere accepted; D24 and the known finding D23 rejected'),
    'C09': _xl('(U2rf, S1rf, Bug_D5)', 'U2rf,S1rf,Bug_D5', 'client read failure anywhere accepted; the design before D5 rejected (pend)'),
    'C10': _xl('(S1stop, U2stop, X_U1stop, Bug_D6)', 'S1stop,U2stop,X_U1stop,Bug_D6', 'Stop anywhere accepted (one configuration exhaustively); the design before D6 rejected (serve)'),
    'C11': _xl('(S1capc, S1cap3, Bug_D7s, Bug_D7c, Known_D25)', 'S1capc,S1cap3,Bug_D7s,Bug_D7c,Known_D25', 'bounded transport accepted; D7s / D7c rejected (reg); D25 only through SenderHol'),
    'C14': _xl('(S1sf, Bug_D22)', 'S1sf,Bug_D22', 'refused Send accepted; the design before D22 rejected (letgo)'),
}
for _p, _m in _XL.items():
    PROPS[_p]['models'] = list(PROPS[_p].get('models', [])) + [_m]

PROPS['C05']['models'] = list(PROPS['C05'].get('models', [])) + [A_MUXIDS]
PROPS['C14']['models'] = list(PROPS['C14'].get('models', [])) + [A_MUXIDS]


# ---- systematic gate sweep (gen2.gate_sweep): base conversations x instrumented windows x (arm, release) positions ----
_SWEEP = ('; gate sweep: 9 base conversations (unary, echo, handler error, early successful return, cancel, refused send, server stream, client stream, '
          'deadline) x 9 instrumented windows x every (arm, release) position pair - the first goroutine to reach the window '
          'is held while everything else runs to quiescence (710 schedules; a sample in the quick tier)')
for _p, _g in (('C02', 'sweep_c02'), ('C03', 'sweep_c03'), ('C07', 'sweep_c07'), ('C11', 'sweep_c11'), ('C14', 'sweep_c14')):
    PROPS[_p]['parts'] = list(PROPS[_p].get('parts') or [dict(gen=None, trace_spec='GoatTrace.tla')]) + [dict(gen=_g, trace_spec='GoatTrace.tla')]
    PROPS[_p]['rule'] += _SWEEP
    PROPS[_p]['nontrivial_ops'] = list(PROPS[_p].get('nontrivial_ops', [])) + ['arm']
