"""Generators for the cancellation, fault, abandonment, robustness and
bounded-state families (C05, C07, C09, C10, C11, C12, C13, C14)."""
import itertools

from .gen import B, ret, env, METH, stream_scn, pay

H = 3600 * 1000  # one hour of virtual time, in ms


# ------------------------------------------------------------------ C07 -----

def stream_base(kind, prog):
    """fault-free step list (without sopen) and handler program of a streaming call"""
    if prog == 'echo':          # ping-pong against an echoing handler
        hp = [dict(o='echo')] if kind == 'bidi' else (
            [dict(o='drain'), dict(o='send', pay='r'), ret()] if kind == 'cs' else
            [dict(o='recv'), dict(o='send', pay='r0'), dict(o='send', pay='r1'), dict(o='drain'), ret()])
        if kind == 'bidi':
            steps = [('send', 'a'), ('recv',), ('send', 'b'), ('recv',), ('close',), ('recv',)]
        elif kind == 'cs':
            steps = [('send', 'a'), ('send', 'b'), ('close',), ('recv',), ('recv',)]
        else:
            steps = [('send', 'a'), ('close',), ('recv',), ('recv',), ('recv',)]
    elif prog == 'burst':       # the handler answers before it reads
        m = 1 if kind == 'cs' else 2
        hp = [dict(o='send', pay='r%d' % i) for i in range(m)] + [dict(o='drain'), ret()]
        steps = [('recv',)] * m + ([('send', 'a')] if kind != 'ss' else [('send', 'a')]) + [('close',), ('recv',)]
    else:                        # idle: the handler only waits for its context
        hp = [dict(o='ctxwait'), ret(code=1, msg='ctx')]
        steps = [('send', 'a'), ('close',)] if kind != 'ss' else [('send', 'a'), ('close',)]
    return steps, hp


def emit(b, c, st):
    if st[0] == 'send':
        b.step('send', c=c, pay=st[1])
    else:
        b.step(st[0], c=c)


def busy_neighbour_connection(fam):
    """two connections served by ONE Server object: eight (nine, twelve) unary handlers of the first are busy for as long
    as they like - the second connection is none of their business: its own unary call gets a worker, its read loop goes
    on reading, the reset of its cancelled stream reaches the handler"""
    out = []
    for n in (8, 9, 12):
        for kind in ('bidi', 'ss'):
            b = B(fam, '%d unary handlers busy on a neighbouring connection while a %s stream is cancelled' % (n, kind), ser=True, ncli=2)
            for i in range(n):
                b.step('ucall', c=10 + i, conn=1, pay='o%d' % i, hp=[])
            b.q()
            b.step('sopen', c=1, conn=2, kind=kind, hp=[dict(o='recv'), dict(o='ctxwait'), ret(code=1, msg='gone')])
            b.step('send', c=1, pay='go')
            b.step('ucall', c=2, conn=2, pay='mine', hp=[])
            b.q()
            b.step('cancel', c=1)
            b.q()
            b.step('recv', c=1)
            b.step('hop', c=2, h=ret(pay='done'))
            b.step('ucall', c=3, conn=2, pay='probe', hp=[ret(pay='fine')])
            b.q()
            for i in range(n):
                b.step('hop', c=10 + i, h=ret(pay='p%d' % i))
            out.append(b.q().done())
    return out


def c07(tier, rng, fam='C07'):
    out = busy_neighbour_connection(fam)
    for kind in ('bidi', 'cs', 'ss'):
        for prog in ('echo', 'burst', 'idle'):
            steps, hp = stream_base(kind, prog)
            for pos in range(len(steps) + 1):
                for form in ('cancel', 'deadline'):
                    for others in ((0,) if tier == 'quick' else (0, 2)):
                        b = B(fam, '%s/%s %s at %d others=%d' % (kind, prog, form, pos, others), ser=True)
                        for o in range(others):
                            b.step('ucall', c=10 + o, pay='o%d' % o, hp=[])
                        b.step('sopen', c=1, kind=kind, hp=hp, **({'to': 1000} if form == 'deadline' else {}))
                        for st in steps[:pos]:
                            emit(b, 1, st)
                        if pos % 3 == 1:
                            # the application has "closed" its ClientConn meanwhile (Close reports to the stats handlers and
                            # nothing else): calls in flight are cancelled like any others
                            b.step('ccclose')
                        if form == 'cancel':
                            b.step('cancel', c=1)
                        else:
                            b.step('adv', ms=1001)
                        b.q()
                        b.step('recv', c=1)            # a later receive
                        b.step('send', c=1, pay='late')  # a later send
                        b.step('recv', c=1)
                        if not any(st[0] == 'close' for st in steps[:pos]):
                            b.step('close', c=1)          # a later half-close (a deferred CloseSend): the reset was the last word
                        for o in range(others):
                            b.step('hop', c=10 + o, h=ret(pay='p%d' % o))
                        b.step('ucall', c=99, pay='probe', to=H, hp=[ret(pay='pong')])
                        out.append(b.q().done())
    # cancellation / deadline while a Send is blocked in the transport's write
    for kind in ('bidi', 'cs', 'ss'):
        for form in ('cancel', 'deadline'):
            for nbefore in (0, 1):
                b = B(fam, '%s %s while a send is blocked in the transport (after %d sends)' % (kind, form, nbefore), ser=True)
                b.step('sopen', c=1, kind=kind, hp=[dict(o='ctxwait'), ret(code=1, msg='gone')],
                       **({'to': 1000} if form == 'deadline' else {}))
                if nbefore and kind != 'ss':
                    b.step('send', c=1, pay='first')
                b.step('stuck', dir='c2s', on=True)
                b.step('send', c=1, pay='blocked')
                if form == 'cancel':
                    b.step('cancel', c=1)
                else:
                    b.step('adv', ms=1001)
                b.step('stuck', dir='c2s', on=False)
                b.q()
                b.step('recv', c=1)
                b.step('send', c=1, pay='late')
                b.step('ucall', c=99, pay='probe', to=H, hp=[ret(pay='pong')])
                out.append(b.q().done())
    # cancellation while responses are queued unread
    for kind in ('bidi', 'ss'):
        for m in (range(0, 3) if tier == 'quick' else range(0, 6)):
            for form in ('cancel', 'deadline'):
                b = B(fam, '%s cancel with %d unread (%s)' % (kind, m, form), ser=True)
                hp = [dict(o='recv')] + [dict(o='send', pay='u%d' % i) for i in range(m)] + [dict(o='ctxwait'), ret(code=1, msg='gone')]
                b.step('sopen', c=1, kind=kind, hp=hp, **({'to': 500} if form == 'deadline' else {}))
                b.step('send', c=1, pay='go')
                if form == 'cancel':
                    b.step('cancel', c=1)
                else:
                    b.step('adv', ms=501)
                b.q()
                b.step('recv', c=1, n=2)
                b.step('ucall', c=99, pay='probe', to=H, hp=[ret(pay='pong')])
                out.append(b.q().done())
    # the caller's context ends "right after opening": inside the transport write of the opening envelope,
    # before NewStream has returned.  Whatever NewStream reports, the server's handler must be told.
    for kind in ('bidi', 'cs', 'ss'):
        for others in (0, 1):
            b = B(fam, '%s cancelled while its opening envelope is being written, others=%d' % (kind, others), ser=True)
            if others:
                b.step('sopen', c=5, kind='bidi', hp=[dict(o='echo')])
                b.step('send', c=5, pay='o1').step('recv', c=5)
            b.step('sopen', c=1, kind=kind, cow=True, hp=[dict(o='ctxwait'), ret(code=1, msg='gone')])
            b.q()
            b.step('ucall', c=2, pay='probe', hp=[ret(pay='fine')])
            if others:
                b.step('send', c=5, pay='o2').step('recv', c=5).step('close', c=5).step('recv', c=5)
            out.append(b.q().done())
    out += cancel_in_send_between_reads(fam)
    # the same positions with a caller whose context ends WITH A CAUSE of its own (context.WithCancelCause /
    # WithTimeoutCause): Err() is what counts - receives report Canceled / DeadlineExceeded, sends the context's error
    import copy
    extra = []
    for k, s_ in enumerate(list(out)):
        if k % 5 or s_.get('topo'):
            continue
        c = copy.deepcopy(s_)
        hit = False
        for st in c['steps']:
            if st.get('op') in ('sopen', 'ucall') and st.get('c') == 1:
                st['what'] = 'cause'
                hit = True
        if hit:
            c['tag'] = 'cause: ' + c['tag']
            extra.append(c)
    return out + extra


# ------------------------------------------------------------------ C09 -----

def c09(tier, rng, fam='C09'):
    out = []
    # base: two unary calls and one stream; responses are produced but not delivered;
    # the read failure lands after each prefix of the response sequence
    for base in ('unary2', 'bidi', 'ss', 'mixed'):
        if base == 'unary2':
            nresp = 2
        elif base == 'bidi':
            nresp = 3
        elif base == 'ss':
            nresp = 4
        else:
            nresp = 5
        for j in range(nresp + 1):
            for wr in ('writable', 'failing'):
                b = B(fam, '%s read-fail after %d of %d, write side %s' % (base, j, nresp, wr), manual=True, ser=True)
                b.step('auto', dir='c2s', on=True)
                if base in ('unary2', 'mixed'):
                    b.step('ucall', c=1, pay='q1', hp=[ret(pay='p1')])
                    b.step('ucall', c=2, pay='q2', hp=[ret(pay='p2')])
                if base in ('bidi', 'mixed'):
                    b.step('sopen', c=3, kind='bidi', hp=[dict(o='echo')])
                    b.step('send', c=3, pay='a').step('send', c=3, pay='b').step('close', c=3)
                    b.step('recv', c=3, n=3)
                if base == 'ss':
                    b.step('sopen', c=3, kind='ss', hp=[dict(o='recv'), dict(o='burst', pay='s', n=3), ret()])
                    b.step('send', c=3, pay='a').step('close', c=3)
                    b.step('recv', c=3, n=4)
                    b.step('hdr', c=3)
                b.step('dlv', dir='s2c', n=j)
                # the kinds of error a transport reports a dead connection with: plain, io.EOF, a net.Error
                # calling itself temporary (ETIMEDOUT), an error wrapping context.Canceled
                b.step('fault', what=['cread', 'creadeof', 'creadtmp', 'creadctx'][(j + (wr == 'failing') + len(base)) % 4])
                if wr == 'failing':
                    b.step('fault', what='cwrite')
                b.q()
                # calls started after the failure must fail, not hang
                b.step('ucall', c=20, pay='after', to=H, hp=[ret(pay='x')])
                b.step('sopen', c=21, kind='bidi', to=H, hp=[dict(o='echo')])
                b.step('send', c=21, pay='z')
                b.step('recv', c=21)
                if base != 'unary2':
                    b.step('send', c=3, pay='more')
                    b.step('recv', c=3)
                out.append(b.q().done())
    # the failure is reported by the transport as io.EOF (net.Pipe, TCP): still a failure for every call
    for kind, how in [(k_, h_) for k_ in ('bidi', 'ss', 'unary') for h_ in ('creadeof', 'creadtmp', 'creadctx')]:
        b = B(fam, '%s read failure reported as %s' % (kind, {'creadeof': 'io.EOF', 'creadtmp': 'a "temporary" net.Error', 'creadctx': 'an error wrapping context.Canceled'}[how]), ser=True)
        if kind == 'unary':
            b.step('ucall', c=1, pay='q', hp=[])
        else:
            b.step('sopen', c=1, kind=kind, hp=[dict(o='recv'), dict(o='send', pay='r0'), dict(o='ctxwait'), ret(code=1, msg='gone')])
            b.step('send', c=1, pay='x')
            b.step('recv', c=1, n=3)
        b.step('fault', what=how)
        b.q()
        b.step('ucall', c=20, pay='after', to=H, hp=[ret(pay='x')])
        out.append(b.q().done())
    # a call parked between the failure check and its registration while the failure lands
    reps = 2 if tier == 'quick' else 8
    for what in ('ucall', 'sopen'):
        for wr in ('writable', 'failing'):
            for r_ in range(reps):
                b = B(fam, '%s in the check->register window, write side %s #%d' % (what, wr, r_), ser=True)
                b.step('ucall', c=1, pay='warm', hp=[ret(pay='up')])
                b.step('arm', gate='mux.call.window', n=1)
                if what == 'ucall':
                    b.step('ucall', c=2, pay='q', to=H, hp=[ret(pay='p')])
                else:
                    b.step('sopen', c=2, kind='bidi', to=H, hp=[dict(o='echo')])
                    b.step('recv', c=2)
                b.step('fault', what='cread')
                if wr == 'failing':
                    b.step('fault', what='cwrite')
                b.step('rel', gate='mux.call.window')
                out.append(b.q().done())
    # a slow consumer: k responses of a stream have arrived and wait unread (one in the stream's read loop,
    # the next in the connection's queue for it ...) when the read fails; every later Recv returns
    for kind in ('bidi', 'ss'):
        for k in (1, 2, 3):
            for how in ('cread', 'creadeof', 'creadtmp'):
                for wr in ('writable', 'failing'):
                    b = B(fam, '%s with %d unread responses when the read fails (%s), write side %s' % (kind, k, how, wr), ser=True)
                    b.step('sopen', c=1, kind=kind, hp=[dict(o='recv')] + [dict(o='send', pay='r%d' % i) for i in range(k)] + [dict(o='ctxwait'), ret(code=1, msg='gone')])
                    b.step('ucall', c=2, pay='bystander', hp=[])
                    b.step('send', c=1, pay='go')
                    b.q()
                    b.step('fault', what=how)
                    if wr == 'failing':
                        b.step('fault', what='cwrite')
                    b.q()
                    b.step('recv', c=1, n=k + 1)
                    b.q()
                    b.step('recv', c=1)
                    out.append(b.q().done())
    # the same race without a forced order: 12 callers parked just before they register are released at the
    # very moment the read failure lands (no quiescence in between; the goroutines of a bubble run on all
    # cores), many times - every caller must return
    for r_ in range(600 if tier == "quick" else 6000):
        b = B(fam, 'callers racing the read failure #%d' % r_, ser=bool(r_ % 2))
        b.step('ucall', c=99, pay='warm', hp=[ret(pay='up')])
        b.step('arm', gate='mux.call.window', n=12)
        for c in range(1, 13):
            if c % 4:
                b.step('ucall', c=c, pay='q%d' % c, hp=[ret(pay='p%d' % c)], nw=True)
            else:
                b.step('sopen', c=c, kind='bidi', hp=[dict(o='echo')], nw=True)
        b.step('wait')
        order = r_ % 3
        if order == 0:
            b.step('fault', what='cread', nw=True)
            b.step('rel', gate='mux.call.window', nw=True)
        elif order == 1:
            b.step('rel', gate='mux.call.window', nw=True)
            b.step('fault', what='cread', nw=True)
        else:
            b.step('fault', what='creadeof', nw=True)
            b.step('rel', gate='mux.call.window', nw=True)
        b.step('wait')
        out.append(b.q().done())
    return out


# ------------------------------------------------------------------ C10 -----

def end_while_reader_holds_envelope(fam):
    """the connection ends (Stop, failed write) while its read loop is between reading an envelope and acting on it
    (held in srv.forward.window): whatever the envelope still sets off - a stream registered and its handler
    started, a message handed over - is cancelled and awaited before Serve returns"""
    out = []
    for how in ('stop', 'swrite'):
        for what in ('open', 'message', 'close', 'second open'):
            for others in (0, 2):
                b = B(fam, 'end by %s while the read loop holds a stream %s, %d other handlers' % (how, what, others), ser=bool(others))
                for o in range(others):
                    b.step('sopen', c=20 + o, kind='bidi', hp=[dict(o='ctxwait'), ret(code=1, msg='ctx')])
                hp = [dict(o='ctxwait'), ret(code=1, msg='ctx')]
                if what != 'open':
                    b.step('sopen', c=1, kind='bidi', hp=hp)
                    b.q()
                b.step('arm', gate='srv.forward.window', n=1)
                if what == 'open':
                    b.step('sopen', c=1, kind='bidi', hp=hp)
                elif what == 'message':
                    b.step('send', c=1, pay='held')
                elif what == 'close':
                    b.step('close', c=1)
                else:
                    b.step('sopen', c=2, kind='ss', hp=hp)
                b.q()
                b.step('fault', what=how)
                if how == 'swrite':
                    b.step('ucall', c=90, pay='trigger', to=500, hp=[ret(pay='t')])     # its reply is the write that fails
                b.q()
                b.step('rel', gate='srv.forward.window')
                b.q()
                b.step('adv', ms=600)
                out.append(b.q().done())
    return out


def stop_from_inside(fam):
    """the application stops its server from inside a handler (a "shutdown" RPC): Stop returns, the handler goes on
    and returns, every other handler is told, Serve returns"""
    out = []
    for kind in ('unary', 'bidi', 'ss'):
        for others in (0, 2):
            for then in ('ret', 'send+ret'):
                if kind == 'unary' and then != 'ret':
                    continue
                b = B(fam, 'Stop called from inside a %s handler, %d other handlers, then %s' % (kind, others, then), ser=bool(others))
                for o in range(others):
                    b.step('sopen', c=20 + o, kind='bidi', hp=[dict(o='ctxwait'), ret(code=1, msg='ctx')])
                hp = [dict(o='stopsrv')] + ([dict(o='send', pay='bye')] if then != 'ret' else []) + [ret(pay='stopped') if kind == 'unary' else ret()]
                if kind == 'unary':
                    b.step('ucall', c=1, pay='shutdown', to=500, hp=hp)
                else:
                    b.step('sopen', c=1, kind=kind, to=500, hp=[dict(o='recv')] + hp)
                    b.step('send', c=1, pay='shutdown')
                    b.step('recv', c=1, n=2)
                b.q()
                b.step('adv', ms=600)
                out.append(b.q().done())
    return out


def reopened_id_then_end(fam):
    """a peer behind relays may count its streams from 1 again inside one Serve (a client that re-attached to a proxy in front
    of a demultiplexer): it resets stream 1, whose handler is still winding down, and opens stream 1 again; when the
    connection ends, Serve returns only after EVERY handler it started has returned"""
    out = []
    for how in ('sread', 'stop'):
        for again in ('open', 'open+body'):
            b = B(fam, 'id opened again while its reset handler is still running (%s), then end by %s' % (again, how), rawcli=True, ser=True)
            b.step('hops', c=301, hp=[dict(o='ctxwait')])          # told, then idle until the script lets it return
            b.step('inj', dir='c2s', env=env(1, m=METH['bidi'], src='cliX', dst='srv', c=301))
            b.step('inj', dir='c2s', env=env(1, m=METH['bidi'], b='m', src='cliX', dst='srv'))
            b.step('inj', dir='c2s', env=env(1, m=METH['bidi'], r='RST_STREAM', src='cliX', dst='srv'))
            b.q()
            b.step('hops', c=302, hp=[dict(o='ctxwait'), ret(code=1, msg='second')])
            b.step('inj', dir='c2s', env=env(1, m=METH['bidi'], src='cliX', dst='srv', c=302))
            if again != 'open':
                b.step('inj', dir='c2s', env=env(1, m=METH['bidi'], b='n', src='cliX', dst='srv'))
            b.q()
            b.step('fault', what=how)
            b.q()
            b.step('hop', c=301, h=ret(code=1, msg='first, late'))
            out.append(b.q().done())
    return out


def c10(tier, rng, fam='C10'):
    out = end_while_reader_holds_envelope(fam) + stop_from_inside(fam) + reopened_id_then_end(fam)
    # (more unary calls than the 8 workers: the surplus waits in the read loop's hand-off)
    combos = [(0, 0), (1, 0), (0, 1), (2, 2), (10, 0), (9, 1)] if tier == 'quick' else \
        [(u, s) for u in (0, 1, 3, 8, 9, 12) for s in (0, 1, 3, 8)]
    for (nu, ns) in combos:
        for how in ('sread', 'swrite', 'stop'):
            for park in ('recv', 'ctxwait', 'send'):
                if park == 'send' and ns == 0:
                    continue
                b = B(fam, 'end by %s with %d unary + %d stream handlers parked in %s' % (how, nu, ns, park), ser=True)
                c = 0
                for i in range(nu):
                    c += 1
                    b.step('ucall', c=c, pay='u%d' % i,
                           hp=[dict(o='ctxwait'), ret(code=1, msg='ctx')] if park != 'recv' else [])
                for i in range(ns):
                    c += 1
                    if park == 'recv':
                        hp = [dict(o='recv'), dict(o='recv'), ret(code=1, msg='recv ended')]
                    elif park == 'ctxwait':
                        hp = [dict(o='ctxwait'), ret(code=1, msg='ctx')]
                    else:
                        hp = [dict(o='recv'), dict(o='send', pay='blocked'), ret(code=1, msg='send ended')]
                    b.step('sopen', c=c, kind='bidi', hp=hp)
                if park == 'send':
                    b.step('stuck', dir='s2c', on=True)
                for i in range(ns):
                    b.step('send', c=nu + 1 + i, pay='x')
                b.q()
                b.step('fault', what=how)
                if how == 'swrite':
                    if park == 'send':
                        b.step('stuck', dir='s2c', on=False)
                    else:
                        # make the server write something: a fresh unary call answers at once
                        b.step('ucall', c=90, pay='trigger', hp=[ret(pay='t')])
                b.q()
                # release the parked unary handlers; afterwards nothing of the connection may remain
                if park == 'recv':
                    for i in range(nu):
                        b.step('hop', c=1 + i, h=ret(pay='late'))
                out.append(b.q().done())
    # the server owes resets (bodies for streams it does not know) while its writer is held by the transport,
    # then the connection ends: nothing started for those resets may stay behind
    for how in ('sread', 'stop'):
        for n in (1, 4, 9):
            b = B(fam, 'end by %s while %d resets wait behind a stuck writer' % (how, n), rawcli=True, ser=True)
            b.step('inj', dir='c2s', env=env(50, m=METH['unary'], b='warm', src='cliX', dst='srv', c=150))
            b.step('hops', c=150, hp=[ret(pay='up')])
            b.q()
            b.step('stuck', dir='s2c', on=True)
            b.step('inj', dir='c2s', env=env(51, m=METH['unary'], b='held', src='cliX', dst='srv', c=151))   # its reply occupies the writer
            b.step('hops', c=151, hp=[ret(pay='h')])
            for i in range(n):
                b.step('inj', dir='c2s', env=env(60 + i, m=METH['bidi'], b='late%d' % i, src='cliX', dst='srv'))
            b.q()
            b.step('fault', what=how)
            b.q()
            b.step('stuck', dir='s2c', on=False)
            out.append(b.q().done())
    # a stream reset by its caller whose handler has not returned yet, then the connection ends:
    # Serve still has to wait for that handler
    for how in ('sread', 'swrite', 'stop'):
        for kind in ('bidi', 'cs', 'ss'):
            b = B(fam, 'end by %s after the caller reset a %s stream whose handler is still running' % (how, kind), ser=True)
            b.step('sopen', c=1, kind=kind, hp=[])
            b.step('send', c=1, pay='x')
            b.step('cancel', c=1)
            b.q()
            b.step('fault', what=how)
            if how == 'swrite':
                b.step('ucall', c=90, pay='trigger', hp=[ret(pay='t')])
            b.q()
            b.step('hop', c=1, h=ret(code=1, msg='late'))
            out.append(b.q().done())
    # unary handlers in flight whose callers have a deadline (the request carries a timeout header)
    for how in ('sread', 'swrite', 'stop'):
        for nu in (1, 3):
            b = B(fam, 'end by %s with %d unary handlers whose callers have a deadline' % (how, nu), ser=True)
            for i in range(nu):
                b.step('ucall', c=1 + i, pay='u%d' % i, to=H, hp=[dict(o='ctxwait'), ret(code=1, msg='ctx')])
            b.q()
            b.step('fault', what=how)
            if how == 'swrite':
                b.step('ucall', c=90, pay='trigger', hp=[ret(pay='t')])
            out.append(b.q().done())
    # two connections served by one Server: the end of one (read / write failure) leaves the other alone - its handlers
    # keep their contexts, its calls complete, new calls are served - and Stop ends both
    for how in ('sread', 'swrite', 'stop'):
        for park in ('recv', 'ctxwait'):
            b = B(fam, 'two connections, %s on the first, handlers parked in %s' % (how, park), ser=True, ncli=2)
            for conn in (1, 2):
                b.step('ucall', c=10 * conn + 1, conn=conn, pay='u%d' % conn,
                       hp=[dict(o='ctxwait'), ret(code=1, msg='ctx')] if (park == 'ctxwait' and (conn == 1 or how == 'stop')) else [])
                hp = [dict(o='recv'), dict(o='recv'), ret(code=1, msg='recv ended')] if park == 'recv' else \
                     ([dict(o='ctxwait'), ret(code=1, msg='ctx')] if (conn == 1 or how == 'stop') else [dict(o='recv')])
                b.step('sopen', c=10 * conn + 2, conn=conn, kind='bidi', hp=hp)
                b.step('send', c=10 * conn + 2, pay='x')
            b.q()
            b.step('fault', what=how, conn=1)
            if how == 'swrite':
                b.step('ucall', c=90, conn=1, pay='trigger', hp=[ret(pay='t')])
            b.q()
            if how != 'stop':
                # the second connection is untouched
                b.step('hop', c=21, h=ret(pay='fine'))
                b.step('hops', c=22, hp=[dict(o='send', pay='still here'), dict(o='drain'), ret()])
                b.step('recv', c=22).step('close', c=22).step('recv', c=22)
                b.step('ucall', c=29, conn=2, pay='probe', hp=[ret(pay='pong')])
                b.q()
            if park == 'recv':
                b.step('hop', c=11, h=ret(pay='late'))
                if how == 'stop':
                    b.step('hop', c=21, h=ret(pay='late'))
            out.append(b.q().done())
    # end of connection at each step of a small mixed conversation
    base = [('ucall', 1), ('sopen', 2), ('send', 2), ('recv', 2), ('send', 2), ('close', 2), ('recv', 2), ('recv', 2)]
    for pos in range(len(base) + 1):
        for how in ('sread', 'swrite', 'stop'):
            b = B(fam, 'conversation ended by %s at step %d' % (how, pos), ser=True)
            for (op, c) in base[:pos]:
                if op == 'ucall':
                    b.step('ucall', c=c, pay='q', hp=[dict(o='sleep', ms=5), ret(pay='p')])
                elif op == 'sopen':
                    b.step('sopen', c=c, kind='bidi', hp=[dict(o='echo')])
                elif op == 'send':
                    b.step('send', c=c, pay='m')
                else:
                    b.step(op, c=c)
            b.step('fault', what=how)
            b.step('ucall', c=50, pay='trigger', to=1000, hp=[ret(pay='t')])
            b.step('adv', ms=10)
            out.append(b.q().done())
    return out


# ------------------------------------------------------------------ C11 -----

def c11(tier, rng, fam='C11'):
    out = []
    nmax = 4 if tier == 'quick' else 8
    # a handler that returns after k of n client messages; everything is delivered before it returns
    for kind in ('bidi', 'cs'):
        for n in range(1, nmax + 1):
            for k in range(0, n):
                for others in ((0,) if tier == 'quick' and n > 2 else (0, 2)):
                    b = B(fam, '%s handler returns after %d of %d, %d bystanders' % (kind, k, n, others), manual=True, ser=True)
                    b.step('auto', dir='s2c', on=True)
                    for o in range(others):
                        b.step('ucall', c=10 + o, pay='o%d' % o, hp=[])
                    b.step('sopen', c=1, kind=kind, hp=[dict(o='recv')] * k)
                    for i in range(n):
                        b.step('send', c=1, pay='m%d' % i)
                    b.step('dlv', dir='c2s', n=-1)
                    b.step('hop', c=1, h=ret(code=0))          # the handler returns early, successfully
                    b.step('auto', dir='c2s', on=True)
                    for o in range(others):
                        b.step('hop', c=10 + o, h=ret(pay='p%d' % o))
                    b.step('recv', c=1, n=2)
                    b.step('ucall', c=99, pay='probe', to=H, hp=[ret(pay='pong')])
                    b.step('adv', ms=H + 1)
                    out.append(b.q().done())
    # the same many times over on ONE connection: late messages are an everyday event (every handler that returns
    # early produces them), however many a connection has seen it goes on serving
    for kind, nstreams, late in (('cs', 70, 1), ('bidi', 40, 2)) + ((('cs', 200, 1),) if tier != 'quick' else ()):
        b = B(fam, '%d %s streams in a row whose handlers return early with %d message(s) still to come, one connection' % (nstreams, kind, late), ser=True, manual=True)
        b.step('auto', dir='c2s', on=True)
        for i in range(nstreams):
            c = 100 + i
            b.step('sopen', c=c, kind=kind, hp=[ret(code=7, msg='no')])      # (its trailer is not delivered yet)
            for j in range(late):
                b.step('send', c=c, pay='late%d' % j)
            b.step('dlv', dir='s2c', n=-1)
            b.step('recv', c=c)
            if i % 10 == 9:
                b.step('ucall', c=1000 + i, pay='probe%d' % i, to=H, hp=[ret(pay='pong')], nw=True)
                b.step('dlv', dir='s2c', n=-1)
        b.step('auto', dir='s2c', on=True)
        b.step('ucall', c=99, pay='probe', to=H, hp=[ret(pay='pong')])
        b.step('adv', ms=H + 1)
        out.append(b.q().done())
    # a caller that cancels with m responses unread
    for kind in ('bidi', 'ss'):
        # (well beyond any receive window somebody might add: 9, 12, 40 unread)
        for m in list(range(0, nmax + 1)) + [9, 12, 40]:
            for others, idle in ((0, 0), (2, 0), (1, 5000)) if m <= nmax else ((0, 0), (2, 0)):
                # idle: the responses stay unread for a (virtual) while before the caller gives up
                b = B(fam, '%s caller cancels with %d unread%s, %d bystanders' % (kind, m, ' after %d ms' % idle if idle else '', others), ser=True)
                for o in range(others):
                    b.step('ucall', c=10 + o, pay='o%d' % o, hp=[])
                hp = [dict(o='recv')] + [dict(o='send', pay='u%d' % i) for i in range(m)] + [dict(o='ctxwait'), ret(code=1, msg='gone')]
                b.step('sopen', c=1, kind=kind, hp=hp)
                b.step('send', c=1, pay='go')
                if idle:
                    b.step('adv', ms=idle)
                b.step('cancel', c=1)
                for o in range(others):
                    b.step('hop', c=10 + o, h=ret(pay='p%d' % o))
                b.step('ucall', c=99, pay='probe', to=H, hp=[ret(pay='pong')])
                b.step('adv', ms=H + 1)
                out.append(b.q().done())
    # many streams open at once on one connection (more than any cap on concurrent streams somebody might add), one more
    # opened on top, then all handlers return early: the connection serves on
    for n in ((101,) if tier == 'quick' else (101, 130, 300)):
        b = B(fam, '%d streams open at once, handlers idle, one more, then all return' % n, ser=True)
        for i in range(n):
            b.step('sopen', c=100 + i, kind='bidi', hp=[], nw=(i % 25 != 24))
        b.q()
        for i in range(0, n, 10):
            b.step('send', c=100 + i, pay='unread%d' % i, nw=True)
        b.q()
        b.step('sopen', c=99, kind='bidi', hp=[dict(o='echo')])
        b.step('send', c=99, pay='ping').step('recv', c=99)
        b.step('ucall', c=98, pay='probe', to=H, hp=[ret(pay='pong')])
        for i in range(n):
            b.step('hop', c=100 + i, h=ret(code=0), nw=(i % 25 != 24))
        b.q()
        for i in range(n):
            b.step('recv', c=100 + i, nw=(i % 25 != 24))
        b.step('close', c=99).step('recv', c=99)
        b.step('adv', ms=H + 1)
        out.append(b.q().done())
    out += lost_reset(fam, nmax)
    out += eager_caller_early_return(fam, tier)
    out += stuck_handler_with_deadline(fam)
    out += ends_while_another_write_is_stuck(fam)
    # a peer that sends more than expected: several replies to one unary call, extra stream envelopes
    for extra, bare in [(e, False) for e in (1, 2, 3, 4)] + [(e, True) for e in (1, 2, 3, 5)]:
        # (bare: replies that carry a body and nothing else - no trailer, no status: the first one answers the call)
        b = B(fam, 'raw server sends %d %sreplies to one unary call' % (extra + 1, 'trailer-less ' if bare else ''), rawsrv=True, ser=True)
        b.step('ucall', c=1, pay='q')
        for i in range(extra + 1):
            b.step('inj', dir='s2c', env=(env(1, b='rep%d' % i) if bare else env(1, b='rep%d' % i, t=[])), nw=True)
        b.step('wait')
        b.step('ucall', c=99, pay='probe', to=1000)
        b.step('inj', dir='s2c', env=env(2, b='pong', t=[]))
        b.step('adv', ms=1001)
        out.append(b.q().done())
    return out


# ------------------------------------------------------------------ C12 -----

def _b64(n):
    import base64
    return base64.urlsafe_b64encode(bytes((i * 11 + n) % 256 for i in range(n))).decode()


def srv_alphabet():
    """envelope shapes a peer may send to a server; {id} is filled in later"""
    U, S = '/verif.Svc/Unary', '/verif.Svc/Bidi'
    A = {}
    A['u_ok'] = lambda i, c: env(i, m=U, b='q%d' % i, src='cliX', dst='srv', c=c)
    A['u_nobody'] = lambda i, c: env(i, m=U, src='cliX', dst='srv', c=c)
    A['u_trailer'] = lambda i, c: env(i, m=U, b='q', t=[], src='cliX', dst='srv', c=c)
    A['u_rawbody'] = lambda i, c: env(i, m=U, braw='@9:%d' % (i + 7), src='cliX', dst='srv', c=c)
    A['u_baddst'] = lambda i, c: env(i, m=U, b='q', src='cliX', dst='other', c=c)
    A['u_nodst'] = lambda i, c: env(i, m=U, b='q', src='cliX', dst='', c=c)              # no destination at all
    A['s_open_nodst'] = lambda i, c: env(i, m=S, src='cliX', dst='', c=c)
    A['u_badmd'] = lambda i, c: env(i, m=U, b='q', src='cliX', dst='srv', md=[['k-bin', '!!!notbase64']], c=c)
    # undecodable values of every length class mod 4 (unpadded / truncated base64 and plain garbage)
    A['u_badmd_len1'] = lambda i, c: env(i, m=U, b='q', src='cliX', dst='srv', md=[['k-bin', '*']], c=c)
    A['u_badmd_len5'] = lambda i, c: env(i, m=U, b='q', src='cliX', dst='srv', md=[['k-bin', 'QUJD*']], c=c)
    A['u_badmd_len2'] = lambda i, c: env(i, m=U, b='q', src='cliX', dst='srv', md=[['k-bin', '*=']], c=c)
    A['s_open_badmd_len1'] = lambda i, c: env(i, m=S, src='cliX', dst='srv', md=[['x-bin', '%']], c=c)
    A['s_open_badmd_len5'] = lambda i, c: env(i, m=S, src='cliX', dst='srv', md=[['x-bin', 'QUJD%']], c=c)
    # metadata keys nobody writes on purpose: empty, a lone suffix, an HTTP/2 pseudo-header, upper case
    A['u_emptykey'] = lambda i, c: env(i, m=U, b='q', src='cliX', dst='srv', md=[['k', 'v'], ['', 'nokey']], c=c)
    A['s_open_emptykey'] = lambda i, c: env(i, m=S, src='cliX', dst='srv', md=[['', 'nokey'], ['k', 'v']], c=c)
    A['u_oddkeys'] = lambda i, c: env(i, m=U, b='q', src='cliX', dst='srv', md=[['-bin', 'QUJD'], [':path', '/x'], ['UPPER', 'V']], c=c)
    # a binary key is binary however its name is spelled: undecodable and decodable values under -BIN / -Bin
    A['u_badmd_upper'] = lambda i, c: env(i, m=U, b='q', src='cliX', dst='srv', md=[['Trace-Bin', '*** not base64 ***']], c=c)
    A['s_open_badmd_upper'] = lambda i, c: env(i, m=S, src='cliX', dst='srv', md=[['X-BIN', '%%%']], c=c)
    A['u_upperbin_ok'] = lambda i, c: env(i, m=U, b='q', src='cliX', dst='srv', md=[['Trace-BIN', 'AP8Q'], ['k-Bin', '']], c=c)
    # valid binary values longer than anybody's scratch buffer, of lengths that are not multiples of three
    A['u_bigbin'] = lambda i, c: env(i, m=U, b='q', src='cliX', dst='srv', md=[['blob-bin', _b64(65)], ['blob2-bin', _b64(100)], ['blob3-bin', _b64(1001)]], c=c)
    A['s_open_bigbin'] = lambda i, c: env(i, m=S, src='cliX', dst='srv', md=[['blob-bin', _b64(67)], ['blob2-bin', _b64(128)]], c=c)
    A['s_open'] = lambda i, c: env(i, m=S, src='cliX', dst='srv', c=c)
    A['s_open_ss'] = lambda i, c: env(i, m='/verif.Svc/SS', src='cliX', dst='srv', c=c)
    A['s_open_baddst'] = lambda i, c: env(i, m=S, src='cliX', dst='nobody', c=c)
    A['s_open_badmd'] = lambda i, c: env(i, m=S, src='cliX', dst='srv', md=[['x-bin', '%%%']], c=c)
    A['s_open_status'] = lambda i, c: env(i, m=S, src='cliX', dst='srv', st=(0, 'OK'), c=c)
    A['s_body'] = lambda i, c: env(i, m=S, b='b%d' % i, src='cliX', dst='srv')
    A['s_rawbody'] = lambda i, c: env(i, m=S, braw='@5:%d' % (i + 3), src='cliX', dst='srv')
    A['s_body_empty'] = lambda i, c: env(i, m=S, b='', src='cliX', dst='srv')        # a message that encodes to zero bytes
    A['u_empty'] = lambda i, c: env(i, m=U, b='', src='cliX', dst='srv', c=c)         # a valid request with an empty message
    A['s_close'] = lambda i, c: env(i, m=S, st=(0, 'OK'), t=[], src='cliX', dst='srv')
    A['s_close_err'] = lambda i, c: env(i, m=S, st=(10, 'aborted'), t=[], src='cliX', dst='srv')
    A['s_body_trailer'] = lambda i, c: env(i, m=S, b='bt', t=[], src='cliX', dst='srv')
    A['s_reset'] = lambda i, c: env(i, m=S, r='RST_STREAM', src='cliX', dst='srv')
    A['s_reset_odd'] = lambda i, c: env(i, m=S, r='SOMETHING', src='cliX', dst='srv')
    A['nohdr'] = lambda i, c: env(i, noh=True, b='x')
    A['nohdr_trailer'] = lambda i, c: env(i, noh=True, t=[])
    A['m_empty'] = lambda i, c: dict(env(i, src='cliX', dst='srv', b='x'), m='')
    A['m_noslash'] = lambda i, c: env(i, m='nomethod', src='cliX', dst='srv', b='x')
    A['m_unk_service'] = lambda i, c: env(i, m='/no.Such/Unary', src='cliX', dst='srv', b='x')
    A['m_unk_method'] = lambda i, c: env(i, m='/verif.Svc/Nope', src='cliX', dst='srv', b='x')
    A['hugeid'] = lambda i, c: env(18446744073709551000 + i, m=U, b='h', src='cliX', dst='srv', c=c)
    return A


def c12(tier, rng, fam='C12'):
    out = []
    A = srv_alphabet()
    syms = [(name, i) for name in A for i in (1, 2)]

    def scn(seq, tag):
        b = B(fam, tag, rawcli=True, ser=True)
        c = 100
        for (name, i) in seq:
            c += 1
            b.step('inj', dir='c2s', env=A[name](i, c))
        b.q()
        # a valid probe on the same connection must still be served correctly
        b.step('inj', dir='c2s', env=env(7, m='/verif.Svc/Unary', b='probe', src='cliX', dst='srv', c=99))
        b.step('inj', dir='c2s', env=env(8, m='/verif.Svc/Bidi', src='cliX', dst='srv', c=98))
        b.step('inj', dir='c2s', env=env(8, m='/verif.Svc/Bidi', b='pb', src='cliX', dst='srv'))
        b.step('inj', dir='c2s', env=env(8, m='/verif.Svc/Bidi', st=(0, 'OK'), t=[], src='cliX', dst='srv'))
        return b.q().done()

    # a peer that sends more than the handler reads, and a handler that then returns
    for kind_m in ('/verif.Svc/Bidi', '/verif.Svc/SS', '/verif.Svc/CS'):
        for k in (1, 2, 3, 5):
            for tail in ('', 'close', 'rst'):
                b = B(fam, 'surplus: open, %d bodies%s, then the handler returns (%s)' % (k, ' + ' + tail if tail else '', kind_m[-4:]),
                      rawcli=True, ser=True)
                b.step('hops', c=301, hp=[])          # a scripted handler that does not read
                b.step('inj', dir='c2s', env=env(1, m=kind_m, src='cliX', dst='srv', c=301))
                for i in range(k):
                    b.step('inj', dir='c2s', env=env(1, m=kind_m, b='s%d' % i, src='cliX', dst='srv'))
                if tail == 'close':
                    b.step('inj', dir='c2s', env=env(1, m=kind_m, st=(0, 'OK'), t=[], src='cliX', dst='srv'))
                elif tail == 'rst':
                    b.step('inj', dir='c2s', env=env(1, m=kind_m, r='RST_STREAM', src='cliX', dst='srv'))
                b.step('hop', c=301, h=ret(code=0))
                b.q()
                b.step('inj', dir='c2s', env=env(7, m='/verif.Svc/Unary', b='probe', src='cliX', dst='srv', c=99))
                out.append(b.q().done())
    # the same envelope shape many times in a row (more often than the server has unary workers): nothing a
    # peer repeats may use the server up
    for name in A:
        for n in ((9, 17, 70) if tier == 'quick' else (8, 9, 10, 17, 40, 70, 150, 300)):
            out.append(scn([(name, 1 + (k % 2 if name not in ('s_body', 's_rawbody') else 0)) for k in range(n)],
                           'repeat %s x%d' % (name, n)))
    for s in syms:
        out.append(scn([s], '1: %s/%d' % s))
    pairs = list(itertools.product(syms, syms))
    if tier == 'quick':
        pairs = rng.sample(pairs, 700)
    for p in pairs:
        out.append(scn(list(p), '2: ' + ' '.join('%s/%d' % s for s in p)))
    nrand = 300 if tier == 'quick' else 20000
    for r_ in range(nrand):
        L = rng.choice([3, 3, 4, 4, 6, 12, 40]) if tier != 'quick' else rng.choice([3, 4, 8])
        seq = [rng.choice(syms) for _ in range(L)]
        out.append(scn(seq, '%d: ' % L + ' '.join('%s/%d' % s for s in seq)))
    return out


# ------------------------------------------------------------------ C13 -----

def cli_alphabet():
    """response shapes a peer may send to a client; (id, method of the id's owner)"""
    A = {}
    A['body_trailer'] = lambda i, m: env(i, m=m, b='r%d' % i, t=[])
    A['body'] = lambda i, m: env(i, m=m, b='b%d' % i)
    A['hdr_only'] = lambda i, m: env(i, m=m, md=[['k', 'v']])
    A['close_ok'] = lambda i, m: env(i, m=m, st=(0, 'OK'), t=[])
    A['close_nostatus'] = lambda i, m: env(i, m=m, t=[['tk', 'tv']])
    A['close_err'] = lambda i, m: env(i, m=m, st=(5, 'not found'), t=[])
    A['okstatus_body'] = lambda i, m: env(i, m=m, b='ok%d' % i, st=(0, 'OK'), t=[])
    A['err_body'] = lambda i, m: env(i, m=m, b='eb', st=(3, 'bad'), t=[])
    A['reset'] = lambda i, m: env(i, m=m, t=[], r='RST_STREAM')
    A['reset_bare'] = lambda i, m: env(i, m=m, r='RST_STREAM')
    A['nohdr_body'] = lambda i, m: env(i, noh=True, b='nh')
    A['nohdr_trailer'] = lambda i, m: env(i, noh=True, t=[], st=(0, 'OK'))
    A['badmd_hdr'] = lambda i, m: env(i, m=m, b='x', md=[['h-bin', '***']])
    A['badmd_hdr_len1'] = lambda i, m: env(i, m=m, b='x', md=[['h-bin', '*']])
    A['badmd_hdr_len5'] = lambda i, m: env(i, m=m, b='x', md=[['h-bin', 'QUJD*']])
    A['badmd_trailer_len1'] = lambda i, m: env(i, m=m, st=(0, 'OK'), t=[['t-bin', '*']])
    A['badmd_trailer'] = lambda i, m: env(i, m=m, st=(0, 'OK'), t=[['t-bin', '***']])
    # undecodable header metadata on an envelope that also ends the call (trailers-only replies)
    A['badmd_hdr_close_err'] = lambda i, m: env(i, m=m, md=[['h-bin', '***']], st=(7, 'denied'), t=[])
    A['badmd_hdr_close_ok'] = lambda i, m: env(i, m=m, md=[['h-bin', '***']], st=(0, 'OK'), t=[])
    A['badmd_hdr_upper'] = lambda i, m: env(i, m=m, b='x', md=[['H-Bin', '***']])
    A['badmd_trailer_upper'] = lambda i, m: env(i, m=m, st=(0, 'OK'), t=[['T-BIN', '***']])
    A['upperbin_hdr_ok'] = lambda i, m: env(i, m=m, b='x', md=[['H-BIN', 'AP8Q']])
    A['bigbin_hdr'] = lambda i, m: env(i, m=m, b='x', md=[['h-bin', _b64(65)], ['h2-bin', _b64(1001)]])
    A['bigbin_trailer'] = lambda i, m: env(i, m=m, st=(0, 'OK'), t=[['t-bin', _b64(68)], ['t2-bin', _b64(100)]])
    A['hdr_emptykey'] = lambda i, m: env(i, m=m, b='x', md=[['k', 'v'], ['', 'nokey']])
    A['trailer_emptykey'] = lambda i, m: env(i, m=m, st=(0, 'OK'), t=[['', 'nokey'], [':status', '200']])
    A['rawbody'] = lambda i, m: env(i, m=m, braw='@7:%d' % (i + 11))
    A['body_empty'] = lambda i, m: env(i, m=m, b='')                                    # a message that encodes to zero bytes
    A['body_empty_trailer'] = lambda i, m: env(i, m=m, b='', t=[])
    A['rawbody_trailer'] = lambda i, m: env(i, m=m, braw='@7:%d' % (i + 13), t=[])
    A['empty'] = lambda i, m: dict(id=i, noh=True)
    A['status_only'] = lambda i, m: env(i, m=m, st=(2, 'unknown'))
    return A


def c13(tier, rng, fam='C13'):
    out = []
    A = cli_alphabet()
    syms = [(name, i) for name in A for i in (1, 2, 9)]

    def scn(seq, tag, stats=0, order='us'):
        b = B(fam, tag, rawsrv=True, ser=True, cstats=stats)
        if order == 'us':
            b.step('ucall', c=1, pay='q')
            b.step('sopen', c=2, kind='bidi')
            meth = {1: METH['unary'], 2: METH['bidi'], 9: METH['bidi']}
        else:
            b.step('sopen', c=2, kind='bidi')
            b.step('ucall', c=1, pay='q')
            meth = {2: METH['unary'], 1: METH['bidi'], 9: METH['unary']}
        b.step('send', c=2, pay='x')
        b.step('recv', c=2, n=3)
        b.step('hdr', c=2)
        for (name, i) in seq:
            b.step('inj', dir='s2c', env=A[name](i, meth[i]))
        b.q()
        b.step('trl', c=2)
        # the connection is closed: reported as an error, or as io.EOF the way net.Pipe / TCP transports do
        b.step('fault', what='cread' if (len(seq) + stats) % 2 == 0 else 'creadeof')
        b.q()
        return b.done()

    # replies arriving back to back (queued, then released together): k answers to one unary call,
    # k unread answers on a stream whose caller then cancels or just stops reading
    for k in (2, 3, 4, 6):
        for stats in (0, 1):
            b = B(fam, 'burst: %d replies to one unary call, stats=%d' % (k, stats), rawsrv=True, ser=True, manual=True, cstats=stats)
            b.step('auto', dir='c2s', on=True)
            b.step('ucall', c=1, pay='q')
            for i in range(k):
                b.step('inj', dir='s2c', env=A['body_trailer'](1, METH['unary']))
            b.step('dlv', dir='s2c', n=-1)
            b.q()
            b.step('ucall', c=3, pay='probe', to=1000)
            b.step('inj', dir='s2c', env=env(2, m=METH['unary'], b='pong', t=[]))
            b.step('dlv', dir='s2c', n=-1)
            b.step('adv', ms=1001)
            b.q()
            b.step('fault', what='cread')
            out.append(b.q().done())
            for how in ('cancel',):
                b = B(fam, 'burst: %d unread stream responses then %s, stats=%d' % (k, how, stats), rawsrv=True, ser=True, manual=True, cstats=stats)
                b.step('auto', dir='c2s', on=True)
                b.step('sopen', c=2, kind='ss')
                b.step('send', c=2, pay='x')
                for i in range(k):
                    b.step('inj', dir='s2c', env=A['body'](1, METH['ss']))
                b.step('dlv', dir='s2c', n=-1)
                if how == 'cancel':
                    b.step('cancel', c=2)
                    b.q()
                    # what the caller does next on that stream fails - it does not report success without data
                    b.step('recv', c=2, n=2)
                    b.step('send', c=2, pay='after')
                    b.q()
                b.step('ucall', c=3, pay='probe', to=1000)
                b.step('inj', dir='s2c', env=env(2, m=METH['unary'], b='pong', t=[]))
                b.step('dlv', dir='s2c', n=-1)
                b.step('adv', ms=1001)
                if how == 'cancel':
                    b.q()
                b.step('fault', what='cread')
                out.append(b.q().done())
    for s in syms:
        out.append(scn([s], '1: %s/%d' % s))
    pairs = list(itertools.product(syms, syms))
    if tier == 'quick':
        pairs = rng.sample(pairs, 600)
    for p in pairs:
        out.append(scn(list(p), '2: ' + ' '.join('%s/%d' % s for s in p), stats=rng.choice([0, 0, 1])))
    nrand = 300 if tier == 'quick' else 20000
    for r_ in range(nrand):
        L = rng.choice([3, 3, 4, 4, 8, 12])
        seq = [rng.choice(syms) for _ in range(L)]
        out.append(scn(seq, '%d: ' % L + ' '.join('%s/%d' % s for s in seq), stats=rng.choice([0, 1]),
                       order=rng.choice(['us', 'su'])))
    return out


# ------------------------------------------------------------------ C05 -----

def multiset_perms(counts):
    """all interleavings of k sequences with the given lengths, as lists of owner indexes"""
    total = sum(counts)

    def rec(rem, acc):
        if len(acc) == total:
            yield list(acc)
            return
        for i, r in enumerate(rem):
            if r > 0:
                rem[i] -= 1
                acc.append(i)
                yield from rec(rem, acc)
                acc.pop()
                rem[i] += 1
    yield from rec(list(counts), [])


def c05(tier, rng, fam='C05'):
    out = []
    # (a) raw server answering k outstanding calls with every interleaving of their response envelopes
    shapes = [((3, 3), ('bidi', 'bidi')), ((3, 1), ('bidi', 'unary')), ((1, 1, 1), ('unary', 'unary', 'unary')),
              ((2, 2, 2), ('ss', 'bidi', 'cs'))]
    if tier != 'quick':
        shapes += [((3, 3, 3), ('bidi', 'ss', 'bidi')), ((2, 2, 2, 2), ('bidi', 'ss', 'cs', 'bidi')), ((3, 2, 1), ('bidi', 'ss', 'unary'))]
    for counts, kinds in shapes:
        perms = list(multiset_perms(counts))
        if tier == 'quick' and len(perms) > 120:
            perms = rng.sample(perms, 120)
        for pi, perm in enumerate(perms):
            b = B(fam, 'raw server, calls %s, interleaving %s' % ('/'.join(kinds), ''.join(map(str, perm))), rawsrv=True, ser=True)
            nrecv = {}
            for i, kind in enumerate(kinds):
                c = i + 1
                if kind == 'unary':
                    b.step('ucall', c=c, pay='q%d' % c)
                else:
                    b.step('sopen', c=c, kind=kind)
                    b.step('send', c=c, pay='x%d' % c)
                    b.step('recv', c=c, n=counts[i])
                    b.step('hdr', c=c)
            pos = [0] * len(kinds)
            for owner in perm:
                c = owner + 1
                kind = kinds[owner]
                j = pos[owner]
                pos[owner] += 1
                last = (j == counts[owner] - 1)
                if kind == 'unary':
                    e = env(c, m=METH['unary'], b='rep%d' % c, t=[])
                elif last:
                    e = env(c, m=METH[kind], st=(0, 'OK'), t=[['tr', 'c%d' % c]])
                else:
                    e = env(c, m=METH[kind], b='c%d.m%d' % (c, j), md=[['hd', 'c%d' % c]] if j == 0 else None)
                b.step('inj', dir='s2c', env=e)
            for i, kind in enumerate(kinds):
                if kind != 'unary':
                    b.step('trl', c=i + 1)
            out.append(b.q().done())
    # (b) raw client interleaving the request envelopes of k streams into a real server (echo handlers)
    sshapes = [((3, 3), ('bidi', 'bidi')), ((3, 2), ('bidi', 'unary2'))]
    if tier != 'quick':
        sshapes += [((3, 3, 3), ('bidi', 'bidi', 'bidi')), ((4, 3), ('bidi', 'bidi'))]
    for counts, kinds in sshapes:
        perms = list(multiset_perms(counts))
        if tier == 'quick' and len(perms) > 60:
            perms = rng.sample(perms, 60)
        for perm in perms:
            b = B(fam, 'raw client, streams %s, interleaving %s' % ('/'.join(kinds), ''.join(map(str, perm))), rawcli=True, ser=True)
            pos = [0] * len(kinds)
            for owner in perm:
                i = owner + 1
                j = pos[owner]
                pos[owner] += 1
                n = counts[owner]
                if kinds[owner] == 'unary2':   # two independent unary requests
                    e = env(10 + j, m=METH['unary'], b='u%d' % j, src='cliX', dst='srv', c=200 + j)
                elif j == 0:
                    e = env(i, m=METH['bidi'], src='cliX', dst='srv', c=100 + i)
                elif j == n - 1:
                    e = env(i, m=METH['bidi'], st=(0, 'OK'), t=[], src='cliX', dst='srv')
                else:
                    e = env(i, m=METH['bidi'], b='s%d.m%d' % (i, j), src='cliX', dst='srv')
                b.step('inj', dir='c2s', env=e)
            out.append(b.q().done())
    # (b2) calls sharing "common" metadata objects: no call sees another call's headers or trailers
    for sc_ in c04('quick', rng, fam=fam):
        if 'four calls sharing' in sc_['tag']:
            out.append(sc_)
    # (c) many goroutines starting calls at once: ids pairwise distinct, replies not mixed up
    for k, reps in ([(16, 4), (64, 4)] if tier == 'quick' else [(8, 4), (16, 8), (32, 8), (64, 8)]):
        for r_ in range(reps):
            big = (r_ % 2 == 1) or (r_ % 4 == 2)     # payloads above the codec's 1 KiB pooling threshold, both transport encodings
            b = B(fam, '%d calls started at once%s #%d' % (k, ', 3 KiB payloads' if big else '', r_), ser=bool(r_ % 4 in (0, 1)))
            P_ = (lambda s, c: '@%d:%d' % (3000 + c, 7 * c + len(s))) if big else (lambda s, c: '%s%d' % (s, c))
            for c in range(1, k + 1):
                if c % 3:
                    b.step('ucall', c=c, pay=P_('q', c), hp=[ret(pay=P_('p', c))], nw=True)
                else:
                    b.step('sopen', c=c, kind='bidi', hp=[dict(o='echo')], nw=True)
                    b.step('send', c=c, pay=P_('s', c), nw=True)
                    b.step('close', c=c, nw=True)
                    b.step('recv', c=c, n=2, nw=True)
            b.step('wait')
            out.append(b.q().done())
    out += refused_write_then_calls(fam)
    out += paused_handler_backlog(fam)
    out += random_programs(fam, 60 if tier == 'quick' else 1500, rng, maxcalls=6)
    out += slow_reader(fam, tier)
    # (d) a unary call given up at the very moment its reply has been handed to it (both branches of the
    # caller's select are ready: Go picks either): whatever that call reports, the NEXT calls get their own
    # replies - nothing of an abandoned call may survive into a later one
    for r_ in range(2 if tier == 'quick' else 8):
        b = B(fam, 'unary calls given up as their reply arrives #%d' % r_, ser=bool(r_ % 2))
        c = 0
        for _ in range(8):
            c += 1
            b.step('arm', gate='mux.await.window', n=1)
            b.step('ucall', c=c, pay='q%d' % c, hp=[ret(pay='p%d' % c)])     # parks after the request is written
            b.q()                                                           # ... the reply is in its queue
            b.step('cancel', c=c)
            b.step('rel', gate='mux.await.window')
            b.q()
            c += 1
            b.step('ucall', c=c, pay='q%d' % c, hp=[ret(pay='p%d' % c)])
            b.q()
        out.append(b.done())
    return out


# ------------------------------------------------------------------ C14 -----

def c14(tier, rng, fam='C14'):
    """moderate histories with every outcome, stepped through the full specification;
    a census after every RPC"""
    out = []
    nscn, nrpc = (6, 40) if tier == 'quick' else (40, 150)
    for si in range(nscn):
        b = B(fam, 'history #%d of %d RPCs with all outcomes' % (si, nrpc), ser=bool(si % 2))
        for c in range(1, nrpc + 1):
            kind = rng.choice(['unary', 'unary', 'bidi', 'cs', 'ss'])
            outc = rng.choice(['ok', 'ok', 'herr', 'cancel', 'deadline', 'earlyret', 'failopen', 'failsend', 'cancelunread'])
            if outc == 'cancelunread' and kind in ('unary', 'cs'):
                outc = 'cancel' 
            if outc == 'failsend' and kind in ('unary', 'ss'):
                outc = 'ok' 
            if outc == 'failopen':
                b.step('fault', what='cwrite')
                if kind == 'unary':
                    b.step('ucall', c=c, pay='q%d' % c, hp=[ret()])
                else:
                    b.step('sopen', c=c, kind=kind, hp=[dict(o='echo')])
                b.step('unfault', what='cwrite')
            elif kind == 'unary':
                if outc in ('herr', 'earlyret'):
                    b.step('ucall', c=c, pay='q%d' % c, hp=[ret(code=5, msg='no')])
                elif outc == 'cancel':
                    b.step('ucall', c=c, pay='q%d' % c, hp=[])
                    b.step('cancel', c=c)
                    b.step('hop', c=c, h=ret(pay='late'))
                elif outc == 'deadline':
                    b.step('ucall', c=c, pay='q%d' % c, to=20, hp=[dict(o='ctxwait'), ret(code=4, msg='dl')])
                    b.step('adv', ms=21)
                else:
                    b.step('ucall', c=c, pay='q%d' % c, hp=[ret(pay='p%d' % c)])
            else:
                n = rng.choice([0, 1, 2])
                if outc == 'ok':
                    stream_scn(fam, '', kind, rng.choice(['sendall', 'pingpong']),
                               'echo' if kind == 'bidi' else 'afterEOF', n, rng.choice([0, 1, 2]), c=c, b=b)
                elif outc == 'herr':
                    b.step('sopen', c=c, kind=kind, hp=[dict(o='recv'), ret(code=9, msg='failed')])
                    b.step('send', c=c, pay='x').step('close', c=c).step('recv', c=c, n=2)
                elif outc == 'earlyret':
                    b.step('sopen', c=c, kind=kind, hp=[ret()])
                    b.step('send', c=c, pay='x').step('send', c=c, pay='y').step('close', c=c).step('recv', c=c, n=2)
                elif outc == 'cancelunread':
                    # the caller takes one result, then cancels with more queued, and never receives again
                    m_ = rng.choice([1, 2])
                    b.step('sopen', c=c, kind=kind, hp=[dict(o='recv')] + [dict(o='send', pay='u%d' % i) for i in range(m_ + 1)] + [dict(o='ctxwait'), ret(code=1, msg='gone')])
                    b.step('send', c=c, pay='go')
                    b.step('recv', c=c)
                    b.step('cancel', c=c)
                elif outc == 'failsend':
                    # one write is refused while the connection stays up: the stream dies by its own Send
                    b.step('sopen', c=c, kind=kind, hp=[dict(o='ctxwait'), ret(code=1, msg='gone')])
                    b.step('fault', what='cwrite1')
                    b.step('send', c=c, pay='x')
                    b.step('recv', c=c)
                elif outc == 'cancel':
                    b.step('sopen', c=c, kind=kind, hp=[dict(o='ctxwait'), ret(code=1, msg='gone')])
                    b.step('send', c=c, pay='x')
                    b.step('cancel', c=c)
                    b.step('recv', c=c)
                else:
                    b.step('sopen', c=c, kind=kind, to=20, hp=[dict(o='ctxwait'), ret(code=4, msg='dl')])
                    b.step('adv', ms=21)
                    b.step('recv', c=c)
            b.q()
        out.append(b.done())
    # a Send whose write is refused (the connection stays up) ends the stream; the stream's read loop may
    # finish anywhere relative to the teardown done by that Send - in particular between the
    # unregistration and the cancellation of the stream's context.  The server must be told every time.
    for kind in ('bidi', 'cs'):
        for window in (False, True):
            b = B(fam, 'failed send (%s), read loop ends %s' % (kind, 'inside the teardown window' if window else 'after the teardown'), ser=True)
            b.step('sopen', c=1, kind=kind, hp=[dict(o='ctxwait'), ret(code=1, msg='gone')])
            b.q()
            if window:
                b.step('arm', gate='cs.teardown.window', n=1)
            b.step('fault', what='cwrite1')
            b.step('send', c=1, pay='x')
            b.q()
            if window:
                b.step('rel', gate='cs.teardown.window')
            b.step('recv', c=1)
            b.q()
            b.step('ucall', c=2, pay='after', hp=[ret(pay='fine')])
            out.append(b.q().done())
    # late messages for a finished stream (some encode to zero bytes) must not leave anything registered
    out += late_messages(fam)
    out += unencodable_send(fam)
    out += lost_reset(fam, 3)
    out += ends_while_another_write_is_stuck(fam)
    out += random_programs(fam, 60 if tier == 'quick' else 1500, rng)
    # a unary call given up (cancel / deadline) while its reply is still on its way - or never comes: nothing
    # stays registered for it, whether or not the reply turns up later
    for how in ('cancel', 'deadline'):
        for late in (False, True):
            b = B(fam, 'unary call given up by %s, its reply %s' % (how, 'arrives later' if late else 'never arrives'), ser=True, manual=True)
            b.step('auto', dir='c2s', on=True)
            b.step('ucall', c=1, pay='q1', hp=[ret(pay='p1')], **({'to': 20} if how == 'deadline' else {}))
            b.q()
            if how == 'cancel':
                b.step('cancel', c=1)
            else:
                b.step('adv', ms=21)
            b.q()
            if late:
                b.step('ucall', c=2, pay='q2', hp=[ret(pay='p2')])
                b.step('dlv', dir='s2c', n=-1)
            out.append(b.q().done())
    return out


def c14_long(tier, rng, fam='C14'):
    """long self-driving histories, slim trace"""
    if tier == 'quick':
        return [dict(fam=fam, tag='history of 1250 RPCs, 32 at a time, seed %d' % s, runner='history', n=1250, par=32,
                     seed=rng.randrange(1 << 30), steps=[dict(op='history')]) for s in range(8)]
    return [dict(fam=fam, tag='history of 62500 RPCs, 32 at a time, seed %d' % s, runner='history', n=62500, par=32,
                 seed=rng.randrange(1 << 30), steps=[dict(op='history')]) for s in range(16)]


def c05_long(tier, rng, fam='C05'):
    n = 1250 if tier == 'quick' else 6250
    return [dict(fam=fam, tag='id allocation over a history of %d RPCs, seed %d' % (n, s), runner='history', n=n, par=64,
                 seed=rng.randrange(1 << 30), steps=[dict(op='history')]) for s in range(8 if tier == 'quick' else 16)]


# ------------------------------------------------------------------ C06 -----

def c06(tier, rng, fam='C06'):
    """every wire history produced by the program families of C01-C04, C07 and C11 is judged
    per id and direction by the wire-protocol rules (rule group 'wire')"""
    from . import gen
    out = []
    sub = 'quick'
    fams = [gen.c01, gen.c02, gen.c03, c07, c11, c04]
    for g in fams:
        ss = g(sub if tier == 'quick' else tier, rng)
        if tier == 'quick' and len(ss) > 150:
            # (the families whose point is the ORDER of envelopes on the wire are always in)
            keep = [x for x in ss if 'two goroutines' in x.get('tag', '')]
            rest = [x for x in ss if 'two goroutines' not in x.get('tag', '')]
            ss = keep + rng.sample(rest, 150 - len(keep))
        for s in ss:
            s['ofam'] = s['fam']
            s['fam'] = fam
            out.append(s)
    # messages that arrive after the handler has returned - including messages that encode to zero bytes -
    # are answered with at most a reset: nothing follows a stream's trailer, no second handler runs
    out += late_messages(fam)
    out += late_body_before_trailer(fam)
    out += body_in_hand_at_return(fam)
    out += unencodable_send(fam)
    out += unencodable_elsewhere(fam)
    out += failed_opens(fam)
    out += nameless_server(fam)
    out += legal_oddities(fam)
    out += random_programs(fam, 150 if tier == 'quick' else 3000, rng)
    return out


# ------------------------------------------------------------------ C04 -----

KEYCHARS = 'abcdefghijklmnopqrstuvwxyz0123456789-_.'


def rnd_key(rng, binary=False):
    n = rng.randrange(1, 12)
    k = ''.join(rng.choice(KEYCHARS) for _ in range(n))
    if k.startswith('grpc-') or k in ('x-verif-call',):
        k = 'k' + k
    k = ''.join(ch.upper() if rng.random() < .3 else ch for ch in k)
    if k.lower().endswith('-bin'):
        k = k + 'x'
    return k + ('-bin' if not binary else ('-BIN' if rng.random() < .3 else '-bin')) if binary else k


def rnd_val(rng, binary):
    if not binary:
        n = rng.randrange(0, 20)
        v = ''.join(chr(rng.randrange(0x20, 0x7f)) for _ in range(n))
        return v if not v.startswith('@') else '.' + v[1:]      # ('@x:' / '@n:' prefixes are the scenario language's own)
    n = rng.choice([0, 1, 2, 3, 16, 33, 255])
    special = [0x00, 0xff, 0x0a, 0x2c, 0x3d, 0x80]
    return '@x:' + ''.join('%02x' % (rng.choice(special) if rng.random() < .3 else rng.randrange(256)) for _ in range(n))


def rnd_md(rng, nkeys=None, avoid=()):
    """a metadata set as a list of [key, value]; no two keys collide after lower-casing"""
    nkeys = rng.randrange(0, 17) if nkeys is None else nkeys
    out, seen = [], set(a.lower() for a in avoid)
    for _ in range(nkeys):
        binary = rng.random() < .4
        k = rnd_key(rng, binary)
        if k.lower() in seen:
            continue
        seen.add(k.lower())
        for _ in range(rng.randrange(1, 5)):
            out.append([k, rnd_val(rng, binary)])
    return out


def metadata_paths(unary, maxops):
    """every complete operation sequence of the emission machine, enumerated by TLC (spec/Metadata.tla)"""
    import re
    import tempfile
    from . import core
    cfg = ('SPECIFICATION Spec\nCONSTANTS Sets = {1, 2}\nMaxOps = %d\nUnary = %s\nPrintPaths = TRUE\n'
           'INVARIANTS MdOnlyOnFirst FirstCarriesAll HeadersFinal TrailerLast UnaryOneResponse\nCHECK_DEADLOCK FALSE\n'
           % (maxops, 'TRUE' if unary else 'FALSE'))
    work = tempfile.mkdtemp(prefix='mdpaths', dir=core.OUT)
    rc, out = core.tlc('Metadata.tla', cfg, work, workers=1, tag='md')
    import shutil
    shutil.rmtree(work, ignore_errors=True)
    if 'No error has been found' not in out:
        raise core.Inconclusive('Metadata.tla failed:\n' + out[-2000:])
    paths = []
    for seg in re.findall(r'<<\s*"PATH"\s*,(.*?)>>\s*>>', out, re.S):   # TLC wraps long values over several lines
        p = [(m.group(2), int(m.group(1))) for m in re.finditer(r'\[\s*i\s*\|->\s*(\d+),\s*op\s*\|->\s*"(\w+)"\s*\]', seg)]
        if not p or p[-1][0] not in ('retok', 'reterr'):
            raise core.Inconclusive('cannot parse a path printed by Metadata.tla: ' + seg[:200])
        paths.append(p)
    if not paths:
        raise core.Inconclusive('Metadata.tla printed no paths')
    return paths


def c04(tier, rng, fam='C04'):
    out = []
    os_ = __import__('os')
    os_.makedirs('/verif/out', exist_ok=True)
    maxops = 3 if tier == 'quick' else 4
    valsets = [
        {1: [['alpha', 'a1'], ['Mixed-Key', 'v1'], ['bin-key-bin', '@x:00ff10']], 2: [['alpha', 'a2'], ['beta', ''], ['bin-key-bin', '@x:']]},
        {1: rnd_md(rng, 3), 2: rnd_md(rng, 4)},
    ]
    if tier != 'quick':
        valsets += [{1: rnd_md(rng, 6), 2: rnd_md(rng, 2)} for _ in range(6)]

    def hops(path, vs):
        ops = []
        for op, i in path:
            if op in ('sethdr', 'sendhdr', 'settrl'):
                ops.append(dict(o=op, md=vs[i]))
            elif op == 'send':
                ops.append(dict(o='send', pay='m%d' % len(ops)))
            elif op == 'retok':
                ops.append(ret())
            else:
                ops.append(ret(code=5, msg='not found'))
        return ops

    spaths = metadata_paths(False, maxops)
    upaths = metadata_paths(True, maxops)
    for vi, vs in enumerate(valsets):
        sp = spaths if (tier != 'quick' or vi == 0) else rng.sample(spaths, min(200, len(spaths)))
        for path in sp:
            kind = 'ss' if sum(1 for o, _ in path if o == 'send') > 1 or rng.random() < .5 else 'bidi'
            nsend = sum(1 for o, _ in path if o == 'send')
            b = B(fam, '%s ops %s values#%d' % (kind, ' '.join('%s%s' % (o, i or '') for o, i in path), vi), ser=True)
            b.step('sopen', c=1, kind=kind, md=rnd_md(rng, 2) if vi else [['req-key', 'rv'], ['req-bin', '@x:0001ff']],
                   hp=[dict(o='recv'), dict(o='recv')] + hops(path, vs))
            b.step('send', c=1, pay='x')
            b.step('close', c=1)
            b.step('hdr', c=1)
            b.step('recv', c=1, n=nsend + 1)
            b.step('trl', c=1)
            out.append(b.q().done())
        up = upaths if (tier != 'quick' or vi == 0) else rng.sample(upaths, min(100, len(upaths)))
        for path in up:
            b = B(fam, 'unary ops %s values#%d' % (' '.join('%s%s' % (o, i or '') for o, i in path), vi), ser=True)
            b.step('ucall', c=1, pay='q', md=rnd_md(rng, 2), hp=hops(path, vs)[:-1] + [dict(hops(path, vs)[-1], pay='rep')])
            out.append(b.q().done())
    # several calls in one scenario whose handlers pass the same "common" metadata first and per-call values second:
    # nothing of one call may show up in another (the harness hands the library ONE object per distinct set)
    for kind in ('bidi', 'ss', 'cs', 'unary'):
        for way in ('sendhdr', 'firstmsg', 'trailer'):
            b = B(fam, '%s four calls sharing common header/trailer objects, headers via %s' % (kind, way), ser=True)
            common_h, common_t = [['common', 'h'], ['Svc-Id', 'x1']], [['common-t', 't']]
            for c in range(1, 5):
                own_h, own_t = [['call', 'c%d' % c], ['common', 'own%d' % c]], [['call-done', 'c%d' % c]]
                hp = [dict(o='sethdr', md=common_h)]
                if kind == 'unary':
                    hp += [dict(o='sethdr', md=own_h), dict(o='settrl', md=common_t), dict(o='settrl', md=own_t), ret(pay='rep%d' % c)]
                    b.step('ucall', c=c, pay='q%d' % c, hp=hp)
                else:
                    hp = [dict(o='drain')] + hp
                    if way == 'sendhdr':
                        hp += [dict(o='sendhdr', md=own_h), dict(o='send', pay='m')]
                    elif way == 'firstmsg':
                        hp += [dict(o='sethdr', md=own_h), dict(o='send', pay='m')]
                    else:
                        hp += [dict(o='sethdr', md=own_h)]
                    hp += [dict(o='settrl', md=common_t), dict(o='settrl', md=own_t), ret()]
                    b.step('sopen', c=c, kind=kind, hp=hp)
                    b.step('send', c=c, pay='x').step('close', c=c).step('hdr', c=c).step('recv', c=c, n=2).step('trl', c=c)
            out.append(b.q().done())
    # the same with the calls in flight AT THE SAME TIME (their handlers have set everything and wait) and a common value
    # list with spare capacity (three values: Go grows the slice to four) - a merge that keeps the caller's slice and
    # appends in place makes the calls write into one another's metadata
    for kind in ('unary', 'bidi'):
        for rep in range(2):
            b = B(fam, '%s four calls in flight sharing common header/trailer objects #%d' % (kind, rep), ser=bool(rep))
            common_h = [['common', 'h1'], ['common', 'h2'], ['common', 'h3'], ['Svc-Id', 'x1']]
            common_t = [['common-t', 't1'], ['common-t', 't2'], ['common-t', 't3']]
            for c in range(1, 5):
                own_h, own_t = [['call', 'c%d' % c], ['common', 'own%d' % c]], [['call-done', 'c%d' % c], ['common-t', 'own-t%d' % c]]
                hp = [dict(o='sethdr', md=common_h), dict(o='sethdr', md=own_h), dict(o='settrl', md=common_t), dict(o='settrl', md=own_t)]
                if kind == 'unary':
                    b.step('ucall', c=c, pay='q%d' % c, hp=hp)
                else:
                    b.step('sopen', c=c, kind=kind, hp=[dict(o='recv')] + hp)
                    b.step('send', c=c, pay='x')
            b.q()
            for c in (3, 1, 4, 2):
                if kind == 'unary':
                    b.step('hop', c=c, h=ret(pay='rep%d' % c))
                else:
                    b.step('hops', c=c, hp=[dict(o='send', pay='m'), dict(o='drain'), ret()])
                    b.step('hdr', c=c).step('recv', c=c).step('close', c=c).step('recv', c=c).step('trl', c=c)
            out.append(b.q().done())
    # random metadata sets on every kind: request metadata, headers in the three ways, trailers
    n = 60 if tier == 'quick' else 1250
    for r_ in range(n):
        for kind in ('unary', 'bidi', 'cs', 'ss'):
            req, h1, h2, t1, t2 = rnd_md(rng), rnd_md(rng, rng.randrange(0, 5)), rnd_md(rng, rng.randrange(0, 5)), rnd_md(rng, rng.randrange(0, 5)), rnd_md(rng, rng.randrange(0, 4))
            way = rng.choice(['sendhdr', 'firstmsg', 'trailer'])
            code = rng.choice([0, 0, 7])
            b = B(fam, '%s random metadata #%d headers via %s code=%d' % (kind, r_, way, code), ser=bool(r_ % 2))
            via = {'via': 'ctx'} if (kind != 'unary' and r_ % 3 == 0) else {}     # grpc.SetHeader(ctx, ...) & co. in a stream handler
            hp = [dict(o='sethdr', md=h1, **via)]
            if kind == 'unary':
                hp += [dict(o='sendhdr' if way == 'sendhdr' else 'sethdr', md=h2), dict(o='settrl', md=t1), dict(o='settrl', md=t2),
                       ret(code=code, msg='denied' if code else '', pay='rep')]
                b.step('ucall', c=1, pay='q', md=req, hp=hp)
            else:
                hp = [dict(o='drain')] + hp
                if way == 'sendhdr':
                    hp += [dict(o='sendhdr', md=h2, **via), dict(o='send', pay='m0')]
                elif way == 'firstmsg':
                    hp += [dict(o='sethdr', md=h2, **via), dict(o='send', pay='m0')]
                else:
                    hp += [dict(o='sethdr', md=h2, **via)]
                hp += [dict(o='settrl', md=t1, **via), dict(o='settrl', md=t2), ret(code=code, msg='denied' if code else '')]
                b.step('sopen', c=1, kind=kind, md=req, hp=hp)
                b.step('send', c=1, pay='x').step('close', c=1).step('hdr', c=1).step('recv', c=1, n=2).step('trl', c=1)
            out.append(b.q().done())
    out += concurrent_header_and_send(fam, 10 if tier == 'quick' else 200)
    out += same_key_other_case(fam, 9 if tier == 'quick' else 90)
    out += binary_value_sizes(fam)
    out += [x for x in unencodable_elsewhere(fam) if 'sets headers' in x['tag']]
    # header / trailer calls in unusual order (Trailer before the end, Header again and again, SendHeader twice ...)
    out += [x for x in legal_oddities(fam) if any(w in x['tag'] for w in ('Trailer', 'Header', 'SetTrailer', 'SetHeader', 'SendHeader'))]
    return out


# ------------------------------------------------------------- C01 (storm) -----

def c01_storm(tier, rng, fam='C01'):
    """waves of unary calls released at the same instant on one connection; each caller checks its own reply"""
    n, reps = (12800, 8) if tier == 'quick' else (64000, 16)
    out = []
    for s_ in range(reps):
        big = (s_ % 4 == 3)
        m = n // (16 if big else 1)
        out.append(dict(fam=fam, tag='storm of %d unary calls, 64 at a time, %s payloads, seed %d' % (m, 'large' if big else 'small', s_),
                        runner='history', n=m, par=64, storm=True, big=big, seed=rng.randrange(1 << 30),
                        steps=[dict(op='storm')]))
    return out


def c02_storm(tier, rng, fam='C02'):
    """the same waves judged for C02: a third of the calls of a wave are bidirectional echo streams"""
    n, reps = (6400, 4) if tier == 'quick' else (64000, 8)
    out = []
    for s_ in range(reps):
        big = (s_ % 2 == 1)
        m = n // (8 if big else 1)
        out.append(dict(fam=fam, tag='storm of %d calls (every third a bidi echo stream), 64 at a time, %s payloads, seed %d' % (m, 'large' if big else 'small', s_),
                        runner='history', n=m, par=64, storm=True, big=big, seed=rng.randrange(1 << 30),
                        steps=[dict(op='storm')]))
    return out


def late_messages(fam):
    """the caller keeps sending (it has not seen the trailer yet: responses are held back) after the handler
    has returned; some of the late messages encode to zero bytes"""
    out = []
    for kind in ('bidi', 'cs'):
        for late in (['z'], [''], ['', ''], ['', 'z', '']):
            for code in (0, 5):
                b = B(fam, '%s: late messages %s after the handler returned code %d' % (kind, '|'.join(x or '0' for x in late), code),
                      ser=True, manual=True)
                b.step('sopen', c=1, kind=kind, hp=[dict(o='recv'), ret(code=code, msg='done' if code else '')])
                b.step('send', c=1, pay='first')
                b.step('dlv', dir='c2s', n=-1)
                b.q()                                   # the handler has returned; its trailer is held back
                for x in late:
                    b.step('send', c=1, pay=x)
                b.step('close', c=1)
                b.step('dlv', dir='c2s', n=-1)
                b.q()
                b.step('dlv', dir='s2c', n=-1)
                b.step('recv', c=1, n=2)
                b.step('ucall', c=2, pay='probe', hp=[ret(pay='fine')])
                b.step('dlv', dir='c2s', n=-1)
                b.step('dlv', dir='s2c', n=-1)
                out.append(b.q().done())
    return out


def route_echo(tier, rng, fam='C16'):
    """a server answers along the recorded route: requests arrive with route records of 0..4 hops (as after
    that many proxies); every unary reply, error reply and reset carries the record without its last hop as
    return route, in order (server.go: processUnaryRpc, resetStream)"""
    out = []
    hops = ['pA', 'pB', 'pC', 'pD']
    U, S = METH['unary'], METH['bidi']
    for n in range(0, 5):
        for ser in (True, False):
            rec = hops[:n]
            b = B(fam, 'return route for a request that crossed %d proxies (%s)' % (n, 'serialising' if ser else 'by reference'), rawcli=True, ser=ser)
            e = env(1, m=U, b='q1', src='cliX', dst='srv', c=101); e['rec'] = list(rec)
            b.step('hops', c=101, hp=[ret(pay='p1')])
            b.step('inj', dir='c2s', env=e)
            e = env(2, m=U, b='q2', src='cliX', dst='srv', c=102); e['rec'] = list(rec)
            b.step('hops', c=102, hp=[ret(code=5, msg='nope')])
            b.step('inj', dir='c2s', env=e)
            e = env(3, m=U, b='q3', src='cliX', dst='srv', md=[['k-bin', '!!!notbase64']], c=103); e['rec'] = list(rec)
            b.step('inj', dir='c2s', env=e)
            e = env(4, m=S, b='late', src='cliX', dst='srv'); e['rec'] = list(rec)
            b.step('inj', dir='c2s', env=e)
            e = env(5, m=U, b='q5', src='cliX', dst='srv', c=105); e['rec'] = list(reversed(rec))
            b.step('hops', c=105, hp=[ret(pay='p5')])
            b.step('inj', dir='c2s', env=e)
            out.append(b.q().done())
    # complete calls and streams of real clients through proxy + demux, both encodings of the links: every envelope of
    # a call - the fifth message of a stream like its opening - crosses the relay with the relay's name recorded once
    from . import gen
    base = [x for x in gen.c02('quick', rng) + gen.c01('quick', rng) if not x.get('topo')]
    rv = gen.relay_variants(base, 'thorough', rng)
    rv = rng.sample(rv, min(len(rv), 80 if tier == 'quick' else 800))
    for x in rv:
        x['ofam'], x['fam'] = x['fam'], fam
    return out + rv + no_metadata_at_all(fam)


# ------------------------------------------------------------- gate sweep -----

SWEEP_GATES = ['mux.call.window', 'mux.await.window', 'cs.recv.window', 'cs.send.window', 'cs.read.window',
               'srv.writer.window', 'srv.forward.window', 'srv.stream.returned', 'srv.stream.exit', 'cs.teardown.window']


def _sweep_bases():
    H = 3600 * 1000
    return {
        'unary': [('ucall', dict(c=1, pay='q1', hp=[ret(pay='p1')]))],
        'echo': [('sopen', dict(c=1, kind='bidi', hp=[dict(o='echo')])), ('send', dict(c=1, pay='a')), ('recv', dict(c=1)),
                 ('send', dict(c=1, pay='b')), ('recv', dict(c=1)), ('close', dict(c=1)), ('recv', dict(c=1))],
        'herr': [('sopen', dict(c=1, kind='bidi', hp=[dict(o='recv'), ret(code=5, msg='no')])), ('send', dict(c=1, pay='a')),
                 ('send', dict(c=1, pay='b')), ('close', dict(c=1)), ('recv', dict(c=1, n=2))],
        # the handler answers and returns successfully before the caller has half-closed (the caller keeps sending)
        'earlyok': [('sopen', dict(c=1, kind='bidi', hp=[dict(o='recv'), dict(o='send', pay='r0'), ret()])), ('send', dict(c=1, pay='a')),
                    ('send', dict(c=1, pay='b')), ('recv', dict(c=1)), ('send', dict(c=1, pay='c')), ('recv', dict(c=1, n=2))],
        'cancel': [('sopen', dict(c=1, kind='bidi', hp=[dict(o='recv'), dict(o='send', pay='u0'), dict(o='ctxwait'), ret(code=1, msg='gone')])),
                   ('send', dict(c=1, pay='a')), ('recv', dict(c=1)), ('cancel', dict(c=1)), ('recv', dict(c=1))],
        'failsend': [('sopen', dict(c=1, kind='bidi', hp=[dict(o='ctxwait'), ret(code=1, msg='gone')])), ('fault', dict(what='cwrite1')),
                     ('send', dict(c=1, pay='x')), ('recv', dict(c=1))],
        'ss': [('sopen', dict(c=1, kind='ss', hp=[dict(o='recv')] + [dict(o='send', pay='s%d' % i) for i in range(3)] + [ret()])),
               ('send', dict(c=1, pay='q')), ('close', dict(c=1)), ('recv', dict(c=1, n=4))],
        'cs': [('sopen', dict(c=1, kind='cs', hp=[dict(o='drain'), dict(o='send', pay='sum'), ret()])), ('send', dict(c=1, pay='a')),
               ('send', dict(c=1, pay='b')), ('close', dict(c=1)), ('recv', dict(c=1, n=2))],
        'deadline': [('sopen', dict(c=1, kind='bidi', to=20, hp=[dict(o='ctxwait'), ret(code=4, msg='dl')])), ('adv', dict(ms=21)), ('recv', dict(c=1))],
    }


def gate_sweep(tier, rng, fam, sample=None, only=None, gates=None, must=()):
    """systematic schedules: every base conversation x every instrumented window x every (arm, release)
    position - the first goroutine to reach the window after step i is held there until after step j while
    everything else runs to quiescence; at the end nothing is pending, registered or running"""
    out = []
    for bname, steps in _sweep_bases().items():
        if only and bname not in only:
            continue
        for gate in (gates or SWEEP_GATES):
            if gate == 'cs.teardown.window' and bname != 'failsend':
                continue      # elsewhere its first visitor holds the stream's state lock (a mutex: not a durable block)
            n = len(steps)
            for i in range(0, n):
                for j in range(i, n):
                    b = B(fam, 'sweep %s: %s held from step %d until after step %d' % (bname, gate, i, j), ser=bool((i + j) % 2))
                    for k, (op, kw) in enumerate(steps):
                        if k == i:
                            b.step('arm', gate=gate, n=1)
                        b.step(op, **kw)
                        b.q()
                        if k == j:
                            b.step('rel', gate=gate)
                            b.q()
                    b.step('ucall', c=9, pay='probe', hp=[ret(pay='fine')])
                    out.append(b.q().done())
    if sample and len(out) > sample:
        keep = [x for x in out if any(m in x['tag'] for m in must)]      # schedules every run includes
        rest = [x for x in out if not any(m in x['tag'] for m in must)]
        out = keep + rng.sample(rest, max(0, min(len(rest), sample - len(keep))))
    return out


def sweep_c14(tier, rng, fam='C14'):
    return gate_sweep(tier, rng, fam, sample=160 if tier == 'quick' else None) + end_while_reader_holds_envelope(fam)


def sweep_c11(tier, rng, fam='C11'):
    return gate_sweep(tier, rng, fam, sample=120 if tier == 'quick' else None)


def sweep_c02(tier, rng, fam='C02'):
    # how a stream ends for its caller when one of the caller's own operations is held in a window while the stream finishes
    return gate_sweep(tier, rng, fam, sample=90 if tier == 'quick' else None, only=('echo', 'earlyok', 'ss', 'cs'),
                      gates=('cs.send.window', 'cs.recv.window', 'cs.read.window', 'srv.stream.exit', 'srv.writer.window'),
                      must=('sweep earlyok: cs.send.window',))


def sweep_c03(tier, rng, fam='C03'):
    return gate_sweep(tier, rng, fam, sample=90 if tier == 'quick' else None, only=('herr', 'earlyok', 'unary'),
                      gates=('cs.send.window', 'cs.recv.window', 'cs.read.window', 'mux.await.window', 'srv.stream.exit', 'srv.writer.window'),
                      must=('sweep herr: cs.send.window', 'sweep earlyok: cs.send.window'))


def sweep_c07(tier, rng, fam='C07'):
    return gate_sweep(tier, rng, fam, sample=100 if tier == 'quick' else None, only=('cancel', 'deadline', 'failsend'))


def refused_write_then_calls(fam):
    """a unary call whose request write is held by the transport and then fails (its caller gives up) while a
    LATER call already holds the next id: the calls started afterwards get fresh ids and their own replies"""
    out = []
    for n_later in (1, 2):
        for ser in (True, False):
            b = B(fam, 'unary write held then refused, %d later call(s) in flight, then new calls (%s)' % (n_later, 'serialising' if ser else 'by reference'), ser=ser)
            b.step('ucall', c=9, pay='warm', hp=[ret(pay='up')])
            b.step('stuck', dir='c2s', on=True)
            b.step('ucall', c=1, pay='q1', hp=[ret(pay='p1')])
            for k in range(n_later):
                b.step('ucall', c=2 + k, pay='q%d' % (2 + k), hp=[])          # handler parked: stays in flight
            b.step('cancel', c=1)
            b.step('stuck', dir='c2s', on=False)
            b.q()
            for k in range(3):
                b.step('ucall', c=10 + k, pay='n%d' % k, hp=[ret(pay='r%d' % k)])
            b.q()
            for k in range(n_later):
                b.step('hop', c=2 + k, h=ret(pay='p%d' % (2 + k)))
            out.append(b.q().done())
    return out


def paused_handler_backlog(fam):
    """a stream handler that is momentarily not receiving while n messages arrive for it, next to other open
    streams: when it resumes it gets them in the order sent (and the other streams are unaffected)"""
    out = []
    for kind in ('cs', 'bidi'):
        for n in (3, 6, 12, 40, 40):
            for nother in (1, 2):
                b = B(fam, '%s handler paused while %d messages arrive, %d other stream(s) open' % (kind, n, nother), ser=bool(n % 2))
                for o in range(nother):
                    b.step('sopen', c=10 + o, kind='bidi', hp=[dict(o='echo')])
                    b.step('send', c=10 + o, pay='o%d.0' % o).step('recv', c=10 + o)
                b.step('sopen', c=1, kind=kind, hp=[])
                if n >= 12:
                    b.step('auto', dir='c2s', on=False)      # the whole backlog reaches the server in one go
                for i in range(n):
                    b.step('send', c=1, pay='m%d' % i)
                b.step('close', c=1)
                if n >= 12:
                    b.step('auto', dir='c2s', on=True)
                b.q()
                b.step('hops', c=1, hp=[dict(o='drain'), dict(o='send', pay='sum'), ret()])
                b.step('recv', c=1, n=2)
                for o in range(nother):
                    b.step('send', c=10 + o, pay='o%d.1' % o).step('recv', c=10 + o).step('close', c=10 + o).step('recv', c=10 + o)
                out.append(b.q().done())
    return out


def unencodable_send(fam):
    """SendMsg with a message the codec refuses, after k good messages, with j responses unread: nothing is
    written for it, the stream ends with exactly one reset, the handler is told, the registrations go and
    later operations on the stream fail; the connection serves the next call"""
    out = []
    for kind in ('bidi', 'cs'):
        for k in (0, 1, 2):
            for hprog in ('echo', 'drain', 'ctxwait'):
                if hprog == 'ctxwait' and k > 1:
                    continue      # (>= 2 envelopes ahead of the reset of a handler that does not receive: known finding D23, C07)
                for unread in ((0, 1) if kind == 'bidi' and hprog == 'echo' and k > 0 else (0,)):
                    hp = {'echo': [dict(o='echo')],
                          'drain': [dict(o='drain'), ret(code=10, msg='gone')],
                          'ctxwait': [dict(o='ctxwait'), ret(code=1, msg='ctx')]}[hprog]
                    b = B(fam, '%s: unencodable message after %d good one(s), handler %s, %d response(s) unread' % (kind, k, hprog, unread),
                          ser=bool(k % 2))
                    b.step('sopen', c=1, kind=kind, hp=hp)
                    for i in range(k):
                        b.step('send', c=1, pay='g%d' % i)
                        if kind == 'bidi' and hprog == 'echo' and not (unread and i == k - 1):
                            b.step('recv', c=1)
                    b.q()
                    b.step('sendbad', c=1)
                    b.q()
                    b.step('send', c=1, pay='after')       # fails: the stream is over
                    b.step('recv', c=1)
                    b.step('close', c=1)
                    b.q()
                    b.step('ucall', c=2, pay='probe', hp=[ret(pay='fine')])
                    out.append(b.q().done())
    return out


def lost_reset(fam, nmax=4):
    """a caller cancels with m responses unread and the transport refuses exactly the write of the stream's reset
    (one failed POST; the connection stays up): the client still lets go of the stream - registration released, the
    connection's read loop not held up by the responses nobody will fetch - and later calls are served"""
    out = []
    for kind in ('bidi', 'ss'):
        for m in range(0, nmax + 1):
            for others in ((0, 2) if m in (0, 3) else (0,)):
                b = B(fam, '%s caller cancels with %d unread and the reset write is refused, %d bystanders' % (kind, m, others), ser=bool(m % 2))
                for o in range(others):
                    b.step('ucall', c=10 + o, pay='o%d' % o, hp=[])
                hp = [dict(o='recv')] + [dict(o='send', pay='u%d' % i) for i in range(m)] + [dict(o='ctxwait'), ret(code=1, msg='gone')]
                b.step('sopen', c=1, kind=kind, hp=hp)
                b.step('send', c=1, pay='go')
                b.q()
                b.step('fault', what='cwrite1')
                b.step('cancel', c=1)
                b.q()
                for o in range(others):
                    b.step('hop', c=10 + o, h=ret(pay='p%d' % o))
                b.step('ucall', c=99, pay='probe', to=H, hp=[ret(pay='pong')])
                b.q()
                b.step('sopen', c=98, kind='bidi', hp=[dict(o='echo')])
                b.step('send', c=98, pay='x').step('recv', c=98).step('close', c=98).step('recv', c=98)
                out.append(b.q().done())
    return out


def cancel_in_send_between_reads(fam):
    """the caller's cancellation lands inside a Send that is held by the transport while the stream's read loop is
    between two reads (cs.read.window): the Send fails with the context's error and lets go of the registration; when
    the read loop carries on it finds both the registration gone and the context done - later receives still report
    the context's status (not whatever the registry says), the reset is sent, the handler is told"""
    out = []
    for kind in ('bidi', 'ss'):
        for how in ('cancel', 'deadline'):
            for rep in range(6):                  # Go's select decides between two ready channels: several attempts
                b = B(fam, '%s: %s inside a held Send while the read loop is between reads #%d' % (kind, how, rep), ser=bool(rep % 2))
                hp = [dict(o='recv'), dict(o='send', pay='r0'), dict(o='ctxwait'), ret(code=1, msg='gone')]
                b.step('sopen', c=1, kind=kind, hp=hp, **({'to': 5000} if how == 'deadline' else {}))
                b.q()
                b.step('arm', gate='cs.read.window', id=0, n=1)
                b.step('send', c=1, pay='a')
                b.step('recv', c=1)                # the read loop has handed r0 over and is parked before its next read
                b.step('stuck', dir='c2s', on=True)
                b.step('send', c=1, pay='b', nw=True)
                b.step('wait')
                if how == 'cancel':
                    b.step('cancel', c=1)
                else:
                    b.step('adv', ms=5001)
                b.step('stuck', dir='c2s', on=False)
                b.step('rel', gate='cs.read.window')
                b.step('recv', c=1)
                b.step('send', c=1, pay='late')
                b.q()
                b.step('ucall', c=2, pay='probe', hp=[ret(pay='fine')])
                out.append(b.q().done())
    return out


def eager_caller_early_return(fam, tier='quick'):
    """a caller that sends everything before it receives (the usual client-streaming program) against a handler that
    returns after k of n messages WITH a response, over a transport without slack: the late messages are answered
    with resets which nobody fetches while the caller is still sending"""
    out = []
    for cap in (1, 2):
        for n in ((4, 8) if tier == 'quick' else (3, 4, 6, 8, 12)):
            for k in (0, 1, n - 2):
                b = B(fam, 'eager caller (cap=%d): cs handler answers and returns after %d of %d' % (cap, k, n), ser=True, cap=cap)
                b.step('ucall', c=10, pay='o', hp=[])
                b.step('sopen', c=1, kind='cs', hp=[dict(o='recv')] * k + [dict(o='send', pay='early'), ret(code=0)])
                for i in range(n):
                    b.step('send', c=1, pay='m%d' % i)
                b.step('close', c=1)
                b.q()
                b.step('hop', c=10, h=ret(pay='p'))
                b.step('ucall', c=99, pay='probe', to=H, hp=[ret(pay='pong')])
                b.step('adv', ms=H + 1)
                b.q()
                b.step('recv', c=1, n=2)
                out.append(b.q().done())
    return out


def ends_while_another_write_is_stuck(fam):
    """one call's write is held by the transport (a stalled peer) while other calls on the connection end by deadline
    or cancellation: they return, nothing stays registered for them - a blocked writer does not hold up callers that
    have given up"""
    out = []
    for first in ('unary', 'send'):
        for how in ('deadline', 'cancel'):
            # (an established stream that ends while the transport is stuck holds its state lock for the 30 s its reset
            # write may take: a mutex wait, which the virtual clock cannot pass - harness limit, DESIGN section 8)
            for kind in ('unary', 'open'):
                b = B(fam, 'a %s write is held by the transport while a %s ends by %s' % (first, kind, how), ser=True)
                to = dict(to=200) if how == 'deadline' else {}
                if first == 'send' or kind in ('send', 'recv'):
                    pass
                if first == 'send':
                    b.step('sopen', c=1, kind='bidi', hp=[dict(o='echo')])
                if kind in ('send', 'recv'):
                    b.step('sopen', c=2, kind='bidi', hp=[dict(o='ctxwait'), ret(code=1, msg='gone')], **to)
                b.q()
                b.step('stuck', dir='c2s', on=True)
                if first == 'unary':
                    b.step('ucall', c=1, pay='held', hp=[ret(pay='late')])
                else:
                    b.step('send', c=1, pay='held')
                if kind == 'unary':
                    b.step('ucall', c=2, pay='q', hp=[ret(pay='p')], **to)
                elif kind == 'open':
                    b.step('sopen', c=2, kind='bidi', hp=[dict(o='echo')], **to)
                elif kind == 'send':
                    b.step('send', c=2, pay='x')
                else:
                    b.step('recv', c=2)
                b.q()
                if how == 'deadline':
                    b.step('adv', ms=201)
                else:
                    b.step('cancel', c=2)
                b.q()                                  # the call that gave up has returned although the transport is still stuck
                b.step('stuck', dir='c2s', on=False)
                b.q()
                if first == 'send':
                    b.step('recv', c=1).step('close', c=1).step('recv', c=1)
                b.step('ucall', c=9, pay='probe', hp=[ret(pay='fine')])
                out.append(b.q().done())
    return out


def random_programs(fam, count, rng, maxcalls=4):
    """random multi-call programs: 2..maxcalls concurrent calls of random kinds on one or two connections, each with a
    random (self-consistent) client and handler program - echo, answer-after-draining, bursts, early returns with and
    without an error, cancellations at random points - interleaved at random, with a census at random points.
    The specification is the oracle; nothing here is expected in particular."""
    out = []
    for k in range(count):
        ncli = rng.choice((1, 1, 1, 2))
        ser = rng.random() < 0.5
        ncalls = rng.randint(2, maxcalls)
        progs, opens = [], []
        for ci in range(1, ncalls + 1):
            kind = rng.choice(('unary', 'bidi', 'bidi', 'cs', 'ss'))
            conn = rng.randint(1, ncli)
            code = rng.choice((0, 0, 0, 5, 13))
            if kind == 'unary':
                hp = [ret(pay='r%d' % ci)] if code == 0 else [ret(code=code, msg='u%d' % ci)]
                progs.append([dict(op='ucall', c=ci, conn=conn, pay=pay(rng, 'q%d' % ci, rng.choice((None, None, 300, 4096))), hp=hp)])
                continue
            n = rng.randint(0, 4)                      # client messages
            m = rng.randint(0, 4)                      # handler messages
            shape = rng.choice(('echo', 'drain', 'burst', 'early')) if kind != 'ss' else 'ss'
            if kind == 'cs' and shape == 'echo':
                shape = 'drain'
            if shape == 'echo':
                hp, m = [dict(o='echo')], n
            elif shape == 'drain':
                hp = [dict(o='drain')] + [dict(o='send', pay='h%d.%d' % (ci, i)) for i in range(m if kind == 'bidi' else min(m, 1))] + [ret(code=code, msg='d%d' % ci if code else '')]
            elif shape == 'burst':
                mm = m if kind == 'bidi' else min(m, 1)
                hp = [dict(o='send', pay='h%d.%d' % (ci, i)) for i in range(mm)] + [dict(o='drain'), ret(code=code, msg='b%d' % ci if code else '')]
            elif shape == 'early':
                j = rng.randint(0, max(0, n - 1))
                hp = [dict(o='recv')] * j + [ret(code=code, msg='e%d' % ci if code else '')]
            else:
                n = 1
                hp = [dict(o='recv')] + [dict(o='send', pay='h%d.%d' % (ci, i)) for i in range(m)] + [dict(o='drain'), ret(code=code, msg='s%d' % ci if code else '')]
            rmd = None
            if rng.random() < 0.35:                    # metadata: request, headers (set / sent), trailers
                rmd = rnd_md(rng, rng.randrange(1, 4))
                how = rng.choice(('sethdr', 'sendhdr'))
                pre = [dict(o=how, md=rnd_md(rng, rng.randrange(1, 3)), **({'via': 'ctx'} if rng.random() < 0.3 else {}))]
                if shape != 'echo':
                    hp = ([hp[0]] + pre + hp[1:]) if hp and hp[0].get('o') in ('recv', 'drain') and rng.random() < 0.5 else (pre + hp)
                    hp = hp[:-1] + [dict(o='settrl', md=rnd_md(rng, rng.randrange(1, 3)))] + hp[-1:]
            p = [dict(op='sopen', c=ci, conn=conn, kind=kind, hp=hp, **({'md': rmd} if rmd else {}))]
            sends = [dict(op='send', c=ci, pay=pay(rng, 'c%d.%d' % (ci, i), rng.choice((None, None, None, 1500, 70000)))) for i in range(n)]
            recvs = [dict(op='recv', c=ci) for _ in range(m + 1)]
            body = []
            if kind == 'bidi':
                si, ri = 0, 0
                while si < len(sends) or ri < len(recvs) - 1:
                    if si < len(sends) and (ri >= len(recvs) - 1 or rng.random() < 0.6):
                        body.append(sends[si]); si += 1
                    else:
                        body.append(recvs[ri]); ri += 1
                body += [dict(op='close', c=ci), recvs[-1], dict(op='recv', c=ci)]
            else:
                body = sends + [dict(op='close', c=ci)] + recvs + [dict(op='recv', c=ci)]
            if rng.random() < 0.25:
                cut = rng.randint(0, len(body))
                body = body[:cut] + [dict(op='cancel', c=ci), dict(op='recv', c=ci), dict(op='send', c=ci, pay='late%d' % ci)]
            if rng.random() < 0.3:
                body.insert(rng.randint(0, len(body)), dict(op='hdr', c=ci))
            if rng.random() < 0.3:
                body.append(dict(op='trl', c=ci))
            progs.append(p + body)
        b = B(fam, 'random program #%d: %d calls on %d connection(s)' % (k, ncalls, ncli), ser=ser, ncli=ncli)
        idx = [0] * len(progs)
        while any(idx[i] < len(progs[i]) for i in range(len(progs))):
            i = rng.choice([i for i in range(len(progs)) if idx[i] < len(progs[i])])
            st = dict(progs[i][idx[i]])
            idx[i] += 1
            b.s['steps'].append(st)
            if rng.random() < 0.12:
                b.q()
        out.append(b.q().done())
    return out


def concurrent_header_and_send(fam, reps):
    """a handler that calls SendHeader from one goroutine and Send from another (permitted): whichever the stream
    serves first, headers a successful SendHeader reports are on the first envelope and reach the caller's Header();
    an observer that takes its time over the headers widens whatever window there is"""
    out = []
    for rep in range(reps):
        for kind in ('bidi', 'ss'):
            for pre in (0, 1):
                b = B(fam, '%s: SendHeader and Send from two goroutines (set first: %d) #%d' % (kind, pre, rep), ser=bool(rep % 2), sstats=1 + rep % 2)
                hp = [dict(o='recv')]
                if pre:
                    hp.append(dict(o='sethdr', md=[['pre', 'p']]))
                hp += [dict(o='parhdr', md=[['hk', 'hv'], ['b-bin', '\x00\xff']], pay='first', n=rep % 2), dict(o='send', pay='second'), dict(o='drain'), ret()]
                b.step('sopen', c=1, kind=kind, hp=hp)
                b.step('send', c=1, pay='go')
                b.step('hdr', c=1)
                b.step('recv', c=1, n=2)
                b.step('close', c=1)
                b.step('recv', c=1)
                out.append(b.q().done())
    return out


def failed_opens(fam):
    """a stream whose opening envelope never makes it onto the wire - the caller's context was over before NewStream,
    or the transport refuses exactly that write while the connection stays up - has no id on the wire: nothing is
    ever written for it (in particular no reset), its registration is released, the connection serves on;
    and a streaming call of a method (or service) the server does not have: whatever the server makes of it
    (goat: nothing), it answers at most once per id and the caller's cancel ends it as usual"""
    out = []
    for ser in (True, False):
        for kind in ('bidi', 'cs', 'ss'):
            for how in ('pre', 'refused', 'pre-deadline'):
                b = B(fam, '%s open that never reaches the wire (%s, %s)' % (kind, how, 'serialising' if ser else 'by reference'), ser=ser)
                b.step('ucall', c=1, pay='warm', hp=[ret(pay='up')])
                if how == 'refused':
                    b.step('fault', what='cwrite1')
                    b.step('sopen', c=2, kind=kind, hp=[])
                elif how == 'pre':
                    b.step('sopen', c=2, kind=kind, what='pre', hp=[])
                else:
                    b.step('sopen', c=2, kind=kind, to=20, hp=[], nw=True)     # (a deadline that may fire inside the open)
                    b.step('adv', ms=30)
                b.q()
                b.step('adv', ms=31000)        # a reset written by mistake would go out within the 30 s a reset write may take
                b.q()
                b.step('sopen', c=3, kind='bidi', hp=[dict(o='recv'), dict(o='send', pay='pong'), dict(o='drain'), ret()])
                b.step('send', c=3, pay='ping').step('recv', c=3).step('close', c=3).step('recv', c=3)
                out.append(b.q().done())
        for kind in ('xbidi', 'ybidi'):
            for n in (0, 1, 3):
                for end in ('cancel', 'close+cancel', 'deadline'):
                    # (the caller's envelopes reach the server in one go: whatever it answers, it has seen them all by then)
                    b = B(fam, 'streaming call of an unknown %s, %d messages, then %s (%s)' % ('method' if kind == 'xbidi' else 'service', n, end, 'serialising' if ser else 'by reference'), ser=ser, manual=True)
                    b.step('auto', dir='s2c', on=True)
                    b.step('sopen', c=1, kind=kind, hp=[], **(dict(to=200) if end == 'deadline' else {}))
                    for i in range(n):
                        b.step('send', c=1, pay='m%d' % i)
                    if end == 'close+cancel':
                        b.step('close', c=1)
                    b.step('dlv', dir='c2s', n=-1)
                    b.step('auto', dir='c2s', on=True)
                    b.step('recv', c=1)
                    b.q()
                    if end == 'deadline':
                        b.step('adv', ms=250)
                    else:
                        b.step('cancel', c=1)
                    b.q()
                    b.step('ucall', c=2, pay='probe', hp=[ret(pay='fine')])
                    out.append(b.q().done())
    return out


def legal_oddities(fam):
    """call sequences the gRPC API permits but ordinary code rarely produces, on both sides of a call; the ordinary
    rules apply to them as to everything else (nothing after a close on the wire, headers once, results repeat)"""
    out = []
    md1, md2, md3 = [['k1', 'a']], [['k2', 'b'], ['K1', 'c']], [['k3-bin', '\x00\x01']]
    echo_then_ok = [dict(o='echo')]

    def add(tag, kind, hp, body, ser=True, **open_kw):
        b = B(fam, 'oddity: ' + tag + (' (serialising)' if ser else ' (by reference)'), ser=ser)
        b.step('sopen', c=1, kind=kind, hp=hp, **open_kw)
        for op, kw in body:
            b.step(op, c=1, **kw)
        b.q()
        b.step('ucall', c=2, pay='probe', hp=[ret(pay='fine')])
        out.append(b.q().done())

    S, R, C, H, T = (lambda p: ('send', dict(pay=p))), ('recv', {}), ('close', {}), ('hdr', {}), ('trl', {})
    QQ = ('q', {})        # a census in mid-stream: whatever was asked so far has returned (Trailer never waits)
    for ser in (True, False):
        add('Send after CloseSend', 'bidi', echo_then_ok, [S('a'), R, C, S('after close'), R, R, T], ser)
        add('CloseSend twice', 'bidi', echo_then_ok, [S('a'), R, C, C, R, R, T], ser)
        # (a second CloseSend / a Send after CloseSend on a stream that is still live is outside every listed program class:
        # goat writes a second close / a body after the close then - DESIGN section 6; here the stream is over by then)
        add('Recv again and again after EOF', 'bidi', echo_then_ok, [S('a'), R, C, R, R, R, R, T, T], ser)
        add('Recv again after an error status', 'bidi', [dict(o='recv'), ret(code=9, msg='precondition', det=1)], [S('a'), R, R, R, T, S('late'), R], ser)
        add('Trailer before the stream has ended', 'bidi', [dict(o='settrl', md=md2), dict(o='settrl', md=md3), dict(o='echo')], [T, QQ, S('a'), T, QQ, R, C, R, T, T], ser)
        add('Trailer asked between the messages of a server stream', 'ss', [dict(o='recv'), dict(o='settrl', md=md2), dict(o='send', pay='x1'), dict(o='send', pay='x2'), dict(o='settrl', md=md3), dict(o='drain'), ret(code=4, msg='late')], [S('q'), C, R, T, QQ, R, T, R, T], ser)
        add('Header three times, before, between and after receives', 'bidi', [dict(o='sethdr', md=md1), dict(o='echo')], [S('a'), H, R, H, C, R, H, T], ser)
        add('Header on a stream that fails before any response', 'bidi', [ret(code=5, msg='nope')], [H, R, H, T], ser)
        add('Header after the stream ended with headers in its trailer envelope', 'ss', [dict(o='recv'), dict(o='sethdr', md=md1), dict(o='settrl', md=md2), ret()], [S('q'), C, R, H, T, H], ser)
        add('server-streaming caller sends two messages', 'ss', [dict(o='recv'), dict(o='send', pay='one'), dict(o='drain'), ret()], [S('q1'), S('q2'), C, R, R], ser)
        add('client-streaming handler sends two replies', 'cs', [dict(o='drain'), dict(o='send', pay='r1'), dict(o='send', pay='r2'), ret()], [S('a'), C, R, R, R], ser)
        add('empty messages both ways', 'bidi', echo_then_ok, [S(''), R, S(''), S(''), R, R, C, R], ser)
        add('SendHeader twice', 'bidi', [dict(o='sendhdr', md=md1), dict(o='sendhdr', md=md2), dict(o='echo')], [H, S('a'), R, C, R, T], ser)
        add('SetHeader after SendHeader', 'bidi', [dict(o='sendhdr', md=md1), dict(o='sethdr', md=md2), dict(o='echo')], [H, S('a'), R, C, R, T], ser)
        add('SetHeader and SendHeader after the first message', 'bidi', [dict(o='recv'), dict(o='send', pay='first'), dict(o='sethdr', md=md2), dict(o='sendhdr', md=md3), dict(o='drain'), ret()], [S('a'), R, H, C, R, T], ser)
        add('SendHeader with nothing set, then messages', 'ss', [dict(o='recv'), dict(o='sendhdr', md=[]), dict(o='send', pay='x'), dict(o='drain'), ret()], [S('q'), C, H, R, R, T], ser)
        add('SetTrailer four times with overlapping keys', 'bidi', [dict(o='settrl', md=md1), dict(o='settrl', md=md2), dict(o='settrl', md=md3), dict(o='settrl', md=md1), dict(o='echo')], [S('a'), R, C, R, T], ser)
        add('SetTrailer through the context and the stream alternately', 'ss', [dict(o='recv'), dict(o='settrl', md=md1, via='ctx'), dict(o='settrl', md=md2), dict(o='sethdr', md=md3, via='ctx'), dict(o='send', pay='x'), dict(o='drain'), ret(code=3, msg='bad')], [S('q'), C, R, R, H, T], ser)
        add('handler sends on after the caller half-closed', 'bidi', [dict(o='drain'), dict(o='send', pay='p1'), dict(o='send', pay='p2'), dict(o='send', pay='p3'), ret()], [S('a'), C, R, R, R, R], ser)
        # unary handlers
        for tag, hp in (('SendHeader then SetHeader', [dict(o='sendhdr', md=md1), dict(o='sethdr', md=md2), ret(pay='r')]),
                        ('SendHeader twice', [dict(o='sendhdr', md=md1), dict(o='sendhdr', md=md2), ret(pay='r')]),
                        ('SetTrailer three times then an error', [dict(o='settrl', md=md1), dict(o='settrl', md=md2), dict(o='settrl', md=md3), ret(code=6, msg='exists')]),
                        ('empty request, empty reply', [ret(pay='')])):
            b = B(fam, 'oddity: unary handler, ' + tag + (' (serialising)' if ser else ' (by reference)'), ser=ser)
            b.step('ucall', c=1, pay='' if 'empty' in tag else 'q', hp=hp)
            b.step('ucall', c=2, pay='probe', hp=[ret(pay='fine')])
            out.append(b.q().done())
    return out


def nameless_server(fam):
    """a server without a name (NewServer("")) and clients that name a destination: it serves nothing that is addressed
    to somebody - the calls wait until their callers give up - and whatever it writes carries the addresses of the
    request swapped, like any other response"""
    out = []
    for ser in (True, False):
        b = B(fam, 'nameless server, clients naming a destination (%s)' % ('serialising' if ser else 'by reference'), ser=ser, nosrvname=True)
        b.step('ucall', c=1, pay='q', to=300, hp=[ret(pay='r')])
        b.step('sopen', c=2, kind='bidi', hp=[dict(o='echo')])
        b.step('send', c=2, pay='a').step('send', c=2, pay='b').step('close', c=2).step('recv', c=2)
        b.step('sopen', c=3, kind='ss', to=300, hp=[dict(o='recv'), dict(o='send', pay='x'), ret()])
        b.step('send', c=3, pay='q').step('recv', c=3)
        b.q()
        b.step('adv', ms=400)
        b.step('cancel', c=2)
        out.append(b.q().done())
    return out


def unencodable_elsewhere(fam):
    """the codec refuses a message in the other places a user can hand one in: the request of a unary call (fails
    locally, nothing is written, the connection serves the next call) and a handler's Send (fails, nothing is written
    for it, the stream goes on and ends normally)"""
    out = []
    for ser in (True, False):
        for kind in ('bidi', 'ss'):
            for nxt in ('msg', 'ret', 'reterr'):
                # headers set, then the FIRST Send is the one the codec refuses: the headers are still owed - they travel
                # with the next message or with the final status
                hp = [dict(o='recv'), dict(o='sethdr', md=[['hk', 'hv'], ['b-bin', '\x00\xfe']]), dict(o='sendbad')]
                hp += [dict(o='send', pay='ok after all')] if nxt == 'msg' else []
                hp += [dict(o='drain'), ret(code=15 if nxt == 'reterr' else 0, msg='data loss' if nxt == 'reterr' else '')]
                b = B(fam, '%s handler sets headers, its first Send is unencodable, then %s (%s)' % (kind, nxt, 'serialising' if ser else 'by reference'), ser=ser)
                b.step('sopen', c=1, kind=kind, hp=hp)
                b.step('send', c=1, pay='go').step('close', c=1).step('hdr', c=1).step('recv', c=1, n=2).step('trl', c=1)
                out.append(b.q().done())
        b = B(fam, 'unary call with an unencodable request (%s)' % ('serialising' if ser else 'by reference'), ser=ser)
        b.step('ucall', c=1, pay='warm', hp=[ret(pay='up')])
        b.step('ucall', c=2, what='bad', hp=[])
        b.step('ucall', c=3, what='bad', to=1000, hp=[])
        b.step('ucall', c=4, pay='after', hp=[ret(pay='fine')])
        out.append(b.q().done())
        # a unary handler that returns (a reply the codec refuses, nil): no body can be on the wire, the caller must
        # not see a success, headers and trailers set by the handler still travel, the connection serves the next call
        for dressed in (False, True):
            b = B(fam, 'unary handler returns an unencodable reply%s (%s)' % (', headers and trailers set' if dressed else '', 'serialising' if ser else 'by reference'), ser=ser)
            hp = ([dict(o='sethdr', md=[['hk', 'hv']]), dict(o='settrl', md=[['tk', 'tv'], ['t-bin', '\x00\x01']])] if dressed else []) + [ret(ek='unenc')]
            b.step('ucall', c=1, pay='warm', hp=[ret(pay='up')])
            b.step('ucall', c=2, pay='q', hp=hp)
            b.step('ucall', c=3, pay='after', hp=[ret(pay='fine')])
            out.append(b.q().done())
        for kind in ('bidi', 'ss'):
            for pos in (0, 1, 2):
                sends = [dict(o='send', pay='h%d' % i) for i in range(2)]
                hp = [dict(o='recv')] + sends[:pos] + [dict(o='sendbad')] + sends[pos:] + [dict(o='drain'), ret()]
                b = B(fam, '%s handler sends an unencodable message at position %d (%s)' % (kind, pos, 'serialising' if ser else 'by reference'), ser=ser)
                b.step('sopen', c=1, kind=kind, hp=hp)
                b.step('send', c=1, pay='go').step('close', c=1).step('recv', c=1, n=3)
                b.step('ucall', c=2, pay='probe', hp=[ret(pay='fine')])
                out.append(b.q().done())
    return out


BIN_SIZES = list(range(0, 101)) + [127, 128, 129, 130, 255, 256, 257, 1000, 1001, 1002, 4095, 4096, 4097]


def _binval(n, salt=0):
    return '@x:' + ''.join('%02x' % ((i * 7 + salt * 13 + n) % 256) for i in range(n))


def binary_value_sizes(fam):
    """binary metadata values of every size 0..100 and around 128, 256, 1000, 4096 bytes (base64 comes in groups of three
    bytes; decoders have scratch buffers): request metadata, headers and trailers, byte-exact"""
    out = []
    sizes = list(BIN_SIZES)
    k = 0
    while sizes:
        chunk, sizes = sizes[:6], sizes[6:]
        md = [['v%d-bin' % n, _binval(n)] for n in chunk]
        hd = [['h%d-bin' % n, _binval(n, 1)] for n in chunk]
        tl = [['t%d-bin' % n, _binval(n, 2)] for n in chunk]
        kind = ('unary', 'bidi', 'ss')[k % 3]
        b = B(fam, 'binary values of %s bytes as request metadata, headers and trailers (%s)' % ('/'.join(str(n) for n in chunk), kind), ser=bool(k % 2))
        if kind == 'unary':
            b.step('ucall', c=1, pay='q', md=md, hp=[dict(o='sethdr', md=hd), dict(o='settrl', md=tl), ret(pay='r')])
        else:
            b.step('sopen', c=1, kind=kind, md=md, hp=[dict(o='recv'), dict(o='sethdr', md=hd), dict(o='send', pay='x'), dict(o='settrl', md=tl), dict(o='drain'), ret()])
            b.step('send', c=1, pay='q').step('close', c=1).step('hdr', c=1).step('recv', c=1, n=2).step('trl', c=1)
        out.append(b.q().done())
        k += 1
    return out


def same_key_other_case(fam, reps):
    """successive SetHeader / SetTrailer calls that name the same key in different letter case: after lower-casing it is
    one key, and its values arrive in call order (Go's map iteration decides what a careless merge does: several runs)"""
    out = []
    for rep in range(reps):
        for kind in ('unary', 'bidi', 'ss'):
            for way in ('sendhdr', 'firstmsg', 'trailer'):
                if kind == 'unary' and way == 'firstmsg':
                    continue
                k1, k2, k3 = [('Ab-C', 'ab-c', 'AB-c'), ('o', 'O', 'o'), ('X-Key-bin', 'x-key-BIN', 'x-key-bin')][rep % 3]
                h1, h2, h3 = [[k1, 'v1'], [k1, 'v2']], [[k2, 'v3']], [[k3, 'v4'], [k3, 'v5']]
                t1, t2 = [[k2, 't1']], [[k1, 't2'], [k1, 't3']]
                b = B(fam, '%s: one key in several letter cases over successive calls, headers via %s #%d' % (kind, way, rep), ser=bool(rep % 2))
                hp = [dict(o='sethdr', md=h1), dict(o='sethdr', md=h2)]
                if kind == 'unary':
                    hp += [dict(o='sendhdr' if way == 'sendhdr' else 'sethdr', md=h3), dict(o='settrl', md=t1), dict(o='settrl', md=t2), ret(pay='rep')]
                    b.step('ucall', c=1, pay='q', md=[[k2, 'r1'], [k2, 'r2']], hp=hp)
                else:
                    hp = [dict(o='drain')] + hp
                    if way == 'sendhdr':
                        hp += [dict(o='sendhdr', md=h3), dict(o='send', pay='m0')]
                    elif way == 'firstmsg':
                        hp += [dict(o='sethdr', md=h3), dict(o='send', pay='m0')]
                    else:
                        hp += [dict(o='sethdr', md=h3)]
                    hp += [dict(o='settrl', md=t1), dict(o='settrl', md=t2), ret()]
                    b.step('sopen', c=1, kind=kind, md=[[k2, 'r1'], [k2, 'r2']], hp=hp)
                    b.step('send', c=1, pay='x').step('close', c=1).step('hdr', c=1).step('recv', c=1, n=2).step('trl', c=1)
                out.append(b.q().done())
    return out


def slow_reader(fam, tier='quick'):
    """the handler sends n messages in one go while the caller is not receiving (they pile up on the way), other calls
    are answered meanwhile where they can be; when the caller gets round to receiving, it gets every message once, in order"""
    out = []
    for kind in ('ss', 'bidi'):
        for n in ((20, 40, 120) if tier == 'quick' else (18, 19, 20, 33, 64, 120, 400)):
            for others in (0, 1):
                b = B(fam, '%s slow reader: %d responses pile up before the first Recv, %d other stream(s)' % (kind, n, others), ser=bool(n % 2))
                if others:
                    b.step('sopen', c=5, kind='bidi', hp=[dict(o='recv'), dict(o='burst', n=25, pay='o'), dict(o='drain'), ret()])
                    b.step('send', c=5, pay='go')
                b.step('sopen', c=1, kind=kind, hp=[dict(o='recv'), dict(o='burst', n=n, pay='m'), dict(o='drain'), ret()])
                b.step('send', c=1, pay='go')
                b.q()
                b.step('recv', c=1, n=n)
                b.step('close', c=1)
                b.step('recv', c=1)
                if others:
                    b.step('recv', c=5, n=25).step('close', c=5).step('recv', c=5)
                out.append(b.q().done())
    return out


def stuck_handler_with_deadline(fam):
    """a handler that stops receiving and does not return even when its context ends (it is stuck in something of its
    own) while the caller keeps sending; the caller's deadline (it travels with the request) or cancellation ends the
    stream: from then on the connection is free again - the read loop does not wait for that handler"""
    out = []
    for kind in ('cs', 'bidi'):
        for n in (2, 3, 6):
            for how in ('deadline', 'cancel'):
                if how == 'cancel' and n > 1:
                    # (a reset that is queued behind >= 2 unread envelopes never gets through: known finding D23)
                    continue
                b = B(fam, '%s handler stuck after 1 of %d messages, stream ended by %s' % (kind, n, how), ser=True, nocap=True)
                b.step('sopen', c=1, kind=kind, hp=[dict(o='recv'), dict(o='stall'), ret()], **({'to': 400} if how == 'deadline' else {}))
                for i in range(n):
                    b.step('send', c=1, pay='m%d' % i)
                b.q()
                if how == 'deadline':
                    b.step('adv', ms=401)
                else:
                    b.step('cancel', c=1)
                b.q()
                b.step('ucall', c=9, pay='probe', to=H, hp=[ret(pay='served')])
                b.q()
                b.step('sopen', c=8, kind='bidi', hp=[dict(o='echo')])
                b.step('send', c=8, pay='x').step('recv', c=8).step('close', c=8).step('recv', c=8)
                out.append(b.q().done())
    return out


def no_metadata_at_all(fam):
    """callers that attach nothing to their context - no metadata, no deadline, not even the harness's call token (the
    calls are strictly sequential, the harness tells them apart by order) - so the library's "nothing to send" paths run:
    repeated calls of the same method, unary and streaming, direct and through proxy + demux over both kinds of link"""
    out = []
    for topo in ('', 'pd'):
        for ser in (True, False):
            where = ('via proxy+demux' if topo else 'direct') + (' (serialising)' if ser else ' (by reference)')
            kw = dict(ser=ser, notoken=True, **({'topo': 'pd'} if topo else {}))
            b = B(fam, 'no metadata at all, %s: five unary calls of one method in a row' % where, **kw)
            for c in range(1, 6):
                b.step('ucall', c=c, pay='q%d' % c, hp=[ret(pay='p%d' % c)] if c != 3 else [ret(code=5, msg='third')])
                b.q()
            out.append(b.done())
            b = B(fam, 'no metadata at all, %s: streams and unary calls in turn' % where, **kw)
            b.step('ucall', c=1, pay='warm', hp=[ret(pay='up')])
            b.step('sopen', c=2, kind='bidi', hp=[dict(o='echo')])
            b.step('send', c=2, pay='a').step('recv', c=2).step('send', c=2, pay='b').step('recv', c=2).step('close', c=2).step('recv', c=2)
            b.q()
            b.step('sopen', c=3, kind='ss', hp=[dict(o='recv'), dict(o='send', pay='s1'), dict(o='send', pay='s2'), dict(o='drain'), ret()])
            b.step('send', c=3, pay='go').step('close', c=3).step('recv', c=3, n=3)
            b.q()
            b.step('ucall', c=4, pay='again', hp=[ret(pay='fine')])
            b.step('sopen', c=5, kind='cs', hp=[dict(o='drain'), dict(o='send', pay='sum'), ret()])
            b.step('send', c=5, pay='x').step('send', c=5, pay='y').step('close', c=5).step('recv', c=5, n=2)
            out.append(b.q().done())
    return out


def body_in_hand_at_return(fam):
    """the server's read loop has READ a message (the stream was registered then) but not yet looked the stream up
    (srv.forward.window) when the handler returns: the message is answered with a reset - after the trailer - or
    dropped, and the caller sees the handler's status"""
    out = []
    for kind in ('bidi', 'cs'):
        for code in (0, 9):
            for nbefore in (0, 1, 2):
                b = B(fam, '%s: message %d in the read loop\'s hand while the handler returns %s' % (kind, nbefore, 'an error' if code else 'ok'), ser=bool(nbefore % 2))
                b.step('sopen', c=1, kind=kind, hp=[dict(o='recv')] * nbefore)
                for i in range(nbefore):
                    b.step('send', c=1, pay='m%d' % i)
                b.q()
                b.step('arm', gate='srv.forward.window', n=1)
                b.step('send', c=1, pay='held')
                b.q()
                b.step('hop', c=1, h=ret(code=code, msg='early' if code else ''))
                b.q()
                b.step('rel', gate='srv.forward.window')
                b.q()
                b.step('recv', c=1, n=2)
                b.step('ucall', c=2, pay='probe', hp=[ret(pay='fine')])
                out.append(b.q().done())
    return out


def late_body_before_trailer(fam):
    """the handler has returned - successfully or not - but its trailer has not been handed to the writer yet
    (srv.stream.returned) when one more message of the caller arrives: the trailer still comes first, and is the
    last thing the server says on that id unless a reset answers a message that came later still"""
    out = []
    for kind in ('bidi', 'cs'):
        for code in (0, 9):
            for late in (1, 2):
                b = B(fam, '%s: %d late message(s) between the handler return (code %d) and its trailer' % (kind, late, code), ser=bool(late % 2))
                b.step('sopen', c=1, kind=kind, hp=[dict(o='recv')])
                b.step('send', c=1, pay='m1')
                b.q()
                b.step('arm', gate='srv.stream.returned', id=0, n=1)
                b.step('hop', c=1, h=ret(code=code, msg='precondition' if code else ''))
                b.step('send', c=1, pay='late1')
                b.q()
                b.step('rel', gate='srv.stream.returned')
                b.q()
                if late == 2:
                    b.step('send', c=1, pay='late2')
                b.step('recv', c=1, n=2)
                b.step('trl', c=1)
                b.step('ucall', c=9, pay='probe', hp=[ret(pay='fine')])
                out.append(b.q().done())
    return out
