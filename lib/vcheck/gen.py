"""Scenario generators. Each returns a list of scenario dicts (see the Go
driver's Scenario type); 'fam' is the property the scenario was generated for
and 'tag' a human-readable description used in evidence samples and in
known-finding matching."""
import itertools
import random

SIZES = [0, 1, 2, 7, 64, 300, 4096, 65536]


def pay(rng, tag, size=None):
    """a payload spec: literal for small ones, '@N:seed' for pseudo-random bytes"""
    if size is None:
        return tag
    if size == 0:
        return ''
    return '@%d:%d' % (size, rng.randrange(1, 1 << 30))


class B:
    """scenario builder"""

    def __init__(self, fam, tag, **kw):
        self.s = dict(fam=fam, tag=tag, steps=[])
        self.s.update(kw)

    def step(self, op, **kw):
        d = dict(op=op)
        d.update(kw)
        self.s['steps'].append(d)
        return self

    def q(self):
        return self.step('q')

    def done(self):
        return self.s


def ret(code=0, msg='', pay=None, ek='', det=0):
    d = dict(o='ret')
    if code:
        d['code'] = code
    if msg:
        d['msg'] = msg
    if pay is not None:
        d['pay'] = pay
    else:
        d['pay'] = '\x00echo'
    if ek:
        d['ek'] = ek
    if det:
        d['det'] = det
    return d


# ------------------------------------------------------------------ C01 -----

def c01(tier, rng):
    from . import gen2
    out = gen2.refused_write_then_calls('C01') + gen2.no_metadata_at_all('C01')
    # (a) k callers, every handler completion order, responses delivered one by one or all at once
    kmax = 3 if tier == 'quick' else 4
    for k in range(1, kmax + 1):
        for perm in itertools.permutations(range(1, k + 1)):
            for mode in ('each', 'batch'):
                for ser in (True, False):
                    b = B('C01', 'unary k=%d order=%s dlv=%s ser=%s' % (k, ''.join(map(str, perm)), mode, ser),
                          manual=True, ser=ser)
                    for c in range(1, k + 1):
                        b.step('ucall', c=c, pay='req%d' % c)
                    b.step('dlv', dir='c2s', n=-1)
                    for c in perm:
                        b.step('hop', c=c, h=ret(pay='rep%d' % c))
                        if mode == 'each':
                            b.step('dlv', dir='s2c', n=-1)
                    b.step('dlv', dir='s2c', n=-1)
                    out.append(b.q().done())
    # (b) requests delivered one at a time, interleaved with completions
    for k in (2, 3):
        for perm in itertools.permutations(range(1, k + 1)):
            b = B('C01', 'unary staggered k=%d order=%s' % (k, ''.join(map(str, perm))), manual=True, ser=True)
            for c in range(1, k + 1):
                b.step('ucall', c=c, pay='req%d' % c, hp=[ret(pay='rep%d' % c)] if c == perm[0] else [])
                b.step('dlv', dir='c2s', n=1)
            for c in perm[1:]:
                b.step('hop', c=c, h=ret(pay='rep%d' % c))
            b.step('dlv', dir='s2c', n=-1)
            out.append(b.q().done())
    # (c) payload sizes and contents, echo and distinct replies
    for sz in SIZES:
        for rsz in (SIZES if tier != 'quick' else (0, sz)):
            b = B('C01', 'unary payload req=%d rep=%d' % (sz, rsz), ser=(sz % 2 == 0))
            b.step('ucall', c=1, pay=pay(rng, 'x', sz), hp=[ret(pay=pay(rng, 'y', rsz))])
            out.append(b.q().done())
    # (d) wide: many concurrent callers, shuffled completion by virtual sleeps
    wides = [(8, 3), (9, 2), (16, 2), (33, 1), (64, 1)] if tier == 'quick' else \
        [(k, 6) for k in (5, 8, 9, 12, 16, 24, 32, 48, 64)]
    for k, reps in wides:
        for r in range(reps):
            b = B('C01', 'unary wide k=%d #%d' % (k, r), ser=bool(r % 2))
            for c in range(1, k + 1):
                b.step('ucall', c=c, pay=pay(rng, 'q', rng.choice(SIZES[:6])) if rng.random() < .5 else 'req%d' % c,
                       hp=[dict(o='sleep', ms=rng.randrange(0, 50)), ret(pay='rep%d.%d' % (c, r))], nw=True)
            b.step('adv', ms=600)
            out.append(b.q().done())
    # (e) concurrent callers with large, distinct requests and replies
    for k, reps in ([(8, 2), (16, 2)] if tier == 'quick' else [(8, 6), (16, 6), (32, 6)]):
        for r in range(reps):
            b = B('C01', 'unary wide large k=%d #%d' % (k, r), ser=bool(r % 2))
            for c in range(1, k + 1):
                b.step('ucall', c=c, pay=pay(rng, 'q', rng.choice([1500, 4096, 9000, 65536])),
                       hp=[dict(o='sleep', ms=rng.randrange(0, 5)), ret(pay=pay(rng, 'p', rng.choice([1500, 4096, 9000, 65536])))], nw=True)
            b.step('adv', ms=100)
            out.append(b.q().done())
    if tier != 'quick':
        for r in range(300):
            k = rng.randrange(1, 40)
            b = B('C01', 'unary random k=%d #%d' % (k, r), ser=bool(r % 2), manual=bool(r % 3 == 0))
            live = []
            for c in range(1, k + 1):
                b.step('ucall', c=c, pay=pay(rng, 'q', rng.choice(SIZES)) if rng.random() < .3 else 'r%dq%d' % (r, c),
                       hp=[dict(o='sleep', ms=rng.randrange(0, 30)), ret(pay='r%dp%d' % (r, c))], nw=rng.random() < .7)
                if b.s.get('manual') and rng.random() < .5:
                    b.step('dlv', dir=rng.choice(['c2s', 's2c']), n=rng.randrange(1, 4))
            b.step('adv', ms=300)
            if b.s.get('manual'):
                for _ in range(4):
                    b.step('dlv', dir='c2s', n=-1)
                    b.step('adv', ms=300)
                    b.step('dlv', dir='s2c', n=-1)
            out.append(b.q().done())
    return out


# ------------------------------------------------------------------ C02 -----

def stream_scn(fam, tag, kind, cprog, hprog, n, m, manual=False, ser=True, c=1, b=None, extra_open=None):
    """One stream: client sends n messages, handler sends m (where the kind allows).
    cprog: sendall | pingpong | concurrent | earlyclose; hprog: echo | burst | afterEOF | earlyret"""
    own = b is None
    if own:
        b = B(fam, tag, manual=manual, ser=ser)
    cm = ['c%d.%d' % (c, i) for i in range(n)]
    hm = ['h%d.%d' % (c, i) for i in range(m)]
    if kind == 'ss':
        n, cm = 1, ['c%d.0' % c]
    if kind == 'cs':
        m, hm = 1, ['h%d.0' % c]
    # handler program
    if hprog == 'echo' and kind == 'bidi':
        hp = [dict(o='echo')]
        hm = list(cm)
    elif hprog == 'burst':
        hp = [dict(o='send', pay=x) for x in hm] + [dict(o='drain'), ret()]
    elif hprog == 'earlyret':
        k = max(0, n - 1) // 2
        hp = [dict(o='recv')] * k + [dict(o='send', pay=x) for x in hm] + [ret()]
    else:  # afterEOF: drain, then reply, then return
        hp = [dict(o='drain')] + [dict(o='send', pay=x) for x in hm] + [ret()]
    op = dict(c=c, kind=kind, hp=hp)
    if extra_open:
        op.update(extra_open)
    b.step('sopen', **op)
    nrecv = len(hm) + 1
    if cprog == 'sendall':
        for x in cm:
            b.step('send', c=c, pay=x)
        b.step('close', c=c)
        b.step('recv', c=c, n=nrecv)
    elif cprog == 'pingpong':
        got = 0
        for x in cm:
            b.step('send', c=c, pay=x)
            if got < len(hm) and hprog == 'echo':
                b.step('recv', c=c)
                got += 1
        b.step('close', c=c)
        b.step('recv', c=c, n=nrecv - got)
    elif cprog == 'concurrent':
        b.step('recv', c=c, n=nrecv, nw=True)
        for x in cm:
            b.step('send', c=c, pay=x, nw=True)
        b.step('close', c=c)
    elif cprog == 'earlyclose':
        if kind != 'ss':
            cm2 = cm[:1]
            for x in cm2:
                b.step('send', c=c, pay=x)
        else:
            b.step('send', c=c, pay=cm[0])
        b.step('close', c=c)
        b.step('recv', c=c, n=nrecv)
    b.step('trl', c=c)
    if own:
        if manual:
            for _ in range(3):
                b.step('dlv', dir='c2s', n=-1)
                b.step('dlv', dir='s2c', n=-1)
        return b.q().done()
    return b


def c02(tier, rng):
    from . import gen2
    out = gen2.late_messages('C02') + gen2.paused_handler_backlog('C02') + gen2.random_programs('C02', 80 if tier == 'quick' else 2000, rng) + gen2.slow_reader('C02', tier)
    kinds = ['bidi', 'cs', 'ss']
    cprogs = ['sendall', 'pingpong', 'concurrent', 'earlyclose']
    hprogs = ['echo', 'burst', 'afterEOF']
    counts = [0, 1, 2, 3] if tier == 'quick' else [0, 1, 2, 3, 17, 200]
    for kind in kinds:
        for cp in cprogs:
            for hp in hprogs:
                if hp == 'echo' and kind != 'bidi':
                    continue
                for n in counts:
                    for m in (counts if tier != 'quick' else [0, 2]):
                        if hp == 'echo' and cp == 'earlyclose':
                            continue
                        if hp == 'burst' and cp in ('sendall', 'earlyclose') and m > 1:
                            # a handler bursting before it reads while the caller sends everything
                            # before it reads is head-of-line blocking by design (no flow control)
                            continue
                        out.append(stream_scn('C02', '%s %s/%s n=%d m=%d' % (kind, cp, hp, n, m), kind, cp, hp, n, m,
                                              ser=bool((n + m) % 2)))
    # large distinct messages in bursts: several in flight between sender, writer, transport and a slow consumer
    for kind in ('bidi', 'ss', 'cs'):
        for size in ([1500, 8192] if tier == 'quick' else [1100, 1500, 4096, 8192, 65536]):
            for cnt in ([5, 40] if tier == 'quick' else [3, 10, 40, 200]):
                b = B('C02', '%s burst of %d messages of %d bytes' % (kind, cnt, size), ser=bool(cnt % 3))
                if kind == 'cs':      # the caller bursts, the handler reads late
                    b.step('sopen', c=1, kind=kind, hp=[])
                    for i in range(cnt):
                        b.step('send', c=1, pay=pay(rng, 'x', size), nw=True)
                    b.step('close', c=1)
                    b.step('hops', c=1, hp=[dict(o='drain'), dict(o='send', pay=pay(rng, 'r', size)), ret()])
                    b.step('recv', c=1, n=2)
                else:                 # the handler bursts, the caller reads late
                    hp = ([dict(o='recv')] if kind == 'ss' else []) + [dict(o='send', pay=pay(rng, 'y', size)) for _ in range(cnt)] + [dict(o='drain'), ret()]
                    b.step('sopen', c=1, kind=kind, hp=hp)
                    b.step('send', c=1, pay=pay(rng, 'x', size))
                    b.step('close', c=1)
                    b.step('recv', c=1, n=cnt + 1)
                b.step('trl', c=1)
                out.append(b.q().done())
    # all-default (empty) messages interleaved with non-empty ones, both directions (receivers reuse one message object)
    for kind in ('bidi', 'cs', 'ss'):
        for pat in (['a', '', 'b', '', ''], ['', 'x', ''], ['', ''], ['p', '', 'q']):
            b = B('C02', '%s empty/non-empty pattern %s' % (kind, '|'.join(x or '0' for x in pat)), ser=True)
            cm = pat if kind != 'ss' else pat[:1]
            hm = pat if kind != 'cs' else pat[:1]
            b.step('sopen', c=1, kind=kind, hp=[dict(o='drain')] + [dict(o='send', pay=x) for x in hm] + [ret()])
            for x in cm:
                b.step('send', c=1, pay=x)
            b.step('close', c=1)
            b.step('recv', c=1, n=len(hm) + 1)
            b.step('trl', c=1)
            out.append(b.q().done())
    # back-pressure: a transport that holds one [or 3] unread envelope(s) per direction (like goat's own unbuffered
    # channel transport), the caller sending and receiving concurrently: every hop is bounded, nothing may
    # wait for itself
    for kind, hprog in (('bidi', 'echo'), ('bidi', 'burst'), ('bidi', 'afterEOF'), ('ss', 'burst'), ('cs', 'afterEOF')):
        for cap in (1, 3):
            for n in ([8, 30] if tier == 'quick' else [2, 8, 30, 120]):
                if hprog == 'afterEOF' and kind == 'bidi' and n > 8:
                    continue
                sc_ = stream_scn('C02', 'back-pressure cap=%d: %s concurrent/%s n=%d' % (cap, kind, hprog, n), kind, 'concurrent',
                                 hprog, n, n if hprog != 'afterEOF' else 2, ser=bool(n % 3))
                sc_['cap'] = cap
                out.append(sc_)
    # a handler that returns (successfully) before it has read everything, beside a live stream: the
    # live stream keeps its order and completeness, the early one ends with the handler's result
    for kind in ('bidi', 'cs'):
        for nsent, nread in ([(3, 1), (4, 0)] if tier == 'quick' else [(3, 1), (4, 0), (5, 2), (8, 1)]):
            b = B('C02', 'early successful return of a %s handler after %d of %d, beside a live echo stream' % (kind, nread, nsent), ser=bool(nsent % 2))
            b.step('sopen', c=1, kind='bidi', hp=[dict(o='echo')])
            b.step('send', c=1, pay='a0').step('recv', c=1)
            b.step('sopen', c=2, kind=kind, hp=[dict(o='recv')] * nread)
            for i in range(nsent):
                b.step('send', c=2, pay='b%d' % i)
            b.q()
            b.step('hop', c=2, h=ret())          # ... and now it returns, with the rest unread
            b.q()
            b.step('send', c=1, pay='a1').step('recv', c=1)
            b.step('recv', c=2, n=2)
            b.step('send', c=1, pay='a2').step('recv', c=1)
            b.step('close', c=1).step('recv', c=1)
            b.step('trl', c=1)
            out.append(b.q().done())
    # several streams multiplexed on one connection
    for k in ([2, 5] if tier == 'quick' else [2, 3, 8, 16, 32]):
        for rep in range(2 if tier == 'quick' else 6):
            b = B('C02', 'multi k=%d #%d' % (k, rep), ser=True)
            for c in range(1, k + 1):
                kind = rng.choice(kinds)
                stream_scn('C02', '', kind, rng.choice(['sendall', 'pingpong', 'concurrent']),
                           'echo' if kind == 'bidi' and rng.random() < .6 else 'afterEOF',
                           rng.choice([0, 1, 2, 3]), rng.choice([0, 1, 2]), c=c, b=b)
            out.append(b.q().done())
    # the done-check -> select window of the terminal Recv (gate cs.recv.window)
    reps = 8 if tier == 'quick' else 64
    for kind in kinds:
        for m in (0, 1, 2):
            for r in range(reps):
                b = B('C02', 'recv-window %s m=%d #%d' % (kind, m, r), manual=True, ser=True)
                hm = ['w%d' % i for i in range(m if kind != 'cs' else 1)]
                b.step('sopen', c=1, kind=kind, hp=[dict(o='drain')] + [dict(o='send', pay=x) for x in hm] + [ret()])
                b.step('send', c=1, pay='x')
                b.step('close', c=1)
                b.step('dlv', dir='c2s', n=-1)
                b.step('dlv', dir='s2c', n=len(hm))          # everything but the close
                b.step('recv', c=1, n=len(hm))
                b.step('arm', gate='cs.recv.window', n=1)
                b.step('recv', c=1)                          # parks between done-check and select
                b.step('dlv', dir='s2c', n=-1)               # the close arrives; the read loop finishes
                b.step('rel', gate='cs.recv.window')
                b.step('trl', c=1)
                out.append(b.q().done())
    return out


# ------------------------------------------------------------------ C03 -----

MSGS = ['', 'boom', 'h\u00e9llo w\u00f6rld \u2603', 'x' * 4096]


def env(id, m=None, b=None, st=None, t=None, r=None, src='srv', dst='cli1', md=None, noh=False, braw=None, c=0):
    e = dict(id=id)
    if noh:
        e['noh'] = True
    else:
        e.update(m=m or '/verif.Svc/Unary', src=src, dst=dst)
    if md:
        e['md'] = md
    if c:
        e['c'] = c
    if b is not None:
        e['b'] = b
    if braw is not None:
        e['braw'] = braw
    if st is not None:
        e['st'] = dict(code=st[0], msg=st[1]) if len(st) < 3 else dict(code=st[0], msg=st[1], det=st[2])
    if t is not None:
        e['t'] = t
    if r:
        e['r'] = r
    return e


METH = {'unary': '/verif.Svc/Unary', 'bidi': '/verif.Svc/Bidi', 'cs': '/verif.Svc/CS', 'ss': '/verif.Svc/SS'}


def c03(tier, rng, fam='C03'):
    out = []
    codes = list(range(0, 17))
    eks = ['status', 'wrapped', 'plain', 'ctxcancel', 'ctxdl']
    # unary: every code / error kind
    for code in codes:
        for ek in (eks if tier != 'quick' else (['status'] if code % 3 else eks)):
            if code == 0 and ek in ('status', 'wrapped'):
                ek2, code2 = '', 0
            else:
                ek2, code2 = ek, code if ek in ('status', 'wrapped') else 2
            if code == 0 and ek in ('plain', 'ctxcancel', 'ctxdl') or code != 0 and ek in ('status', 'wrapped') or code == 0:
                msg = rng.choice(MSGS) if tier != 'quick' else MSGS[code % len(MSGS)]
                det = rng.choice([0, 0, 1, 3]) if ek2 in ('status', 'wrapped') else 0
                b = B(fam, 'unary code=%d ek=%s det=%d' % (code2, ek2 or 'nil', det), ser=bool(code % 2))
                b.step('ucall', c=1, pay='q', hp=[ret(code=code2, msg=msg, ek=ek2 if ek2 != 'status' else '', det=det, pay='rep')])
                out.append(b.q().done())
    # successful unary calls whose request and/or reply encode to zero bytes
    for rq in ('', 'q'):
        for rp in ('', 'p'):
            b = B(fam, 'unary ok, request %s, reply %s' % ('empty' if not rq else 'non-empty', 'empty' if not rp else 'non-empty'), ser=bool(rq))
            b.step('ucall', c=1, pay=rq, hp=[ret(pay=rp)])
            out.append(b.q().done())
    # the connection is reported closed with io.EOF (as net.Pipe / TCP transports do) in the middle of a stream:
    # that is a failure, not an end of stream
    for kind in ('bidi', 'ss'):
        for nread in (0, 1):
            b = B(fam, '%s transport io.EOF after %d responses' % (kind, nread), ser=True)
            b.step('sopen', c=1, kind=kind, hp=[dict(o='recv'), dict(o='send', pay='r0'), dict(o='ctxwait'), ret(code=1, msg='gone')])
            b.step('send', c=1, pay='x')
            b.step('recv', c=1, n=nread)
            b.step('fault', what='creadeof')
            b.step('recv', c=1, n=2)
            out.append(b.q().done())
    # streams: error at each position
    for kind in ('bidi', 'cs', 'ss'):
        for pos in (0, 1, 2):
            for code in (codes[1:] if tier != 'quick' else [1, 2, 5, 13, 16]):
                for ek in (['status'] if tier == 'quick' and code != 5 else eks):
                    msg = MSGS[(code + pos) % len(MSGS)]
                    det = (code + pos) % 4 if ek in ('status', 'wrapped') else 0
                    r = ret(code=code if ek in ('status', 'wrapped') else 2, msg=msg or 'm',
                            ek='' if ek == 'status' else ek, det=det)
                    n = 1 if kind == 'ss' else 2
                    if pos == 0:
                        hp = [r]
                    elif pos == 1:
                        hp = [dict(o='recv')] + ([dict(o='send', pay='s0')] if kind != 'cs' else []) + [r]
                    else:
                        hp = [dict(o='drain')] + ([dict(o='send', pay='s0'), dict(o='send', pay='s1')] if kind != 'cs' else []) + [r]
                    b = B(fam, '%s err pos=%d code=%d ek=%s' % (kind, pos, code, ek), ser=True)
                    b.step('sopen', c=1, kind=kind, hp=hp)
                    for i in range(n):
                        b.step('send', c=1, pay='c%d' % i)
                    b.step('close', c=1)
                    b.step('recv', c=1, n=4)
                    b.step('trl', c=1)
                    out.append(b.q().done())
    # a non-nil error whose status code is OK is rewritten (Internal on streams)
    for kind in ('bidi', 'cs', 'ss'):
        b = B(fam, '%s okerr' % kind, ser=True)
        b.step('sopen', c=1, kind=kind, hp=[dict(o='drain'), ret(ek='okerr', msg='odd')])
        b.step('send', c=1, pay='x').step('close', c=1).step('recv', c=1, n=2).step('trl', c=1)
        out.append(b.q().done())
    # foreign peers: raw server replying to a real client
    for shape in ('okstatus+body', 'nostatus+body', 'status-no-tmd', 'err+body', 'okstatus-nobody'):
        b = B(fam, 'foreign unary %s' % shape, rawsrv=True, ser=True)
        b.step('ucall', c=1, pay='q')
        if shape == 'okstatus+body':
            e = env(1, b='rep', st=(0, 'OK'), t=[])
        elif shape == 'nostatus+body':
            e = env(1, b='rep', t=[])
        elif shape == 'status-no-tmd':
            e = env(1, st=(5, 'nf'), t=[])
        elif shape == 'err+body':
            e = env(1, b='rep', st=(7, 'denied'), t=[])
        else:
            e = env(1, st=(0, 'OK'), t=[])
        b.step('inj', dir='s2c', env=e)
        out.append(b.q().done())
    for kind in ('bidi', 'ss', 'cs'):
        for pos in (0, 1):
            for shape in ('reset', 'reset-nostatus-notrailer', 'trailer-nostatus', 'err-status'):
                b = B(fam, 'foreign %s %s pos=%d' % (kind, shape, pos), rawsrv=True, ser=True)
                b.step('sopen', c=1, kind=kind)
                b.step('send', c=1, pay='x')
                m = METH[kind]
                if pos == 1:
                    b.step('inj', dir='s2c', env=env(1, m=m, b='r0'))
                    b.step('recv', c=1)
                if shape == 'reset':
                    e = env(1, m=m, t=[], r='RST_STREAM')
                elif shape == 'reset-nostatus-notrailer':
                    e = env(1, m=m, r='RST_STREAM')
                elif shape == 'trailer-nostatus':
                    e = env(1, m=m, t=[])
                else:
                    e = env(1, m=m, st=(9, 'precondition'), t=[])
                b.step('inj', dir='s2c', env=e)
                b.step('recv', c=1)
                b.step('trl', c=1)
                out.append(b.q().done())
    # the server's reset for a late body must not overtake the failing handler's trailer
    reps = 4 if tier == 'quick' else 32
    for kind in ('bidi', 'cs'):
        for r_ in range(reps):
            b = B(fam, 'late-body vs trailer %s #%d' % (kind, r_), ser=True)
            b.step('sopen', c=1, kind=kind, hp=[dict(o='recv')])
            b.step('send', c=1, pay='m1')
            b.step('arm', gate='srv.writer.window', id=1, n=1)
            b.step('hop', c=1, h=ret(code=3, msg='bad input'))
            b.step('send', c=1, pay='m2')                 # arrives after the handler has gone
            b.step('rel', gate='srv.writer.window')
            b.step('recv', c=1, n=2)
            b.step('trl', c=1)
            out.append(b.q().done())
    from . import gen2 as _g2
    out += _g2.late_body_before_trailer(fam)
    # a handler that outlives the deadline its request carried while its caller (a peer without a deadline of its own:
    # only the header says so) is still listening: what the handler returns is what is written - success included
    for kind in ('unary', 'bidi'):
        for k, h in enumerate(([ret(pay='late but fine')], [ret(code=8, msg='exhausted', det=1)], [ret(code=4, msg='my own deadline text')])):
            b = B(fam, '%s handler outlives the deadline of its request, outcome %d' % (kind, k), rawcli=True, ser=True)
            e = env(1, m=METH[kind], src='cliX', dst='srv', md=[['grpc-timeout', '50m']], c=101, **({'b': 'q'} if kind == 'unary' else {}))
            b.step('hops', c=101, hp=[dict(o='ctxwait')] + ([dict(o='send', pay='after')] if kind == 'bidi' and k == 0 else []) + h)
            b.step('inj', dir='c2s', env=e)
            b.q()
            b.step('adv', ms=60)
            out.append(b.q().done())
    # a unary handler that returns nil with a reply the codec refuses: whatever the server makes of it, not a success
    # ... and a stream handler whose Send is refused by the codec goes on and returns what it returns
    out += [x for x in _g2.unencodable_elsewhere(fam) if 'unencodable reply' in x['tag'] or 'handler' in x['tag']]
    return out


GENERATORS = {'C01': c01, 'C02': c02, 'C03': c03}


def _late():
    from . import gen2
    globals()['c04'] = gen2.c04
    GENERATORS.update({'C07': gen2.c07, 'C09': gen2.c09, 'C10': gen2.c10, 'C11': gen2.c11, 'C12': gen2.c12, 'C13': gen2.c13, 'C05': gen2.c05})


def relay_variants(scens, tier, rng, every=4):
    """clones of direct-topology scenarios run through the shipped relays: client - goat.Proxy - goat.Demux keyed by
    source - Serve (topology 'pd'), with the calls spread over two client connections where that is possible"""
    import copy
    out = []
    for i, s in enumerate(scens):
        if s.get('rawsrv') or s.get('rawcli') or s.get('runner') or s.get('topo'):
            continue
        ops = s['steps']
        if any(st.get('op') in ('stuck',) or (st.get('op') == 'fault' and st.get('what') in ('sread', 'swrite', 'stop', 'sreadeof')) or
               (st.get('op') == 'arm' and st.get('gate', '').startswith('srv.')) for st in ops):
            continue
        nmsg = sum(1 for st in ops if st.get('op') == 'send') + sum(len(st.get('hp', [])) for st in ops)
        if nmsg > 12 or any(h.get('o') == 'burst' for st in ops for h in st.get('hp', [])):
            continue        # stay below the proxy's 16-slot per-destination buffer (known finding D11)
        if tier == 'quick' and i % every:
            continue
        c = copy.deepcopy(s)
        c['topo'] = 'pd'
        c['ser'] = bool(len(out) % 2)        # both encodings of the relay links: serialising and by reference
        c['tag'] = 'via proxy+demux (%s): ' % ('serialising' if c['ser'] else 'by reference') + c.get('tag', '')
        calls = sorted({st['c'] for st in c['steps'] if st.get('op') in ('ucall', 'sopen')})
        if len(calls) >= 2 and not c.get('manual'):
            c['ncli'] = 2
            where = {cc: 1 + (k % 2) for k, cc in enumerate(calls)}
            for st in c['steps']:
                if st.get('op') in ('ucall', 'sopen'):
                    st['conn'] = where[st['c']]
        out.append(c)
    return out


def two_conn_variants(scens, tier, rng, every=5):
    """clones of direct-topology scenarios with the calls spread over TWO client connections to the same server
    (one Serve each): both connections use the same stream ids at the same time, so anything the server (or
    the harness-independent client package state) shares between connections shows up as a foreign event"""
    import copy
    out = []
    k = 0
    for s in scens:
        if s.get('rawsrv') or s.get('rawcli') or s.get('runner') or s.get('topo') or s.get('manual') or s.get('ncli'):
            continue
        ops = s['steps']
        if any(st.get('op') in ('stuck', 'fault', 'unfault', 'arm', 'rel', 'dlv', 'inj', 'auto') for st in ops):
            continue
        calls = sorted({st['c'] for st in ops if st.get('op') in ('ucall', 'sopen')})
        if len(calls) < 2:
            continue
        k += 1
        if tier == 'quick' and k % every:
            continue
        c = copy.deepcopy(s)
        c['ncli'] = 2
        c['tag'] = 'two connections: ' + c.get('tag', '')
        where = {cc: 1 + (i % 2) for i, cc in enumerate(calls)}
        for st in c['steps']:
            if st.get('op') in ('ucall', 'sopen'):
                st['conn'] = where[st['c']]
        out.append(c)
    return out


def generate(prop, tier, seed, genfn=None, first=1):
    _late()
    from . import props
    rng = random.Random(seed * 1000003 + int(prop[1:]) + 7919 * first)
    if isinstance(genfn, str):
        from . import gen2
        genfn = getattr(gen2, genfn)
    genfn = genfn or props.PROPS[prop].get('gen')
    if isinstance(genfn, str):
        from . import gen2
        genfn = getattr(gen2, genfn)
    g = genfn or GENERATORS[prop]
    scens = g(tier, rng)
    if prop in ('C01', 'C02', 'C03', 'C04') and genfn is None and not props.PROPS[prop].get('no_relay'):
        scens = scens + relay_variants(scens, tier, rng, every=4 if prop != 'C04' else 12)
    if prop in ('C07', 'C14') and (genfn is None or genfn.__name__ in ('c07', 'c14')):
        # cancellations, deadlines and the stepped histories through the README's deployment as well
        # (not the handlers that never receive: behind the demultiplexer the unread envelopes that identify the known finding
        # D23 are not where the harness can count them)
        scens = scens + relay_variants([x for x in scens if not (x.get('manual') or x.get('cap') or x.get('ncli') or '/idle ' in x.get('tag', ''))],
                                       tier, rng, every=6)
    if prop in ('C01', 'C02', 'C03', 'C05', 'C07', 'C11') and (genfn is None or genfn.__name__ == prop.lower()):
        base = [s for s in scens if not s.get('topo')]
        scens = scens + two_conn_variants(base, tier, rng)
    if prop in ('C03', 'C02', 'C01') and (genfn is None or genfn.__name__ == prop.lower()):
        # the same programs with pass-through interceptors installed (single / chained; server, client, both):
        # installing an interceptor that only calls the next stage changes nothing a caller or handler sees
        import copy
        extra = []
        k = 0
        for s in scens:
            if s.get('topo') or s.get('runner') or s.get('rawsrv') or s.get('rawcli') or s.get('ncli'):
                continue
            k += 1
            if k % (3 if prop == 'C03' else 9) and tier == 'quick':
                continue
            c = copy.deepcopy(s)
            c['sicpt'], c['cicpt'] = [(1, 0), (3, 0), (1, 1), (0, 1)][(k // 3) % 4]
            c['tag'] = 'interceptors server=%d client=%d: ' % (c['sicpt'], c['cicpt']) + c.get('tag', '')
            extra.append(c)
        scens = scens + extra
    if prop in ('C11', 'C07') and (genfn is None or genfn.__name__ == prop.lower()):
        # the same programs over a transport with back-pressure (2 unread envelopes per direction)
        import copy
        extra = []
        for k, s in enumerate(scens):
            if s.get('topo') or s.get('runner') or s.get('manual') or s.get('cap') or s.get('rawsrv') or s.get('rawcli') or s.get('nocap'):
                continue
            if tier == 'quick' and k % 4:
                continue
            c = copy.deepcopy(s)
            c['cap'] = 2
            c['tag'] = 'back-pressure cap=2: ' + c.get('tag', '')
            extra.append(c)
        scens = scens + extra
    if prop in ('C01', 'C02', 'C03', 'C06') and (genfn is None or genfn.__name__ == prop.lower()):
        # the same programs between a client and a server that use no names at all (README: empty destination and server name)
        import copy
        extra = []
        k = 0
        for s in scens:
            if s.get('topo') or s.get('runner') or s.get('rawsrv') or s.get('rawcli') or s.get('ncli') or s.get('srv') or s.get('dst'):
                continue
            k += 1
            if k % (11 if tier == 'quick' else 5):
                continue
            c = copy.deepcopy(s)
            c['anon'] = True
            c['tag'] = 'no names: ' + c.get('tag', '')
            extra.append(c)
        scens = scens + extra
    for i, s in enumerate(scens):
        s['sc'] = first + i
        s.setdefault('steps', [])
    return scens
