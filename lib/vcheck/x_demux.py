"""Scenario generator for C18 (runner "demux", harness/driver/x_demux.go).

Families
  order   every interleaving of the per-key arrival sequences x every consumption
          order of the logical connections (<= 3 keys x <= 2 envelopes: exhaustive
          in the thorough tier, the small shapes exhaustive + a sample of the large
          ones in quick), readers started before or after the arrivals, plus writes
  wide    random arrival sequences over 1..8 keys, random consumption, writes
  cancel  Cancel(key) placed at each step of base conversations, without and with
          the run loop parked in demux.run.window (between unlock and hand-off);
          afterwards the old connection is read and written (must fail, not hang,
          not crash) and the key is used again (next incarnation, announced again)
  stop    Stop placed at each step, without and with the gate window
  writer  the shared transport blocks writers: logical writers mid-write while
          Cancel / Stop land
  rpc     complete RPC workloads (unary + bidi echo) from 1..3 real goat clients
          multiplexed over the shared link into one goat.Server; Cancel(client) /
          Stop at each step, plain / gate window / blocked shared writer

Every scenario ends with a Quiesce line; the harness then unwinds.
"""
import itertools

GATE = 'demux.run.window'


def _scen(tag, mode, steps, ncli=0):
    d = dict(fam='C18', runner='demux', mode=mode, tag=tag, steps=steps)
    if ncli:
        d['ncli'] = ncli
    return d


def IN(k, pay):
    return dict(op='in', k=k, pay=pay)


def LR(k, inc=0):
    return dict(op='lread', k=k, inc=inc) if inc else dict(op='lread', k=k)


def LW(k, pay, inc=0):
    return dict(op='lwrite', k=k, pay=pay, inc=inc) if inc else dict(op='lwrite', k=k, pay=pay)


Q = dict(op='q')
STOP = dict(op='stop')
ARM = dict(op='arm', gate=GATE, n=1)
REL = dict(op='rel', gate=GATE)


def CANCEL(k):
    return dict(op='cancel', k=k)


def STUCK(on):
    return dict(op='stuck', on=on)


def HOLD(on):
    return dict(op='hold', on=on)


def _multiset_perms(counts):
    """all distinct sequences with counts[k] copies of k"""
    keys = sorted(counts)

    def rec(left, acc):
        if not any(left.values()):
            yield tuple(acc)
            return
        for k in keys:
            if left[k]:
                left[k] -= 1
                acc.append(k)
                yield from rec(left, acc)
                acc.pop()
                left[k] += 1
    yield from rec(dict(counts), [])


# ------------------------------------------------------------------ order ----

def _order_scen(arr, cons, readers_first, writes):
    steps, n = [], 0
    ins = []
    for k in arr:
        n += 1
        ins.append(IN(k, 't%d' % n))
    reads = [LR(k) for k in cons]
    if readers_first == 1:
        # the first reader of a key can only exist once the key was announced: it waits in the harness
        steps = [dict(r, nw=True) for r in reads] + ins
    elif readers_first == 2:      # alternate
        for i in range(max(len(ins), len(reads))):
            if i < len(ins):
                steps.append(ins[i])
            if i < len(reads):
                steps.append(reads[i])
    else:
        steps = ins + reads
    steps.append(Q)
    if writes:
        for i, k in enumerate(sorted(set(arr))):
            steps.append(LW(k, 'w%d' % (i + 1)))
            steps.append(LW(k, 'v%d' % (i + 1)))
        steps.append(Q)
    tag = 'raw/order arr=%s cons=%s rf=%d w=%d' % (''.join(arr), ''.join(cons), readers_first, int(writes))
    return _scen(tag, 'raw', steps)


def gen_order(tier, rng):
    out = []
    shapes = []
    for nk in (1, 2, 3):
        for cnt in itertools.product((1, 2), repeat=nk):
            if list(cnt) == sorted(cnt, reverse=True):      # shapes up to renaming of keys
                shapes.append(dict(zip('abc', cnt)))
    for sh in shapes:
        cons_all = list(_multiset_perms(sh))
        # keys are opaque to the library: arrival sequences up to renaming of keys with equal counts
        arrs = [a for a in cons_all
                if all(a.index(x) < a.index(y) for x in sh for y in sh if x < y and sh[x] == sh[y])]
        total = len(arrs) * len(cons_all)
        pairs = [(a, c) for a in arrs for c in cons_all]
        limit = 100000 if tier == 'thorough' else 24
        if total > limit:
            pairs = rng.sample(pairs, limit)
        for a, c in pairs:
            rf = rng.choice((0, 0, 1, 2))
            out.append(_order_scen(a, c, rf, rng.random() < 0.3))
    return out


def gen_wide(tier, rng):
    out = []
    n = 400 if tier == 'thorough' else 20
    for i in range(n):
        nk = rng.randint(1, 8)
        keys = ['k%d' % j for j in range(1, nk + 1)]
        arr = [rng.choice(keys) for _ in range(rng.randint(nk, 3 * nk + 2))]
        steps, t = [], 0
        cons = list(arr)
        rng.shuffle(cons)
        # readers are goroutines: any consumption order completes
        ops = [('in', k) for k in arr] + [('rd', k) for k in cons]
        # keep the arrival order, place reads anywhere
        pos = sorted(rng.sample(range(len(ops)), len(arr)))
        seq = [None] * len(ops)
        for p, k in zip(pos, arr):
            seq[p] = ('in', k)
        it = iter(cons)
        for j in range(len(seq)):
            if seq[j] is None:
                seq[j] = ('rd', next(it))
        for kind, k in seq:
            if kind == 'in':
                t += 1
                steps.append(IN(k, 't%d' % t))
            else:
                steps.append(dict(LR(k), nw=True))
            if rng.random() < 0.15:
                t += 1
                steps.append(dict(op='lwrite', k=rng.choice(arr), pay='w%d' % t, nw=True))
        steps.append(Q)
        out.append(_scen('raw/wide keys=%d env=%d #%d' % (nk, len(arr), i), 'raw', steps))
    return out


# ---------------------------------------------------------- cancel / stop ----

BASES = {
    'b1': [IN('a', 't1'), LR('a'), IN('a', 't2'), LR('a'), LW('a', 'w1'), IN('b', 't3'), LR('b'), LW('b', 'w2')],
    'b2': [IN('a', 't1'), IN('b', 't2'), LR('b'), LR('a'), IN('a', 't3'), IN('b', 't4'), LR('a'), LR('b')],
    'b3': [IN('a', 't1'), LR('a'), LR('a'), LW('a', 'w1'), IN('a', 't2'), LW('a', 'w2')],
    'b4': [IN('a', 't1'), IN('a', 't2'), IN('b', 't3'), LR('a'), LR('a'), LR('b'), LW('b', 'w1')],
    'b5': [IN('a', 't1'), LR('a'), IN('b', 't2'), LR('b'), IN('c', 't3'), LR('c'), LW('a', 'w1'), LW('b', 'w2'), LW('c', 'w3')],
}


def _tail_after_cancel(k, variant):
    """use of the old connection and of the key after Cancel(k)"""
    t = [Q]
    if variant % 2 == 0:
        t += [LR(k, 1), LW(k, 'x1', 1), Q]
    else:
        t += [LW(k, 'x1', 1), LR(k, 1), Q]
    t += [IN(k, 'n1'), LR(k, 2), LW(k, 'y1', 2), Q]
    if variant >= 2:
        t += [CANCEL(k), Q, LR(k, 2), IN(k, 'n2'), LR(k, 3), Q]
    return t


def _with_event(base, pos, event, gated):
    """base[:pos] + event + base[pos:]; gated: the run loop is parked in the
    window with the next arriving envelope in hand while the event lands"""
    pre, post = list(base[:pos]), list(base[pos:])
    if not gated:
        return pre + event + post
    # find the next arrival in post; park Run on it
    for j, st in enumerate(post):
        if st['op'] == 'in':
            return pre + post[:j] + [ARM, st] + event + [REL] + post[j + 1:]
    return None


def gen_cancel(tier, rng):
    out = []
    for name, base in BASES.items():
        keys = sorted({s['k'] for s in base})
        for pos in range(len(base) + 1):
            for k in keys:
                if not any(s['op'] == 'in' and s['k'] == k for s in base[:pos + 1]):
                    # Cancel of a key never seen is a no-op: keep one such case per base
                    if pos > 0:
                        continue
                for gated in (False, True):
                    for variant in ((0, 1, 2, 3) if tier == 'thorough' else (rng.randrange(4),)):
                        steps = _with_event(base, pos, [CANCEL(k)], gated)
                        if steps is None:
                            continue
                        steps = steps + _tail_after_cancel(k, variant)
                        out.append(_scen('raw/cancel %s pos=%d key=%s gate=%d v=%d' % (name, pos, k, gated, variant), 'raw', steps))
    # reader / nobody waiting on the hand-off while Cancel lands (no gate needed)
    out.append(_scen('raw/cancel handoff-blocked', 'raw', [IN('a', 't1'), CANCEL('a'), Q]))
    out.append(_scen('raw/cancel reader-blocked', 'raw', [IN('a', 't1'), LR('a'), LR('a'), CANCEL('a'), Q]))
    out.append(_scen('raw/cancel write-after', 'raw', [IN('a', 't1'), LR('a'), CANCEL('a'), LW('a', 'w1', 1), Q]))
    out.append(_scen('raw/cancel window', 'raw', [ARM, IN('a', 't1'), LR('a'), CANCEL('a'), REL, Q]))
    out.append(_scen('raw/cancel window existing', 'raw',
                     [IN('a', 't1'), LR('a'), ARM, IN('a', 't2'), LR('a'), CANCEL('a'), REL, Q, IN('a', 't3'), LR('a', 2), Q]))
    return out


def gen_stop(tier, rng):
    out = []
    for name, base in BASES.items():
        for pos in range(len(base) + 1):
            for gated in (False, True):
                steps = _with_event(base, pos, [STOP, Q], gated)
                if steps is None:
                    continue
                out.append(_scen('raw/stop %s pos=%d gate=%d' % (name, pos, gated), 'raw', steps + [Q]))
    out.append(_scen('raw/stop handoff-blocked', 'raw', [IN('a', 't1'), STOP, Q]))
    out.append(_scen('raw/stop idle', 'raw', [STOP, Q]))
    out.append(_scen('raw/stop window reader', 'raw', [ARM, IN('a', 't1'), LR('a'), STOP, REL, Q]))
    out.append(_scen('raw/stop window noreader', 'raw', [ARM, IN('a', 't1'), STOP, REL, Q]))
    out.append(_scen('raw/stop then cancel', 'raw', [IN('a', 't1'), LR('a'), STOP, Q, CANCEL('a'), LR('a', 1), LW('a', 'w', 1), Q]))
    return out


def gen_stop_traffic(tier, rng):
    """Stop while traffic is flowing: the run loop is not parked in Read but between two iterations (gate window,
    or just released by a consumer), further envelopes are already waiting on the shared transport and the
    transport hands buffered data out before it looks at the context. Go's select decides whether the envelope in
    hand still goes to its reader; either way nothing crashes, Run returns, nobody hangs."""
    out = []
    reps = 12 if tier == 'thorough' else 4
    for rep in range(reps):
        for nxt in ('a', 'b', 'ab', 'ba', 'aab'):          # keys of the envelopes already waiting behind the one in hand
            for reader in (True, False):
                steps = [IN('a', 't0'), LR('a'), ARM, IN('a', 't1')]
                if reader:
                    steps.append(dict(LR('a'), nw=True))
                steps += [IN(k, 'n%d' % i) for i, k in enumerate(nxt)]
                steps += [STOP, REL, Q]
                steps += [dict(LR(k), nw=True) for k in sorted(set(nxt))] + [Q]
                d = _scen('raw/stop-traffic next=%s reader=%d #%d' % (nxt, reader, rep), 'raw', steps)
                d['datafirst'] = True
                out.append(d)
    return out


def gen_writer(tier, rng):
    out = []
    for nw in (1, 2, 3):
        for ev in ('cancel', 'stop', 'none'):
            for unstick in ('before', 'after', 'never'):
                steps = [IN('a', 't1'), LR('a'), IN('b', 't2'), LR('b'), STUCK(True)]
                steps += [LW('a', 'w%d' % i) for i in range(1, nw + 1)] + [LW('b', 'u1'), Q]
                e = {'cancel': [CANCEL('a')], 'stop': [STOP], 'none': []}[ev]
                if unstick == 'before':
                    steps += [STUCK(False)] + e
                elif unstick == 'after':
                    steps += e + [Q, STUCK(False)]
                else:
                    steps += e
                steps += [Q]
                if ev == 'cancel':
                    steps += [LW('a', 'z1', 1), Q, IN('a', 't3'), LR('a', 2), LW('a', 'z2', 2), Q]
                out.append(_scen('raw/writer n=%d ev=%s unstick=%s' % (nw, ev, unstick), 'raw', steps))
    return out


def ADV(ms):
    return dict(op='adv', n=ms)


def gen_patient_writer(tier, rng):
    """a shared transport that takes its time over a write (back-pressure: 6 s, 12 s, 45 s, 3 min of virtual time): the
    write waits, then goes out; nothing is given up, the key's writer lives on"""
    out = []
    for ms in (6000, 12000, 45000, 180000):
        for nkeys in (1, 2):
            steps = [IN('a', 't1'), LR('a'), IN('b', 't2'), LR('b'), STUCK(True), LW('a', 'w1')]
            if nkeys == 2:
                steps += [LW('b', 'u1')]
            steps += [Q, ADV(ms), Q, STUCK(False), Q, LW('a', 'w2'), LW('b', 'u2'), Q]
            out.append(_scen('raw/patient writer: the shared transport holds a write for %d ms, %d key(s)' % (ms, nkeys), 'raw', steps))
    return out


def REFUSE(n=1):
    return dict(op='refuse', n=n)


def gen_refused(tier, rng):
    """the shared transport refuses one write (a transient error; it stays up): the envelope is lost, that
    connection's writer is gone - nothing else happens, in particular not to a later incarnation of the key
    (the write was held in the transport while the key was cancelled and used again) or to other keys"""
    out = []
    for later in ('same key', 'other key', 'none'):
        for nextra in (0, 2):
            for when in ('held', 'direct'):
                steps = [IN('a', 't1'), LR('a'), IN('b', 't2'), LR('b')]
                if when == 'held':
                    steps += [STUCK(True), LW('a', 'w1', 1), Q]
                    if later == 'same key':
                        steps += [CANCEL('a'), IN('a', 't3'), LR('a', 2), Q]
                    elif later == 'other key':
                        steps += [CANCEL('b'), IN('b', 't3'), LR('b', 2), Q]
                    steps += [REFUSE(), Q, STUCK(False), Q]
                else:
                    if later == 'same key':
                        continue
                    steps += [REFUSE(), LW('a', 'w1', 1), Q]
                inc_a = 2 if (when == 'held' and later == 'same key') else 1
                inc_b = 2 if (when == 'held' and later == 'other key') else 1
                # traffic afterwards: everything read for the keys arrives on their current connections, no further
                # announcement; writes on connections whose writer is alive reach the transport
                for i in range(nextra):
                    steps += [IN('a', 'x%d' % i), IN('b', 'y%d' % i)]
                steps += [LR('a', inc_a) for _ in range(nextra)] + [LR('b', inc_b) for _ in range(nextra)]
                steps += [LW('b', 'u1', inc_b)] + ([LW('a', 'u2', inc_a)] if inc_a == 2 else []) + [Q]
                out.append(_scen('raw/refused write (%s), then %s reused, %d more each' % (when, later, nextra), 'raw', steps))
    return out


# -------------------------------------------------------------------- rpc ----

def _workload(ncli, shape, rng):
    """per-client programs, interleaved round-robin or randomly; returns steps"""
    progs, c = [], 0
    for i in range(1, ncli + 1):
        cli = 'cli%d' % i
        p = []
        for kind in shape:
            c += 1
            if kind == 'u':
                p.append([dict(op='ucall', c=c, k=cli, kind='unary', pay='p%d' % c)])
            else:
                p.append([dict(op='sopen', c=c, k=cli, kind='bidi'),
                          dict(op='ssend', c=c, pay='m%da' % c), dict(op='srecv', c=c),
                          dict(op='ssend', c=c, pay='m%db' % c), dict(op='srecv', c=c),
                          dict(op='sclose', c=c), dict(op='srecv', c=c)])
        progs.append([st for blk in p for st in blk])
    steps = []
    idx = [0] * ncli
    while any(idx[i] < len(progs[i]) for i in range(ncli)):
        live = [i for i in range(ncli) if idx[i] < len(progs[i])]
        i = rng.choice(live)
        steps.append(progs[i][idx[i]])
        idx[i] += 1
    return steps, c


def gen_rpc(tier, rng):
    out = []
    shapes = ['u', 'uu', 's', 'us', 'su', 'usu']
    # plain workloads
    for ncli in (1, 2, 3):
        for sh in shapes:
            for rep in range(3 if tier == 'thorough' else 1):
                steps, _ = _workload(ncli, sh, rng)
                out.append(_scen('rpc/plain ncli=%d %s #%d' % (ncli, sh, rep), 'rpc', steps + [Q], ncli))
    # held input released in bursts: the arrival interleaving is decided by the clients' order
    for ncli in (2, 3):
        steps, _ = _workload(ncli, 'u', rng)
        out.append(_scen('rpc/hold ncli=%d' % ncli, 'rpc', [HOLD(True)] + [dict(s, nw=True) for s in steps] + [Q, HOLD(False), Q], ncli))
    # a real Server's writer goroutine waits on w behind a blocked shared writer while Cancel / Stop land
    def U(c, cli, pay):
        return dict(op='ucall', c=c, k=cli, kind='unary', pay=pay)
    for ev in ('cancel', 'stop'):
        e = [CANCEL('cli1')] if ev == 'cancel' else [STOP]
        out.append(_scen('rpc/%s server-writer-blocked' % ev, 'rpc',
                         [U(1, 'cli1', 'p0'), STUCK(True), U(2, 'cli1', 'p1'), U(3, 'cli1', 'p2'), Q] + e
                         + [Q, STUCK(False), U(4, 'cli1', 'probe'), U(5, 'cli2', 'other'), Q], 2))
    # Cancel(client) / Stop at each step
    for ncli in (2, 3) if tier == 'thorough' else (2,):
        for sh in (shapes if tier == 'thorough' else ['us', 'su']):
            base, nc = _workload(ncli, sh, rng)
            for pos in range(len(base) + 1):
                for ev in ('cancel', 'stop'):
                    for mode in ('plain', 'gate', 'stuck'):
                        if tier != 'thorough' and rng.random() < 0.45:
                            continue
                        victim = 'cli%d' % rng.randint(1, ncli)
                        e = [CANCEL(victim)] if ev == 'cancel' else [STOP]
                        pre, post = base[:pos], base[pos:]
                        if mode == 'plain':
                            steps = pre + e + post
                        elif mode == 'gate':
                            # park Run on the next envelope any client produces
                            if not post:
                                continue
                            steps = pre + [ARM, post[0]] + e + [REL] + post[1:]
                        else:
                            # responses pile up behind a blocked shared writer
                            if not post:
                                continue
                            steps = pre + [STUCK(True), post[0], Q] + e + [Q, STUCK(False)] + post[1:]
                        steps = steps + [Q]
                        if ev == 'cancel':
                            # the logical client comes back: next incarnation, served again
                            steps += [dict(op='ucall', c=nc + 1, k=victim, kind='unary', pay='probe'), Q]
                        out.append(_scen('rpc/%s %s ncli=%d %s pos=%d' % (ev, mode, ncli, sh, pos), 'rpc', steps, ncli))
    return out


def generate(tier, rng):
    out = []
    out += gen_order(tier, rng)
    out += gen_wide(tier, rng)
    out += gen_cancel(tier, rng)
    out += gen_stop(tier, rng)
    out += gen_stop_traffic(tier, rng)
    out += gen_writer(tier, rng)
    out += gen_refused(tier, rng)
    out += gen_patient_writer(tier, rng)
    out += gen_rpc(tier, rng)
    if tier != 'thorough' and len(out) > 340:
        # keep the hand-written corner cases (they carry no pos=) and sample the rest evenly
        keep = [s for s in out if 'pos=' not in s['tag'] and 'arr=' not in s['tag']]
        rest = [s for s in out if s not in keep]
        rng.shuffle(rest)
        out = keep + rest[:max(0, 340 - len(keep))]
    return out
