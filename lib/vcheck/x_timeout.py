"""Scenario generator for property C08 (runner "timeout", spec/TimeoutTrace.tla).

Two kinds of steps, batched so that one scenario is one class of inputs (the
tag of a rejected scenario names the class):

  {op: 'parse', what: <header value>, pay: <header key>, kind: unary|bidi|cs|ss}
      the value goes through the parser hook and, under the given key, in a raw
      request into a real server
  {op: 'prop', what: 'dl'|'none', to: <caller timeout, ns>, ms: <ns slept between creating
   the context and calling>, n: <transit, ns>, kind: ...}
      a real client calls a real server on the virtual clock

The generator only enumerates inputs; what they mean is decided by the
specification from the characters the driver logs.
"""

UNITS = 'HMSmun'
KINDS = ['unary', 'bidi', 'cs', 'ss']
KEY = 'grpc-timeout'
MAX_HOURS = 2562047          # largest hour count below 2^63-1 ns
MS, SEC, HOUR = 10**6, 10**9, 3600 * 10**9


def rand_case(rng, s):
    return ''.join(c.upper() if rng.random() < 0.5 else c for c in s)


def keys(rng, n):
    """header keys that are grpc-timeout in some letter case"""
    out = [KEY, KEY.upper(), 'Grpc-Timeout', 'GRPC-Timeout', 'grpc-timeouT']
    while len(out) < n:
        out.append(rand_case(rng, KEY))
    return out


class Batcher:
    def __init__(self, rng, size):
        self.rng, self.size, self.scens = rng, size, []

    def parse(self, tag, values, key_of=None):
        """one or more scenarios of parser vectors"""
        ks = keys(self.rng, 16)
        steps = []
        for i, v in enumerate(values):
            k = key_of(i) if key_of else ks[self.rng.randrange(len(ks))]
            steps.append(dict(op='parse', what=v, pay=k, kind=KINDS[self.rng.randrange(4)]))
        self._emit(tag, steps)

    def prop(self, tag, runs, junk=None):
        self._emit(tag, [dict(op='prop', what='none' if to is None else 'dl', to=to or 0, ms=pre, n=tr, kind=kind,
                              **({'pay': junk[i % len(junk)]} if junk else {}))
                         for i, (to, pre, tr, kind) in enumerate(runs)])

    def _emit(self, tag, steps):
        for i in range(0, len(steps), self.size):
            part = steps[i:i + self.size]
            self.scens.append(dict(fam='C08', tag='%s [%d..%d]' % (tag, i, i + len(part) - 1), runner='timeout', steps=part))


def digits(rng, nd):
    return ''.join(rng.choice('0123456789') for _ in range(nd))


def wellformed(rng, unit, nd, nrand):
    """values of nd digits: boundary patterns and random ones"""
    vs = ['0' * nd, '0' * (nd - 1) + '1', '9' * nd, '1' + '0' * (nd - 1)]
    if nd > 1:
        vs.append('9' + '0' * (nd - 1))
        vs.append('1' + '9' * (nd - 1))
    if unit == 'H' and nd >= 7:        # the only saturation threshold eight digits can reach
        for d in (-1, 0, 1):
            vs.append(str(MAX_HOURS + d).rjust(nd, '0'))
    if unit in 'mun' and nd >= 4:       # carries into the next larger unit
        for v in (999, 1000, 1001, 59999, 60000, 3599999, 3600000):
            if len(str(v)) <= nd:
                vs.append(str(v).rjust(nd, '0'))
    if unit in 'MS' and nd >= 2:
        for v in (59, 60, 61, 3599, 3600, 3601):
            if len(str(v)) <= nd:
                vs.append(str(v).rjust(nd, '0'))
    for _ in range(nrand):
        vs.append(digits(rng, nd))
    for _ in range(max(1, nrand // 4)):  # random with leading zeros
        z = rng.randrange(0, nd)
        vs.append('0' * z + digits(rng, nd - z))
    return [v + unit for v in dict.fromkeys(vs)]


def malformed(rng, mult):
    """classes of values the grammar does not admit: name -> list of values"""
    def some(nd):
        return digits(rng, nd)
    c = {}
    c['empty'] = ['']
    c['unit only'] = list(UNITS)
    c['no unit'] = [some(n) for n in range(1, 12)] + ['0', '1', '99999999', '100']
    signed = []
    for u in UNITS:
        for s in '+-':
            signed += [s + '0' + u, s + '1' + u, s + '5' + u, s + '9999999' + u, s + '99999999' + u]
            signed += [s + some(rng.randrange(1, 8)) + u for _ in range(mult)]
    c['signed'] = signed + ['+', '-', '+S', '-m', '--5S', '+-5S', '5-S', '5+3S', '-9223372036854775808n', '-2562048H']
    over = []
    for u in UNITS:
        over += ['0' * 8 + '1' + u, '0' * 9 + u, '1' + '0' * 8 + u, '9' * 9 + u, '9' * 10 + u, '9' * 19 + u, '9' * 25 + u]
        over += [some(rng.randrange(9, 24)) + u for _ in range(2 * mult)]
        over += ['0' * rng.randrange(1, 9) + some(8) + u for _ in range(mult)]
    # the first values whose product leaves 63 bits, and the neighbours below
    over += ['153722867M', '153722868M', '9223372036S', '9223372037S', '9223372036854m', '9223372036855m',
             '9223372036854775u', '9223372036854776u', '9223372036854775807n', '9223372036854775808n',
             '18446744073709551616n', '002562047H', '002562048H', '100000000m', '36000000000m']
    c['more than 8 digits'] = over
    nond = []
    for u in UNITS:
        nond += ['1a2' + u, '1.5' + u, '1e3' + u, '0x10' + u, '1_0' + u, ' 5' + u, '5 ' + u, '5' + u + ' ', '\t5' + u,
                 '5' + u + '\n', '5,0' + u, '٣' + u, '１' + u, '५' + u, '5 ' + u, '1٠' + u]
        for _ in range(mult):
            v = list(some(rng.randrange(2, 8)))
            v[rng.randrange(len(v))] = rng.choice('abcdefxyzHMSmun .,:;_/*é')
            nond.append(''.join(v) + u)
    c['non-digit'] = nond
    unk = []
    for u in ['x', 'h', 's', 'U', 'N', 'd', 'D', 'W', 'Y', 'µ', 'μ', 'ms', 'us', 'ns', 'Hz', 'mm', 'SS', 'sec', 'min', '0', '9', '%', '?']:
        unk += ['5' + u, '0' + u, '99999999' + u] + [some(rng.randrange(1, 9)) + u for _ in range(mult)]
    c['unknown unit'] = unk + ['S5', 'm10', 'H1H', '5Sm', '5mS', '5H5']
    return c


def prop_runs(rng, n_random, kinds_per_class):
    """(timeout ns | None, pre-sleep ns, transit ns, kind) by class"""
    cls = {}

    def kinds():
        return KINDS if kinds_per_class >= 4 else rng.sample(KINDS, kinds_per_class)

    def cross(tos, transits, pre=0):
        return [(to, pre, tr, k) for to in tos for tr in transits for k in kinds()]

    near = [0, 250_000, MS, 7 * MS]
    cls['no deadline'] = cross([None], [0, MS, SEC])
    cls['already expired'] = (cross([-10**4 * HOUR, -HOUR, -SEC, -MS, -1, 0], [0, MS])
                              + cross([3 * MS, MS, 1], [0, 2 * MS], pre=5 * MS))
    cls['closer than 1 ms'] = cross([1, 250_000, 500_000, 999_999, MS - 1], near)
    cls['closer than 1 ms after a wait'] = cross([5 * MS + 1, 5 * MS + 999_999], [0, MS], pre=5 * MS)
    edge = []
    for k in (1, 2, 3, 10, 999, 1000, 1001, 59_999, 60_000, 3_599_999, 3_600_000, 86_400_000):
        edge += [k * MS, k * MS + 1, k * MS + 500_000, k * MS + 999_999]
    cls['millisecond edges'] = cross(edge, [0, 250_000, SEC])
    cls['transit beyond the deadline'] = [(to, 0, to + extra, k) for to in (MS, 2 * MS + 300_000, 50 * MS, SEC)
                                          for extra in (0, 1, MS, SEC) for k in kinds()]
    lim = 10**8 * MS            # the first timeout that needs nine digits in milliseconds
    cls['eight-digit limit'] = cross([lim - MS, lim - 1, lim, lim + 1, lim + 500 * MS, lim + SEC - 1, lim + SEC, lim + SEC + 1],
                                     [0, MS, SEC])
    top = 10**4 * HOUR
    cls['beyond 10^8 ms, whole seconds'] = cross([lim + 3600 * SEC, 2 * lim, 10**3 * HOUR, top - SEC, top] +
                                                 [rng.randrange(lim // SEC, top // SEC + 1) * SEC for _ in range(max(2, n_random // 8))],
                                                 [0, 2 * SEC])
    cls['beyond 10^8 ms, fractions'] = cross([top - 1, top - MS, top - 500 * MS] +
                                             [rng.randrange(lim, top + 1) for _ in range(max(2, n_random // 8))], [0, 2 * SEC])
    # beyond 10^8 seconds (3.17 years) the client has to count in minutes, beyond 10^8 minutes (190 years) in hours
    s8, m8 = 10**8 * SEC, 10**8 * 60 * SEC
    cls['beyond 10^8 s: minutes and hours'] = cross([s8 - SEC, s8, s8 + SEC, s8 + 60 * SEC, 3 * 10**4 * HOUR + 1, 10**5 * HOUR, m8 - 60 * SEC, m8, m8 + 1,
                                                    m8 + 60 * SEC, m8 + HOUR, 17 * 10**5 * HOUR + 59 * 60 * SEC, 25 * 10**5 * HOUR], [0, 2 * SEC])
    rnd = []
    for _ in range(n_random):
        mag = rng.uniform(0, 16.556)     # log-uniform over 1 ns .. 10^4 h
        to = min(top, max(1, int(10 ** mag)))
        if rng.random() < 0.3:
            to = to // MS * MS
        tr = rng.choice([0, 0, 250_000, MS, rng.randrange(0, 3 * SEC)])
        rnd.append((to, rng.choice([0, 0, 0, rng.randrange(0, 2 * MS)]), tr, rng.choice(KINDS)))
    cls['random'] = rnd
    return cls


def generate(tier, rng):
    thorough = tier != 'quick'
    b = Batcher(rng, 100 if thorough else 25)
    nrand = 400 if thorough else 2
    # 1. the grammar: six units x one to eight digits
    for u in UNITS:
        vals = []
        for nd in range(1, 9):
            vals += wellformed(rng, u, nd, nrand)
        b.parse('grammar unit %s, 1..8 digits' % u, vals)
    # 2. what the grammar does not admit
    for name, vals in malformed(rng, 24 if thorough else 1).items():
        b.parse('malformed: ' + name, list(dict.fromkeys(vals)))
    # 3. admitted values under keys that are not the timeout key: no deadline
    others = ['grpc_timeout', 'grpc-timeouts', 'xgrpc-timeout', 'grpc-timeout ', 'grpc-time', 'timeout', 'GRPC-TIMEOUT-MS',
              'grpc‐timeout']
    vals = [digits(rng, rng.randrange(1, 9)) + rng.choice(UNITS) for _ in range(len(others) * (8 if thorough else 2))]
    b.parse('other header keys', vals, key_of=lambda i: others[i % len(others)])
    # 4. every letter case of the key position by position, with one admitted value
    ks = [KEY[:i] + KEY[i].upper() + KEY[i + 1:] for i in range(len(KEY)) if KEY[i] != '-'] + keys(rng, 64 if thorough else 8)
    b.parse('letter case of the key', [digits(rng, rng.randrange(1, 9)) + rng.choice(UNITS) for _ in ks], key_of=lambda i: ks[i])
    # 5. propagation
    b.size = 25 if thorough else 10
    allruns = prop_runs(rng, 1800 if thorough else 40, 4 if thorough else 1)
    for name, runs in allruns.items():
        b.prop('propagation: ' + name, runs)
    # the same with something malformed under the timeout key in the caller's own metadata (it travels ahead of the
    # library's header): ignored, the deadline arrives as before
    JUNK = ['20s', '500ms', '1.5S', '', ' 5S', '5', 'S', '-3S', '123456789m', '1e3m']
    for name in ('millisecond edges', 'no deadline', 'random', 'eight-digit limit'):
        runs = allruns[name]
        b.prop('propagation with malformed timeout metadata: ' + name, runs if thorough else runs[:20], junk=JUNK)
    return b.scens
