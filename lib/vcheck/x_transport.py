"""C19 scenario generator: the shipped transports (runner "transport",
harness/driver/x_transport.go).

Families
  values     every envelope shape through channel (cap 0/1/4), websocket (with and
             without compression) and two GoatOverHttp instances over loopback,
             both directions, reads before / after / interleaved with the writes
  ctx        blocked and not-yet-started Read / Write / ServeHTTP whose context ends
  raw        websocket: text frames, random bytes, mutated encodings, interleaved
             with valid envelopes; http: the same bytes as request bodies
  ladder     ServeHTTP request shapes (no body, unreadable, undecodable, no header,
             no source, unmappable source, accepted)
  tick       placements of the cleaner tick relative to a delivery: before the
             request, in the retrieve->send window (gate http.serve.window), while
             the sender is blocked, with a reader pending, after the delivery; for
             several (timeout, interval) pairs and advance amounts around them

A scenario is a script; operations carry ids so that the trace specification can
tie start, cancellation and result together.  `steps` is the script itself."""

IDS = [0, 1, 2, 127, 128, 2**31 - 1, 2**31, 2**32 - 1, 2**32, 2**32 + 1, 2**53 + 1,
       2**63 - 1, 2**63, 2**63 + 1, 2**64 - 2, 2**64 - 1]
BODY_LENS = [0, 1, 2, 127, 128, 255, 256, 1023, 4096, 16383, 16384, 32767, 32768, 32769,
             65535, 65536, 100000, 262144]
MIB = 1 << 20
CODES = [0, 1, 2, 13, 16, -1, 2**31 - 1, -2**31]
SRCS = ['s1', 's2', 'källa-3', '源4']


class ValGen:
    """cycles through the presence masks / ids / sizes so that any run of 32
    consecutive values covers every presence combination"""

    def __init__(self, rng, big_every=40):
        self.rng = rng
        self.n = rng.randrange(32)
        self.big_every = big_every
        self.ids_used = set()

    def val(self, need_header=False, src=None, small=False):
        rng = self.rng
        self.n += 1
        p = self.n % 32
        if need_header:
            p |= 1
        i = self.n // 32 + self.n
        vid = IDS[i % len(IDS)] if rng.random() < 0.7 else rng.randrange(2**64)
        while vid in self.ids_used:          # distinct ids => distinct digests within a scenario
            vid = rng.randrange(2**64)
        self.ids_used.add(vid)
        if small:
            bl = rng.choice(BODY_LENS[:8])
        elif self.n % self.big_every == 0:
            bl = MIB
        elif rng.random() < 0.25:
            bl = rng.randrange(0, MIB // 4)
        else:
            bl = BODY_LENS[i % len(BODY_LENS)]
        v = dict(id=vid, p=p, bl=bl, seed=rng.randrange(2**31), str=self.n % 4,
                 nkv=rng.choice([0, 1, 2, 3, 6]), nrec=rng.choice([0, 0, 1, 3]), nnxt=rng.choice([0, 0, 1, 2]),
                 ndet=rng.choice([0, 0, 1, 2]), code=rng.choice(CODES))
        if src is not None:
            v['src'] = src
        elif p & 1 and rng.random() < 0.5:
            v['src'] = rng.choice(SRCS)
        return v


class Script:
    def __init__(self, kind, tag, **kw):
        self.d = dict(fam='C19', runner='transport', kind=kind, tag=tag, steps=[], **kw)
        self.n = 0

    def op(self, op, **kw):
        self.n += 1
        st = dict(op=op, id=self.n, **kw)
        self.d['steps'].append(st)
        return self.n

    def ctl(self, op, **kw):
        self.d['steps'].append(dict(op=op, **kw))

    def wait(self, ids, ms=0):
        if ids:
            self.ctl('wait', ids=list(ids), **({'ms': ms} if ms else {}))

    def done(self):
        return self.d


def other(e):
    return 'b' if e == 'a' else 'a'


# ------------------------------------------------------------------ stream kinds ----

def stream_values(rng, kind, n, order, tag, **kw):
    """n values in each direction; order: reads first / writes first / interleaved"""
    s = Script(kind, '%s values %s n=%d %s' % (kind, order, n, tag), **kw)
    g = ValGen(rng, big_every=29 if kind == 'websocket' else 17)
    ids = []
    for frm in ('a', 'b'):
        vals = [g.val() for _ in range(n)]
        if order == 'reads-first':
            ids += [s.op('r', end=other(frm)) for _ in vals]
            ids += [s.op('w', end=frm, v=v) for v in vals]
        elif order == 'writes-first':
            ids += [s.op('w', end=frm, v=v) for v in vals]
            ids += [s.op('r', end=other(frm)) for _ in vals]
        else:
            for v in vals:
                if rng.random() < 0.5:
                    ids.append(s.op('w', end=frm, v=v))
                    ids.append(s.op('r', end=other(frm)))
                else:
                    ids.append(s.op('r', end=other(frm)))
                    ids.append(s.op('w', end=frm, v=v))
    s.wait(ids)
    s.ctl('q')
    # one more read with nothing to read: legitimately pending, then cancelled
    r = s.op('r', end='b')
    if kind == 'websocket':
        s.ctl('sleep', ms=30)
    s.ctl('q')
    s.ctl('cancel', id=r)
    s.wait([r])
    s.ctl('q')
    return s.done()


def channel_ctx(rng, cap, variant):
    s = Script('channel', 'channel ctx %s cap=%d' % (variant, cap), cap=cap)
    g = ValGen(rng)
    if variant == 'blocked-read':
        r = s.op('r', end='b')
        s.ctl('q')
        s.ctl('cancel', id=r)
        s.ctl('q')
    elif variant == 'blocked-write':
        ws = [s.op('w', end='a', v=g.val(small=True)) for _ in range(cap + 1)]
        s.ctl('q')                       # the last one is blocked: nobody reads
        s.ctl('cancel', id=ws[-1])
        s.ctl('q')
    elif variant == 'pre-read':          # context done before the call, data available: either result
        w = s.op('w', end='a', v=g.val(small=True))
        s.op('r', end='b', pre=True)
        s.ctl('q')
        s.ctl('cancel', id=w)
        s.ctl('q')
    elif variant == 'pre-write':
        s.op('r', end='b')
        s.op('w', end='a', v=g.val(small=True), pre=True)
        s.ctl('q')
    elif variant == 'cancel-after':      # cancelling a finished operation changes nothing
        r = s.op('r', end='b')
        w = s.op('w', end='a', v=g.val(small=True))
        s.ctl('cancel', ids=[r, w])
        s.ctl('q')
    # The connection is as good as before: values still arrive in order.  What the
    # cancelled operations left in the buffer is read first; surplus reads stay
    # (legitimately) pending.
    for _ in range(3):
        s.op('w', end='a', v=g.val(small=True))
    for _ in range(3 + cap + 1):
        s.op('r', end='b')
    for _ in range(3):
        s.op('r', end='a')
        s.op('w', end='b', v=g.val(small=True))
    s.ctl('q')
    return s.done()


def websocket_ctx(rng, variant, compress):
    s = Script('websocket', 'websocket ctx %s compress=%s' % (variant, compress), compress=compress)
    g = ValGen(rng)
    ids = []
    for frm in ('a', 'b'):               # some traffic first
        for _ in range(2):
            ids.append(s.op('r', end=other(frm)))
            ids.append(s.op('w', end=frm, v=g.val(small=True)))
    s.wait(ids)
    if variant == 'blocked-read':
        r = s.op('r', end=rng.choice('ab'))
        s.ctl('sleep', ms=50)
        s.ctl('q')
        s.ctl('cancel', id=r)
        s.wait([r])
    elif variant == 'pre-read':
        r = s.op('r', end=rng.choice('ab'), pre=True)
        s.wait([r])
    elif variant == 'pre-write':
        w = s.op('w', end=rng.choice('ab'), v=g.val(small=True), pre=True)
        s.wait([w])
    elif variant == 'blocked-write':     # the peer does not read: the socket buffers fill up
        frm = rng.choice('ab')
        big = dict(id=7, p=3, bl=MIB, seed=rng.randrange(2**31), str=0, nkv=1, nrec=0, nnxt=0, ndet=0, code=0)
        ws = [s.op('w', end=frm, v=dict(big, id=1000 + i)) for i in range(48)]
        s.wait(ws, ms=1500)
        s.ctl('cancel', ids=ws)
        s.wait(ws)
    s.ctl('q')
    return s.done()


def raw_spec(rng, g, text_share=0.25):
    x = rng.random()
    typ = 'text' if rng.random() < text_share else 'bin'
    if x < 0.3:
        return dict(typ=typ, mode='rand', n=rng.choice([0, 1, 2, 3, 7, 16, 64, 300, 5000]), seed=rng.randrange(2**31))
    if x < 0.45:
        return dict(typ=typ, mode='valid', seed=0, base=g.val(small=True))
    return dict(typ=typ, mode='mut', seed=rng.randrange(2**31), muts=rng.choice([1, 1, 2, 3, 8]),
                base=g.val(small=rng.random() < 0.8))


def websocket_raw(rng, n, compress):
    """raw input through the underlying connection, interleaved with valid envelopes"""
    s = Script('websocket', 'websocket raw n=%d compress=%s' % (n, compress), compress=compress)
    g = ValGen(rng, big_every=10**9)
    ids = []
    for frm in ('a', 'b'):
        k = n if frm == 'a' else max(2, n // 4)
        for _ in range(k):
            ids.append(s.op('r', end=other(frm)))
            s.op('raw', end=frm, raw=raw_spec(rng, g))
            if rng.random() < 0.5:
                ids.append(s.op('r', end=other(frm)))
                ids.append(s.op('w', end=frm, v=g.val(small=True)))
        # a final valid envelope shows that the connection survived
        ids.append(s.op('r', end=other(frm)))
        ids.append(s.op('w', end=frm, v=g.val(small=True)))
    s.wait(ids)
    s.ctl('q')
    return s.done()


# --------------------------------------------------------------------- http kinds ----

def hval(g, src, **kw):
    return g.val(need_header=True, src=src, **kw)


def http_ladder(rng, n):
    """known request shapes, accepted ones are read; then raw bodies without readers"""
    s = Script('http', 'http ladder n=%d' % n)
    g = ValGen(rng, big_every=23)
    for _ in range(n):
        shape = rng.choice(['nobody', 'unreadable', 'nohdr', 'nosrc', 'maperr', 'garbage', 'ok', 'ok', 'ok', 'ok'])
        if shape in ('nobody', 'unreadable'):
            s.op('hs', shape=shape)
        elif shape == 'garbage':
            s.op('hs', shape='raw', raw=dict(typ='bin', mode='rand', n=rng.choice([1, 2, 5, 40, 1000]), seed=rng.randrange(2**31)))
        elif shape == 'nohdr':
            v = g.val()
            v['p'] &= ~1
            s.op('hs', shape='val', v=v)
        elif shape == 'nosrc':
            s.op('hs', shape='val', v=hval(g, ''))
        elif shape == 'maperr':
            s.op('hs', shape='val', v=hval(g, 'unmappable-' + rng.choice(SRCS)))
        else:
            src = rng.choice(SRCS)
            if rng.random() < 0.5:           # request first (blocks in the send), then the reader
                s.op('hs', shape='val', v=hval(g, src))
                s.op('r', addr='@' + src)
            else:                             # reader first - possible once the connection exists
                first = not any(st.get('addr') == '@' + src for st in s.d['steps'])
                if first:
                    s.op('hs', shape='val', v=hval(g, src))
                    s.op('r', addr='@' + src)
                else:
                    s.op('r', addr='@' + src)
                    s.op('hs', shape='val', v=hval(g, src))
    # a third of the requests arrive without an announced length (chunked transfer): same ladder
    for k, st in enumerate(s.d['steps']):
        if st.get('op') == 'hs' and st.get('shape') in ('val', 'raw') and k % 3 == 0:
            st['unsized'] = True
    s.ctl('q')
    return s.done()


def http_raw(rng, n):
    """raw request bodies; nobody reads, so a body that happens to be accepted stays pending"""
    s = Script('http', 'http raw n=%d' % n)
    g = ValGen(rng, big_every=10**9)
    for _ in range(n):
        r = raw_spec(rng, g, text_share=0)
        if r.get('base'):
            r['base'] = hval(g, rng.choice(SRCS), small=True)
        s.op('hs', shape='raw', raw=r)
    s.ctl('q')
    return s.done()


def http_ctx(rng, variant):
    s = Script('http', 'http ctx %s' % variant)
    g = ValGen(rng)
    src = rng.choice(SRCS)
    s.op('hs', shape='val', v=hval(g, src, small=True))      # creates the connection
    s.op('r', addr='@' + src)
    if variant == 'blocked-read':
        r = s.op('r', addr='@' + src)
        s.ctl('q')
        s.ctl('cancel', id=r)
        s.ctl('q')
    elif variant == 'pre-read':
        s.op('r', addr='@' + src, pre=True)
        s.ctl('q')
    elif variant == 'blocked-serve':                          # nobody reads: ServeHTTP is blocked
        h = s.op('hs', shape='val', v=hval(g, src, small=True))
        s.ctl('q')
        s.ctl('cancel', id=h)
        s.ctl('q')
    elif variant == 'pre-serve':
        s.op('hs', shape='val', v=hval(g, src, small=True), pre=True)
        s.ctl('q')
    elif variant == 'pre-serve-reader':                       # both ready: either outcome
        s.op('r', addr='@' + src)
        s.op('hs', shape='val', v=hval(g, src, small=True), pre=True)
        s.ctl('q')
    elif variant == 'fresh-blocked-serve':                    # first request of a source nobody serves
        h = s.op('hs', shape='val', v=hval(g, 'lonely', small=True))
        s.ctl('q')
        s.ctl('cancel', id=h)
        s.ctl('q')
    # afterwards the connection still works
    s.op('r', addr='@' + src)
    s.op('hs', shape='val', v=hval(g, src, small=True))
    s.ctl('q')
    return s.done()


TICK_CFGS = [(240, 60), (120, 30), (60, 60), (10, 3)]


def tick_amounts(t, i):
    return sorted({1, i - 1, i, i + 1, t - 1, t, t + 1, t + i})


_tick_n = [0]


def http_tick(rng, place, t, i, adv, active):
    """one placement of the cleaner tick; active: the connection had a completed Read at time 0"""
    # (addresses are whatever the application's source-to-address function returns: every third scenario uses one with
    # upper-case letters, and goes through two more sweeps at the end - a closed connection is gone, not closed again)
    _tick_n[0] += 1
    src = ('s1', 'Edge-Gateway-7.local:8080', 's1', 'S1')[_tick_n[0] % 4]
    s = Script('http', 'http tick %s T=%d I=%d adv=%d active=%s src=%s' % (place, t, i, adv, active, src), timeout_s=t, interval_s=i)
    g = ValGen(rng)
    a = '@' + src

    def deliver():
        s.op('hs', shape='val', v=hval(g, src, small=True))
        s.op('r', addr=a)

    if active:
        deliver()
    elif place in ('before', 'window-reader', 'reader', 'steps'):
        s.ctl('dial', end='A', addr=a)    # a connection that never saw a Read or Write
    if place == 'before':                 # tick, then a request: a closed connection is replaced
        s.ctl('tick', s=adv)
        s.ctl('q')
        deliver()
    elif place == 'window':               # sender parked between retrieve and the send
        v = hval(g, src, small=True)
        s.ctl('arm', gate='http.serve.window', gid=v['id'])
        s.op('hs', shape='val', v=v)
        s.ctl('tick', s=adv)
        s.ctl('q')
        s.ctl('rel', gate='http.serve.window', gid=v['id'])
        s.ctl('q')
        s.op('r', addr=a)
    elif place == 'window-reader':        # the same with a reader already waiting
        v = hval(g, src, small=True)
        s.op('r', addr=a)
        s.ctl('arm', gate='http.serve.window', gid=v['id'])
        s.op('hs', shape='val', v=v)
        s.ctl('tick', s=adv)
        s.ctl('q')
        s.ctl('rel', gate='http.serve.window', gid=v['id'])
    elif place == 'blocked-send':         # sender blocked in the send, nobody reads
        s.op('hs', shape='val', v=hval(g, src, small=True))
        s.ctl('q')
        s.ctl('tick', s=adv)
        s.ctl('q')
        s.op('r', addr=a)
    elif place == 'reader':               # reader pending while the tick passes
        s.op('r', addr=a)
        s.ctl('tick', s=adv)
        s.ctl('q')
        s.op('hs', shape='val', v=hval(g, src, small=True))
        s.ctl('q')
        s.op('r', addr=a)
    elif place == 'steps':                # clock advanced in several steps around the timeout
        s.op('r', addr=a)
        left = t + i + 1
        while left > 0:
            d = min(left, rng.choice([1, i - 1 or 1, i, i + 1]))
            s.ctl('tick', s=d)
            s.ctl('q')
            left -= d
        s.op('hs', shape='val', v=hval(g, src, small=True))
        s.op('r', addr=a)
    s.ctl('q')
    # a further delivery shows the instance still works
    s.op('hs', shape='val', v=hval(g, src, small=True))
    s.op('r', addr=a)
    s.ctl('q')
    if src != 's1':
        for _ in range(2):          # idle until the cleaner has swept twice more, then the peer comes back
            s.ctl('tick', s=t + i + 1)
            s.ctl('q')
        s.op('hs', shape='val', v=hval(g, src, small=True))
        s.op('r', addr=a)
        s.ctl('q')
    return s.done()


def loop_values(rng, n, order):
    s = Script('httploop', 'httploop values %s n=%d' % (order, n))
    g = ValGen(rng, big_every=19)
    s.ctl('dial', end='A', addr='B')
    ids = []
    # the first envelope makes B announce its connection to A
    ids.append(s.op('w', end='A', addr='B', v=hval(g, 'srcA', small=True)))
    ids.append(s.op('r', end='B', addr='A'))
    s.wait(ids)
    for frm, to in (('A', 'B'), ('B', 'A')):
        for _ in range(n):
            v = hval(g, 'src' + frm)
            x = rng.random()
            if x < 0.12:                  # what the peer's ladder refuses is answered 400 and not delivered
                bad = rng.choice(['nohdr', 'nosrc', 'maperr'])
                if bad == 'nohdr':
                    v['p'] &= ~1
                elif bad == 'nosrc':
                    v['src'] = ''
                else:
                    v['src'] = 'unmappable-x'
                ids.append(s.op('w', end=frm, addr=to, v=v))
                continue
            if order == 'reads-first' or (order == 'mixed' and rng.random() < 0.5):
                ids.append(s.op('r', end=to, addr=frm))
                ids.append(s.op('w', end=frm, addr=to, v=v))
            else:
                ids.append(s.op('w', end=frm, addr=to, v=v))
                ids.append(s.op('r', end=to, addr=frm))
    s.wait(ids)
    s.ctl('q')
    return s.done()


def loop_concurrent(rng, lanes, per):
    """several goroutines write on the same GoatOverHttp connection at once (every call of a client multiplexer does):
    one POST per envelope, each delivered exactly once and unchanged"""
    s = Script('httploop', 'httploop concurrent writers lanes=%d x %d' % (lanes, per))
    g = ValGen(rng, big_every=11)
    s.ctl('dial', end='A', addr='B')
    ids = [s.op('w', end='A', addr='B', v=hval(g, 'srcA', small=True)), s.op('r', end='B', addr='A')]
    s.wait(ids)
    ids = []
    for frm, to in (('A', 'B'), ('B', 'A')):
        writes = [(ln, hval(g, 'src' + frm)) for ln in range(1, lanes + 1) for _ in range(per)]
        rng.shuffle(writes)
        ids += [s.op('r', end=to, addr=frm) for _ in writes]
        ids += [s.op('w', end=frm, addr=to, v=v, lane=ln) for ln, v in writes]
    s.wait(ids)
    s.ctl('q')
    return s.done()


def big_values(rng, kind, **kw):
    """a few envelopes well above the sizes anybody tests with (2, 5 and 9 MiB bodies) between ordinary ones"""
    s = Script(kind, '%s big values' % kind, **kw)
    g = ValGen(rng, big_every=1000)
    ids = []
    if kind == 'httploop':
        s.ctl('dial', end='A', addr='B')
        ids += [s.op('w', end='A', addr='B', v=hval(g, 'srcA', small=True)), s.op('r', end='B', addr='A')]
        s.wait(ids)
        ids = []
    for i, bl in enumerate((2 * MIB, 300, 5 * MIB + 17, 9 * MIB)):
        v = hval(g, 'srcA', small=True) if kind == 'httploop' else g.val(need_header=True, small=True)
        v['bl'] = bl
        if kind == 'httploop':
            ids.append(s.op('r', end='B', addr='A'))
            ids.append(s.op('w', end='A', addr='B', v=v))
        else:
            ids.append(s.op('r', end='b'))
            ids.append(s.op('w', end='a', v=v))
    s.wait(ids, ms=20000)
    s.ctl('q')
    return s.done()


def loop_ctx(rng, variant):
    s = Script('httploop', 'httploop ctx %s' % variant, **(dict(timeout_s=10, interval_s=3) if variant in ('unreachable-after-timeout', 'blocked-write-timeout-cancel') else {}))
    g = ValGen(rng)
    s.ctl('dial', end='A', addr='B')
    w = s.op('w', end='A', addr='B', v=hval(g, 'srcA', small=True))
    r = s.op('r', end='B', addr='A')
    s.wait([w, r])
    if variant == 'blocked-write':        # the peer's server does not answer
        s.ctl('hold', end='B')
        w = s.op('w', end='A', addr='B', v=hval(g, 'srcA', small=True))
        s.ctl('sleep', ms=50)
        s.ctl('q')
        s.ctl('cancel', id=w)
        s.wait([w], ms=10000)
        s.ctl('q')
        s.ctl('unhold', end='B')
        # the connection object whose write has just failed is unregistered, not dead: its owner (a client stream writing its
        # reset with a context of its own) writes on it once more, and that envelope is posted and read
        r2 = s.op('r', end='B', addr='A')
        w2 = s.op('w', end='A', addr='B', v=hval(g, 'srcA', small=True))
        s.wait([w2, r2], ms=10000)
        s.ctl('q')
    elif variant == 'pre-write':
        w = s.op('w', end='A', addr='B', v=hval(g, 'srcA', small=True), pre=True)
        s.wait([w], ms=10000)
        s.ctl('q')
    elif variant == 'unreachable':        # a POST that fails closes the connection: its reader fails
        s.ctl('dial', end='A', addr='nowhere')
        r = s.op('r', end='A', addr='nowhere')
        w = s.op('w', end='A', addr='nowhere', v=hval(g, 'srcA', small=True))
        s.wait([w, r])
        s.ctl('q')
    elif variant == 'blocked-write-timeout-cancel':
        # a POST held by the peer for longer than the idle timeout: the cleaner closes the connection under
        # it; the held Write then fails (its caller gives up): an error, nothing else
        s.ctl('hold', end='B')
        r = s.op('r', end='A', addr='B')
        w = s.op('w', end='A', addr='B', v=hval(g, 'srcA', small=True))
        s.ctl('sleep', ms=50)
        s.ctl('q')
        s.ctl('tick', s=14)
        s.wait([r])
        s.ctl('q')
        s.ctl('cancel', id=w)
        s.wait([w], ms=10000)
        s.ctl('q')
        w2 = s.op('w', end='A', addr='B', v=hval(g, 'srcA', small=True), pre=True)
        s.wait([w2])
        s.ctl('q')
    elif variant in ('unreachable-twice', 'unreachable-after-timeout'):
        # a second failing Write on the connection a first failure (or the idle-timeout tick) has already
        # closed: an error, like the first, and nothing else
        s.ctl('dial', end='A', addr='nowhere')
        r = s.op('r', end='A', addr='nowhere')
        if variant == 'unreachable-after-timeout':
            s.ctl('tick', s=14)
            s.wait([r])
        else:
            w = s.op('w', end='A', addr='nowhere', v=hval(g, 'srcA', small=True))
            s.wait([w, r])
        s.ctl('q')
        for _ in range(2):
            w2 = s.op('w', end='A', addr='nowhere', v=hval(g, 'srcA', small=True))
            s.wait([w2])
            s.ctl('q')
        r2 = s.op('r', end='A', addr='nowhere')
        s.wait([r2])
        s.ctl('q')
    elif variant.startswith('lost-reply'):
        # the peer serves the POST (the envelope is with its reader) but the answer is lost on the way back: the
        # Write fails, its connection is closed - and the envelope is NOT posted again (delivered once, not twice)
        n = int(variant.split('-')[-1])
        for k in range(n):          # ordinary traffic first
            r = s.op('r', end='B', addr='A')
            w = s.op('w', end='A', addr='B', v=hval(g, 'srcA', small=True))
            s.wait([w, r])
        s.ctl('losereply', end='B')
        r = s.op('r', end='B', addr='A')
        w = s.op('w', end='A', addr='B', v=hval(g, 'srcA', small=True))
        s.wait([w, r], ms=10000)
        s.ctl('sleep', ms=100)
        s.ctl('q')
        # nobody reads at B now: a second delivery would sit in ServeHTTP; a reader started afterwards would get it
        r2 = s.op('r', end='B', addr='A')
        s.ctl('sleep', ms=100)
        s.ctl('q')
        s.ctl('cancel', id=r2)
        s.wait([r2], ms=10000)
        s.ctl('q')
    elif variant == 'late-reader':
        # a POST is answered when the peer's reader has taken the envelope - however long that takes (here: 10.5 s of
        # real time, longer than the round figures people put into http.Client.Timeout): the Write waits, then succeeds
        r0 = s.op('r', end='A', addr='B')                       # a reader on the sender's side of the connection stays put
        w = s.op('w', end='A', addr='B', v=hval(g, 'srcA', small=True))
        s.ctl('sleep', ms=10500)
        s.ctl('q')
        r = s.op('r', end='B', addr='A')
        s.wait([w, r], ms=10000)
        s.ctl('q')
        s.ctl('cancel', id=r0)
        s.wait([r0], ms=10000)
        s.ctl('q')
    elif variant == 'blocked-read':
        r = s.op('r', end='B', addr='A')
        s.ctl('sleep', ms=30)
        s.ctl('q')
        s.ctl('cancel', id=r)
        s.wait([r], ms=10000)
        s.ctl('q')
    return s.done()


_burst_seq = [0]


def http_burst(rng, rounds, t=10, i=3):
    """k = 2..8 SIMULTANEOUS first requests of a source the instance has never seen (every third
    round NewConnection for that source's address races them): one connection must be announced,
    every accepted envelope is read on it exactly once; finally everything goes idle and the
    clock passes the timeout: every reader fails.  Each announced connection gets a reader loop
    at once (autoread), as an application's OnConnect would."""
    _burst_seq[0] += 1
    s = Script('http', 'http burst rounds=%d T=%d I=%d' % (rounds, t, i), timeout_s=t, interval_s=i, autoread=True)
    g = ValGen(rng)
    for n in range(rounds):
        k = rng.choice([2, 3, 4, 6, 8, 8])
        ids = []
        for _ in range(k):
            s.n += 1
            ids.append(s.n)
        v = hval(g, '', small=True)
        v['bl'], v['str'], v['nrec'], v['nnxt'] = min(v['bl'], 16), n % 3, 0, 0   # small: nothing but the race
        v['id'] = rng.randrange(2**62) * 2 + 16 * n        # k consecutive ids, distinct across rounds
        s.ctl('burst', src='f%d-%d' % (_burst_seq[0], n), ids=ids, v=v, **({'dial': True} if n % 3 == 2 else {}))
    s.ctl('q')                                     # one reader per connection is waiting, nothing else
    s.ctl('tick', s=i - 1 if i > 1 else 1)         # not yet
    s.ctl('q')
    s.ctl('tick', s=t + i)                         # idle past the timeout: every reader fails
    s.ctl('q')
    return s.done()


# ------------------------------------------------------------------------ generate ----

def concurrent_writers(rng, kind, lanes, per_lane, tag, **kw):
    """several writers per end at once (goat's client multiplexer writes from every calling goroutine, a server's
    handlers through one writer): every envelope arrives exactly once and unchanged, the envelopes of one writer in
    its program order; envelopes of different writers overlap and may arrive either way"""
    s = Script(kind, '%s concurrent writers lanes=%d x %d %s' % (kind, lanes, per_lane, tag), **kw)
    g = ValGen(rng, big_every=7)
    ids = []
    for frm in ('a', 'b'):
        writes = [(ln, g.val()) for ln in range(1, lanes + 1) for _ in range(per_lane)]
        rng.shuffle(writes)              # (per lane the order of issue is the lane's program order)
        if rng.random() < 0.5:
            ids += [s.op('r', end=other(frm)) for _ in writes]
            ids += [s.op('w', end=frm, v=v, lane=ln) for ln, v in writes]
        else:
            ids += [s.op('w', end=frm, v=v, lane=ln) for ln, v in writes]
            ids += [s.op('r', end=other(frm)) for _ in writes]
    s.wait(ids)
    s.ctl('q')
    return s.done()


def generate(tier, rng):
    quick = tier != 'thorough'
    out = []
    for _ in range(2 if quick else 12):
        for lanes, per in ((2, 6), (4, 5), (8, 10)):
            out.append(concurrent_writers(rng, 'websocket', lanes, per, 'compress=False', compress=False))
            out.append(concurrent_writers(rng, 'channel', lanes, per, 'cap=0', cap=0))
        out.append(concurrent_writers(rng, 'websocket', 4, 8, 'compress=True', compress=True))
        out.append(concurrent_writers(rng, 'channel', 4, 8, 'cap=4', cap=4))
        out.append(loop_concurrent(rng, 3, 4))
        out.append(big_values(rng, 'httploop'))
        out.append(big_values(rng, 'websocket', compress=False))
        out.append(loop_concurrent(rng, 6, 6))
    # values: ~ per transport 120..300 (quick) / ~5000 (thorough)
    reps = 1 if quick else 22
    n = 12 if quick else 20
    for _ in range(reps):
        for cap in (0, 1, 4):
            for order in ('reads-first', 'writes-first', 'mixed'):
                out.append(stream_values(rng, 'channel', n, order, 'cap=%d' % cap, cap=cap))
        for compress in (False, True):
            for order in ('reads-first', 'writes-first', 'mixed'):
                out.append(stream_values(rng, 'websocket', n * 2 if quick else n * 3, order, 'compress=%s' % compress, compress=compress))
        for order in ('reads-first', 'writes-first', 'mixed', 'mixed'):
            out.append(loop_values(rng, n if quick else n * 2, order))
        for _ in range(3 if quick else 6):
            out.append(http_ladder(rng, 30 if quick else 40))
    # ctx
    for _ in range(1 if quick else 4):
        for cap in (0, 1, 4):
            for v in ('blocked-read', 'blocked-write', 'pre-read', 'pre-write', 'cancel-after'):
                out.append(channel_ctx(rng, cap, v))
        for compress in (False, True):
            for v in ('blocked-read', 'pre-read', 'pre-write'):
                out.append(websocket_ctx(rng, v, compress))
        out.append(websocket_ctx(rng, 'blocked-write', False))
        for v in ('blocked-read', 'pre-read', 'blocked-serve', 'pre-serve', 'pre-serve-reader', 'fresh-blocked-serve'):
            out.append(http_ctx(rng, v))
        for v in ('blocked-write', 'pre-write', 'unreachable', 'unreachable-twice', 'unreachable-after-timeout', 'blocked-write-timeout-cancel', 'blocked-read',
                  'lost-reply-0', 'lost-reply-1', 'lost-reply-3', 'late-reader'):
            out.append(loop_ctx(rng, v))
    # raw inputs: ~500 (quick) / ~20000 (thorough)
    for _ in range(10 if quick else 330):
        out.append(websocket_raw(rng, 20, rng.random() < 0.3))
    for _ in range(10 if quick else 400):
        out.append(http_raw(rng, 25))
    # every tick placement, all configurations, all advance amounts
    for (t, i) in (TICK_CFGS if not quick else TICK_CFGS):
        for place in ('before', 'window', 'window-reader', 'blocked-send', 'reader'):
            for adv in tick_amounts(t, i):
                for active in (False, True):
                    out.append(http_tick(rng, place, t, i, adv, active))
        for active in (False, True):
            for _ in range(2 if quick else 20):
                out.append(http_tick(rng, 'steps', t, i, 0, active))
    # simultaneous first requests of fresh sources (a check-then-act race in the connection table
    # needs many attempts): 60 x 25 rounds (quick) / 400 x 25 (thorough)
    for _ in range(60 if quick else 400):
        out.append(http_burst(rng, 25, *rng.choice(TICK_CFGS)))
    rng.shuffle(out)
    return out
